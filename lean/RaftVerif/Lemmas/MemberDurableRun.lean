/-
Durability of committed entries on the cluster system WITH membership changes — helper lemmas for Props/C06Member.lean
(part 2: along the runs of `C08Member.ReachableR`).

* `RunR x y` — `y` is reached from `x` by transitions of `MemberSide.TransR` (completed steps of open nodes, crashes at any
  storage point + restart, restarts between steps, sends);
* `RS root x G` — what is known of a reachable state (the invariants `MInv x G`, `XInv x`, `LeaderCache`);
* `Kept.run` — a node that KEEPS a key (`MemberDurable.Kept`) keeps it in every later state;
* `minv_run_mono` — the ghost ledgers of a later state may be chosen to extend the ghost ledgers of the earlier state;
* `CrashSafeM`, `KeepsM` — "on disk whenever the node may die", "keeps the entries `1 … k` of a log durably" (the notions of
  Lemmas/DurableRel.lean for the transitions of `TransR`); `keepsM_of_kept`.
-/
import RaftVerif.Lemmas.MemberDurable
import RaftVerif.Lemmas.DurableRel
import RaftVerif.Props.C08Member

namespace Raft
namespace MemberDurable
open Node Election LogRel Replication CommitRel Commit Member MemberCore QuorumRel MemberInv MemberCommit MemberStep
open MemberSide C08Member DurableRel

/-- `y` is reached from `x` by transitions of `TransR` -/
inductive RunR (x : Member.Sys) : Member.Sys → Prop
  | refl : RunR x x
  | next (y z : Member.Sys) : RunR x y → TransR y z → RunR x z

theorem RunR.trans {x y z : Member.Sys} (h1 : RunR x y) (h2 : RunR y z) : RunR x z := by
  induction h2 with
  | refl => exact h1
  | next z w _ ht ih => exact .next z w ih ht

theorem run_reachable {root : K} {x y : Member.Sys} (hx : ReachableR root x) (h : RunR x y) : ReachableR root y := by
  induction h with
  | refl => exact hx
  | next y z _ ht ih => exact .next y z ih ht

/-- the ledgers of the state only grow along a run -/
theorem run_grow {x y : Member.Sys} (h : RunR x y) :
    (∀ c ∈ x.cm.T, c ∈ y.cm.T) ∧ (∀ a ∈ x.cm.acks, a ∈ y.cm.acks) ∧ (∀ m ∈ x.cm.committed, m ∈ y.cm.committed) := by
  induction h with
  | refl => exact ⟨fun _ h => h, fun _ h => h, fun _ h => h⟩
  | next y z _ ht ih =>
    obtain ⟨g1, g2, g3⟩ := trans_grow (transR_trans ht)
    exact ⟨fun c hc => g1 c (ih.1 c hc), fun a ha => g2 a (ih.2.1 a ha), fun m hm => g3 m (ih.2.2 m hm)⟩

/-- what is known of a reachable state -/
structure RS (root : K) (x : Member.Sys) (G : Ghost) : Prop where
  reach : ReachableR root x
  inv : MInv x G
  xinv : XInv x
  cache : ∀ i, C06Cache.LeaderCache (x.node i)

theorem RS.sideM {root : K} {x : Member.Sys} {G : Ghost} (h : RS root x G) : SideM x :=
  sideM_of h.inv h.xinv h.cache

theorem RS.sideT {root : K} {x : Member.Sys} {G : Ghost} (h : RS root x G) : SideT x := h.xinv.sideT

theorem rs_of {root : K} {x : Member.Sys} (hx : ReachableR root x) : ∃ G, RS root x G ∧ G.root = root := by
  obtain ⟨⟨G, hI, hr⟩, hX⟩ := inv_reachable root x hx
  exact ⟨G, ⟨hx, hI, hX, C08Sys.leaderCache_reachable x (reachableP_of hx)⟩, hr⟩

theorem rs_with {root : K} {x : Member.Sys} {G : Ghost} (hx : ReachableR root x) (hI : MInv x G) : RS root x G := by
  obtain ⟨_, hX⟩ := inv_reachable root x hx
  exact ⟨hx, hI, hX, C08Sys.leaderCache_reachable x (reachableP_of hx)⟩

theorem RS.transNF {root : K} {x y : Member.Sys} {G : Ghost} (h : RS root x G) (ht : TransR x y) : TransNF x y :=
  transNF_of h.inv h.xinv h.cache ht

/-- **a node that keeps a key keeps it in every later state** -/
theorem Kept.run {root : K} {x y : Member.Sys} (hx : ReachableR root x) (hrun : RunR x y) {v : Nat} {b : K}
    (hk : Kept x v b) : Kept y v b := by
  induction hrun with
  | refl => exact hk
  | next y z hxy ht ih =>
    obtain ⟨G, hy, _⟩ := rs_of (run_reachable hx hxy)
    exact ih.transNF hy.inv hy.sideM (hy.transNF ht)

/-- **the ghost ledgers of a later state may be chosen to extend those of the earlier state** -/
theorem minv_run_mono {root : K} {x y : Member.Sys} {G : Ghost} (hx : RS root x G) (hrun : RunR x y) :
    ∃ G', RS root y G' ∧ GLe G G' := by
  induction hrun with
  | refl => exact ⟨G, hx, GLe.refl G⟩
  | next y z hxy ht ih =>
    obtain ⟨G', hy, hle⟩ := ih
    have hz : ReachableR root z := .next y z hy.reach ht
    obtain ⟨_, hXz⟩ := inv_reachable root z hz
    obtain ⟨G'', hIz, hle'⟩ := minv_transNF_mono hy.inv hy.sideM hXz.sideT (hy.transNF ht)
    exact ⟨G'', rs_with hz hIz, hle.trans hle'⟩

/-- **from the conditions of `TransR` to the hypotheses `SM` of the analysis of a step**: an enabled, well-formed
operation delivered to an open node does not fail; and the disk image "after 0 storage points" (a restart between two
steps, the only crash of a closed node) is the one of a trivial operation -/
theorem sm_of_R {root : K} {x : Member.Sys} {G : Ghost} (h : RS root x G) {i : Nat} {op : Op} {src : Nat}
    (he : Member.Enabled x i op src) (hg : ReqG x i op) (ra : List Nat) (ord : List (List Nat)) (k : Nat)
    (hopen : (x.node i).closed = "" ∨ k = 0) :
    ∃ op', MemberStep.SM x G i op' ra ord src ∧
      C05.crashDisk (x.node i) op' ra ord k = C05.crashDisk (x.node i) op ra ord k := by
  rcases hopen with ho | hk
  · obtain ⟨hp, _⟩ := C15NoPanic.good_step_two _ op ra ord (h.xinv.good i) ho (reqok h.inv h.xinv he hg)
    exact ⟨op, ⟨h.inv, h.sideM, he, fun _ => hp⟩, rfl⟩
  · subst hk
    have he' : Member.Enabled x i (.disconnected 0) src :=
      ⟨⟨he.rp.id, (fun q h => by cases h), (fun ⟨_, _, _, h⟩ => by cases h), trivial, (fun q h => by cases h)⟩, trivial,
        (fun q h => by cases h), (fun q h => by cases h), (fun us h => by cases h)⟩
    have hp' : ((x.node i).step (.disconnected 0) ra ord).panicked = none := by
      rw [step_disconnected0]; rfl
    exact ⟨.disconnected 0, ⟨h.inv, h.sideM, he', fun _ => hp'⟩, rfl⟩

/-! ### the notions of Lemmas/DurableRel.lean, for the transitions of `TransR` -/

/-- whenever node `j` may die — before, at any storage point of, or after any step that `TransR` admits (an enabled,
well-formed operation delivered to an open node; for a closed node: between two steps) — the disk holds an entry with
term `t` at index `k` -/
def CrashSafeM (x : Member.Sys) (j k t : Nat) : Prop :=
  ∀ op ra ord src n, Member.Enabled x j op src → ReqG x j op → ((x.node j).closed = "" ∨ n = 0) →
    DiskHolds (C05.crashDisk (x.node j) op ra ord n) k t

/-- **node `v` of state `y` keeps the entries `1 … k` of the log of `s` durably**: its log is flushed up to `k` at least;
its disk returns these very entries — now, and at every storage point of every step that `TransR` admits (whenever the
process may die); and whenever it restarts from such a disk image, the restarted node holds these very entries again, in a
completely flushed log. -/
structure KeepsM (y : Member.Sys) (v : Nat) (s : Node) (k : Nat) : Prop where
  flushed : k ≤ (y.node v).log.flushed
  disk : SameOnDisk (y.node v).durable s k
  crash : ∀ op ra ord src n, Member.Enabled y v op src → ReqG y v op → ((y.node v).closed = "" ∨ n = 0) →
    SameOnDisk (C05.crashDisk (y.node v) op ra ord n) s k
  restart : ∀ op ra ord src n retain sor w, Member.Enabled y v op src → ReqG y v op →
    ((y.node v).closed = "" ∨ n = 0) → Node.restart (C05.crashDisk (y.node v) op ra ord n) retain sor = some w →
    k ≤ w.log.flushed ∧ ∀ k', 1 ≤ k' → k' ≤ k → w.log.get? k' = s.log.get? k'

section keeps
variable {root : K} {x y : Member.Sys} {Gx G : Ghost}

/-- the entry a well-formed log returns -/
theorem get?_some_of_holds {s : Node} (hn : NWF s) {k τ : Nat} (hh : Holds s.log.entries k τ) {k' : Nat} (h1 : 1 ≤ k')
    (hle : k' ≤ k) : s.log.get? k' = s.log.entries[k' - 1]? ∧ (s.log.get? k').isSome = true := by
  have e : s.log.get? k' = s.log.entries[k' - 1]? := by rw [hn.get?, if_pos (show 0 < k' from h1)]
  refine ⟨e, ?_⟩
  rw [e]
  have : k' - 1 < s.log.entries.length := by have := hh.2.1; omega
  rw [List.getElem?_eq_getElem this]; rfl

/-- a list that agrees with the log of `v` on its first `k` entries returns, up to `k`, the entries the log of `i` held
in the earlier state -/
theorem agree_of_take (hIy : MInv y G) (hIx : MInv x Gx) (hT : ∀ c ∈ x.cm.T, c ∈ y.cm.T) {i v k τ : Nat}
    (hh : Holds (x.node i).log.entries k τ) (hv : Holds (y.node v).log.entries k τ) {es : List Entry}
    (htake : es.take k = (y.node v).log.entries.take k) {k' : Nat} (h1 : 1 ≤ k') (hle : k' ≤ k) :
    es[k' - 1]? = (x.node i).log.entries[k' - 1]? := by
  have h2 := congrArg (fun l => l[k' - 1]?) htake
  simp only [List.getElem?_take] at h2
  rw [if_pos (by omega), if_pos (by omega)] at h2
  rw [h2]
  exact path_agree (uniqM hIy) (log_pathM hIy v) ((log_pathM hIx i).mono hT) hv hh k' h1 hle

/-- **a node that keeps the key `(k, τ)` keeps, durably, the entries `1 … k` of every log that held `(k, τ)` in an
earlier state** -/
theorem keepsM_of_kept (hy : RS root y G) (hIx : MInv x Gx) (hT : ∀ c ∈ x.cm.T, c ∈ y.cm.T) {i v k τ : Nat}
    (hh : Holds (x.node i).log.entries k τ) (hk : Kept y v (k, τ)) : KeepsM y v (x.node i) k := by
  have hIy := hy.inv
  have hv : Holds (y.node v).log.entries k τ := hk.dur.2
  have hfl : k ≤ (y.node v).log.flushed := hk.dur.1
  have hxi := fun {k' : Nat} (h1 : 1 ≤ k') (hle : k' ≤ k) => get?_some_of_holds (nwfM hIx i) hh h1 hle
  -- a crash image, and a node restarted from it
  have himg : ∀ op ra ord src n, Member.Enabled y v op src → ReqG y v op → ((y.node v).closed = "" ∨ n = 0) →
      SameOnDisk (C05.crashDisk (y.node v) op ra ord n) (x.node i) k := by
    intro op ra ord src n he hg ho
    obtain ⟨op', sm, e⟩ := sm_of_R hy he hg ra ord n ho
    obtain ⟨hprev, k1, _⟩ := hk.img sm n
    rw [e] at hprev k1
    intro k' h1 hle
    refine ⟨?_, (hxi h1 hle).2⟩
    rw [get?_prev0 _ hprev, if_pos (show 0 < k' from h1), (hxi h1 hle).1]
    exact agree_of_take hIy hIx hT hh hv k1 h1 hle
  refine ⟨hfl, fun k' h1 hle => ⟨?_, (hxi h1 hle).2⟩, himg, ?_⟩
  · rw [durable_get? (nwfM hIy v) (Nat.le_trans hle hfl), (get?_some_of_holds (nwfM hIy v) hv h1 hle).1,
      (hxi h1 hle).1]
    exact path_agree (uniqM hIy) (log_pathM hIy v) ((log_pathM hIx i).mono hT) hv hh k' h1 hle
  · intro op ra ord src n retain sor w he hg ho hw
    obtain ⟨op', sm, e⟩ := sm_of_R hy he hg ra ord n ho
    rw [← e] at hw
    have cm : CM y G v op' ra ord src n retain sor w := ⟨sm, hw⟩
    obtain ⟨_, k1, k2⟩ := hk.img sm n
    obtain ⟨_, _, _, _, _, _, f7, _, f9⟩ := cm.facts
    have hwn : NWF w := by
      have := (cm.ry.nodes v).1
      rwa [show cm.y.cm.rp.el.node v = w from cm.node_i] at this
    refine ⟨by rw [f7, f9]; exact k2, fun k' h1 hle => ?_⟩
    rw [hwn.get?, if_pos (show 0 < k' from h1), (hxi h1 hle).1, f9]
    exact agree_of_take hIy hIx hT hh hv k1 h1 hle

/-- a kept key is durably held and crash safe -/
theorem crashSafe_of_kept (hy : RS root y G) {v : Nat} {b : K} (hk : Kept y v b) :
    DurablyHolds y.cm v b.1 b.2 ∧ CrashSafeM y v b.1 b.2 := by
  refine ⟨(durable_holds_iff (nwfM hy.inv v)).mpr hk.dur, ?_⟩
  intro op ra ord src n he hg ho
  obtain ⟨op', sm, e⟩ := sm_of_R hy he hg ra ord n ho
  obtain ⟨hprev, k1, _⟩ := hk.img sm n
  rw [e] at hprev k1
  exact (diskHolds_iff hprev).mpr (holds_of_take_eq k1 hk.dur.2 (Nat.le_refl _))

end keeps

end MemberDurable
end Raft

#print axioms Raft.MemberDurable.Kept.run
#print axioms Raft.MemberDurable.minv_run_mono
#print axioms Raft.MemberDurable.keepsM_of_kept
#print axioms Raft.MemberDurable.crashSafe_of_kept
