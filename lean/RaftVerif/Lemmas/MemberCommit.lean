/-
Node-level layer for commit safety ACROSS membership changes (used by Props/C02Member.lean): what `CommitRel`
(`MClosed.block`, `nstep`) proves for a fixed, stable configuration, redone for leader steps that may CHANGE the
configuration.

Part A — `GClosed Bk Inv`: a guarded closure principle for the mutually recursive leader block
(`storeEntry / storeItems / changeConfigL / doChangeConfig / checkConfigActions / checkConfigAction / setCommitIndexL /
onMajorityCommit`) that does NOT fix the configuration. A predicate `Inv` is preserved by the whole block, for every
recursion budget, if it is preserved by the primitives under the guards the code really establishes:
* `append`     — an entry that is not a configuration entry is appended at `lastLogIndex + 1` with the node's term;
* `appendCfg`  — a CONFIGURATION entry is appended (same coordinates) and adopted at once (`leader.changeConfig`:
                 cached own entry and voter count refreshed, `Raft.changeConfig`) — only when the node's configuration
                 is committed (`configs.isCommitted`) and an entry of its own term is committed
                 (`ldr.startIndex ≤ commitIndex`): the guards of `canChangeConfig` / `onChangeConfig`;
* `commit`     — the commit index moves (flush first: `leader.setCommitIndex`) to `i = majorityMatchIndex.1`,
                 `i > commitIndex`, `i ≥ ldr.startIndex` — evaluated against `configs.latest` AT THAT MOMENT;
* `ldr`        — the leader record changes only within `CommitRel.LdrSub` (cached entry, voter count, start index
                 stay; a match index is 0, inherited from a replication of that id, or backed by `Bk`).
Part B — the instance `LJ b B s` (relative to the state `b` a leader handler starts from; `MBase`): the log is `b`'s
plus entries of `b`'s term; crash points hold prefixes of the log (`CommitRel.PtL`); every non-zero match index is backed;
the cached voter count / own entry are those of `configs.latest` (refreshed by `leader.changeConfig`); and — while nothing
failed (`Good`) — `configs.latest` is the last configuration entry of the log (`CfgLast`), the list of COMMIT MOMENTS so
far (`CEvt`, `EvOK`: index at or beyond `startIndex`, log length, the configuration that was latest THEN and a majority
of ITS voters: the leader itself or backed match indexes; `majority_QM`), and the guards of every configuration entry
appended (`ChgOK`: previous configuration and an own-term entry committed). `lj_closed`: `GClosed B (LJ b B)`.
Part C — `leader.init` (`leaderInit_lj`; `init_no_commit`: with more than one voter nothing is committed inside it) and
one whole step: `NStepM` / `MEvs` / `SEv` / `SChg` (the summary) and `nstepM` (every operation other than an append
request, `ChangeConfig` included).
-/
import RaftVerif.Lemmas.CommitRel
import RaftVerif.Lemmas.ConfigRel

namespace Raft
namespace MemberCommit
open Node LogRel Replication CommitRel

/-! ## Part A: the guarded closure principle -/

/-- the guards of a membership change: the configuration is committed and an entry of the leader's term is committed -/
def CanChange (s : Node) : Prop := s.configs.isCommitted = true ∧ s.ldr.startIndex ≤ s.commitIndex

/-- the state after `leader.changeConfig` has refreshed the caches and `Raft.changeConfig` has adopted `c` -/
def adopt (y : Node) (c : Config) : Node :=
  (y.withLdr { y.ldr with node := c.get y.nid, numVoters := c.numVoters }).changeConfigR c

structure GClosed (Bk : Nat → Nat → Prop) (Inv : Node → Prop) : Prop where
  panic : ∀ s site, Inv s → Inv (s.panic site)
  reply : ∀ s t r, Inv s → Inv (s.reply t r)
  point : ∀ s n, Inv s → Inv (s.point n)
  fsm : ∀ (s : Node) f, Inv s → Inv (s.withFsm f)
  popOrder : ∀ (s : Node), Inv s → Inv s.popOrder
  ldr : ∀ (s : Node) l, Inv s → LdrSub Bk s.ldr l → Inv (s.withLdr l)
  /-- an entry that is not a configuration entry -/
  append : ∀ (s : Node) e, Inv s → e.index = s.lastLogIndex + 1 → e.term = s.term → e.typ ≠ etConfig →
    Inv (s.appendEntry e)
  /-- a configuration entry, appended and adopted -/
  appendCfg : ∀ (s : Node) e c, Inv s → CanChange s → e.index = s.lastLogIndex + 1 → e.term = s.term →
    e.config? = some c → Inv (adopt (s.appendEntry e) c)
  /-- a configuration entry was appended and then the model's recursion budget ran out -/
  appendCfgFail : ∀ (s : Node) e site, Inv s → CanChange s → e.index = s.lastLogIndex + 1 → e.term = s.term →
    e.typ = etConfig → Inv ((s.appendEntry e).panic site)
  commit : ∀ (s : Node) i, Inv s → i > s.commitIndex → i ≥ s.ldr.startIndex → i = s.majorityMatchIndex.1 →
    Inv ((s.commitLog i).setCommitIndexR i).1

/-- what is known about a batch handed to `leader.storeEntry`: client entries (no configuration entry), or the single
configuration entry built by `leader.doChangeConfig` under the guards -/
def BatchG (s : Node) (b : List QItem) : Prop :=
  (∀ q ∈ b, q.typ ≠ etConfig) ∨
  (∃ q, b = [q] ∧ q.typ = etConfig ∧ q.cfg.isSome = true ∧ CanChange s)

/-- the result of a leader handler: the invariant, or the node stepped down from a state satisfying it, touching only
role, leader id and term (never the log, the commit index or the state machine) — and recording no failure of its own -/
def PostM (Inv : Node → Prop) (s : Node) : Prop :=
  Inv s ∨ (s.role = .follower ∧ ∃ x, Inv x ∧ SX x AF False s ∧ (s.panicked = none → x.panicked = none))

theorem setTerm_pan' (x : Node) (t : Nat) (h : (x.setTerm t).panicked = none) : x.panicked = none := by
  cases hx : x.panicked with
  | none => rfl
  | some v => exact absurd h (CfgRel.setTerm_pan x t (by rw [hx]; simp))

namespace GClosed

variable {Bk : Nat → Nat → Prop} {Inv : Node → Prop} (h : GClosed Bk Inv)
include h

theorem assert_g (s : Node) (b : Bool) (site : String) (hs : Inv s) : Inv (s.assert b site) := by
  unfold Node.assert; split
  · exact hs
  · exact h.panic _ _ hs

theorem ldrSame_g (s : Node) (l : Leader) (hs : Inv s) (h1 : l.node = s.ldr.node)
    (h2 : l.numVoters = s.ldr.numVoters) (h3 : l.startIndex = s.ldr.startIndex) (h4 : l.repls = s.ldr.repls) :
    Inv (s.withLdr l) := h.ldr _ _ hs (ldrSub_same h1 h2 h3 h4)

theorem setRepl_g (s : Node) (r : Repl) (hs : Inv s)
    (hr : r.matchIndex = 0 ∨ (∃ r' ∈ s.ldr.repls, r'.id = r.id ∧ r'.matchIndex = r.matchIndex) ∨ Bk r.id r.matchIndex) :
    Inv (s.setRepl r) := by
  unfold Node.setRepl
  refine h.ldr _ _ hs ⟨rfl, rfl, rfl, fun x hx => ?_⟩
  rcases mem_insertRepl hx with e | e
  · rw [e]; exact hr
  · exact Or.inr (Or.inl ⟨x, e, rfl, rfl⟩)

theorem addReplication_g (s : Node) (n : CNode) (hs : Inv s) : Inv (s.addReplication n) := by
  unfold Node.addReplication
  extract_lets s1 s2
  have h2 : Inv s2 := by
    unfold s2
    split
    · exact h.assert_g _ _ _ hs
    · exact h.panic _ _ (h.assert_g _ _ _ hs)
  exact h.setRepl_g _ _ h2 (Or.inl rfl)

theorem notifyFlr_g (s : Node) (hs : Inv s) : Inv s.notifyFlr := by
  unfold Node.notifyFlr; split
  · exact hs
  · split
    · exact hs
    · exact h.panic _ _ hs

theorem beginFinishedRounds_g (s : Node) (hs : Inv s) : Inv s.beginFinishedRounds := by
  unfold Node.beginFinishedRounds
  refine h.ldr _ _ hs ⟨rfl, rfl, rfl, fun x hx => ?_⟩
  obtain ⟨r, hr, hx⟩ := List.mem_map.mp hx
  refine Or.inr (Or.inl ⟨r, hr, ?_⟩)
  rw [← hx]
  split
  · split <;> exact ⟨rfl, rfl⟩
  · exact ⟨rfl, rfl⟩

theorem fsmApplyLogTo_g (s : Node) (n : Nat) (hs : Inv s) : Inv (s.fsmApplyLogTo n) := by
  unfold Node.fsmApplyLogTo
  split
  · exact hs
  · split
    · exact h.panic _ _ hs
    · extract_lets es ups lastTerm cfg s1
      have h1 : Inv s1 := by unfold s1; split; exact h.panic _ _ hs; exact hs
      split
      · exact h.panic _ _ hs
      · exact h.fsm _ _ h1

theorem fsmApplyItems_g (s : Node) (qs : List QItem) (hs : Inv s) : Inv (s.fsmApplyItems qs) := by
  induction qs generalizing s with
  | nil => exact hs
  | cons q qs ih =>
    unfold Node.fsmApplyItems
    dsimp only
    apply ih
    apply h.reply
    have h1 : Inv (s.assert (q.index == s.fsm.index + 1) "fsm.assertNext") := h.assert_g s _ _ hs
    repeat' split
    all_goals first
      | exact h.fsm _ _ (h.fsm _ _ (h.fsm _ _ h1))
      | exact h.fsm _ _ (h.fsm _ _ h1)
      | exact h.fsm _ _ h1
      | exact h1

theorem fsmApply_g (s : Node) (qs : List QItem) (hs : Inv s) : Inv (s.fsmApply qs) := by
  unfold Node.fsmApply
  split
  · exact h.panic _ _ hs
  · split
    · exact h.panic _ _ hs
    · dsimp only
      exact h.assert_g _ _ _ (h.fsmApplyItems_g _ _ (h.fsmApplyLogTo_g _ _ hs))

theorem applyCommittedL_g (s : Node) (hs : Inv s) : Inv s.applyCommittedL := by
  unfold Node.applyCommittedL
  exact h.fsmApply_g _ _ (h.ldrSame_g _ _ hs rfl rfl rfl rfl)

/-- what the replications loop of `leader.changeConfig` does -/
theorem changeRepls_g (c : Config) (s : Node) (hs : Inv s) :
    Inv (c.nodes.foldl (fun s n =>
      if n.id = s.nid then s
      else match s.findRepl? n.id with
        | none => s.addReplication n
        | some r => s.setRepl { r with node := n }) s) := by
  apply Closed.foldl_inv
  · intro s x hs
    split
    · exact hs
    · split
      · exact h.addReplication_g _ _ hs
      · rename_i r hr
        obtain ⟨hm, hid⟩ := findRepl_mem hr
        exact h.setRepl_g _ _ hs (Or.inr (Or.inl ⟨r, hm, rfl, rfl⟩))
  · exact hs

/-- The leader block preserves every `GClosed` invariant, for every recursion budget — with configuration
changes. -/
theorem block : ∀ fuel : Nat,
    (∀ s b, Inv s → BatchG s b → Inv (storeEntry fuel s b)) ∧
    (∀ s b, Inv s → BatchG s b → Inv (storeItems fuel s b)) ∧
    (∀ s e c, Inv s → CanChange s → e.index = s.lastLogIndex + 1 → e.term = s.term → e.config? = some c →
      Inv (changeConfigL fuel (s.appendEntry e) c)) ∧
    (∀ s t c, Inv s → CanChange s → Inv (doChangeConfig fuel s t c)) ∧
    (∀ s t c, Inv s → Inv (checkConfigActions fuel s t c)) ∧
    (∀ s t c id, Inv s → Inv (checkConfigAction fuel s t c id)) ∧
    (∀ s i, Inv s → i > s.commitIndex → i ≥ s.ldr.startIndex → i = s.majorityMatchIndex.1 →
      Inv (setCommitIndexL fuel s i)) ∧
    (∀ s, Inv s → Inv (onMajorityCommit fuel s)) := by
  intro fuel
  induction fuel with
  | zero =>
    refine ⟨?_, ?_, ?_, ?_, ?_, ?_, ?_, ?_⟩
    · intro s b hs _; unfold storeEntry; exact h.panic _ _ hs
    · intro s b hs _
      cases b with
      | nil => unfold storeItems; exact hs
      | cons q qs => unfold storeItems; exact h.panic _ _ hs
    · intro s e c hs hc hi ht he
      unfold changeConfigL
      have : e.typ = etConfig := by
        unfold Entry.config? at he
        split at he
        · assumption
        · cases he
      exact h.appendCfgFail _ _ _ hs hc hi ht this
    · intro s t c hs _; unfold doChangeConfig; exact h.panic _ _ hs
    · intro s t c hs; unfold checkConfigActions; exact h.panic _ _ hs
    · intro s t c id hs; unfold checkConfigAction; exact h.panic _ _ hs
    · intro s i hs _ _ _; unfold setCommitIndexL; exact h.panic _ _ hs
    · intro s hs; unfold onMajorityCommit; exact h.panic _ _ hs
  | succ n ih =>
    obtain ⟨ihSE, ihSI, ihCL, ihDC, ihCAs, ihCA, ihSC, ihMC⟩ := ih
    refine ⟨?_, ?_, ?_, ?_, ?_, ?_, ?_, ?_⟩
    · -- storeEntry
      intro s b hs hb
      unfold storeEntry; dsimp only
      have h1 : Inv (storeItems n s b) := ihSI _ _ hs hb
      have h2 := h.applyCommittedL_g _ h1
      repeat' split
      all_goals first
        | exact ihMC _ (h.notifyFlr_g _ (h.beginFinishedRounds_g _ h2))
        | exact ihMC _ (h.notifyFlr_g _ (h.beginFinishedRounds_g _ h1))
        | exact h.notifyFlr_g _ (h.beginFinishedRounds_g _ h2)
        | exact h.notifyFlr_g _ (h.beginFinishedRounds_g _ h1)
        | exact h2
        | exact h1
    · -- storeItems
      intro s b hs hb
      cases b with
      | nil => unfold storeItems; exact hs
      | cons q qs =>
        have hqs : ∀ x, BatchG x qs := by
          intro x
          rcases hb with hb | ⟨q', hb, _⟩
          · exact Or.inl fun y hy => hb y (List.mem_cons_of_mem _ hy)
          · have : qs = [] := by injection hb
            subst this
            exact Or.inl fun y hy => by cases hy
        unfold storeItems; dsimp only
        refine ihSI _ _ ?_ (hqs _)
        split
        · exact h.reply _ _ _ hs
        · split
          · split
            · exact h.reply _ _ _ hs
            · exact h.reply _ _ _ hs
          · have h1 := h.ldrSame_g s { s.ldr with queue := s.ldr.queue ++ [{ q with index := s.lastLogIndex + 1, term := s.term, cfg := q.cfg.map Config.payload }] } hs rfl rfl rfl rfl
            by_cases hq : q.typ = etConfig
            · -- the configuration entry of `doChangeConfig`
              have hcc : CanChange s ∧ q.cfg.isSome = true := by
                rcases hb with hb | ⟨q', hb, _, h3, h4⟩
                · exact absurd hq (hb q (List.mem_cons_self ..))
                · have : q = q' := by injection hb
                  subst this
                  exact ⟨h4, h3⟩
              obtain ⟨c0, hc0⟩ := Option.isSome_iff_exists.mp hcc.2
              rw [if_pos (show isLogEntryTyp q.typ = true by rw [hq]; rfl), if_pos hq]
              have hcfg : (QItem.toEntry { q with index := s.lastLogIndex + 1, term := s.term, cfg := q.cfg.map Config.payload }).config? =
                  some { c0.payload with index := s.lastLogIndex + 1, term := s.term } := by
                unfold Entry.config? QItem.toEntry
                dsimp only
                rw [if_pos hq, hc0]
                rfl
              rw [hcfg]
              exact ihCL _ _ _ h1 hcc.1 rfl rfl hcfg
            · have ha := h.append _
                (QItem.toEntry { q with index := s.lastLogIndex + 1, term := s.term, cfg := q.cfg.map Config.payload })
                h1 rfl rfl hq
              rw [if_neg hq]
              split
              · exact ha
              · exact h1
    · -- changeConfigL, right after the entry was appended
      intro s e c hs hc hi ht he
      unfold changeConfigL; dsimp only
      apply ihCAs
      apply h.changeRepls_g
      refine h.ldr _ _ (h.appendCfg s e c hs hc hi ht he) ⟨rfl, rfl, rfl, fun r hr => ?_⟩
      exact Or.inr (Or.inl ⟨r, (List.mem_filter.mp hr).1, rfl, rfl⟩)
    · -- doChangeConfig
      intro s t c hs hc
      unfold doChangeConfig
      exact ihSE _ _ hs (Or.inr ⟨_, rfl, rfl, rfl, hc⟩)
    · -- checkConfigActions
      intro s t c hs
      unfold checkConfigActions; dsimp only
      apply Closed.foldl_inv
      · intro s x hs
        split
        · exact ihCA _ _ _ _ hs
        · exact hs
      · apply h.popOrder
        split
        · rename_i hcan
          have hc : CanChange s := by
            obtain ⟨a, _, b⟩ := CfgRel.canChange_facts hcan.1
            exact ⟨a, b⟩
          split
          · exact ihDC _ _ _ hs hc
          · split
            · exact ihDC _ _ _ hs hc
            · exact h.panic _ _ hs
        · exact hs
    · -- checkConfigAction
      intro s t c id hs
      unfold checkConfigAction; dsimp only
      split
      · exact hs
      · rename_i st hst
        obtain ⟨hm, hid⟩ := findRepl_mem hst
        split
        · exact hs
        · have hmi : ∀ a l, (roundStep l a st).1.matchIndex = st.matchIndex ∧ (roundStep l a st).1.id = st.id := by
            intro a l
            unfold roundStep startRound finishRound
            dsimp only
            repeat' split
            all_goals exact ⟨rfl, rfl⟩
          have h1 : Inv (s.setRepl (roundStep s.lastLogIndex (c.get id).nextAction st).1) :=
            h.setRepl_g _ _ hs (Or.inr (Or.inl ⟨st, hm, (hmi _ _).2.symm, (hmi _ _).1.symm⟩))
          split
          · exact h1
          · split
            · exact h1
            · rename_i hcan
              have hc : CanChange (s.setRepl (roundStep s.lastLogIndex (c.get id).nextAction st).1) := by
                have hcan' : (s.setRepl (roundStep s.lastLogIndex (c.get id).nextAction st).1).canChangeConfig = true := by
                  simpa using hcan
                obtain ⟨a, _, b⟩ := CfgRel.canChange_facts hcan'
                exact ⟨a, b⟩
              split
              · exact ihDC _ _ _ h1 hc
              · exact h1
    · -- setCommitIndexL
      intro s i hs hi hst hm
      unfold setCommitIndexL
      extract_lets s1 ready r s2 s3
      have h2 : Inv s2 := h.commit _ i hs hi hst hm
      have h3 : Inv s3 := by
        unfold s3; split
        · exact ihCAs _ _ _ h2
        · exact h2
      split
      · split
        · refine h.ldrSame_g _ _ (Closed.foldl_inv _ (fun s t hs => h.reply _ _ _ hs) _ _ h3) ?_ ?_ ?_ ?_ <;> rfl
        · exact ihCAs _ _ _ h3
      · exact h3
    · -- onMajorityCommit
      intro s hs
      unfold onMajorityCommit; dsimp only
      have h1 := h.panic s "nil.majorityMatchIndex" hs
      have hp : ∀ site, (s.panic site).commitIndex = s.commitIndex ∧ (s.panic site).ldr = s.ldr ∧
          (s.panic site).majorityMatchIndex = s.majorityMatchIndex := by
        intro site; unfold Node.panic; split <;> exact ⟨rfl, rfl, rfl⟩
      split
      · split
        · rename_i hgt
          exact h.notifyFlr_g _ (h.applyCommittedL_g _ (ihSC _ _ hs hgt.1 hgt.2 rfl))
        · exact hs
      · split
        · rename_i hgt
          obtain ⟨p1, p2, p3⟩ := hp "nil.majorityMatchIndex"
          rw [p1, p2] at hgt
          exact h.notifyFlr_g _ (h.applyCommittedL_g _ (ihSC _ _ h1 (by rw [p1]; exact hgt.1)
            (by rw [p2]; exact hgt.2) (by rw [p3])))
        · exact h1

theorem storeEntry_g (f : Nat) (s : Node) (b) (hs : Inv s) (hb : BatchG s b) : Inv (storeEntry f s b) :=
  (h.block f).1 s b hs hb
theorem doChangeConfig_g (f : Nat) (s : Node) (t c) (hs : Inv s) (hc : CanChange s) : Inv (doChangeConfig f s t c) :=
  (h.block f).2.2.2.1 s t c hs hc
theorem checkConfigActions_g (f : Nat) (s : Node) (t c) (hs : Inv s) : Inv (checkConfigActions f s t c) :=
  (h.block f).2.2.2.2.1 s t c hs
theorem checkConfigAction_g (f : Nat) (s : Node) (t c id) (hs : Inv s) : Inv (checkConfigAction f s t c id) :=
  (h.block f).2.2.2.2.2.1 s t c id hs
theorem onMajorityCommit_g (f : Nat) (s : Node) (hs : Inv s) : Inv (onMajorityCommit f s) :=
  (h.block f).2.2.2.2.2.2.2 s hs

/-! ### the leader handlers outside the block -/

theorem transferReply_g (s : Node) (r : String) (hs : Inv s) : Inv (s.transferReply r) := by
  unfold Node.transferReply
  exact h.ldrSame_g _ _ (h.reply _ _ _ hs) rfl rfl rfl rfl

theorem tryTransfer_g (s : Node) (hs : Inv s) : Inv s.tryTransfer := by
  unfold Node.tryTransfer; dsimp only
  have hp := h.popOrder s hs
  have L : ∀ x : Node, Inv x → Inv (x.withLdr { x.ldr with transfer := { x.ldr.transfer with respPending := true } }) :=
    fun x hx => h.ldrSame_g _ _ hx rfl rfl rfl rfl
  repeat' split
  all_goals first
    | exact hs
    | exact hp
    | exact h.panic _ _ hs
    | exact h.panic _ _ hp
    | exact L _ hs
    | exact L _ hp
    | exact L _ (h.panic _ _ hs)
    | exact L _ (h.panic _ _ hp)

theorem onTransfer_g (s : Node) (t g : Nat) (hs : Inv s) : Inv (s.onTransfer t g) := by
  unfold Node.onTransfer; dsimp only
  split
  · exact h.reply _ _ _ hs
  · exact h.tryTransfer_g _ (h.ldrSame_g _ _ hs rfl rfl rfl rfl)

theorem replyTransfer_g (s : Node) (r : String) (hs : Inv s) : Inv (s.replyTransfer r) := by
  unfold Node.replyTransfer
  exact h.checkConfigActions_g _ _ _ _ (h.transferReply_g s r hs)

theorem onTimeoutNowResult_g (s : Node) (src : Nat) (e : Bool) (r : Nat) (hs : Inv s) :
    Inv (s.onTimeoutNowResult src e r) := by
  unfold Node.onTimeoutNowResult
  extract_lets l0 t0 s1 s2 l1 t1
  have h0 : Inv s1 := h.ldrSame_g _ _ hs rfl rfl rfl rfl
  have h2 : Inv s2 := by
    unfold s2
    split
    · rename_i rr hrr
      split
      · obtain ⟨hm, _⟩ := findRepl_mem hrr
        exact h.setRepl_g _ _ h0 (Or.inr (Or.inl ⟨rr, hm, rfl, rfl⟩))
      · exact h0
    · exact h.panic _ _ h0
  split
  · split
    · exact h.tryTransfer_g _ h2
    · exact h2
  · split
    · split
      · exact h.replyTransfer_g _ _ h0
      · exact h.tryTransfer_g _ h0
    · exact h.ldrSame_g _ _ h0 rfl rfl rfl rfl

theorem onWaitForStable_g (s : Node) (t : Nat) (hs : Inv s) : Inv (s.onWaitForStable t) := by
  unfold Node.onWaitForStable
  split
  · exact h.reply _ _ _ hs
  · exact h.ldrSame_g _ _ hs rfl rfl rfl rfl

/-- `leader.onChangeConfig`: the second `doChangeConfig` needs the guards again, after `checkConfigActions` left the
log alone (`hk`: what the instance knows of such a state) -/
theorem onChangeConfig_g (s : Node) (t : Nat) (c : Config) (hs : Inv s)
    (hk : ∀ x, Inv x → x.lastLogIndex = s.lastLogIndex → CanChange s → CanChange x) :
    Inv (s.onChangeConfig t c) := by
  unfold Node.onChangeConfig
  dsimp only
  split
  · exact h.reply _ _ _ hs
  · rename_i h1
    split
    · exact h.reply _ _ _ hs
    · rename_i h2
      have hc : CanChange s := ⟨by simpa using h1, by omega⟩
      have h3 := h.checkConfigActions_g (fuelFor 0) s t c hs
      repeat' split
      all_goals first
        | exact h.reply _ _ _ hs
        | exact h3
        | (rename_i he; exact h.doChangeConfig_g _ _ _ _ h3 (hk _ h3 he hc))

theorem checkQuorum_p (hwf : ∀ s, Inv s → C05.VoteWF s) (s : Node) (hs : Inv s) :
    PostM Inv s.checkQuorum := by
  unfold Node.checkQuorum
  dsimp only
  have hp := h.panic s "nil.checkQuorum" hs
  have D : ∀ x : Node, Inv x → PostM Inv ((x.setRole .follower).setLeader 0) := fun x hx =>
    Or.inr ⟨rfl, x, hx, sx_setLeader _ (sx_setRole _ (sx_refl x AF False (hwf x hx))), id⟩
  repeat' split
  all_goals first
    | exact Or.inl hs
    | exact Or.inl hp
    | exact D _ hs
    | exact D _ hp

theorem replUpdLoop_g (hwf : ∀ s, Inv s → C05.VoteWF s) (us : List ReplUpdate)
    (hus : NoCompact us) (hupd : ∀ u ∈ us, ∀ v, u.upd = .matchIndex v → v = 0 ∨ Bk u.id v) :
    ∀ (s : Node) (f : UpdFlags), Inv s → f.removeLTEU = false →
    (replUpdLoop s f us).2.removeLTEU = false ∧
    (((replUpdLoop s f us).2.stop = f.stop ∧ Inv (replUpdLoop s f us).1) ∨
     ((replUpdLoop s f us).2.stop = true ∧ (replUpdLoop s f us).1.role = .follower ∧
       ∃ x, Inv x ∧ SX x AF False (replUpdLoop s f us).1 ∧
         ((replUpdLoop s f us).1.panicked = none → x.panicked = none))) := by
  induction us with
  | nil => intro s f hs hf; exact ⟨hf, Or.inl ⟨rfl, hs⟩⟩
  | cons u us ih =>
    intro s f hs hf
    have hus' : NoCompact us := fun x hx => hus x (List.mem_cons_of_mem _ hx)
    have hupd' : ∀ u ∈ us, ∀ v, u.upd = .matchIndex v → v = 0 ∨ Bk u.id v :=
      fun x hx => hupd x (List.mem_cons_of_mem _ hx)
    have hu := hus u (List.mem_cons_self ..)
    have hu2 := hupd u (List.mem_cons_self ..)
    unfold replUpdLoop
    split
    · exact ih hus' hupd' s f hs hf
    · split
      · exact ih hus' hupd' s f hs hf
      · rename_i st hst
        obtain ⟨hmem, hid⟩ := findRepl_mem hst
        split
        · rename_i v hv
          dsimp only
          have hbk : v = 0 ∨ Bk st.id v := by rw [hid]; exact hu2 v hv
          have h1 : Inv (s.setRepl { st with matchIndex := v }) :=
            h.setRepl_g _ _ hs (hbk.imp id (fun x => Or.inr x))
          have := ih hus' hupd' (if ¬ st.node.voter = true ∧ st.node.action ≠ actNone
              then checkConfigAction (fuelFor 0) (s.setRepl { st with matchIndex := v }) 0
                (s.setRepl { st with matchIndex := v }).configs.latest st.id
              else s.setRepl { st with matchIndex := v }) { f with matchU := true }
            (by
              split
              · exact h.checkConfigAction_g _ _ _ _ _ h1
              · exact h1) hf
          simpa using this
        · rename_i v hv
          exact absurd hv (hu v)
        · rename_i v hv
          exact ih hus' hupd' _ { f with noContactU := true }
            (h.setRepl_g _ _ hs (Or.inr (Or.inl ⟨st, hmem, rfl, rfl⟩))) hf
        · rename_i v hv
          refine ⟨hf, Or.inr ⟨rfl, ?_, s, hs, ?_, ?_⟩⟩
          · rw [(setTerm_key _ v).2.1]; rfl
          · exact sx_setTerm _ (sx_setLeader _ (sx_setRole _ (sx_refl s AF False (hwf s hs))))
          · exact fun hp => setTerm_pan' ((s.setRole .follower).setLeader 0) v hp

theorem checkReplUpdates_p (hwf : ∀ s, Inv s → C05.VoteWF s)
    (us : List ReplUpdate)
    (hus : NoCompact us) (hupd : ∀ u ∈ us, ∀ v, u.upd = .matchIndex v → v = 0 ∨ Bk u.id v)
    (s : Node) (hs : Inv s) : PostM Inv (s.checkReplUpdates us) := by
  unfold Node.checkReplUpdates
  extract_lets r s1 f s2 s3 s4
  obtain ⟨k1, k2⟩ := h.replUpdLoop_g hwf us hus hupd s {} hs rfl
  split
  · rcases k2 with ⟨_, k⟩ | ⟨_, kr, k⟩
    · exact Or.inl k
    · exact Or.inr ⟨kr, k⟩
  · rename_i hstop
    rcases k2 with ⟨_, k⟩ | ⟨k0, _⟩
    · have h2 : Inv s2 := by unfold s2; split; exact h.onMajorityCommit_g _ _ k; exact k
      have h3 : PostM Inv s3 := by
        unfold s3; split
        · exact h.checkQuorum_p hwf _ h2
        · exact Or.inl h2
      have e4 : s4 = s3 := by
        unfold s4
        rw [if_neg]
        intro hc
        have : f.removeLTEU = true := hc.1
        have k1' : f.removeLTEU = false := k1
        rw [k1'] at this; cases this
      rw [e4]
      rcases h3 with h3 | ⟨hr, x, hx, hsx, hpx⟩
      · split
        · exact Or.inl (h.tryTransfer_g _ h3)
        · exact Or.inl h3
      · split
        · refine Or.inr ⟨?_, x, hx, ?_, fun hp => hpx ((CfgRel.q_tryTransfer s3).pan' hp)⟩
          · -- tryTransfer does not touch the role
            have : s3.tryTransfer.role = s3.role := by
              unfold Node.tryTransfer Node.popOrder Node.panic Node.withLdr
              dsimp only
              repeat' split
              all_goals rfl
            rw [this]; exact hr
          · unfold Node.tryTransfer; dsimp only
            have hp := sx_popOrder hsx
            repeat' split
            all_goals first
              | exact hsx
              | exact hp
              | exact sx_panic _ hsx
              | exact sx_panic _ hp
              | exact sx_withLdr _ hsx
              | exact sx_withLdr _ hp
              | exact sx_withLdr _ (sx_panic _ hsx)
              | exact sx_withLdr _ (sx_panic _ hp)
        · exact Or.inr ⟨hr, x, hx, hsx, hpx⟩
    · exact absurd k0 hstop

end GClosed


/-! ## Part B: the instance — what a leader handler does, relative to the state `b` it starts from -/

/-- `c` is the LAST configuration entry of the entries `es` -/
def CfgLast (es : List Entry) (c : Config) : Prop :=
  (∃ e ∈ es, e.config? = some c) ∧ ∀ e ∈ es, e.typ = etConfig → e.index ≤ c.index

theorem config?_facts {e : Entry} {c : Config} (h : e.config? = some c) :
    e.typ = etConfig ∧ c.index = e.index ∧ c.term = e.term := by
  unfold Entry.config? at h
  split at h
  · rename_i ht
    cases hc : e.cfg with
    | none => rw [hc] at h; cases h
    | some c0 =>
      rw [hc] at h
      simp only [Option.map_some, Option.some.injEq] at h
      subst h
      exact ⟨ht, rfl, rfl⟩
  · cases h

theorem cfgLast_append_plain {es : List Entry} {c : Config} {e : Entry} (h : CfgLast es c) (he : e.typ ≠ etConfig) :
    CfgLast (es ++ [e]) c := by
  obtain ⟨⟨x, hx, hxc⟩, h2⟩ := h
  refine ⟨⟨x, List.mem_append_left _ hx, hxc⟩, fun y hy ht => ?_⟩
  rcases List.mem_append.mp hy with hy | hy
  · exact h2 y hy ht
  · rw [List.mem_singleton.mp hy] at ht; exact absurd ht he

theorem cfgLast_append_cfg {es : List Entry} {old c : Config} {e : Entry} (h : CfgLast es old)
    (hb : ∀ x ∈ es, x.index ≤ es.length) (hi : e.index = es.length + 1) (he : e.config? = some c) :
    CfgLast (es ++ [e]) c := by
  obtain ⟨_, ci, _⟩ := config?_facts he
  refine ⟨⟨e, List.mem_append_right _ (List.mem_singleton_self _), he⟩, fun y hy _ => ?_⟩
  rcases List.mem_append.mp hy with hy | hy
  · have := hb y hy; omega
  · rw [List.mem_singleton.mp hy]; omega

/-- the latest configuration is an entry of the log -/
theorem CfgLast.index_le {es : List Entry} {c : Config} (h : CfgLast es c) (hb : ∀ x ∈ es, x.index ≤ es.length) :
    c.index ≤ es.length := by
  obtain ⟨⟨x, hx, hxc⟩, _⟩ := h
  obtain ⟨_, ci, _⟩ := config?_facts hxc
  have := hb x hx; omega

theorem contig_index_le {es : List Entry} (hc : ∀ k (_ : k < es.length), es[k].index = k + 1) :
    ∀ x ∈ es, 1 ≤ x.index ∧ x.index ≤ es.length := by
  intro x hx
  obtain ⟨k, hk, rfl⟩ := List.getElem_of_mem hx
  rw [hc k hk]; omega

/-- a moment at which the commit index of the leader moved (`leader.setCommitIndex`) -/
structure CEvt where
  /-- the index it reached -/
  ci : Nat
  /-- the length of the leader's log at that moment -/
  len : Nat
  /-- the latest configuration of the leader at that moment -/
  cfg : Config
  /-- the voters that had reached the index -/
  Q : List Nat

/-- **what is known of a commit moment**, relative to the state `b` the handler started from and the log `es` the node
has now: the index moved beyond `b`'s commit index, to an index at or beyond `startIndex` (so: an entry of the
leader's own term) within the log of that moment; `cfg` was THE LAST CONFIGURATION ENTRY OF THE LOG AT THAT MOMENT, and a
majority `Q` of ITS voters had reached the index — the leader itself, the others by a backed match index -/
def EvOK (b : Node) (B : Nat → Nat → Prop) (es : List Entry) (ev : CEvt) : Prop :=
  b.commitIndex < ev.ci ∧ b.ldr.startIndex ≤ ev.ci ∧ ev.ci ≤ ev.len ∧ b.log.entries.length ≤ ev.len ∧
  ev.len ≤ es.length ∧ CfgLast (es.take ev.len) ev.cfg ∧ ev.Q.Sublist ev.cfg.voters ∧
  2 * ev.Q.length > ev.cfg.voters.length ∧ ∀ j ∈ ev.Q, j = b.nid ∨ ∃ m, ev.ci ≤ m ∧ B j m

theorem EvOK.mono {b : Node} {B : Nat → Nat → Prop} {es r : List Entry} {ev : CEvt} (h : EvOK b B es ev) :
    EvOK b B (es ++ r) ev := by
  obtain ⟨a1, a2, a3, a4, a5, a6, a7⟩ := h
  refine ⟨a1, a2, a3, a4, by rw [List.length_append]; omega, ?_, a7⟩
  rw [List.take_append_of_le_length a5]; exact a6

/-- **what is known of a configuration entry the leader appended at index `k`**: `P` was the last configuration entry
of the log before it; at that moment the leader's commit index `ci` had reached `startIndex` (an entry of its own term
was committed) and `P` (the previous configuration was committed); and `ci` was the commit index of `b`, or the index of
a commit moment `ev` of this handler that happened when the log was still shorter than `k` -/
def ChgOK (b : Node) (es : List Entry) (L : List CEvt) (k : Nat) : Prop :=
  ∃ P ci, CfgLast (es.take (k - 1)) P ∧ b.ldr.startIndex ≤ ci ∧ P.index ≤ ci ∧
    (ci = b.commitIndex ∨ ∃ ev ∈ L, ev.ci = ci ∧ ev.len < k)

theorem ChgOK.mono {b : Node} {es r : List Entry} {L L' : List CEvt} {k : Nat} (h : ChgOK b es L k)
    (hk : k - 1 ≤ es.length) (hL : ∀ ev ∈ L, ev ∈ L') : ChgOK b (es ++ r) L' k := by
  obtain ⟨P, ci, a1, a2, a3, a4⟩ := h
  refine ⟨P, ci, by rw [List.take_append_of_le_length hk]; exact a1, a2, a3, a4.imp id ?_⟩
  rintro ⟨ev, hev, h1, h2⟩
  exact ⟨ev, hL ev hev, h1, h2⟩

/-- the part of the invariant that is claimed while nothing has failed (`panicked = none`): the latest configuration
is the last configuration entry of the log; a committed configuration lies below `startIndex` or at or below the commit
index; the commit moments so far (newest first), each with its majority; every configuration entry appended since `b`
was appended under the guards -/
structure Good (b : Node) (B : Nat → Nat → Prop) (es : List Entry) (fl : Nat) (cfgs : Configs) (ci : Nat) : Prop where
  cl : CfgLast es cfgs.latest
  cc : cfgs.isCommitted = true → cfgs.latest.index < b.ldr.startIndex ∨ cfgs.latest.index ≤ ci
  /-- `configs` is untouched, or the latest configuration is covered by the commit index, or it is PENDING:
  `configs.committed` is the configuration entry before it -/
  cmtd : cfgs = b.configs ∨ cfgs.latest.index ≤ ci ∨
    (cfgs.committed.index < cfgs.latest.index ∧ CfgLast (es.take (cfgs.latest.index - 1)) cfgs.committed)
  evs : ∃ L : List CEvt, (∀ ev ∈ L, EvOK b B es ev ∧ ev.ci ≤ fl) ∧
    L.Pairwise (fun n o => o.ci < n.ci ∧ o.len ≤ n.len) ∧
    ci = ((L.head?).map (·.ci)).getD b.commitIndex ∧
    ∀ e ∈ es, b.log.entries.length < e.index → e.typ = etConfig → ChgOK b es L e.index

/-- what the handlers need to know about the state `b` they start from -/
structure MBase (b : Node) (B : Nat → Nat → Prop) : Prop where
  nwf : NWF b
  lwf : C06.LogWF b.log
  wf : C05.VoteWF b
  role : b.role = .leader
  start : 1 ≤ b.ldr.startIndex
  own : ∀ k, b.ldr.startIndex ≤ k → k ≤ b.log.entries.length → termAt b.log.entries k = b.term
  hB : ∀ j m, B j m → m ≤ b.log.entries.length
  cache : b.ldr.numVoters = b.configs.latest.numVoters ∧ b.ldr.node = b.configs.latest.get b.nid
  cl : CfgLast b.log.entries b.configs.latest
  cc : b.configs.isCommitted = true → b.configs.latest.index < b.ldr.startIndex ∨ b.configs.latest.index ≤ b.commitIndex
  cile : b.commitIndex ≤ b.log.entries.length

/-- Relative to `b` (a leader; the state a leader handler starts from) and the backing predicate `B` for match
indexes — WITHOUT a fixed configuration. -/
structure LJ (b : Node) (B : Nat → Nat → Prop) (s : Node) : Prop where
  nwf : NWF s
  lwf : C06.LogWF s.log
  /-- the node is still leader, unless it stepped down when a commit made a configuration without it effective -/
  role : s.role = .leader ∨ (s.role = .follower ∧ b.commitIndex < s.commitIndex)
  nid : s.nid = b.nid
  term : s.term = b.term
  vote : s.votedFor = b.votedFor ∧ s.durTerm = b.durTerm ∧ s.durVote = b.durVote
  start : s.ldr.startIndex = b.ldr.startIndex
  cache : s.ldr.numVoters = s.configs.latest.numVoters ∧ s.ldr.node = s.configs.latest.get s.nid
  ext : ∃ es, s.log.entries = b.log.entries ++ es ∧ ∀ e ∈ es, e.term = b.term
  flush : b.log.flushed ≤ s.log.flushed
  tr : ∀ p ∈ s.trace, p ∈ b.trace ∨ PtL b s p.2
  mi : ∀ r ∈ s.ldr.repls, r.matchIndex = 0 ∨ B r.id r.matchIndex
  cim : b.commitIndex ≤ s.commitIndex
  /-- while nothing was appended the latest configuration is `b`'s, and if that was committed it still is -/
  keep : s.log.entries.length = b.log.entries.length → s.configs.latest = b.configs.latest ∧
    (b.configs.isCommitted = true → s.configs.isCommitted = true)
  good : s.panicked = none → Good b B s.log.entries s.log.flushed s.configs s.commitIndex

/-- the fields `LJ` looks at (`panicked` apart) -/
def jobs (s : Node) : (NLog × Nat × Nat × Nat × List SnapFile × Nat × Nat × List (String × Durable)) ×
    Role × Nat × Nat × Nat × Configs × Leader × Nat :=
  (Core s, s.role, s.nid, s.votedFor, s.durVote, s.configs, s.ldr, s.commitIndex)

theorem lj_congr {b s s' : Node} {B : Nat → Nat → Prop} (h : LJ b B s) (e : jobs s' = jobs s)
    (hp : s'.panicked = none → s.panicked = none) : LJ b B s' := by
  unfold jobs Core at e
  simp only [Prod.mk.injEq] at e
  obtain ⟨⟨e1, e2, e3, e4, e5, e6, e7, e8⟩, f1, f2, f3, f4, f5, f6, f7⟩ := e
  obtain ⟨a1, a2, a3, a4, a5, a6, a7, a8, a9, a10, a11, a12, a13, a14, a15⟩ := h
  refine ⟨nwf_congr a1 e1 e2 e3 e4 e5, by rw [e1]; exact a2, by rw [f1, f7]; exact a3, f2.trans a4, e6.trans a5,
    ⟨f3.trans a6.1, e7.trans a6.2.1, f4.trans a6.2.2⟩, by rw [f6]; exact a7, by rw [f6, f5, f2]; exact a8,
    by rw [e1]; exact a9, by rw [e1]; exact a10, ?_, by rw [f6]; exact a12, by rw [f7]; exact a13,
    by rw [e1, f5]; exact a14, fun hn => by rw [e1, f5, f7]; exact a15 (hp hn)⟩
  rw [e8]
  intro p hp'
  refine (a11 p hp').imp id ?_
  unfold PtL; rw [e1]; exact id

theorem lj_refl {b : Node} {B : Nat → Nat → Prop} (hb : MBase b B)
    (hmi : ∀ r ∈ b.ldr.repls, r.matchIndex = 0 ∨ B r.id r.matchIndex) : LJ b B b :=
  ⟨hb.nwf, hb.lwf, Or.inl hb.role, rfl, rfl, ⟨rfl, rfl, rfl⟩, rfl, hb.cache,
    ⟨[], by simp, fun e he => by cases he⟩, Nat.le_refl _, fun p hp => Or.inl hp, hmi, Nat.le_refl _,
    fun _ => ⟨rfl, id⟩,
    fun _ => ⟨hb.cl, hb.cc, Or.inl rfl, [], (fun ev hev => by cases hev), List.Pairwise.nil, rfl,
      fun e he hlt => absurd (contig_index_le hb.nwf.contig e he).2 (by omega)⟩⟩

theorem lj_wf {b s : Node} {B : Nat → Nat → Prop} (hb : MBase b B) (h : LJ b B s) : C05.VoteWF s := by
  unfold C05.VoteWF
  rw [h.vote.2.1, h.vote.2.2, h.term, h.vote.1]
  exact hb.wf

theorem lj_len {b s : Node} {B : Nat → Nat → Prop} (h : LJ b B s) : b.log.entries.length ≤ s.log.entries.length := by
  obtain ⟨es, he, _⟩ := h.ext
  rw [he, List.length_append]; omega

theorem lj_panic {b s : Node} {B : Nat → Nat → Prop} (site : String) (h : LJ b B s) : LJ b B (s.panic site) :=
  lj_congr h (by unfold jobs; rw [core_panic]; unfold Node.panic; split <;> rfl)
    (fun hn => absurd hn (CfgRel.panicked_panic s site))

theorem lj_reply {b s : Node} {B : Nat → Nat → Prop} (t : Nat) (r : String) (h : LJ b B s) : LJ b B (s.reply t r) :=
  lj_congr h (by unfold jobs; rw [core_reply]; unfold Node.reply; split <;> rfl)
    (fun hn => (CfgRel.q_reply s t r).pan' hn)

theorem setCommitIndexR_gen (s : Node) (i : Nat) :
    (s.setCommitIndexR i).1.commitIndex = i ∧ Core (s.setCommitIndexR i).1 = Core s ∧
    ((s.setCommitIndexR i).1.role = s.role ∨ (s.setCommitIndexR i).1.role = .follower) ∧
    (s.setCommitIndexR i).1.nid = s.nid ∧
    (s.setCommitIndexR i).1.votedFor = s.votedFor ∧ (s.setCommitIndexR i).1.durVote = s.durVote ∧
    (s.setCommitIndexR i).1.ldr = s.ldr ∧ (s.setCommitIndexR i).1.panicked = s.panicked ∧
    (((s.setCommitIndexR i).1.configs = s.configs ∧ ¬ (s.configs.isCommitted = false ∧ s.configs.latest.index ≤ i)) ∨
     (s.configs.isCommitted = false ∧ s.configs.latest.index ≤ i ∧
      (s.setCommitIndexR i).1.configs = ⟨s.configs.latest, s.configs.latest⟩)) := by
  refine ⟨C19.setCommitIndexR_commitIndex s i, core_setCommitIndexR s i, ?_⟩
  unfold Node.setCommitIndexR
  split
  · rename_i hc
    have hc' : s.configs.isCommitted = false ∧ s.configs.latest.index ≤ i := by simpa using hc
    obtain ⟨a1, a2, a3, a4, a5, a6, a7, a8, a9⟩ := CfgRel.commitPath_fields s i
    dsimp only at a1 a2 a3 a4 a5 a6 a7 a8 a9 ⊢
    refine ⟨a8.imp id (fun h => h.2), a2, ?_, ?_, a6, a7, Or.inr ⟨hc'.1, hc'.2, a1⟩⟩
    · unfold Node.afterConfigCommit Node.closeIfRemoved Node.stepDownIfNotVoter Node.commitConfig Node.doClose
        Node.withCommitIndex Node.setLeader Node.setRole
      dsimp only
      repeat' split
      all_goals rfl
    · unfold Node.afterConfigCommit Node.closeIfRemoved Node.stepDownIfNotVoter Node.commitConfig Node.doClose
        Node.withCommitIndex Node.setLeader Node.setRole
      dsimp only
      repeat' split
      all_goals rfl
  · rename_i hc
    have hc' : ¬ (s.configs.isCommitted = false ∧ s.configs.latest.index ≤ i) := by simpa using hc
    exact ⟨Or.inl rfl, rfl, rfl, rfl, rfl, rfl, Or.inl ⟨rfl, hc'⟩⟩

theorem good_append_plain {b : Node} {B : Nat → Nat → Prop} {es : List Entry} {fl fl' : Nat} {cfgs : Configs} {ci : Nat}
    {e : Entry} (h : Good b B es fl cfgs ci) (hfl : fl ≤ fl') (he : e.typ ≠ etConfig)
    (hb : ∀ x ∈ es, x.index ≤ es.length) : Good b B (es ++ [e]) fl' cfgs ci := by
  obtain ⟨a1, a2, a3, L, l1, l2, l3, l4⟩ := h
  have hlat0 := a1.index_le hb
  refine ⟨cfgLast_append_plain a1 he, a2,
    a3.imp id (Or.imp id (fun ⟨p1, p2⟩ => ⟨p1, by rw [List.take_append_of_le_length (by omega)]; exact p2⟩)),
    L, fun ev hev => ⟨(l1 ev hev).1.mono, Nat.le_trans (l1 ev hev).2 hfl⟩,
    l2, l3, fun x hx hlt ht => ?_⟩
  rcases List.mem_append.mp hx with hx | hx
  · exact (l4 x hx hlt ht).mono (by have := hb x hx; omega) (fun _ h => h)
  · rw [List.mem_singleton.mp hx] at ht; exact absurd ht he

theorem isCommitted_false {old c : Config} (h : old.index < c.index) : (⟨old, c⟩ : Configs).isCommitted = false := by
  unfold Configs.isCommitted
  simp only [beq_eq_false_iff_ne, ne_eq]
  omega

theorem good_append_cfg {b : Node} {B : Nat → Nat → Prop} {es : List Entry} {fl fl' : Nat} {cfgs : Configs} {ci : Nat}
    {e : Entry} {c : Config} (h : Good b B es fl cfgs ci) (hfl : fl ≤ fl') (hcom : cfgs.isCommitted = true)
    (hst : b.ldr.startIndex ≤ ci) (hi : e.index = es.length + 1) (he : e.config? = some c)
    (hb : ∀ x ∈ es, x.index ≤ es.length) : Good b B (es ++ [e]) fl' ⟨cfgs.latest, c⟩ ci := by
  obtain ⟨a1, a2, _, L, l1, l2, l3, l4⟩ := h
  obtain ⟨_, hci, _⟩ := config?_facts he
  have hlat := a1.index_le hb
  refine ⟨cfgLast_append_cfg a1 hb hi he, fun hc => ?_,
    Or.inr (Or.inr ⟨by show cfgs.latest.index < c.index; omega, by
      show CfgLast ((es ++ [e]).take (c.index - 1)) cfgs.latest
      rw [show c.index - 1 = es.length by omega, List.take_left']
      · exact a1
      · rfl⟩), L,
    fun ev hev => ⟨(l1 ev hev).1.mono, Nat.le_trans (l1 ev hev).2 hfl⟩, l2, l3, fun x hx hlt ht => ?_⟩
  · rw [isCommitted_false (by show cfgs.latest.index < c.index; omega)] at hc; cases hc
  · rcases List.mem_append.mp hx with hx | hx
    · exact (l4 x hx hlt ht).mono (by have := hb x hx; omega) (fun _ h => h)
    · rw [List.mem_singleton.mp hx, hi]
      refine ⟨cfgs.latest, ci, ?_, hst, ?_, ?_⟩
      · rw [Nat.add_sub_cancel, List.take_left']; exact a1; rfl
      · rcases a2 hcom with h1 | h1 <;> omega
      · cases L with
        | nil => left; exact l3
        | cons ev L' =>
          right
          refine ⟨ev, List.mem_cons_self .., l3.symm, ?_⟩
          have := (l1 ev (List.mem_cons_self ..)).1.2.2.2.2.1
          omega

/-- the state after the commit index moved to `i` under the majority rule -/
theorem good_commit {b : Node} {B : Nat → Nat → Prop} {es : List Entry} {fl fl' : Nat} {cfgs cfgs' : Configs} {ci i : Nat}
    {Q : List Nat} (h : Good b B es fl cfgs ci) (hfl : fl ≤ fl') (hbc : b.commitIndex ≤ ci) (hi : ci < i)
    (hst : b.ldr.startIndex ≤ i) (hlen : i ≤ es.length) (hbl : b.log.entries.length ≤ es.length) (hifl : i ≤ fl')
    (hQ1 : Q.Sublist cfgs.latest.voters) (hQ2 : 2 * Q.length > cfgs.latest.voters.length)
    (hQ3 : ∀ j ∈ Q, j = b.nid ∨ ∃ m, i ≤ m ∧ B j m)
    (hcf : (cfgs' = cfgs ∧ ¬ (cfgs.isCommitted = false ∧ cfgs.latest.index ≤ i)) ∨
      (cfgs.isCommitted = false ∧ cfgs.latest.index ≤ i ∧ cfgs' = ⟨cfgs.latest, cfgs.latest⟩)) :
    Good b B es fl' cfgs' i := by
  obtain ⟨a1, a2, a3, L, l1, l2, l3, l4⟩ := h
  have hlat : cfgs'.latest = cfgs.latest := by
    rcases hcf with ⟨e, _⟩ | ⟨_, _, e⟩ <;> rw [e]
  -- every earlier moment lies at or below the old commit index
  have hold : ∀ ev ∈ L, ev.ci ≤ ci := by
    intro ev hev
    cases L with
    | nil => cases hev
    | cons ev0 L' =>
      have e0 : ci = ev0.ci := l3
      rcases List.mem_cons.mp hev with e | e
      · rw [e, e0]; exact Nat.le_refl _
      · have := (List.pairwise_cons.mp l2).1 ev e
        omega
  have hcm : cfgs' = b.configs ∨ cfgs'.latest.index ≤ i ∨
      (cfgs'.committed.index < cfgs'.latest.index ∧ CfgLast (es.take (cfgs'.latest.index - 1)) cfgs'.committed) := by
    rcases hcf with ⟨e, _⟩ | ⟨_, h2, e⟩
    · rw [e]
      exact a3.imp id (Or.imp (fun h => by omega) id)
    · rw [e]; exact Or.inr (Or.inl h2)
  refine ⟨by rw [hlat]; exact a1, fun hc => ?_, hcm, ⟨i, es.length, cfgs.latest, Q⟩ :: L, ?_, ?_, rfl, ?_⟩
  · rw [hlat]
    rcases hcf with ⟨e, hn⟩ | ⟨_, h2, _⟩
    · rw [e] at hc
      rcases a2 hc with h1 | h1
      · exact Or.inl h1
      · exact Or.inr (by omega)
    · exact Or.inr h2
  · intro ev hev
    rcases List.mem_cons.mp hev with e | e
    · subst e
      exact ⟨⟨by show b.commitIndex < i; omega, hst, hlen, hbl, Nat.le_refl _, by
        show CfgLast (es.take es.length) cfgs.latest
        rw [List.take_length]; exact a1, hQ1, hQ2, hQ3⟩, hifl⟩
    · exact ⟨(l1 ev e).1, Nat.le_trans (l1 ev e).2 hfl⟩
  · refine List.pairwise_cons.mpr ⟨fun ev hev => ?_, l2⟩
    have := hold ev hev
    have := (l1 ev hev).1.2.2.2.2.1
    exact ⟨by show ev.ci < i; omega, this⟩
  · intro x hx hlt ht
    obtain ⟨P, c0, p1, p2, p3, p4⟩ := l4 x hx hlt ht
    exact ⟨P, c0, p1, p2, p3, p4.imp id (fun ⟨ev, hev, q1, q2⟩ => ⟨ev, List.mem_cons_of_mem _ hev, q1, q2⟩)⟩

theorem lj_point {b s : Node} {B : Nat → Nat → Prop} (n : String) (h : LJ b B s) : LJ b B (s.point n) := by
  obtain ⟨a1, a2, a3, a4, a5, a6, a7, a8, a9, a10, a11, a12, a13, a14, a15⟩ := h
  refine ⟨nwf_congr a1 rfl rfl rfl rfl rfl, a2, a3, a4, a5, a6, a7, a8, a9, a10, ?_, a12, a13, a14, a15⟩
  intro p hp
  simp only [Node.point, List.mem_append, List.mem_singleton] at hp
  rcases hp with hp | hp
  · exact a11 p hp
  · subst hp
    right
    obtain ⟨es, he, _⟩ := a9
    refine ⟨a1.snaps, a1.prev, ?_, ?_, a6.2.1, a6.2.2, durable_dw s a1.prev a2⟩
    · show (s.log.entries.take _) <+: _
      exact List.take_prefix _ _
    · show _ <+: (s.log.entries.take (s.log.flushed - s.log.prev))
      rw [a1.prev, Nat.sub_zero]
      exact take_prefix_take (by rw [he]; exact List.prefix_append _ _) a10

theorem lj_ldr {b s : Node} {B : Nat → Nat → Prop} (l : Leader) (h : LJ b B s) (hl : LdrSub B s.ldr l) :
    LJ b B (s.withLdr l) := by
  obtain ⟨a1, a2, a3, a4, a5, a6, a7, a8, a9, a10, a11, a12, a13, a14, a15⟩ := h
  obtain ⟨l1, l2, l3, l4⟩ := hl
  refine ⟨nwf_congr a1 rfl rfl rfl rfl rfl, a2, a3, a4, a5, a6, l3.trans a7, ⟨l2.trans a8.1, l1.trans a8.2⟩, a9, a10,
    a11, ?_, a13, a14, a15⟩
  intro r hr
  rcases l4 r hr with h0 | ⟨r', hr', e1, e2⟩ | hB
  · exact Or.inl h0
  · rcases a12 r' hr' with h0 | hB
    · exact Or.inl (by rw [← e2]; exact h0)
    · exact Or.inr (by rw [← e1, ← e2]; exact hB)
  · exact Or.inr hB

/-- the part of an append that does not depend on the kind of entry -/
theorem lj_appendRaw {b s : Node} {B : Nat → Nat → Prop} (e : Entry) (roll : Bool) (cfgs : Configs) (l : Leader)
    (pan : Option String) (h : LJ b B s)
    (hi : e.index = s.lastLogIndex + 1) (ht : e.term = s.term)
    (hl : l.startIndex = s.ldr.startIndex ∧ l.repls = s.ldr.repls)
    (hcache : l.numVoters = cfgs.latest.numVoters ∧ l.node = cfgs.latest.get s.nid)
    (hgood : pan = none → Good b B (s.log.entries ++ [e]) (s.log.append e roll).flushed cfgs s.commitIndex) :
    LJ b B { s with log := s.log.append e roll, lastLogIndex := e.index, lastLogTerm := e.term, configs := cfgs,
                    ldr := l, panicked := pan } := by
  obtain ⟨a1, a2, a3, a4, a5, a6, a7, a8, ⟨es, d1, d2⟩, a10, a11, a12, a13, a14, a15⟩ := h
  obtain ⟨p1, p2⟩ := append_parts s.log e roll
  obtain ⟨w1, w2⟩ := logwf_append s.log e roll a2
  have hi' : e.index = s.log.entries.length + 1 := by rw [hi, a1.last]
  refine ⟨⟨a1.snapIndex, a1.snaps, ?_, ?_, ?_, ?_⟩, w1, a3, a4, a5, a6, hl.1.trans a7, hcache, ⟨es ++ [e], ?_, ?_⟩,
    Nat.le_trans a10 w2, ?_, by show ∀ r ∈ l.repls, _; rw [hl.2]; exact a12, a13, ?_, ?_⟩
  · show (s.log.append e roll).prev = 0
    rw [p1]; exact a1.prev
  · show ∀ k (hk : k < (s.log.append e roll).entries.length), (s.log.append e roll).entries[k].index = k + 1
    rw [p2]; exact contig_append a1.contig e hi'
  · show e.index = (s.log.append e roll).entries.length
    rw [p2, List.length_append, hi']; rfl
  · show e.term = lastTerm (s.log.append e roll).entries
    rw [p2, lastTerm_append_singleton]
  · show (s.log.append e roll).entries = _
    rw [p2, d1, List.append_assoc]
  · intro x hx
    rcases List.mem_append.mp hx with hx | hx
    · exact d2 x hx
    · rw [List.mem_singleton.mp hx, ht, a5]
  · intro p hp
    refine (a11 p hp).imp id ?_
    rintro ⟨q1, q2, q3, q4⟩
    refine ⟨q1, q2, ?_, q4⟩
    show _ <+: (s.log.append e roll).entries
    rw [p2]
    exact List.IsPrefix.trans q3 (List.prefix_append _ _)
  · intro hlen
    exfalso
    have hlen' : (s.log.append e roll).entries.length = b.log.entries.length := hlen
    rw [p2, d1] at hlen'
    simp at hlen'
  · intro hp
    show Good b B (s.log.append e roll).entries (s.log.append e roll).flushed cfgs s.commitIndex
    rw [p2]; exact hgood hp

theorem lj_assert {b s : Node} {B : Nat → Nat → Prop} (c : Bool) (site : String) (h : LJ b B s) :
    LJ b B (s.assert c site) := by
  unfold Node.assert; split
  · exact h
  · exact lj_panic _ h

/-- an entry that is not a configuration entry -/
theorem lj_append {b s : Node} {B : Nat → Nat → Prop} (e : Entry) (h : LJ b B s)
    (hi : e.index = s.lastLogIndex + 1) (ht : e.term = s.term) (hty : e.typ ≠ etConfig) :
    LJ b B (s.appendEntry e) := by
  unfold Node.appendEntry
  extract_lets s1 roll
  have h1 : LJ b B s1 := lj_assert _ _ h
  have e1 := assert_fields s (e.index == s.lastLogIndex + 1) "assert.appendEntry"
  have := lj_appendRaw e roll s1.configs s1.ldr s1.panicked h1 (by rw [e1.2.1]; exact hi)
    (by rw [assert_term]; exact ht) ⟨rfl, rfl⟩ h1.cache
    (fun hp => good_append_plain (h1.good hp) (logwf_append s1.log e roll h1.lwf).2 hty
      (fun x hx => (contig_index_le h1.nwf.contig x hx).2))
  exact this

/-- a configuration entry, appended and adopted -/
theorem lj_appendCfg {b s : Node} {B : Nat → Nat → Prop} (e : Entry) (c : Config) (h : LJ b B s) (hc : CanChange s)
    (hi : e.index = s.lastLogIndex + 1) (ht : e.term = s.term) (he : e.config? = some c) :
    LJ b B (adopt (s.appendEntry e) c) := by
  let s1 := s.assert (e.index == s.lastLogIndex + 1) "assert.appendEntry"
  let roll := s1.rollAt.contains (e.index - 1) && s1.log.lastSegPrev != e.index - 1
  have h1 : LJ b B s1 := lj_assert _ _ h
  have e1 := assert_fields s (e.index == s.lastLogIndex + 1) "assert.appendEntry"
  have hnid : s1.nid = s.nid := (CfgRel.q_assert s _ _).nid
  have hX := lj_appendRaw e roll ⟨s1.configs.latest, c⟩ { s1.ldr with node := c.get s1.nid, numVoters := c.numVoters }
    s1.panicked h1 (by rw [e1.2.1]; exact hi) (by rw [assert_term]; exact ht) ⟨rfl, rfl⟩ ⟨rfl, rfl⟩
    (fun hp => by
      have hg := h1.good hp
      have hcom : s1.configs.isCommitted = true := by rw [e1.2.2.2.2.2.2.2]; exact hc.1
      have hst : b.ldr.startIndex ≤ s1.commitIndex := by rw [e1.2.2.2.1, ← h.start]; exact hc.2
      exact good_append_cfg hg (logwf_append s1.log e roll h1.lwf).2 hcom hst
        (by rw [hi, ← e1.2.1, h1.nwf.last]) he (fun x hx => (contig_index_le h1.nwf.contig x hx).2))
  refine lj_congr hX ?_ (fun hp => ?_)
  · unfold jobs Core adopt Node.changeConfigR Node.appendEntry Node.withLdr Node.setLeader
    dsimp only
    split <;> rfl
  · have : (adopt (s.appendEntry e) c).panicked = s1.panicked := by
      unfold adopt Node.changeConfigR Node.appendEntry Node.withLdr Node.setLeader
      dsimp only
      split <;> rfl
    rw [this] at hp
    exact hp

/-- a configuration entry was appended and then the model's recursion budget ran out -/
theorem lj_appendCfgFail {b s : Node} {B : Nat → Nat → Prop} (e : Entry) (site : String) (h : LJ b B s)
    (hi : e.index = s.lastLogIndex + 1) (ht : e.term = s.term) :
    LJ b B ((s.appendEntry e).panic site) := by
  let s1 := s.assert (e.index == s.lastLogIndex + 1) "assert.appendEntry"
  let roll := s1.rollAt.contains (e.index - 1) && s1.log.lastSegPrev != e.index - 1
  have h1 : LJ b B s1 := lj_assert _ _ h
  have e1 := assert_fields s (e.index == s.lastLogIndex + 1) "assert.appendEntry"
  have hX := lj_appendRaw e roll s1.configs s1.ldr (some site) h1 (by rw [e1.2.1]; exact hi)
    (by rw [assert_term]; exact ht) ⟨rfl, rfl⟩ h1.cache (fun hp => by cases hp)
  refine lj_congr hX ?_ (fun hp => absurd hp (CfgRel.panicked_panic _ site))
  unfold jobs Core Node.panic Node.appendEntry
  dsimp only
  split <;> rfl

/-- **the majority behind the index `majorityMatchIndex` selects** — of the voters of `configs.latest` AS IT IS NOW: a
sublist `Q` of its voter list, more than half of it; each member is the leader itself (then the index is within its
log) or a voter whose replication carries a backed match index at or above the index. Needs only that the leader's
cached voter count and own entry are current. -/
theorem majority_QM (s : Node) (B : Nat → Nat → Prop)
    (hmi : ∀ r ∈ s.ldr.repls, r.matchIndex = 0 ∨ B r.id r.matchIndex)
    (hcache : s.ldr.numVoters = s.configs.latest.numVoters ∧ s.ldr.node = s.configs.latest.get s.nid)
    (hi : 1 ≤ s.majorityMatchIndex.1) :
    ∃ Q : List Nat, Q.Sublist s.configs.latest.voters ∧
      2 * Q.length > s.configs.latest.voters.length ∧
      ∀ j ∈ Q, (j = s.nid ∧ s.majorityMatchIndex.1 ≤ s.lastLogIndex) ∨
        ∃ m, s.majorityMatchIndex.1 ≤ m ∧ B j m := by
  by_cases hfast : s.ldr.numVoters = 1 ∧ s.ldr.node.voter = true
  · have hm : s.majorityMatchIndex.1 = s.lastLogIndex := by
      unfold Node.majorityMatchIndex; rw [if_pos hfast]
    have hself : s.nid ∈ s.configs.latest.voters := by
      apply C01Sys.isVoter_mem_voters
      rw [← CfgRel.get_voter_eq_isVoter, ← hcache.2]; exact hfast.2
    refine ⟨[s.nid], List.singleton_sublist.mpr hself, ?_, ?_⟩
    · rw [voters_length, ← hcache.1, hfast.1, List.length_singleton]; omega
    · intro j hj
      exact Or.inl ⟨List.mem_singleton.mp hj, by rw [hm]; exact Nat.le_refl _⟩
  · have hv : s.configs.latest.numVoters ≠ 0 := by
      intro h0
      have : s.voterMatches = [] := List.eq_nil_of_length_eq_zero (by rw [C06.voterMatches_length, h0])
      have hz : s.majorityMatchIndex.1 = 0 := by
        unfold Node.majorityMatchIndex
        rw [if_neg hfast]
        dsimp only
        rw [this]
        simp
      omega
    have hmaj := C06.commit_index_has_majority s hfast hv
    generalize s.majorityMatchIndex.1 = N at hi hmaj ⊢
    let f : CNode → Nat := fun n =>
      if n.id = s.nid then s.lastLogIndex else ((s.findRepl? n.id).map (·.matchIndex)).getD 0
    let g : CNode → Bool := fun n => decide (f n ≥ N)
    have hvm : s.voterMatches = (s.configs.latest.nodes.filter (·.voter)).map f := rfl
    have hcount : s.voterMatches.countP (fun m => decide (m ≥ N)) =
        ((s.configs.latest.nodes.filter (·.voter)).filter g).length := by
      rw [hvm, List.countP_map, List.countP_eq_length_filter]
      rfl
    refine ⟨((s.configs.latest.nodes.filter (·.voter)).filter g).map (·.id), ?_, ?_, ?_⟩
    · exact (List.filter_sublist).map _
    · rw [List.length_map, ← hcount, voters_length]; exact hmaj
    · intro j hj
      obtain ⟨n, hn, rfl⟩ := List.mem_map.mp hj
      have hgn : f n ≥ N := by
        have := (List.mem_filter.mp hn).2
        simpa [g] using this
      by_cases hid : n.id = s.nid
      · left
        refine ⟨hid, ?_⟩
        have : f n = s.lastLogIndex := by show (if n.id = s.nid then _ else _) = _; rw [if_pos hid]
        omega
      · right
        have hf : f n = ((s.findRepl? n.id).map (·.matchIndex)).getD 0 := by
          show (if n.id = s.nid then _ else _) = _; rw [if_neg hid]
        cases hr : s.findRepl? n.id with
        | none => rw [hf, hr] at hgn; simp at hgn; omega
        | some r =>
          rw [hf, hr] at hgn
          simp only [Option.map_some, Option.getD_some] at hgn
          obtain ⟨hmem, hrid⟩ := findRepl_mem hr
          rcases hmi r hmem with h0 | hB
          · omega
          · exact ⟨r.matchIndex, hgn, by rw [← hrid]; exact hB⟩

theorem lj_commit {b s : Node} {B : Nat → Nat → Prop} (hb : MBase b B) (i : Nat) (h : LJ b B s)
    (hi : i > s.commitIndex) (hst : i ≥ s.ldr.startIndex) (hm : i = s.majorityMatchIndex.1) :
    LJ b B ((s.commitLog i).setCommitIndexR i).1 := by
  -- the majority, read off the state before the flush
  have hQ := majority_QM s B h.mi h.cache (by rw [← hm]; omega)
  rw [← hm, h.nid] at hQ
  obtain ⟨Q, q1, q2, q4⟩ := hQ
  obtain ⟨es, he, _⟩ := h.ext
  have hlen : i ≤ s.log.entries.length := by
    have hne : Q ≠ [] := by intro e; rw [e] at q2; simp at q2
    obtain ⟨j, hj⟩ := List.exists_mem_of_ne_nil Q hne
    rcases q4 j hj with ⟨_, hle⟩ | ⟨m, hle, hB⟩
    · rw [← h.nwf.last]; exact hle
    · have := hb.hB j m hB
      rw [he, List.length_append]; omega
  -- flush
  obtain ⟨w1, w2, w3⟩ := logwf_commitN s.log i h.lwf
  obtain ⟨c1, c2⟩ := commitN_parts s.log i
  have hifl : i ≤ (s.log.commitN i).flushed := by
    have hl : s.log.last = s.log.entries.length := by unfold NLog.last; rw [h.nwf.prev]; omega
    rw [hl] at w3
    omega
  have h0 : LJ b B { s with log := s.log.commitN i } := by
    obtain ⟨a1, a2, a3, a4, a5, a6, a7, a8, a9, a10, a11, a12, a13, a14, a15⟩ := h
    refine ⟨⟨a1.snapIndex, a1.snaps, ?_, ?_, ?_, ?_⟩, w1, a3, a4, a5, a6, a7, a8, ?_, Nat.le_trans a10 w2, ?_, a12, a13,
      ?_, ?_⟩
    · show (s.log.commitN i).prev = 0
      rw [c1]; exact a1.prev
    · show ∀ k (hk : k < (s.log.commitN i).entries.length), (s.log.commitN i).entries[k].index = k + 1
      rw [c2]; exact a1.contig
    · show s.lastLogIndex = (s.log.commitN i).entries.length
      rw [c2]; exact a1.last
    · show s.lastLogTerm = lastTerm (s.log.commitN i).entries
      rw [c2]; exact a1.lastT
    · show ∃ es, (s.log.commitN i).entries = _ ∧ _
      rw [c2]; exact a9
    · intro p hp
      refine (a11 p hp).imp id ?_
      rintro ⟨r1, r2, r3, r4⟩
      exact ⟨r1, r2, by show _ <+: (s.log.commitN i).entries; rw [c2]; exact r3, r4⟩
    · show (s.log.commitN i).entries.length = _ → _
      rw [c2]; exact a14
    · intro hp
      show Good b B (s.log.commitN i).entries (s.log.commitN i).flushed s.configs s.commitIndex
      rw [c2]
      obtain ⟨g1, g2, g3, L, l1, l2, l3, l4⟩ := a15 hp
      exact ⟨g1, g2, g3, L, fun ev hev => ⟨(l1 ev hev).1, Nat.le_trans (l1 ev hev).2 w2⟩, l2, l3, l4⟩
  have h1 : LJ b B (s.commitLog i) := lj_point "commitLog" h0
  obtain ⟨v1, v2, v3, v4, v5, v6, v7, v8, v9⟩ := setCommitIndexR_gen (s.commitLog i) i
  have hcore := v2
  unfold Core at hcore
  simp only [Prod.mk.injEq] at hcore
  obtain ⟨k1, k2, k3, k4, k5, k6, k7, k8⟩ := hcore
  have hlog : ((s.commitLog i).setCommitIndexR i).1.log = s.log.commitN i := k1
  have hcfl : ((s.commitLog i).setCommitIndexR i).1.configs.latest = s.configs.latest := by
    rcases v9 with ⟨e, _⟩ | ⟨_, _, e⟩ <;> rw [e] <;> rfl
  obtain ⟨a1, a2, a3, a4, a5, a6, a7, a8, a9, a10, a11, a12, a13, a14, a15⟩ := h1
  refine ⟨nwf_congr a1 k1 k2 k3 k4 k5, by rw [k1]; exact a2, ?_, v4.trans a4, k6.trans a5,
    ⟨v5.trans a6.1, k7.trans a6.2.1, v6.trans a6.2.2⟩, by rw [v7]; exact a7, ?_, by rw [k1]; exact a9,
    by rw [k1]; exact a10, ?_, by rw [v7]; exact a12, ?_, ?_, ?_⟩
  · have hbc : b.commitIndex < i := by have := h.cim; omega
    rcases v3 with e | e
    · rw [e, v1]
      rcases a3 with r | r
      · exact Or.inl r
      · exact Or.inr ⟨r.1, hbc⟩
    · rw [v1]; exact Or.inr ⟨e, hbc⟩
  · rw [v7, hcfl, v4]; exact a8
  · rw [k8]
    intro p hp
    refine (a11 p hp).imp id ?_
    unfold PtL; rw [k1]; exact id
  · rw [v1]
    have : b.commitIndex ≤ s.commitIndex := h.cim
    omega
  · intro hl
    rw [hlog] at hl
    obtain ⟨b1, b2⟩ := a14 hl
    refine ⟨hcfl.trans b1, fun hbc => ?_⟩
    have hsc := b2 hbc
    rcases v9 with ⟨e, _⟩ | ⟨e, _, _⟩
    · rw [e]; exact hsc
    · have e' : s.configs.isCommitted = false := e
      have hsc' : s.configs.isCommitted = true := hsc
      rw [hsc'] at e'; cases e'
  · intro hp
    rw [v8] at hp
    rw [hlog, v1]
    have hg := h0.good hp
    have hbl : b.log.entries.length ≤ (s.log.commitN i).entries.length := by rw [c2]; exact lj_len h
    exact good_commit (Q := Q) hg (Nat.le_refl _) h.cim hi (by rw [← h.start]; exact hst) (by rw [c2]; exact hlen) hbl
      hifl q1 q2 (fun j hj => (q4 j hj).imp (fun x => x.1) id) v9

/-- **the instance** -/
theorem lj_closed (b : Node) (B : Nat → Nat → Prop) (hb : MBase b B) : GClosed B (LJ b B) where
  panic := fun s site h => lj_panic site h
  reply := fun s t r h => lj_reply t r h
  point := fun s n h => lj_point n h
  fsm := fun s f h => lj_congr h rfl id
  popOrder := fun s h => lj_congr h rfl id
  ldr := fun s l h hl => lj_ldr l h hl
  append := fun s e h hi ht hty => lj_append e h hi ht hty
  appendCfg := fun s e c h hc hi ht he => lj_appendCfg e c h hc hi ht he
  appendCfgFail := fun s e site h _ hi ht _ => lj_appendCfgFail e site h hi ht
  commit := fun s i h hi hst hm => lj_commit hb i h hi hst hm

/-! ## Part C: `leader.init` and one whole step -/

/-- what a node that cannot change its configuration keeps through `checkConfigActions` -/
def Frozen (s x : Node) : Prop :=
  x.canChangeConfig = false ∧ x.ldr.transfer = s.ldr.transfer ∧ x.ldr.node = s.ldr.node

theorem frozen_panic {s x : Node} (site : String) (h : Frozen s x) : Frozen s (x.panic site) := by
  unfold Node.panic; split
  · exact h
  · exact h

theorem frozen_setRepl {s x : Node} (r : Repl) (h : Frozen s x) : Frozen s (x.setRepl r) := h

theorem checkConfigAction_frozen {s : Node} (n : Nat) (x : Node) (t : Nat) (c : Config) (id : Nat) (h : Frozen s x) :
    Frozen s (checkConfigAction n x t c id) := by
  cases n with
  | zero => unfold checkConfigAction; exact frozen_panic _ h
  | succ n =>
    unfold checkConfigAction; dsimp only
    split
    · exact h
    · rename_i st _
      split
      · exact h
      · split
        · exact frozen_setRepl _ h
        · have hc : (x.setRepl (roundStep x.lastLogIndex (c.get id).nextAction st).1).canChangeConfig = false := h.1
          rw [hc]
          exact frozen_setRepl _ h

/-- a leader that cannot change its configuration (at `leader.init`: nothing of its term is committed yet) keeps its
cached entry and its transfer record through `checkConfigActions` -/
theorem checkConfigActions_frozen (n : Nat) (s : Node) (t : Nat) (c : Config) (h : s.canChangeConfig = false) :
    Frozen s (checkConfigActions n s t c) := by
  cases n with
  | zero => unfold checkConfigActions; exact frozen_panic _ ⟨h, rfl, rfl⟩
  | succ n =>
    unfold checkConfigActions; dsimp only
    rw [if_neg (fun hc => by rw [h] at hc; cases hc.1)]
    dsimp only
    have key : ∀ (xs : List Nat) (x : Node), Frozen s x →
        Frozen s (xs.foldl (fun s id => match s.findRepl? id with
          | some _ => checkConfigAction n s t c id
          | none => s) x) := by
      intro xs
      induction xs with
      | nil => intro x hx; exact hx
      | cons a as ih =>
        intro x hx
        apply ih
        dsimp only
        split
        · exact checkConfigAction_frozen _ _ _ _ _ hx
        · exact hx
    exact key _ _ ⟨h, rfl, rfl⟩

/-- what `leader.init` needs to know about the node that just became leader -/
structure InitHypM (x : Node) : Prop where
  nwf : NWF x
  lwf : C06.LogWF x.log
  wf : C05.VoteWF x
  role : x.role = .leader
  voter : x.configs.latest.isVoter x.nid = true
  cl : CfgLast x.log.entries x.configs.latest
  cile : x.commitIndex ≤ x.lastLogIndex

theorem initBase_baseM {x : Node} (hx : InitHypM x) : MBase (initBase x) AF := by
  obtain ⟨c1, c2, c3, c4, c5, c6, c7, _⟩ := initBase_lobs x
  unfold Core at c1
  simp only [Prod.mk.injEq] at c1
  obtain ⟨e1, e2, e3, e4, e5, e6, e7, _⟩ := c1
  have g1 : C06.LogWF (initBase x).log := by rw [e1]; exact hx.lwf
  have hcl : CfgLast (initBase x).log.entries (initBase x).configs.latest := by rw [e1, c6]; exact hx.cl
  refine ⟨nwf_congr hx.nwf e1 e2 e3 e4 e5, g1, ?_, c2.trans hx.role, ?_, ?_, fun j m hB => hB.elim, ?_, hcl, ?_, ?_⟩
  rotate_right
  · rw [c7, e1, ← hx.nwf.last]; exact hx.cile
  · unfold C05.VoteWF; rw [e7, e6, c5, c4]; exact hx.wf
  · rw [initBase_ldr]
    show 1 ≤ x.lastLogIndex + 1
    exact Nat.le_add_left _ _
  · intro k hk hk2
    rw [initBase_ldr] at hk
    have hk' : x.lastLogIndex + 1 ≤ k := hk
    rw [e1] at hk2
    have := hx.nwf.last
    omega
  · rw [initBase_ldr, c6, c3]; exact ⟨rfl, rfl⟩
  · intro _
    left
    rw [initBase_ldr, c6]
    have := hx.cl.index_le (fun y hy => (contig_index_le hx.nwf.contig y hy).2)
    show x.configs.latest.index < x.lastLogIndex + 1
    rw [hx.nwf.last]; omega

/-- **`leader.init`** — any configuration: relative to the fresh leader record the invariant holds, and at least one
entry (the no-op of the new term) was appended. -/
theorem leaderInit_lj {x : Node} (hx : InitHypM x) :
    LJ (initBase x) AF x.leaderInit ∧ x.log.entries.length < x.leaderInit.log.entries.length := by
  have hb := initBase_baseM hx
  have L := lj_closed (initBase x) AF hb
  have h0 : LJ (initBase x) AF (initBase x) := lj_refl hb (fun r hr => by rw [initBase_ldr] at hr; cases hr)
  have t0 : (initBase x).ldr.transfer.active = false := by rw [initBase_ldr]; rfl
  obtain ⟨c1, _, c3, _, _, c6, c7, _⟩ := initBase_lobs x
  have hx0 : (initBase x).log.entries = x.log.entries := by
    unfold Core at c1; simp only [Prod.mk.injEq] at c1; rw [c1.1]
  have hlli : (initBase x).lastLogIndex = x.lastLogIndex := by
    unfold Core at c1; simp only [Prod.mk.injEq] at c1; exact c1.2.1
  -- the replications
  have key : ∀ (ns : List CNode) (s : Node), LJ (initBase x) AF s → s.ldr.transfer.active = false →
      s.commitIndex = x.commitIndex →
      LJ (initBase x) AF (ns.foldl (fun s n => if n.id = s.nid then s else s.addReplication n) s) ∧
      (ns.foldl (fun s n => if n.id = s.nid then s else s.addReplication n) s).ldr.transfer.active = false ∧
      (ns.foldl (fun s n => if n.id = s.nid then s else s.addReplication n) s).commitIndex = x.commitIndex := by
    intro ns
    induction ns with
    | nil => intro s hs ht hc; exact ⟨hs, ht, hc⟩
    | cons a as ih =>
      intro s hs ht hc
      apply ih
      · dsimp only
        split
        · exact hs
        · exact L.addReplication_g _ _ hs
      · dsimp only
        split
        · exact ht
        · rw [(addReplication_ldr s a).1]; exact ht
      · dsimp only
        split
        · exact hc
        · rw [(CfgRel.q_addReplication s a).commitIndex]; exact hc
  obtain ⟨h2, t2, ci2⟩ := key x.configs.latest.nodes (initBase x) h0 t0 c7
  have e : x.leaderInit = storeEntry (fuelFor 1)
      (checkConfigActions (fuelFor 0)
        ((initBase x).configs.latest.nodes.foldl (fun s n => if n.id = s.nid then s else s.addReplication n) (initBase x)) 0
        ((initBase x).configs.latest.nodes.foldl (fun s n => if n.id = s.nid then s else s.addReplication n) (initBase x)).configs.latest)
      [{ typ := etNop }] := rfl
  rw [← c6] at h2 t2 ci2
  generalize hs2 : (initBase x).configs.latest.nodes.foldl (fun s n => if n.id = s.nid then s else s.addReplication n)
    (initBase x) = s2 at h2 t2 ci2 e
  have hcan : s2.canChangeConfig = false := by
    unfold Node.canChangeConfig
    have h1 : s2.ldr.startIndex = x.lastLogIndex + 1 := by rw [h2.start, initBase_ldr]; rfl
    have h3 := hx.cile
    simp only [Bool.and_eq_false_iff, decide_eq_false_iff_not]
    right
    rw [ci2, h1]; omega
  have h3 : LJ (initBase x) AF (checkConfigActions (fuelFor 0) s2 0 s2.configs.latest) :=
    L.checkConfigActions_g _ _ _ _ h2
  obtain ⟨_, f2, f3⟩ := checkConfigActions_frozen (fuelFor 0) s2 0 s2.configs.latest hcan
  generalize checkConfigActions (fuelFor 0) s2 0 s2.configs.latest = s3 at h3 f2 f3 e
  have hnc : ∀ q ∈ [({ typ := etNop } : QItem)], q.typ ≠ etConfig := by
    intro q hq; rw [List.mem_singleton.mp hq]; decide
  have h4 : LJ (initBase x) AF x.leaderInit := by rw [e]; exact L.storeEntry_g _ _ _ h3 (Or.inl hnc)
  refine ⟨h4, ?_⟩
  -- the no-op is appended
  have hlen2 : s2.log.entries.length = (initBase x).log.entries.length := by
    -- nothing was appended while the replications were added
    have : ∀ (ns : List CNode) (s : Node),
        (ns.foldl (fun s n => if n.id = s.nid then s else s.addReplication n) s).log.entries = s.log.entries := by
      intro ns
      induction ns with
      | nil => intro s; rfl
      | cons a as ih =>
        intro s
        rw [List.foldl_cons, ih]
        split
        · rfl
        · exact (CfgRel.q_addReplication s a).entries
    rw [← hs2, this]
  have hcfg2 : s2.configs.latest = (initBase x).configs.latest := (h2.keep hlen2).1
  have hv3 : s3.ldr.node.voter = true := by
    rw [f3, h2.cache.2, hcfg2, h2.nid, c6, c3]
    exact isVoter_get _ _ hx.voter
  have ht3 : s3.ldr.transfer.active = false := by rw [f2]; exact t2
  obtain ⟨_, q2, _⟩ := C03.leader_queue_matches_log 67 s3 [{ typ := etNop }] (by decide) ht3 hv3 hnc
  have hext := extends_after_items 67 s3 [{ typ := etNop }]
  have hlen := hext.2.length_le
  rw [q2] at hlen
  have hl3 := lj_len h3
  rw [e]
  show x.log.entries.length < (storeEntry (67 + 1) s3 [{ typ := etNop }]).log.entries.length
  rw [hx0] at hl3
  simp only [List.length_append] at hlen
  have : ((C03.assign s3.lastLogIndex s3.term [({ typ := etNop } : QItem)]).filter
      (fun q => isLogEntryTyp q.typ)).length = 1 := by
    simp [C03.assign, isLogEntryTyp, etNop, etRead, etDirtyRead, etBarrier]
  rw [List.length_map, this] at hlen
  omega

/-- **a commit moment of a step** (`pre`: the state before the step, `post`: after it, `T`: the term in which the node
was leader during the step): the commit index moved beyond `pre`'s, to an index that holds an entry of term `T` — the
leader's own term —, within the log of that moment (`len`) and inside the part that is flushed now; `cfg` was THE LAST
CONFIGURATION ENTRY OF THE LEADER'S LOG AT THAT MOMENT (`post.log.entries.take len`), and a majority `Q` of ITS voters
(a sublist of `cfg.voters`, more than half of it) had reached the index — the leader itself, the others by a backed
match index. -/
def SEv (pre : Node) (B : Nat → Nat → Prop) (post : Node) (T : Nat) (ev : CEvt) : Prop :=
  pre.commitIndex < ev.ci ∧ ev.ci ≤ ev.len ∧ pre.log.entries.length ≤ ev.len ∧ ev.len ≤ post.log.entries.length ∧
  Holds post.log.entries ev.ci T ∧ ev.ci ≤ post.log.flushed ∧
  CfgLast (post.log.entries.take ev.len) ev.cfg ∧ ev.Q.Sublist ev.cfg.voters ∧
  2 * ev.Q.length > ev.cfg.voters.length ∧
  ∀ j ∈ ev.Q, j = pre.nid ∨ (pre.role = .leader ∧ T = pre.term ∧ ∃ m, ev.ci ≤ m ∧ B j m)

/-- **a configuration entry appended in a step, at index `k`**: `P` was the last configuration entry of the log before
it; at that moment the leader's commit index `ci` held an entry of the leader's own term `T` (an entry of its term was
committed) and covered `P` (the previous configuration was committed); `ci` was the commit index before the step — the
node was leader then, and `ci` at or beyond its `startIndex` — or the index of a commit moment of this step that
happened while the log was shorter than `k`. -/
def SChg (pre post : Node) (T : Nat) (L : List CEvt) (k : Nat) : Prop :=
  ∃ P ci, CfgLast (post.log.entries.take (k - 1)) P ∧ Holds post.log.entries ci T ∧ P.index ≤ ci ∧
    ((ci = pre.commitIndex ∧ pre.role = .leader ∧ pre.ldr.startIndex ≤ ci) ∨ ∃ ev ∈ L, ev.ci = ci ∧ ev.len < k)

/-- the commit moments `L` (newest first) and the configuration entries of a step -/
structure MEvs (pre : Node) (B : Nat → Nat → Prop) (post : Node) (T : Nat) (L : List CEvt) : Prop where
  ev : ∀ ev ∈ L, SEv pre B post T ev
  sorted : L.Pairwise (fun n o => o.ci < n.ci ∧ o.len ≤ n.len)
  head : post.commitIndex = ((L.head?).map (·.ci)).getD pre.commitIndex
  chg : ∀ e ∈ post.log.entries, pre.log.entries.length < e.index → e.typ = etConfig → SChg pre post T L e.index
  cl : CfgLast post.log.entries post.configs.latest
  /-- the entries appended in the step carry the term `T` -/
  newT : ∀ e ∈ post.log.entries, pre.log.entries.length < e.index → e.term = T
  /-- if anything was committed or appended: `T` is the term in which the node was leader during the step — its term
  before the step if it was leader then; else it became leader in the step (`leader.init` appended the no-op), is leader
  of `T` now and has committed nothing yet. Afterwards its term is still `T`, or it is higher and the node has not voted
  in it -/
  src : (L ≠ [] ∨ pre.log.entries.length < post.log.entries.length) →
    T ≤ post.term ∧ (post.term = T ∨ post.votedFor = 0) ∧
    ((pre.role = .leader ∧ T = pre.term) ∨ (post.role = .leader ∧ T = post.term ∧ L = []))
  /-- a step with a commit moment makes no new vote durable: at every crash point, and at its end, the durable
  (term, vote) is the one before the step, or a higher term without vote -/
  trp : L ≠ [] → PairOK pre AF post.term post.votedFor ∧ ∀ p ∈ post.trace, PairOK pre AF p.2.term p.2.vote
  /-- `configs` is untouched, or the latest configuration is covered by the commit index, or it is PENDING:
  `configs.committed` is the configuration entry before it (and no configuration entry lies between them) -/
  cmtd : post.configs = pre.configs ∨ post.configs.latest.index ≤ post.commitIndex ∨
    (post.configs.committed.index < post.configs.latest.index ∧
      CfgLast (post.log.entries.take (post.configs.latest.index - 1)) post.configs.committed)

/-- **summary of a step that is not an append request**, relative to the state `pre` it starts from — as
`CommitRel.NStep`, without the restriction to a stable configuration: instead of `post.configs.latest =
pre.configs.latest` and one piece of commit evidence, the list of commit moments and the guards of every configuration
entry (`MEvs`, claimed when nothing failed). -/
structure NStepM (pre : Node) (A : Nat → Nat → Prop) (B : Nat → Nat → Prop) (post : Node) : Prop where
  lwf : C06.LogWF post.log
  flush : pre.log.flushed ≤ post.log.flushed
  pair : PairOK pre A post.term post.votedFor
  tr : ∀ p ∈ post.trace, pre.log.entries.take pre.log.flushed <+: p.2.log.entries ∧
    PairOK pre A p.2.term p.2.vote ∧ DW p.2
  cim : pre.commitIndex ≤ post.commitIndex
  /-- claimed when nothing failed — and in any case for a node that was follower before the step -/
  evs : (post.panicked = none ∨ pre.role = .follower) → ∃ T L, MEvs pre B post T L
  ldr : post.role = .leader →
    (pre.role = .leader ∧ post.term = pre.term ∧ LeadOK B post) ∨ LeadOK AF post
  cc : post.role = .leader → post.panicked = none → post.configs.isCommitted = true →
    post.configs.latest.index < post.ldr.startIndex ∨ post.configs.latest.index ≤ post.commitIndex
  cache : post.role = .leader → post.ldr.node = post.configs.latest.get post.nid
  /-- a leader keeps its start index, unless it was elected in this step (then nothing of its term is committed) -/
  start : post.role = .leader → post.panicked = none →
    (pre.role = .leader ∧ post.term = pre.term ∧ post.ldr.startIndex = pre.ldr.startIndex) ∨
    post.commitIndex < post.ldr.startIndex
  grow : pre.log.entries.length < post.log.entries.length →
    (pre.role = .leader ∧ lastTerm post.log.entries = pre.term) ∨ (post.panicked = none → post.role = .leader)
  trgrow : ∀ p ∈ post.trace, pre.log.entries.length < p.2.log.entries.length →
    (p.2.term = post.term ∧ p.2.vote = post.votedFor) ∨
    (pre.role = .leader ∧ lastTerm p.2.log.entries = pre.term)

/-- entries at or beyond `startIndex` carry the leader's term, also after the handler -/
theorem lj_own {b s : Node} {B : Nat → Nat → Prop} (hb : MBase b B) (h : LJ b B s) :
    ∀ k, b.ldr.startIndex ≤ k → k ≤ s.log.entries.length → termAt s.log.entries k = b.term := by
  intro k hk hk2
  obtain ⟨es, he, hes⟩ := h.ext
  rw [he] at hk2 ⊢
  by_cases hkb : k ≤ b.log.entries.length
  · rw [termAt_append_left _ _ _ hkb]; exact hb.own k hk hkb
  · exact termAt_append_right _ _ _ hes k (by omega) hk2

theorem lj_leadOK {b s : Node} {B : Nat → Nat → Prop} (hb : MBase b B) (h : LJ b B s)
    (hl : b.ldr.startIndex ≤ s.log.entries.length) : LeadOK B s := by
  have hown : ∀ k, s.ldr.startIndex ≤ k → k ≤ s.log.entries.length → termAt s.log.entries k = s.term := by
    intro k hk hk2
    rw [h.term]
    exact lj_own hb h k (by rw [← h.start]; exact hk) hk2
  have hs := hb.start
  refine ⟨h.cache.1, by rw [h.start]; exact hb.start, hown, h.mi, by rw [h.start]; exact hl, ?_⟩
  rw [h.nwf.lastT, ← termAt_length]
  exact hown _ (by rw [h.start]; exact hl) (Nat.le_refl _)

/-- summary of a step whose result is related to its start by `SX` alone -/
theorem nstepM_sx {b post : Node} {A : Nat → Nat → Prop} {B : Nat → Nat → Prop} {K : Prop}
    (hbtr : b.trace = []) (hbn : NWF b) (hbl : C06.LogWF b.log) (hcl : CfgLast b.log.entries b.configs.latest)
    (h : SX b A K post)
    (hld : post.role = .leader → b.role = .leader ∧ post.term = b.term ∧ LeadOK B post ∧ post.ldr = b.ldr)
    (hcc : b.role = .leader → b.configs.isCommitted = true →
      b.configs.latest.index < b.ldr.startIndex ∨ b.configs.latest.index ≤ b.commitIndex)
    (hca : b.role = .leader → b.ldr.node = b.configs.latest.get b.nid) :
    NStepM b A B post := by
  have hlog := sx_log h
  refine ⟨by rw [hlog]; exact hbl, by rw [hlog]; exact Nat.le_refl _, h.pair, ?_, Nat.le_of_eq h.ci.symm, ?_,
    fun hl => Or.inl ⟨(hld hl).1, (hld hl).2.1, (hld hl).2.2.1⟩, ?_, ?_,
    fun hl _ => Or.inl ⟨(hld hl).1, (hld hl).2.1, by rw [(hld hl).2.2.2]⟩,
    fun hg => by rw [hlog] at hg; omega, fun p hp hg => ?_⟩
  · intro p hp
    rcases h.tr p hp with hp' | ⟨q1, _, q3⟩
    · rw [hbtr] at hp'; cases hp'
    · refine ⟨?_, q3, ?_⟩
      · rw [q1, durable_entries hbn]
        exact List.prefix_refl _
      · show NLog.lastSegPrev p.2.log ≤ p.2.log.entries.length
        rw [q1]; exact durable_dw_log _ hbn.prev hbl
  · intro _
    refine ⟨0, [], ⟨(fun ev hev => nomatch hev), List.Pairwise.nil, h.ci, ?_, (by rw [hlog, h.cfg]; exact hcl), ?_, ?_,
      ?_, Or.inl h.cfg⟩⟩
    · intro e he hlt
      rw [hlog] at he
      have := (contig_index_le hbn.contig e he).2
      omega
    · intro e he hlt
      rw [hlog] at he
      have := (contig_index_le hbn.contig e he).2
      omega
    · rintro (h1 | h1)
      · exact absurd rfl h1
      · rw [hlog] at h1; omega
    · intro h1; exact absurd rfl h1
  · intro hl _ hc
    obtain ⟨r1, _, _, r4⟩ := hld hl
    rw [h.cfg, r4, h.ci]
    exact hcc r1 (by rw [← h.cfg]; exact hc)
  · intro hl
    obtain ⟨r1, _, _, r4⟩ := hld hl
    rw [r4, h.cfg, h.nid]; exact hca r1
  · exfalso
    rcases h.tr p hp with hp' | ⟨q1, _, _⟩
    · rw [hbtr] at hp'; cases hp'
    · rw [q1, durable_entries hbn, List.length_take] at hg
      omega


/-- summary of a step that went through a leader handler (or `leader.init`): `b0` is the state the handler started
from (related to the start `b` of the step by `SX`), `m` its result, and the step ended in `m` or stepped down / was
released from it -/
theorem nstepM_lj {b b0 m post : Node} {A : Nat → Nat → Prop} {B B0 : Nat → Nat → Prop} {K0 : Prop}
    (hbtr : b.trace = []) (hbn : NWF b) (hbl : C06.LogWF b.log) (h0 : SX b A K0 b0) (hb0 : MBase b0 B0)
    (hm : LJ b0 B0 m)
    (hpost : post = m ∨ (post.role = .follower ∧ SX m AF False post))
    (hB0 : ∀ j k, B0 j k → b.role = .leader ∧ b0.term = b.term ∧ B j k)
    (hsrc : (b.role = .leader ∧ b0.term = b.term ∧ b0.ldr.startIndex = b.ldr.startIndex ∧ b0.trace = [] ∧
        b0.votedFor = b.votedFor) ∨
      (Core post = Core m ∧ post.votedFor = m.votedFor ∧ b0.commitIndex < b0.ldr.startIndex ∧
        (post.panicked = none → post = m ∧ m.role = .leader ∧ m.commitIndex = b0.commitIndex)))
    (hlast : b0.ldr.startIndex ≤ m.log.entries.length)
    (hpan : post.panicked = none → m.panicked = none) (hnf : b.role ≠ .follower)
    (hld : post = m → LeadOK B0 m → (b.role = .leader ∧ post.term = b.term ∧ LeadOK B post) ∨ LeadOK AF post) :
    NStepM b A B post := by
  have hlog0 := sx_log h0
  have hwfm := lj_wf hb0 hm
  -- the end of the step has the log, commit index and configuration of `m`
  have hpm : SX m AF False post := by
    rcases hpost with e | ⟨_, e⟩
    · rw [e]; exact sx_refl m AF False hwfm
    · exact e
  have hlogp := sx_log hpm
  obtain ⟨es, he, hes⟩ := hm.ext
  have hmpair : PairOK b A m.term m.votedFor := by
    rw [hm.term, hm.vote.1]; exact h0.pair
  have hdur : b.log.entries.take b.log.flushed <+: m.log.entries.take m.log.flushed := by
    rw [← hlog0]
    exact take_prefix_take (by rw [he]; exact List.prefix_append _ _) hm.flush
  have hgrow : b.log.entries.length < post.log.entries.length →
      (b.role = .leader ∧ lastTerm post.log.entries = b.term) ∨ (post.panicked = none → post.role = .leader) := by
    intro hg
    rcases hsrc with ⟨a1, a2, _, _, _⟩ | a
    · left
      refine ⟨a1, ?_⟩
      -- the appended entries carry the leader's term
      rw [hlogp, he] at hg ⊢
      rw [← hlog0, List.length_append] at hg
      have hnil : es ≠ [] := by intro e; rw [e] at hg; simp at hg
      unfold lastTerm
      rw [List.getLast?_append, List.getLast?_eq_some_getLast hnil]
      show (es.getLast hnil).term = b.term
      rw [hes _ (List.getLast_mem hnil)]; exact a2
    · right
      intro hp
      obtain ⟨e1, e2, _⟩ := a.2.2.2 hp
      rw [e1]; exact e2
  have hes' : ∀ e ∈ es, e.term = b0.term := hes
  have htg : ∀ p ∈ post.trace, b.log.entries.length < p.2.log.entries.length →
      (p.2.term = post.term ∧ p.2.vote = post.votedFor) ∨
      (b.role = .leader ∧ lastTerm p.2.log.entries = b.term) := by
    intro p hp hg
    -- a crash point of the leader handler
    have fromL : p ∈ m.trace → (p.2.term = m.term ∧ p.2.vote = m.votedFor) ∨
        (b.role = .leader ∧ lastTerm p.2.log.entries = b.term) := by
      intro hpm'
      rcases hm.tr p hpm' with hp'' | ⟨_, _, r3, _, r5, r6, _⟩
      · exfalso
        rcases h0.tr p hp'' with hp3 | ⟨q1, _, _⟩
        · rw [hbtr] at hp3; cases hp3
        · rw [q1, durable_entries hbn, List.length_take] at hg
          omega
      · rcases hsrc with ⟨a, a', _, _, _⟩ | a
        · right
          refine ⟨a, ?_⟩
          rw [he] at r3
          rw [← a']
          exact lastTerm_ext hes' r3 (by rw [hlog0]; exact hg)
        · left
          rw [r5, r6, hm.term, hm.vote.1]
          exact ⟨hb0.wf.1, hb0.wf.2⟩
    rcases hsrc with ⟨a, a', _, _, _⟩ | ⟨ac, av, _⟩
    · rcases hpm.tr p hp with hp' | ⟨q1, _, _⟩
      · rcases fromL hp' with r | r
        · right
          refine ⟨a, ?_⟩
          rcases hm.tr p hp' with hp'' | ⟨_, _, r3, _, _, _, _⟩
          · exfalso
            rcases h0.tr p hp'' with hp3 | ⟨q1, _, _⟩
            · rw [hbtr] at hp3; cases hp3
            · rw [q1, durable_entries hbn, List.length_take] at hg
              omega
          · rw [he] at r3
            rw [← a']
            exact lastTerm_ext hes' r3 (by rw [hlog0]; exact hg)
        · exact Or.inr r
      · right
        refine ⟨a, ?_⟩
        rw [q1, durable_entries hm.nwf] at hg ⊢
        rw [← a']
        exact lastTerm_ext hes' (by rw [← he]; exact List.take_prefix _ _) (by rw [hlog0]; exact hg)
    · unfold Core at ac
      simp only [Prod.mk.injEq] at ac
      rw [ac.2.2.2.2.2.2.2] at hp
      rcases fromL hp with r | r
      · left; rw [ac.2.2.2.2.2.1, av]; exact r
      · exact Or.inr r
  have hci : post.commitIndex = m.commitIndex := hpm.ci
  refine ⟨by rw [hlogp]; exact hm.lwf, by rw [hlogp, ← hlog0]; exact hm.flush, pairOK_trans hmpair hpm.pair,
    ?_, by rw [hci, ← h0.ci]; exact hm.cim, ?_, ?_, ?_, ?_, ?_, hgrow, htg⟩
  · -- crash points
    intro p hp
    rcases hpm.tr p hp with hp' | ⟨q1, _, q3⟩
    · rcases hm.tr p hp' with hp'' | ⟨r1, r2, r3, r4, r5, r6, r7⟩
      · rcases h0.tr p hp'' with hp3 | ⟨q1, _, q3⟩
        · rw [hbtr] at hp3; cases hp3
        · refine ⟨?_, q3, ?_⟩
          · rw [q1, durable_entries hbn]; exact List.prefix_refl _
          · show NLog.lastSegPrev p.2.log ≤ p.2.log.entries.length
            rw [q1]; exact durable_dw_log _ hbn.prev hbl
      · refine ⟨by rw [← hlog0]; exact r4, ?_, r7⟩
        rw [r5, r6, hb0.wf.1, hb0.wf.2]; exact h0.pair
    · refine ⟨?_, pairOK_trans hmpair q3, ?_⟩
      · rw [q1, durable_entries hm.nwf]; exact hdur
      · show NLog.lastSegPrev p.2.log ≤ p.2.log.entries.length
        rw [q1]; exact durable_dw_log _ hm.nwf.prev hm.lwf
  · -- commit moments and configuration entries
    intro hp'
    have hp : post.panicked = none := hp'.resolve_right hnf
    obtain ⟨g1, _, g3, L, l1, l2, l3, l4⟩ := hm.good (hpan hp)
    have hbl0 : b0.log.entries.length = b.log.entries.length := by rw [hlog0]
    have hown := lj_own hb0 hm
    have hst := hb0.start
    refine ⟨b0.term, L, ⟨fun ev hev => ?_, l2, by rw [hci, ← h0.ci]; exact l3, fun e hel hlt ht => ?_,
      by rw [hlogp, hpm.cfg]; exact g1, fun e hel hlt => ?_, fun _ => ⟨?_, ?_, ?_⟩, fun hLne => ?_,
      by rw [hlogp, hpm.cfg, hci, ← h0.cfg]; exact g3⟩⟩
    rotate_right
    · -- no new vote in a step with a commit moment
      rcases hsrc with ⟨a1, a2, _, a4, a5⟩ | ⟨_, _, _, a⟩
      · have hbm : PairOK b AF m.term m.votedFor := by
          rw [hm.term, hm.vote.1, a2, a5]; exact ⟨Nat.le_refl _, Or.inr (Or.inl ⟨rfl, rfl⟩)⟩
        refine ⟨pairOK_trans hbm hpm.pair, fun p hpt => ?_⟩
        rcases hpm.tr p hpt with hp' | ⟨_, _, q3⟩
        · rcases hm.tr p hp' with hp'' | ⟨_, _, _, _, r5, r6, _⟩
          · rw [a4] at hp''; cases hp''
          · rw [r5, r6, hb0.wf.1, hb0.wf.2, a2, a5]
            exact ⟨Nat.le_refl _, Or.inr (Or.inl ⟨rfl, rfl⟩)⟩
        · exact pairOK_trans hbm q3
      · exfalso
        obtain ⟨_, _, e3⟩ := a hp
        cases L with
        | nil => exact hLne rfl
        | cons ev L' =>
          have h1 : m.commitIndex = ev.ci := l3
          have := (l1 ev (List.mem_cons_self ..)).1.1
          omega
    · obtain ⟨⟨a1, a2, a3, a4, a5, a6, a7, a8, a9⟩, afl⟩ := l1 ev hev
      refine ⟨by rw [← h0.ci]; exact a1, a3, by rw [← hbl0]; exact a4, by rw [hlogp]; exact a5, ?_,
        by rw [hlogp]; exact afl, by rw [hlogp]; exact a6, a7, a8, fun j hj => ?_⟩
      · rw [hlogp]
        exact ⟨by omega, by omega, hown _ a2 (by omega)⟩
      · rcases a9 j hj with e | ⟨k, hk, hB⟩
        · exact Or.inl (e.trans h0.nid)
        · obtain ⟨b1, b2, b3⟩ := hB0 j k hB
          exact Or.inr ⟨b1, b2, k, hk, b3⟩
    · rw [hlogp] at hel
      obtain ⟨P, ci, p1, p2, p3, p4⟩ := l4 e hel (by rw [hbl0]; exact hlt) ht
      unfold SChg
      rw [hlogp]
      refine ⟨P, ci, p1, ?_, p3, ?_⟩
      · have hle : ci ≤ m.log.entries.length := by
          rcases p4 with e1 | ⟨ev, hev, e1, _⟩
          · rw [e1]; exact Nat.le_trans hb0.cile (lj_len hm)
          · have := (l1 ev hev).1
            obtain ⟨_, _, a3, _, a5, _⟩ := this
            omega
        exact ⟨by omega, hle, hown _ p2 hle⟩
      · rcases p4 with e1 | p4
        · left
          rcases hsrc with ⟨a, _, a3, _, _⟩ | ⟨_, _, a3, _⟩
          · exact ⟨by rw [← h0.ci]; exact e1, a, by rw [← a3]; exact p2⟩
          · omega
        · exact Or.inr p4
    · rw [hlogp, he] at hel
      rcases List.mem_append.mp hel with hx | hx
      · have := (contig_index_le hb0.nwf.contig e hx).2
        omega
      · exact hes e hx
    · rw [← hm.term]; exact hpm.pair.1
    · rcases hpm.pair.2 with p0 | ⟨p1, _⟩ | p2
      · exact Or.inr p0
      · exact Or.inl (by rw [p1, hm.term])
      · exact p2.elim
    · rcases hsrc with ⟨a, a', _, _, _⟩ | ⟨_, _, _, a⟩
      · exact Or.inl ⟨a, a'⟩
      · obtain ⟨e1, e2, e3⟩ := a hp
        refine Or.inr ⟨by rw [e1]; exact e2, by rw [e1]; exact hm.term.symm, ?_⟩
        cases L with
        | nil => rfl
        | cons ev L' =>
          exfalso
          have h1 : m.commitIndex = ev.ci := l3
          have := (l1 ev (List.mem_cons_self ..)).1.1
          omega
  · intro hl
    rcases hpost with e | ⟨hf, _⟩
    · exact hld e (lj_leadOK hb0 hm hlast)
    · rw [hf] at hl; cases hl
  · intro hl hp hc
    rcases hpost with e | ⟨hf, _⟩
    · subst e
      have := (hm.good hp).cc hc
      rw [hm.start]; exact this
    · rw [hf] at hl; cases hl
  · intro hl
    rcases hpost with e | ⟨hf, _⟩
    · subst e; exact hm.cache.2
    · rw [hf] at hl; cases hl
  · intro hl hp
    rcases hpost with e | ⟨hf, _⟩
    · rcases hsrc with ⟨a1, a2, a3, _, _⟩ | ⟨_, _, a3, a4⟩
      · left
        subst e
        exact ⟨a1, by rw [hm.term]; exact a2, by rw [hm.start]; exact a3⟩
      · right
        obtain ⟨e1, _, e3⟩ := a4 hp
        subst e
        rw [e3, hm.start]; exact a3
    · rw [hf] at hl; cases hl

/-- **every case of `handle`** (append requests excepted; the operations of the model with membership changes:
`LogRel.OpOK` — no snapshot operations — and `CfgRel.OpOk` — no configuration entry in a client batch): either nothing
but role / leader id / (term, vote) / replies moved (`SX`), or the node is a leader and ran a leader handler
(`PostM (LJ b B)`), `ChangeConfig` requests included. -/
theorem handle_clsM (b : Node) (op : Op) (B : Nat → Nat → Prop) (hwf : C05.VoteWF b)
    (hboot : b.configs.isBootstrapped = true) (hok : OpOK op) (hcf : CfgRel.OpOk op)
    (happ : ∀ q, op ≠ .append q)
    (hld : b.role = .leader → MBase b B ∧ ∀ r ∈ b.ldr.repls, r.matchIndex = 0 ∨ B r.id r.matchIndex)
    (hupd : ∀ us, op = .replUpdates us → ∀ u ∈ us, ∀ v, u.upd = .matchIndex v → v = 0 ∨ B u.id v) :
    SX b (AOp b op) True (b.handle op) ∨ (b.role = .leader ∧ PostM (LJ b B) (b.handle op)) := by
  have S0 : SX b (AOp b op) True b := sx_refl b _ _ hwf
  -- the leader cases
  have LD : b.role = .leader → (∀ x, LJ b B x → C05.VoteWF x) ∧ GClosed B (LJ b B) ∧ LJ b B b := fun hr =>
    ⟨fun x hx => lj_wf (hld hr).1 hx, lj_closed b B (hld hr).1, lj_refl (hld hr).1 (hld hr).2⟩
  cases op <;> unfold Node.handle <;> dsimp only
  case vote q =>
    left
    exact sx_rpcDone _ _ ((sx_onVoteRequest q (sx_refl b _ _ hwf) ⟨rfl, rfl⟩).mono
      (fun t c h => Or.inl ⟨q, rfl, h⟩))
  case append q => exact absurd rfl (happ q)
  case install q => exact absurd hok (by simp [OpOK])
  case timeoutNow => exact Or.inl (sx_rpcDone _ _ (sx_onTimeoutNow S0))
  case identity a c d => exact Or.inl (sx_rpcReply _ S0)
  case disconnected n =>
    left
    split
    · exact sx_setLeader _ S0
    · exact S0
  case timeout =>
    left
    split
    · exact sx_followerTimeout S0
    · exact sx_startElection (aop_self b _) S0
    · exact sx_checkQuorum S0
  case newEntries batch =>
    split
    · rename_i hr
      obtain ⟨_, L, H0⟩ := LD hr
      exact Or.inr ⟨hr, Or.inl (L.storeEntry_g _ _ _ H0 (Or.inl hcf))⟩
    · exact Or.inl (sx_rejectEntries _ S0)
  case changeConfig t c =>
    split
    · rename_i hr
      obtain ⟨_, L, H0⟩ := LD hr
      refine Or.inr ⟨hr, Or.inl (L.onChangeConfig_g _ _ _ H0 (fun x hx hl hc => ?_))⟩
      have hlen : x.log.entries.length = b.log.entries.length := by
        rw [← hx.nwf.last, hl, (hld hr).1.nwf.last]
      exact ⟨(hx.keep hlen).2 hc.1, by rw [hx.start]; exact Nat.le_trans hc.2 hx.cim⟩
    · unfold Node.bootstrap
      rw [if_pos hboot]
      exact Or.inl (sx_reply _ _ S0)
  case takeSnapshot t th => exact Or.inl (sx_onTakeSnapshot _ _ S0)
  case snapRun => exact absurd hok (by simp [OpOK])
  case snapTaken => exact absurd hok (by simp [OpOK])
  case waitStable t =>
    split
    · rename_i hr
      obtain ⟨_, L, H0⟩ := LD hr
      exact Or.inr ⟨hr, Or.inl (L.onWaitForStable_g _ _ H0)⟩
    · exact Or.inl (sx_reply _ _ S0)
  case transfer t g =>
    split
    · rename_i hr
      obtain ⟨_, L, H0⟩ := LD hr
      exact Or.inr ⟨hr, Or.inl (L.onTransfer_g _ _ _ H0)⟩
    · exact Or.inl (sx_reply _ _ S0)
  case voteResult e t r =>
    left
    split
    · exact sx_onVoteResult _ _ _ S0
    · exact S0
  case replUpdates us =>
    split
    · rename_i hr
      obtain ⟨W, L, H0⟩ := LD hr
      exact Or.inr ⟨hr, L.checkReplUpdates_p W us hok (hupd us rfl) _ H0⟩
    · exact Or.inl S0
  case transferTimeout =>
    split
    · rename_i hr
      obtain ⟨_, L, H0⟩ := LD hr.1
      exact Or.inr ⟨hr.1, Or.inl (L.replyTransfer_g _ _ H0)⟩
    · exact Or.inl S0
  case timeoutNowResult a c d =>
    split
    · rename_i hr
      obtain ⟨_, L, H0⟩ := LD hr.1
      exact Or.inr ⟨hr.1, Or.inl (L.onTimeoutNowResult_g _ _ _ _ H0)⟩
    · exact Or.inl S0
  case newTermTimeout =>
    split
    · rename_i hr
      obtain ⟨_, L, H0⟩ := LD hr.1
      exact Or.inr ⟨hr.1, Or.inl (L.tryTransfer_g _ (L.ldrSame_g _ _ H0 rfl rfl rfl rfl))⟩
    · exact Or.inl S0
  case shutdown => exact absurd hok (by simp [OpOK])

theorem initHypM_of_sx {b x : Node} {A : Nat → Nat → Prop} {K : Prop} (hbn : NWF b) (hbl : C06.LogWF b.log)
    (h : SX b A K x) (hr : x.role = .leader) (hv : b.configs.latest.isVoter b.nid = true)
    (hcl : CfgLast b.log.entries b.configs.latest) (hci : b.commitIndex ≤ b.lastLogIndex) : InitHypM x := by
  have e := h.core
  unfold LCore at e
  simp only [Prod.mk.injEq] at e
  obtain ⟨e1, e2, e3, e4, e5⟩ := e
  exact ⟨nwf_congr hbn e1 e2 e3 e4 e5, by rw [e1]; exact hbl, h.wf, hr, by rw [h.cfg, h.nid]; exact hv,
    by rw [e1, h.cfg]; exact hcl, by rw [h.ci, e2]; exact hci⟩

theorem sx_initBase {b x : Node} {A : Nat → Nat → Prop} {K : Prop} (h : SX b A K x) : SX b A False (initBase x) := by
  unfold initBase
  exact sx_withLdr _ (sx_assert _ _ h.weaken)

theorem cfgLast_unique {es : List Entry} {c c' : Config} (hc : ∀ k (_ : k < es.length), es[k].index = k + 1)
    (h : CfgLast es c) (h' : CfgLast es c') : c = c' := by
  obtain ⟨⟨e, he, hec⟩, h2⟩ := h
  obtain ⟨⟨e', he', hec'⟩, h2'⟩ := h'
  obtain ⟨t1, i1, _⟩ := config?_facts hec
  obtain ⟨t1', i1', _⟩ := config?_facts hec'
  have a := h2 e' he' t1'
  have a' := h2' e he t1
  have hi : e.index = e'.index := by omega
  obtain ⟨k, hk, rfl⟩ := List.getElem_of_mem he
  obtain ⟨k', hk', rfl⟩ := List.getElem_of_mem he'
  rw [hc k hk, hc k' hk'] at hi
  have : k = k' := by omega
  subst this
  rw [hec] at hec'
  injection hec'

theorem exists_min_len : ∀ (L : List CEvt), L ≠ [] → ∃ ev0 ∈ L, ∀ ev ∈ L, ev0.len ≤ ev.len := by
  intro L
  induction L with
  | nil => intro h; exact absurd rfl h
  | cons a as ih =>
    intro _
    by_cases has : as = []
    · subst has
      exact ⟨a, List.mem_cons_self .., fun ev hev => by rw [List.mem_singleton.mp hev]; exact Nat.le_refl _⟩
    · obtain ⟨m, hm, hmin⟩ := ih has
      by_cases hle : a.len ≤ m.len
      · refine ⟨a, List.mem_cons_self .., fun ev hev => ?_⟩
        rcases List.mem_cons.mp hev with e | e
        · rw [e]; exact Nat.le_refl _
        · exact Nat.le_trans hle (hmin ev e)
      · refine ⟨m, List.mem_cons_of_mem _ hm, fun ev hev => ?_⟩
        rcases List.mem_cons.mp hev with e | e
        · rw [e]; omega
        · exact hmin ev e

theorem length_le_one_of_all_eq {Q : List Nat} {a : Nat} (hn : Q.Nodup) (h : ∀ j ∈ Q, j = a) : Q.length ≤ 1 := by
  cases Q with
  | nil => simp
  | cons x xs =>
    cases xs with
    | nil => simp
    | cons y ys =>
      exfalso
      have hx := h x (List.mem_cons_self ..)
      have hy := h y (List.mem_cons_of_mem _ (List.mem_cons_self ..))
      have := (List.nodup_cons.mp hn).1
      apply this
      rw [hx, ← hy]
      exact List.mem_cons_self ..

/-- **nothing is committed inside `leader.init`** when the configuration has more than one voter (no match index is
backed yet), so the node is leader afterwards -/
theorem init_no_commit {b0 m : Node} (hb0 : MBase b0 AF) (hm : LJ b0 AF m) (hp : m.panicked = none)
    (hst : b0.ldr.startIndex = b0.log.entries.length + 1) (hnd : b0.configs.latest.voters.Nodup)
    (hq : b0.configs.latest.voters.length ≠ 1) :
    m.role = .leader ∧ m.commitIndex = b0.commitIndex := by
  obtain ⟨_, _, _, L, l1, _, l3, l4⟩ := hm.good hp
  have hL : L = [] := by
    apply Classical.byContradiction
    intro hne
    obtain ⟨ev0, hev0, hmin⟩ := exists_min_len L hne
    obtain ⟨⟨a1, a2, a3, a4, a5, a6, a7, a8, a9⟩, _⟩ := l1 ev0 hev0
    obtain ⟨es, he, _⟩ := hm.ext
    have hcile := hb0.cile
    -- no configuration entry was appended before that moment
    have hno : ∀ e ∈ m.log.entries, b0.log.entries.length < e.index → e.typ = etConfig → ev0.len < e.index := by
      intro e hel hlt ht
      obtain ⟨P, ci, _, p2, _, p4⟩ := l4 e hel hlt ht
      rcases p4 with e1 | ⟨ev, hev, e1, e2⟩
      · omega
      · have := hmin ev hev; omega
    have hpre : CfgLast (m.log.entries.take ev0.len) b0.configs.latest := by
      obtain ⟨⟨e, hel, hec⟩, h2⟩ := hb0.cl
      have hpf : b0.log.entries <+: m.log.entries.take ev0.len := by
        rw [List.prefix_take_iff]
        exact ⟨by rw [he]; exact List.prefix_append _ _, a4⟩
      refine ⟨⟨e, hpf.subset hel, hec⟩, fun y hy ht => ?_⟩
      have hym : y ∈ m.log.entries := List.mem_of_mem_take hy
      by_cases hyb : y.index ≤ b0.log.entries.length
      · -- an entry of `b0`
        apply h2 y ?_ ht
        obtain ⟨k, hk, rfl⟩ := List.getElem_of_mem hym
        rw [hm.nwf.contig k hk] at hyb
        have hkb : k < b0.log.entries.length := by omega
        have : m.log.entries[k] = b0.log.entries[k] := by
          simp only [he]
          rw [List.getElem_append_left hkb]
        rw [this]; exact List.getElem_mem hkb
      · exfalso
        have h1 := hno y hym (by omega) ht
        obtain ⟨k, hk, rfl⟩ := List.getElem_of_mem hy
        rw [List.getElem_take] at h1
        rw [List.length_take] at hk
        have := hm.nwf.contig k (by omega)
        omega
    have hcfg : ev0.cfg = b0.configs.latest :=
      cfgLast_unique (contig_take hm.nwf.contig _) a6 hpre
    rw [hcfg] at a7 a8
    have hall : ∀ j ∈ ev0.Q, j = b0.nid := fun j hj => (a9 j hj).resolve_right (fun ⟨_, _, hB⟩ => hB)
    have h1 := length_le_one_of_all_eq (hnd.sublist a7) hall
    have h2 : ev0.Q ≠ [] := by intro e; rw [e] at a8; simp at a8
    have h3 := a7.length_le
    have : 0 < ev0.Q.length := List.length_pos_iff.mpr h2
    omega
  subst hL
  have hci : m.commitIndex = b0.commitIndex := l3
  refine ⟨?_, hci⟩
  rcases hm.role with r | ⟨_, r⟩
  · exact r
  · omega

/-- the step ends with `leader.init` of `x` (and possibly the release that follows a step down inside it) -/
theorem nstepM_init {b x post : Node} {A : Nat → Nat → Prop} {B : Nat → Nat → Prop} {K : Prop}
    (hbtr : b.trace = []) (hbn : NWF b) (hbl : C06.LogWF b.log) (h : SX b A K x) (hr : x.role = .leader)
    (hv : b.configs.latest.isVoter b.nid = true)
    (hcl : CfgLast b.log.entries b.configs.latest) (hci : b.commitIndex ≤ b.lastLogIndex)
    (hnd : b.configs.latest.voters.Nodup) (hq : b.configs.latest.voters.length ≠ 1) (hnf : b.role ≠ .follower)
    (hpost : (x.leaderInit.role = .leader ∧ post = x.leaderInit) ∨
       (x.leaderInit.role = .follower ∧ post = x.leaderInit.releaseRole .leader)) :
    NStepM b A B post := by
  have hx := initHypM_of_sx hbn hbl h hr hv hcl hci
  obtain ⟨hli, hlen⟩ := leaderInit_lj hx
  have hb0 := initBase_baseM hx
  obtain ⟨c1, _, _, _, _, c6, _, _⟩ := initBase_lobs x
  have hlen0 : (initBase x).log.entries.length = x.log.entries.length := by
    unfold Core at c1
    simp only [Prod.mk.injEq] at c1
    rw [c1.1]
  have hlast : (initBase x).ldr.startIndex ≤ x.leaderInit.log.entries.length := by
    rw [initBase_ldr]; show x.lastLogIndex + 1 ≤ _; rw [hx.nwf.last]; exact hlen
  have hst : (initBase x).ldr.startIndex = (initBase x).log.entries.length + 1 := by
    rw [initBase_ldr, hlen0]; show x.lastLogIndex + 1 = _; rw [hx.nwf.last]
  have hlt0 : (initBase x).commitIndex < (initBase x).ldr.startIndex := by
    have := hb0.cile
    omega
  have hnc : x.leaderInit.panicked = none →
      x.leaderInit.role = .leader ∧ x.leaderInit.commitIndex = (initBase x).commitIndex := fun hp =>
    init_no_commit hb0 hli hp hst (by rw [c6, h.cfg]; exact hnd) (by rw [c6, h.cfg]; exact hq)
  rcases hpost with ⟨hrl, hpe⟩ | ⟨hrf, hpe⟩
  · exact nstepM_lj hbtr hbn hbl (sx_initBase h) hb0 hli (Or.inl hpe) (fun j k hB => hB.elim)
      (Or.inr ⟨by rw [hpe], by rw [hpe], hlt0, fun hp => ⟨hpe, hnc (by rw [← hpe]; exact hp)⟩⟩) hlast
      (fun hp => by rw [← hpe]; exact hp) hnf
      (fun _ hl => Or.inr (by rw [hpe]; exact hl))
  · have hsk := SameKey.releaseRole x.leaderInit .leader
    have hpp : post.panicked = none → x.leaderInit.panicked = none := fun hp => by
      rw [hpe] at hp; exact (CfgRel.q_releaseRole _ _).pan' hp
    refine nstepM_lj hbtr hbn hbl (sx_initBase h) hb0 hli
      (Or.inr ⟨by rw [hpe, hsk.role]; exact hrf, by rw [hpe]; exact sx_releaseRole _ (sx_refl _ AF False (lj_wf hb0 hli))⟩)
      (fun j k hB => hB.elim)
      (Or.inr ⟨by rw [hpe]; exact core_releaseRole _ _, by rw [hpe]; exact hsk.votedFor, hlt0, fun hp => ?_⟩) hlast hpp
      hnf (fun e hl => Or.inr (by rw [e]; exact hl))
    exfalso
    have := (hnc (hpp hp)).1
    rw [hrf] at this; cases this

/-- **One step of a node that is not an append request, WITH membership changes** (the operations of `Raft.Member`:
no snapshot operation — `LogRel.OpOK` —, no configuration entry in a client batch — `CfgRel.OpOk`; `ChangeConfig`
requests included), from a well-formed, bootstrapped state whose latest configuration is the last configuration entry
of its log: see `NStepM`. `B` backs the match indexes of the leader's table before the step and the match-index reports
delivered in the step. -/
theorem nstepM (pre : Node) (op : Op) (ra : List Nat) (ord : List (List Nat)) (B : Nat → Nat → Prop)
    (hn : NWF pre) (hl : C06.LogWF pre.log) (hwf : C05.VoteWF pre) (hboot : pre.configs.isBootstrapped = true)
    (hok : OpOK op) (hcf : CfgRel.OpOk op) (happ : ∀ q, op ≠ .append q) (hc : pre.role = .candidate → pre.term ≠ 0)
    (hrv : pre.role = .candidate → pre.configs.latest.isVoter pre.nid = true)
    (hcl : CfgLast pre.log.entries pre.configs.latest) (hci : pre.commitIndex ≤ pre.lastLogIndex)
    (hnd : pre.configs.latest.voters.Nodup) (hq1 : pre.configs.latest.quorum ≠ 1)
    (hld : pre.role = .leader → LeadOK B pre ∧ (∀ j m, B j m → m ≤ pre.log.entries.length) ∧
      pre.ldr.node = pre.configs.latest.get pre.nid ∧
      (pre.configs.isCommitted = true →
        pre.configs.latest.index < pre.ldr.startIndex ∨ pre.configs.latest.index ≤ pre.commitIndex))
    (hupd : ∀ us, op = .replUpdates us → ∀ u ∈ us, ∀ v, u.upd = .matchIndex v → v = 0 ∨ B u.id v) :
    NStepM pre (AOp pre op) B (pre.step op ra ord) := by
  have hq : pre.configs.latest.voters.length ≠ 1 := by
    rw [C01Sys.quorum_eq] at hq1; omega
  have hbn : NWF (pre.begin ra ord) := nwf_congr hn rfl rfl rfl rfl rfl
  have hbwf : C05.VoteWF (pre.begin ra ord) := hwf
  have hpost : pre.step op ra ord = settle 6 ((pre.begin ra ord).handle op) (pre.begin ra ord).role := by
    unfold Node.step
    cases op <;> first | rfl | exact hok.elim
  have hbase : (pre.begin ra ord).role = .leader → MBase (pre.begin ra ord) B ∧
      ∀ r ∈ (pre.begin ra ord).ldr.repls, r.matchIndex = 0 ∨ B r.id r.matchIndex := by
    intro hr
    obtain ⟨lo, hB, hnode, hcc⟩ := hld hr
    exact ⟨⟨hbn, hl, hbwf, hr, lo.start, lo.own, hB, ⟨lo.numVoters, hnode⟩, hcl, hcc,
      by show pre.commitIndex ≤ pre.log.entries.length; rw [← hn.last]; exact hci⟩, lo.mi⟩
  obtain ⟨hnid, hrel⟩ := handle_rel (pre.begin ra ord) op hc
  have cls := handle_clsM (pre.begin ra ord) op B hbwf hboot hok hcf happ hbase hupd
  suffices hs : NStepM (pre.begin ra ord) (AOp (pre.begin ra ord) op) B (pre.step op ra ord) by
    refine ⟨hs.lwf, hs.flush, hs.pair, hs.tr, hs.cim, fun hp => ?_, hs.ldr, hs.cc, hs.cache, hs.start, hs.grow,
      hs.trgrow⟩
    obtain ⟨T, L, m⟩ := hs.evs hp
    exact ⟨T, L, ⟨m.ev, m.sorted, m.head, m.chg, m.cl, m.newT, m.src, m.trp, m.cmtd⟩⟩
  rw [hpost]
  have hbtr : (pre.begin ra ord).trace = [] := rfl
  have hbl : C06.LogWF (pre.begin ra ord).log := hl
  have hcl' : CfgLast (pre.begin ra ord).log.entries (pre.begin ra ord).configs.latest := hcl
  have hci' : (pre.begin ra ord).commitIndex ≤ (pre.begin ra ord).lastLogIndex := hci
  have hnd' : (pre.begin ra ord).configs.latest.voters.Nodup := hnd
  have hq' : (pre.begin ra ord).configs.latest.voters.length ≠ 1 := hq
  have hq1' : (pre.begin ra ord).configs.latest.quorum ≠ 1 := hq1
  have hrv' : (pre.begin ra ord).role = .candidate →
      (pre.begin ra ord).configs.latest.isVoter (pre.begin ra ord).nid = true := hrv
  have hldb : (pre.begin ra ord).role = .leader → LeadOK B (pre.begin ra ord) := fun hr =>
    ⟨(hld hr).1.numVoters, (hld hr).1.start, (hld hr).1.own, (hld hr).1.mi, (hld hr).1.startLe, (hld hr).1.lastT⟩
  have hccb : (pre.begin ra ord).role = .leader → (pre.begin ra ord).configs.isCommitted = true →
      (pre.begin ra ord).configs.latest.index < (pre.begin ra ord).ldr.startIndex ∨
      (pre.begin ra ord).configs.latest.index ≤ (pre.begin ra ord).commitIndex := fun hr => (hld hr).2.2.2
  have hcab : (pre.begin ra ord).role = .leader →
      (pre.begin ra ord).ldr.node = (pre.begin ra ord).configs.latest.get (pre.begin ra ord).nid :=
    fun hr => (hld hr).2.2.1
  generalize pre.begin ra ord = b at *
  generalize b.handle op = h at *
  by_cases hrole : h.role = b.role
  · have e : settle 6 h b.role = h := by unfold settle; rw [if_pos hrole]
    rw [e]
    rcases cls with hsx | ⟨hr, hp⟩
    · refine nstepM_sx hbtr hbn hbl hcl' hsx (fun hlead => ?_) hccb hcab
      have hbr : b.role = .leader := by rw [← hrole]; exact hlead
      have ht : h.term = b.term := by
        cases hrel with
        | same _ _ t _ => exact t
        | follower a => rw [a] at hlead; cases hlead
        | pending _ a => rw [a] at hlead; cases hlead
        | counted c _ _ _ => rw [c.1] at hbr; cases hbr
        | reelect c _ => rw [c] at hbr; cases hbr
      exact ⟨hbr, ht, leadOK_of_sx hsx ht (hldb hbr), hsx.ldr trivial⟩
    · rcases hp with hi | ⟨hf, _⟩
      · obtain ⟨hb0, _⟩ := hbase hr
        exact nstepM_lj hbtr hbn hbl (sx_refl b _ True hbwf) hb0 hi (Or.inl rfl)
          (fun j k hB => ⟨hr, rfl, hB⟩) (Or.inl ⟨hr, rfl, rfl, hbtr, rfl⟩)
          (by have := (hldb hr).startLe; have := lj_len hi; omega) id (by rw [hr]; decide)
          (fun _ hlo => Or.inl ⟨hr, hi.term, hlo⟩)
      · rw [hrole, hr] at hf; cases hf
  · have shape := settle_shape 3 h b.role hrole
    rcases cls with hsx | ⟨hr, hp⟩
    · cases shape with
      | follower hf e =>
        rw [e]
        refine nstepM_sx hbtr hbn hbl hcl' (sx_releaseRole _ hsx) (fun hlead => ?_) hccb hcab
        rw [(SameKey.releaseRole _ _).role, hf] at hlead; cases hlead
      | cand hcd e hpc =>
        rw [e] at hpc ⊢
        refine nstepM_sx hbtr hbn hbl hcl' (sx_startElection (aop_self b op) (sx_releaseRole _ hsx)) (fun hlead => ?_)
          hccb hcab
        rw [hpc] at hlead; cases hlead
      | leader x r ex hpo =>
        -- the handler made the node leader: it was candidate before
        have hbc : b.role = .candidate := by
          cases hrel with
          | same _ a _ _ => exact absurd a hrole
          | follower a => rw [a] at r; cases r
          | pending _ a => rw [a] at r; cases r
          | counted c _ _ _ => exact c.1
          | reelect c _ => exact c
        have hxs : SX b (AOp b op) False x := by rw [ex]; exact sx_releaseRole _ hsx
        have hxr : x.role = .leader := by rw [ex, (SameKey.releaseRole _ _).role]; exact r
        exact nstepM_init hbtr hbn hbl hxs hxr (hrv' hbc) hcl' hci' hnd' hq' (by rw [hbc]; decide) hpo
      | candLeader x r rl ex hpo =>
        -- `startElection` makes the node leader at once only when the quorum is one
        exfalso
        obtain ⟨_, _, _, e4, _, e6⟩ := startElection_spec (h.releaseRole b.role)
        rcases e6 with ⟨e6, _⟩ | ⟨_, e6⟩
        · have hcfg : (h.releaseRole b.role).configs = b.configs := by
            rw [(SameKey.releaseRole _ _).configs]; exact hsx.cfg
          rw [hcfg] at e6
          have : b.configs.latest.quorum = 1 := by omega
          exact hq1' this
        · rw [(SameKey.releaseRole _ _).role, r] at e6
          rw [e6] at rl
          cases rl
    · -- a leader handler: the only role change is a step down
      obtain ⟨hb0, _⟩ := hbase hr
      have hstart : ∀ x, LJ b B x → b.ldr.startIndex ≤ x.log.entries.length := fun x hx => by
        have := (hldb hr).startLe; have := lj_len hx; omega
      rcases hp with hi | ⟨hf, x, hx, hsx, hpx⟩
      · have hf : h.role = .follower := (hi.role.resolve_left (fun hl => hrole (hl.trans hr.symm))).1
        cases shape with
        | follower _ e =>
          rw [e]
          exact nstepM_lj hbtr hbn hbl (sx_refl b _ True hbwf) hb0 hi
            (Or.inr ⟨by rw [(SameKey.releaseRole _ _).role]; exact hf,
              sx_releaseRole _ (sx_refl h AF False (lj_wf hb0 hi))⟩)
            (fun j k hB => ⟨hr, rfl, hB⟩) (Or.inl ⟨hr, rfl, rfl, hbtr, rfl⟩) (hstart _ hi)
            (fun hp => (CfgRel.q_releaseRole _ _).pan' hp) (by rw [hr]; decide)
            (fun e' hlo => Or.inl ⟨hr, by rw [e']; exact hi.term, by rw [e']; exact hlo⟩)
        | leader x' r _ _ => rw [hf] at r; cases r
        | cand r _ _ => rw [hf] at r; cases r
        | candLeader x' r _ _ _ => rw [hf] at r; cases r
      · cases shape with
        | follower _ e =>
          rw [e]
          exact nstepM_lj hbtr hbn hbl (sx_refl b _ True hbwf) hb0 hx
            (Or.inr ⟨by rw [(SameKey.releaseRole _ _).role]; exact hf, sx_releaseRole _ hsx⟩)
            (fun j k hB => ⟨hr, rfl, hB⟩) (Or.inl ⟨hr, rfl, rfl, hbtr, rfl⟩) (hstart _ hx)
            (fun hp => hpx ((CfgRel.q_releaseRole _ _).pan' hp)) (by rw [hr]; decide)
            (fun e' hlo => Or.inl ⟨hr, by rw [e']; exact hx.term, by rw [e']; exact hlo⟩)
        | leader x' r _ _ => rw [hf] at r; cases r
        | cand r _ _ => rw [hf] at r; cases r
        | candLeader x' r _ _ _ => rw [hf] at r; cases r

/-! ### Example (non-vacuity) -/

/-- EXAMPLE: the hypotheses of `nstepM` are satisfiable — the bootstrapped follower `C04Sys.exNode 2` (log = the
configuration entry (1,1) with the voters 1, 2, 3) handling an election timeout (it becomes candidate of term 2) -/
example : NStepM (C04Sys.exNode 2) (AOp (C04Sys.exNode 2) .timeout) (fun _ _ => False)
    ((C04Sys.exNode 2).step .timeout [] []) := by
  have hcfg : C04Sys.exE.config? = some C04Sys.exCfg := by decide
  refine nstepM (C04Sys.exNode 2) .timeout [] [] (fun _ _ => False)
    ⟨rfl, rfl, rfl, fun k hk => ?_, rfl, rfl⟩ ⟨by decide, by decide⟩ ⟨rfl, rfl⟩ rfl trivial trivial
    (fun q h => by cases h) (fun h => by cases h) (fun h => by cases h)
    ⟨⟨C04Sys.exE, List.mem_singleton.mpr rfl, hcfg⟩, fun e he _ => by rw [List.mem_singleton.mp he]; decide⟩
    (by decide) (by decide) (by decide) (fun h => by cases h) (fun us h => by cases h)
  have : k = 0 := by have : k < 1 := hk; omega
  subst this; rfl

end MemberCommit
end Raft
