/-
The cluster invariants of `Raft.Commit` (`CInv`, Sys/Commit.lean; `FsmInv`, Props/C03Sys.lean) read only some fields of
a node; and of a FOLLOWER they constrain the commit index, the state machine and the configurations only through
"what the commit index covers is committed" (`CmtI.cc`) and "the state machine holds the payloads of the applied
prefix" (`FsmOK`).  `bump`: replacing the nodes of a state by nodes that agree on the fields read (`robs`) and — unless
they are followers for which these two facts are supplied — on `lobs`, preserves both invariants.

This is what connects the system with snapshots to `Raft.Commit`: a snapshot operation changes nothing the invariants
read; a restart from a snapshot differs from a restart without one in the commit index, the state machine and the
configurations of a follower.
-/
import RaftVerif.Lemmas.SnapSim
import RaftVerif.Props.C03Sys

namespace Raft
namespace SnapSim
open Node Election LogRel Replication CommitRel Commit C02Sys C03Sys

/-- the cluster `z` with its nodes replaced by `N` (same ledgers) -/
def withNodes (z : Commit.Sys) (N : Nat → Node) : Commit.Sys :=
  { z with rp := { z.rp with el := { z.rp.el with node := N } } }

/-- `pobs` and the snapshot data `NWF` reads -/
def robs (s : Node) : (Nat × Nat × Nat × Nat × Nat × NLog × Nat × Nat × Role × Int) × Nat × List SnapFile :=
  (pobs s, s.snapIndex, s.snapsDisk)

structure FieldEq (a b : Node) : Prop where
  nid : a.nid = b.nid
  term : a.term = b.term
  votedFor : a.votedFor = b.votedFor
  durTerm : a.durTerm = b.durTerm
  durVote : a.durVote = b.durVote
  entries : a.log.entries = b.log.entries
  prev : a.log.prev = b.log.prev
  /-- the log may be flushed further (and its segments regrouped) -/
  flushed : b.log.flushed ≤ a.log.flushed
  lwf : C06.LogWF b.log → C06.LogWF a.log
  lastLogIndex : a.lastLogIndex = b.lastLogIndex
  lastLogTerm : a.lastLogTerm = b.lastLogTerm
  role : a.role = b.role
  votesNeeded : a.votesNeeded = b.votesNeeded
  snapIndex : a.snapIndex = b.snapIndex
  snapsDisk : a.snapsDisk = b.snapsDisk

theorem fieldEq_of_robs {a b : Node} (h : robs a = robs b) : FieldEq a b := by
  unfold robs pobs at h
  simp only [Prod.mk.injEq] at h
  obtain ⟨⟨h1, h2, h3, h4, h5, h6, h7, h8, h9, h10⟩, h11, h12⟩ := h
  exact ⟨h1, h2, h3, h4, h5, by rw [h6], by rw [h6], by rw [h6]; exact Nat.le_refl _, fun h => by rw [h6]; exact h,
    h7, h8, h9, h10, h11, h12⟩

structure LFieldEq (a b : Node) : Prop where
  commitIndex : a.commitIndex = b.commitIndex
  fsm : a.fsm = b.fsm
  configs : a.configs = b.configs
  numVoters : a.ldr.numVoters = b.ldr.numVoters
  startIndex : a.ldr.startIndex = b.ldr.startIndex
  repls : a.ldr.repls = b.ldr.repls
  queue : a.ldr.queue = b.ldr.queue

theorem lfieldEq_of_lobs {a b : Node} (h : lobs a = lobs b) : LFieldEq a b := by
  unfold lobs at h
  simp only [Prod.mk.injEq] at h
  obtain ⟨h1, h2, h3, h4, h5, h6, h7⟩ := h
  exact ⟨h1, h2, h3, h4, h5, h6, h7⟩

/-- what is supplied for a follower whose commit index / state machine / configurations were replaced -/
def FollowerOK (z : Commit.Sys) (n : Node) : Prop :=
  n.role = .follower ∧
  (∀ k, 1 ≤ k → k ≤ n.commitIndex → k ≤ n.log.entries.length ∧ Cmt z (k, termAt n.log.entries k) n.term) ∧
  FsmOK 0 n


theorem cmt_withNodes (z : Commit.Sys) (N : Nat → Node) (a : Nat × Nat) (u : Nat) :
    Cmt (withNodes z N) a u ↔ Cmt z a u := Iff.rfl

section bump
variable {V : List Nat} {z : Commit.Sys} {N : Nat → Node}

theorem bump_el (hI : C01Sys.Inv V z.rp.el) (e : ∀ j, FieldEq (N j) (z.node j)) :
    C01Sys.Inv V (withNodes z N).rp.el := by
  refine ⟨fun j => ?_, fun g hg => ?_, hI.unique, fun j hr => ?_, fun j hl => ?_, hI.backed, fun c hc => ?_⟩
  · show (N j).nid = j ∧ C05.VoteWF (N j)
    obtain ⟨a, b⟩ := hI.ids j
    unfold C05.VoteWF at b ⊢
    rw [(e j).nid, (e j).durTerm, (e j).term, (e j).durVote, (e j).votedFor]
    exact ⟨a, b⟩
  · show C01Sys.HonouredBy (N g.voter) g
    have := hI.honoured g hg
    unfold C01Sys.HonouredBy at this ⊢
    rw [(e g.voter).term, (e g.voter).votedFor]
    exact this
  · have hr' : (z.node j).role = .candidate := by rw [← (e j).role]; exact hr
    exact (hI.cand j hr').transfer (y := (withNodes z N).rp.el) (e j).term (e j).votesNeeded (fun g hg => hg) rfl
  · show (j, (N j).term) ∈ z.rp.el.won
    rw [(e j).term]
    exact hI.recorded j (by rw [← (e j).role]; exact hl)
  · show c.2.1 ≤ (N c.1).term
    rw [(e c.1).term]
    exact hI.countedTerm c hc

theorem bump_rp (hI : Replication.Inv V z.rp) (e : ∀ j, FieldEq (N j) (z.node j)) :
    Replication.Inv V (withNodes z N).rp := by
  refine ⟨bump_el hI.el e, fun j => ?_, hI.uniq, hI.sent, fun j hl => ?_, fun c hc h0 j => ?_, fun c hc h0 => ?_⟩
  · show NWF (N j) ∧ Chain z.rp.created none (N j).log.entries
    obtain ⟨a, b⟩ := hI.nodes j
    refine ⟨⟨by rw [(e j).snapIndex]; exact a.snapIndex, by rw [(e j).snapsDisk]; exact a.snaps,
      by rw [(e j).prev]; exact a.prev, ?_, by rw [(e j).lastLogIndex, (e j).entries]; exact a.last,
      by rw [(e j).lastLogTerm, (e j).entries]; exact a.lastT⟩, ?_⟩
    · rw [(e j).entries]; exact a.contig
    · rw [(e j).entries]; exact b
  · exact hI.ldrV j (by rw [← (e j).role]; exact hl)
  · show c.e.term ≤ (N j).term ∧ ((N j).role ≠ .follower → c.e.term < (N j).term)
    rw [(e j).term, (e j).role]
    exact hI.init0 c hc h0 j
  · show c.cr ∈ V ∧ _ ∧ c.e.term ≤ (N c.cr).term ∧
      ((N c.cr).role = .leader → c.e.term = (N c.cr).term → c.e.index ≤ (N c.cr).lastLogIndex) ∧
      ((N c.cr).role = .candidate → c.e.term < (N c.cr).term)
    rw [(e c.cr).term, (e c.cr).role, (e c.cr).lastLogIndex]
    exact hI.own c hc h0


theorem bump_tree (hI : TreeI V z) (e : ∀ j, FieldEq (N j) (z.node j)) : TreeI V (withNodes z N) := by
  refine ⟨hI.ok, fun c hc h0 => ?_, fun c hc h0 hl ht => ?_⟩
  · obtain ⟨k, hk, a1, a2, a3, a4, Q, q1, q2, q3, q4⟩ := hI.crElect c hc h0
    refine ⟨k, hk, a1, a2, a3, a4, Q, q1, q2, q3, fun v hv => ?_⟩
    show c.e.term ≤ (N v).term ∧ UpTo z k v
    rw [(e v).term]
    exact q4 v hv
  · show Holds (N c.cr).log.entries c.e.index c.e.term
    rw [(e c.cr).entries]
    exact hI.ownLog c hc h0 (by rw [← (e c.cr).role]; exact hl) (by rw [← (e c.cr).term]; exact ht)

theorem bump_node (hI : NodeI z) (e : ∀ j, FieldEq (N j) (z.node j))
    (h2 : ∀ j, (N j).role ≠ .follower → LFieldEq (N j) (z.node j)) : NodeI (withNodes z N) := by
  refine ⟨fun j => ?_, fun j => ?_, fun j k => ?_, fun j hr => ?_, fun j hr => ?_, fun j hl => ?_⟩
  · show C06.LogWF (N j).log
    exact (e j).lwf (hI.lwf j)
  · show ∀ x ∈ (N j).log.entries, x.term ≤ (N j).term
    rw [(e j).entries, (e j).term]; exact hI.termLe j
  · show (N j).log.flushed < k → k ≤ (N j).log.entries.length →
      ∃ c ∈ z.T, c.e.index = k ∧ c.e.term = termAt (N j).log.entries k ∧ c.cr = j
    rw [(e j).entries]
    intro h1
    exact hI.unfl j k (Nat.lt_of_le_of_lt (e j).flushed h1)
  · show (N j).configs.latest.isVoter (N j).nid = true
    rw [(h2 j hr).configs, (e j).nid]
    exact hI.roleVoter j (by rw [← (e j).role]; exact hr)
  · show ∃ k ∈ z.camps, k.cand = j ∧ k.term = (N j).term ∧ k.lastIndex ≤ (N j).log.entries.length ∧
      (1 ≤ k.lastIndex → termAt (N j).log.entries k.lastIndex = k.lastTerm) ∧
      ((N j).role = .candidate → k.lastIndex = (N j).log.entries.length)
    rw [(e j).term, (e j).entries, (e j).role]
    exact hI.camp j (by rw [← (e j).role]; exact hr)
  · have hl' : (z.node j).role = .leader := by rw [← (e j).role]; exact hl
    have lo := hI.ldr j hl'
    have hl2 : (N j).role = .leader := hl
    have l2 := h2 j (by rw [hl2]; decide)
    show LeadOK (Commit.Backed (withNodes z N) j) (N j)
    refine ⟨by rw [l2.numVoters, l2.configs]; exact lo.numVoters, by rw [l2.startIndex]; exact lo.start, ?_, ?_,
      by rw [l2.startIndex, (e j).entries]; exact lo.startLe, by rw [(e j).lastLogTerm, (e j).term]; exact lo.lastT⟩
    · rw [l2.startIndex, (e j).entries, (e j).term]; exact lo.own
    · rw [l2.repls]
      intro r hr
      refine (lo.mi r hr).imp id ?_
      rintro ⟨a, ha, a1, a2, a3⟩
      exact ⟨a, ha, a1, by show a.term = (N j).term; rw [(e j).term]; exact a2, a3⟩

theorem bump_sent (hI : SentI V z) (e : ∀ j, FieldEq (N j) (z.node j)) : SentI V (withNodes z N) := by
  refine ⟨fun q hq => ?_, hI.term, hI.anc, hI.cmt⟩
  show q.src ≠ 0 ∧ q.src ∈ V ∧ (q.src, q.term) ∈ z.rp.el.won ∧ q.term ≤ (N q.src).term ∧
    ((N q.src).role = .candidate → q.term < (N q.src).term)
  rw [(e q.src).term, (e q.src).role]
  exact hI.won q hq

theorem bump_ack (hI : AckI z) (e : ∀ j, FieldEq (N j) (z.node j)) : AckI (withNodes z N) := by
  refine ⟨fun a ha => ?_, hI.src, fun a ha b hb hanc => ?_⟩
  · show 1 ≤ a.index ∧ a.term ≤ (N a.voter).term ∧ a.eterm ≤ a.term ∧ ∃ c ∈ z.T, key c = a.key
    rw [(e a.voter).term]
    exact hI.wf a ha
  · show DurHolds (N a.voter) b ∨ Unsafe z.T b (N a.voter).term
    unfold DurHolds
    rw [(e a.voter).entries, (e a.voter).term]
    exact (hI.stable a ha b hb hanc).imp (fun d => ⟨Nat.le_trans d.1 (e a.voter).flushed, d.2⟩) id

theorem bump_vote (hI : VoteI V z) (e : ∀ j, FieldEq (N j) (z.node j)) : VoteI V (withNodes z N) := by
  refine ⟨hI.campUniq, fun k hk => ?_, fun v h0 hv => ?_, fun v h0 k hk hc ht => ?_, hI.grantInv, hI.electInv,
    hI.countedGrant, hI.grantCamp⟩
  · show k.cand ≠ 0 ∧ k.term ≤ (N k.cand).term ∧ _
    rw [(e k.cand).term]
    exact hI.campWf k hk
  · show ∃ k ∈ z.camps, k.cand = (N v).votedFor ∧ k.term = (N v).term
    rw [(e v).votedFor, (e v).term]
    exact hI.voteCamp v (by rw [← (e v).votedFor]; exact h0) (by rw [← (e v).votedFor]; exact hv)
  · exact hI.voteInv v (by rw [← (e v).votedFor]; exact h0) k hk (by rw [← (e v).votedFor]; exact hc)
      (by rw [← (e v).term]; exact ht)

theorem bump_cmt (hI : CmtI V z) (e : ∀ j, FieldEq (N j) (z.node j))
    (h2 : ∀ j, LFieldEq (N j) (z.node j) ∨ FollowerOK z (N j)) : CmtI V (withNodes z N) := by
  refine ⟨hI.quorum, hI.lc, fun j k hk hkc => ?_⟩
  show k ≤ (N j).log.entries.length ∧ Cmt z (k, termAt (N j).log.entries k) (N j).term
  rcases h2 j with l | ⟨_, f, _⟩
  · rw [(e j).entries, (e j).term]
    exact hI.cc j k hk (by rw [← l.commitIndex]; exact hkc)
  · exact f k hk hkc

/-- **the invariants of `Raft.Commit` only read the fields of `FieldEq` (the log: its entries and how far it is
flushed), and those of `LFieldEq` except on followers** -/
theorem bump_fe (hI : CInv V z) (hF : FsmInv z) (e : ∀ j, FieldEq (N j) (z.node j))
    (h2' : ∀ j, LFieldEq (N j) (z.node j) ∨ FollowerOK z (N j)) :
    CInv V (withNodes z N) ∧ FsmInv (withNodes z N) := by
  have h3 : ∀ j, (N j).role ≠ .follower → LFieldEq (N j) (z.node j) := fun j hr => by
    rcases h2' j with l | ⟨f, _⟩
    · exact l
    · exact absurd f hr
  refine ⟨⟨bump_rp hI.rp e, bump_tree hI.tree e, bump_node hI.node e h3, bump_sent hI.sent e, bump_ack hI.ack e,
    bump_vote hI.vote e, bump_cmt hI.cmt e h2'⟩, fun j => ?_⟩
  show FB (N j)
  rcases h2' j with l | ⟨f, _, g⟩
  · obtain ⟨fo, qo⟩ := hF j
    refine ⟨⟨by rw [l.fsm, l.commitIndex]; exact fo.le, by rw [l.fsm, (e j).entries]; exact fo.len,
      by rw [l.fsm, (e j).entries]; exact fo.applied, Nat.zero_le _⟩, fun hl => ?_⟩
    have := qo (by rw [← (e j).role]; exact hl)
    unfold QOK at this ⊢
    rw [l.queue, (e j).entries]
    exact this
  · exact ⟨g, fun hl => by rw [f] at hl; cases hl⟩

/-- **the invariants of `Raft.Commit` only read `robs`, and `lobs` except on followers** -/
theorem bump (hI : CInv V z) (hF : FsmInv z) (h1 : ∀ j, robs (N j) = robs (z.node j))
    (h2 : ∀ j, lobs (N j) = lobs (z.node j) ∨ FollowerOK z (N j)) :
    CInv V (withNodes z N) ∧ FsmInv (withNodes z N) :=
  bump_fe hI hF (fun j => fieldEq_of_robs (h1 j)) (fun j => (h2 j).imp lfieldEq_of_lobs id)

end bump

end SnapSim
end Raft
