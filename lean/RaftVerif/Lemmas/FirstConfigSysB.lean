/-
`NodeInv` along the runs of the cluster-level system `Raft.Snap4`, part B: the induction over the runs.

* `Init4F`      : an initial state of `Raft.Snap4` in which every node satisfies `C19FsmConfigSys.NodeInv` (there is no
                  snapshot, entry 1 of every non-empty log is the bootstrap configuration, the latest configuration is the
                  newest configuration entry of the log, every node is a follower);
* `Reachable4F` : the states reachable in `Raft.Snap4` from such initial states (`reachable4F_reachable4`: they are
                  reachable states of `Raft.Snap4`);
* `InvF`        : what is carried: `NodeInv` of EVERY node, and the two ledger invariants "every append request on the wire
                  carries a configuration at index 1 if it carries index 1" and "every install request on the wire is
                  labelled with a real configuration";
* `invF_trans`  : preserved by every transition of `Raft.Snap4` from a reachable state (completed steps, crashes at any
                  storage point + restart, sends, completed installations, crashes in the install handler + restart);
* `reach4F`     : hence it holds in every state of `Reachable4F`.
-/
import RaftVerif.Lemmas.FirstConfigSysA

namespace Raft
namespace FirstCfgSys
open Node Track Order FsmCfg C19FsmConfig C19FsmConfigSys TrackCrash
open Snap Snap2 Snap3 SnapRelU SnapInst SnapInst3 Snap4 SnapInst4 RestartSys SnapInv2

/-- Initial states of `Raft.Snap4` in which every node satisfies `NodeInv`. -/
structure Init4F (x : Snap3.Sys) : Prop where
  init4 : Snap4.Init4 x
  ninv : ∀ i, NodeInv (x.node i)

/-- States reachable in `Raft.Snap4` (side condition `Side4 V` in every state) from an `Init4F` state. -/
inductive Reachable4F (V : List Nat) : Snap3.Sys → Prop
  | init (x : Snap3.Sys) : Init4F x → Side4 V x → Reachable4F V x
  | next (x y : Snap3.Sys) : Reachable4F V x → Snap4.Trans x y → Side4 V y → Reachable4F V y

section
variable {V : List Nat}

theorem reachable4F_reachable4 {x : Snap3.Sys} (h : Reachable4F V x) : Reachable4 V x := by
  induction h with
  | init x hi hs => exact .init x hi.init4 hs
  | next x y _ ht hs ih => exact .next x y ih ht hs

/-- what the runs from `Init4F` carry -/
structure InvF (x : Snap3.Sys) : Prop where
  /-- every node satisfies `NodeInv` -/
  ninv : ∀ i, NodeInv (x.node i)
  /-- every append request on the wire carries a configuration at index 1 if it carries index 1 -/
  sentFirst : ∀ q ∈ x.s2.cs.rp.sent, FirstCfg.First q.entries
  /-- every install request on the wire is labelled with a real configuration -/
  snapLab : ∀ m ∈ x.sentSnaps, 0 < m.q.lastConfig.index

/-- an enabled operation of stage 2 satisfies `ReqFirst` and `ReqLab` -/
theorem reqFirst_enabled {x : Snap3.Sys} (hF : InvF x) {i : Nat} {op : Op} {src : Nat}
    (en : Snap.Enabled x.s2.cs i op src) : ReqFirst (x.node i) op ∧ ReqLab (x.node i) op := by
  cases op with
  | append q =>
    refine ⟨?_, trivial⟩
    show q.term < (x.node i).term ∨ ∀ e ∈ q.entries, e.index = 1 → e.config?.isSome = true
    rcases en.append q rfl with h | h
    · exact Or.inl h
    · exact Or.inr (hF.sentFirst q h)
  | install q => exact (en.ok2.1).elim
  | _ => exact ⟨trivial, trivial⟩

/-- an install request that may be delivered satisfies `Order.ReqOk` and `ReqLab` -/
theorem reqLab_install {x : Snap3.Sys} (i4 : Inv4 x) (hF : InvF x) {i : Nat} {m : SnapMsg}
    (hm : m.q.term < (x.node i).term ∨ m ∈ x.sentSnaps) :
    Order.ReqOk (x.node i) (.install m.q) ∧ ReqLab (x.node i) (.install m.q) := by
  constructor
  · show m.q.term < (x.node i).term ∨ m.q.lastIndex ≤ (x.node i).commitIndex ∨ Order.InstallOk m.q
    rcases hm with h | h
    · exact Or.inl h
    · exact Or.inr (Or.inr (i4.mlab m h))
  · show m.q.term < (x.node i).term ∨ 0 < m.q.lastConfig.index
    rcases hm with h | h
    · exact Or.inl h
    · exact Or.inr (hF.snapLab m h)

/-- **`InvF` is preserved by every transition of `Raft.Snap4` from a reachable state** -/
theorem invF_trans (hV : V.Nodup) {x y : Snap3.Sys} (h4 : Reachable4 V x) (hF : InvF x) (ht : Snap4.Trans x y) :
    InvF y := by
  obtain ⟨r3, i4, s4⟩ := reach4 hV h4
  have hI := (inv3_reachable hV r3).1
  have hmem : ∀ i, Mem (x.node i) := fun i => ⟨lwf_real hI i, s4.lab i, logDec_real s4.side i⟩
  cases ht with
  | step i op ra ord src en hp =>
    have hr := reqOk_old hI en (s4.cfg i)
    obtain ⟨hq, hlb⟩ := reqFirst_enabled hF en
    refine ⟨fun j => ?_, hF.sentFirst, hF.snapLab⟩
    by_cases hj : j = i
    · subst hj
      show NodeInv ((stepS x.s2 j op ra ord src).node j)
      rw [stepS_node_i]
      exact nodeInv_step_nc _ op ra ord (i4.tracks j) (i4.ord j) (s4.lab j) (hF.ninv j) hr hlb hq hp
    · show NodeInv ((stepS x.s2 i op ra ord src).node j)
      rw [stepS_node_j _ _ _ _ _ _ hj]; exact hF.ninv j
  | crash i op ra ord src k retain sor n en hret hp hnc hst hn =>
    have hr := reqOk_old hI en (s4.cfg i)
    obtain ⟨hq, hlb⟩ := reqFirst_enabled hF en
    refine ⟨fun j => ?_, hF.sentFirst, hF.snapLab⟩
    by_cases hj : j = i
    · subst hj
      show NodeInv ((crashS x.s2 j op n).node j)
      rw [crashS_node_i]
      exact nodeInv_crash_nc _ op ra ord k retain sor n (i4.tracks j) (i4.ord j) (hmem j) (hF.ninv j) hr
        (reqDec_enabled (sentDec_reach3 r3) en) hlb hq hp hn
    · show NodeInv ((crashS x.s2 i op n).node j)
      rw [crashS_node_j _ _ _ _ hj]; exact hF.ninv j
  | send i q hi hl hr hc =>
    refine ⟨hF.ninv, fun q' hq' => ?_, hF.snapLab⟩
    have hq'' : q' ∈ q :: x.s2.cs.rp.sent := hq'
    rcases List.mem_cons.mp hq'' with rfl | hm
    · exact first_of_readFrom2 x i _ hr (hF.ninv i).cfg.first
    · exact hF.sentFirst q' hm
  | sendSnap i q hi hl hr =>
    refine ⟨hF.ninv, hF.sentFirst, fun m hm => ?_⟩
    rcases List.mem_cons.mp hm with rfl | hm
    · exact lab_of_snapRead _ q hr (hF.ninv i).cfg.labels
    · exact hF.snapLab m hm
  | install i m ra ord hi hm hp =>
    obtain ⟨hr, hlb⟩ := reqLab_install i4 hF hm
    refine ⟨fun j => ?_, hF.sentFirst, hF.snapLab⟩
    by_cases hj : j = i
    · subst hj
      show NodeInv ((installS x j m ra ord).node j)
      unfold installS; rw [replS_node_i]
      exact nodeInv_step_nc _ _ ra ord (i4.tracks j) (i4.ord j) (s4.lab j) (hF.ninv j) hr hlb trivial hp
    · show NodeInv ((installS x i m ra ord).node j)
      unfold installS; rw [replS_node_j _ _ _ _ hj]; exact hF.ninv j
  | crashInstall i m ra ord k retain sor n hi hm hret hp hold hn =>
    obtain ⟨hr, hlb⟩ := reqLab_install i4 hF hm
    refine ⟨fun j => ?_, hF.sentFirst, hF.snapLab⟩
    by_cases hj : j = i
    · subst hj
      show NodeInv ((crashInstS x j m _ n).node j)
      unfold crashInstS; rw [replS_node_i]
      exact nodeInv_crash_nc _ _ ra ord k retain sor n (i4.tracks j) (i4.ord j) (hmem j) (hF.ninv j) hr trivial hlb
        trivial hp hn
    · show NodeInv ((crashInstS x i m _ n).node j)
      unfold crashInstS; rw [replS_node_j _ _ _ _ hj]; exact hF.ninv j

/-- **`InvF` holds in every state reachable from `Init4F`** -/
theorem reach4F (hV : V.Nodup) {x : Snap3.Sys} (h : Reachable4F V x) : InvF x := by
  induction h with
  | init x hi hs =>
    refine ⟨hi.ninv, fun q hq => ?_, fun m hm => ?_⟩
    · have : x.s2.cs.rp.sent = [] := hi.init4.init.init.init.cs.rp.sent
      rw [this] at hq; cases hq
    · rw [hi.init4.init.sent] at hm; cases hm
  | next x y hx ht hs ih => exact invF_trans hV (reachable4F_reachable4 hx) ih ht

end

end FirstCfgSys
end Raft
