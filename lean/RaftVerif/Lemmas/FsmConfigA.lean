/-
A variant of the composition framework `Lemmas/Inv.lean` + `Lemmas/StepInv.lean` for invariants that mention the STATE
MACHINE (`Node.fsm`): there the primitive `withFsm f` is unguarded (any `f`), so nothing can be said about the FSM. Here
the primitives concerning the FSM are the three things the FSM goroutine does — `fsmApplyLogTo` (apply a range of the
log), `fsmApplyItems` (apply the leader's queue items), and the restore inside `onInstallSnapRequest` (`installCore`:
publish the file, reset the log, restore) —, `appendEntry` is a primitive WITH its assertion, the snapshot goroutine
`snapRun` is a primitive guarded by a state predicate `PS`, the received snapshot file by `PF`, and `begin` (which clears
`panicked`) is left to the caller. The proofs are those of the two files mentioned, mutatis mutandis.
-/
import RaftVerif.Model.Step

namespace Raft
namespace Node


structure FClosed (Inv : Node → Prop) : Prop where
  panic : ∀ s site, Inv s → Inv (s.panic site)
  reply : ∀ s t r, Inv s → Inv (s.reply t r)
  point : ∀ s n, Inv s → Inv (s.point n)
  ldr : ∀ (s : Node) l, Inv s → Inv (s.withLdr l)
  /-- `storage.appendEntry` including its assertion `e.index = lastLogIndex + 1` -/
  appendEntry : ∀ (s : Node) e, Inv s → Inv (s.appendEntry e)
  commitN : ∀ (s : Node) n, Inv s → Inv { s with log := s.log.commitN n }
  /-- the FSM goroutine applies a range of the log -/
  fsmLog : ∀ (s : Node) n, Inv s → Inv (s.fsmApplyLogTo n)
  /-- the FSM goroutine applies the queue items handed over by the leader -/
  fsmItems : ∀ (s : Node) qs, Inv s → Inv (s.fsmApplyItems qs)
  changeConfigR : ∀ (s : Node) c, Inv s → Inv (s.changeConfigR c)
  /-- the commit index only ever moves forward: every call site has checked `i > commitIndex` -/
  setCommitIndexR : ∀ (s : Node) i, Inv s → i > s.commitIndex → Inv (s.setCommitIndexR i).1
  popOrder : ∀ (s : Node), Inv s → Inv s.popOrder

namespace FClosed

variable {Inv : Node → Prop} (h : FClosed Inv)
include h

theorem assert_inv (s : Node) (b : Bool) (site : String) (hs : Inv s) : Inv (s.assert b site) := by
  unfold Node.assert; split <;> simp_all [h.panic]

theorem appendEntry_inv (s : Node) (e : Entry) (hs : Inv s) : Inv (s.appendEntry e) := h.appendEntry s e hs

theorem commitLog_inv (s : Node) (n : Nat) (hs : Inv s) : Inv (s.commitLog n) := by
  unfold Node.commitLog; exact h.point _ _ (h.commitN _ _ hs)

theorem setRepl_inv (s : Node) (r : Repl) (hs : Inv s) : Inv (s.setRepl r) := by
  unfold Node.setRepl; exact h.ldr _ _ hs

theorem addReplication_inv (s : Node) (n : CNode) (hs : Inv s) : Inv (s.addReplication n) := by
  unfold Node.addReplication
  apply h.setRepl_inv
  split
  · exact h.assert_inv _ _ _ hs
  · exact h.panic _ _ (h.assert_inv _ _ _ hs)

theorem notifyFlr_inv (s : Node) (hs : Inv s) : Inv s.notifyFlr := by
  unfold Node.notifyFlr; split
  · exact hs
  · split
    · exact hs
    · exact h.panic _ _ hs

theorem beginFinishedRounds_inv (s : Node) (hs : Inv s) : Inv s.beginFinishedRounds := by
  unfold Node.beginFinishedRounds; exact h.ldr _ _ hs

theorem fsmApplyLogTo_inv (s : Node) (n : Nat) (hs : Inv s) : Inv (s.fsmApplyLogTo n) := h.fsmLog s n hs

theorem fsmApplyItems_inv (s : Node) (qs : List QItem) (hs : Inv s) : Inv (s.fsmApplyItems qs) := h.fsmItems s qs hs

theorem fsmApply_inv (s : Node) (qs : List QItem) (hs : Inv s) : Inv (s.fsmApply qs) := by
  unfold Node.fsmApply
  split
  · exact h.panic _ _ hs
  · split
    · exact h.panic _ _ hs
    · dsimp only
      exact h.assert_inv _ _ _ (h.fsmApplyItems_inv _ _ (h.fsmApplyLogTo_inv _ _ hs))

theorem applyCommittedL_inv (s : Node) (hs : Inv s) : Inv s.applyCommittedL := by
  unfold Node.applyCommittedL; exact h.fsmApply_inv _ _ (h.ldr _ _ hs)

omit h in
theorem foldl_inv {β : Type} (f : Node → β → Node) (hf : ∀ s x, Inv s → Inv (f s x))
    (xs : List β) (s : Node) (hs : Inv s) : Inv (xs.foldl f s) := by
  induction xs generalizing s with
  | nil => exact hs
  | cons x xs ih => exact ih _ (hf _ _ hs)

/-- The leader block preserves every closed invariant, by induction on the recursion budget. -/
theorem block : ∀ fuel : Nat,
    (∀ s b, Inv s → Inv (storeEntry fuel s b)) ∧
    (∀ s b, Inv s → Inv (storeItems fuel s b)) ∧
    (∀ s c, Inv s → Inv (changeConfigL fuel s c)) ∧
    (∀ s t c, Inv s → Inv (doChangeConfig fuel s t c)) ∧
    (∀ s t c, Inv s → Inv (checkConfigActions fuel s t c)) ∧
    (∀ s t c id, Inv s → Inv (checkConfigAction fuel s t c id)) ∧
    (∀ s i, Inv s → i > s.commitIndex → Inv (setCommitIndexL fuel s i)) ∧
    (∀ s, Inv s → Inv (onMajorityCommit fuel s)) := by
  intro fuel
  induction fuel with
  | zero =>
    refine ⟨?_, ?_, ?_, ?_, ?_, ?_, ?_, ?_⟩ <;> intros <;> (try unfold storeItems) <;>
      (try unfold storeEntry) <;> (try unfold changeConfigL) <;> (try unfold doChangeConfig) <;>
      (try unfold checkConfigActions) <;> (try unfold checkConfigAction) <;>
      (try unfold setCommitIndexL) <;> (try unfold onMajorityCommit) <;>
      (try split) <;> first | assumption | (apply h.panic; assumption)
  | succ n ih =>
    obtain ⟨ihSE, ihSI, ihCL, ihDC, ihCAs, ihCA, ihSC, ihMC⟩ := ih
    refine ⟨?_, ?_, ?_, ?_, ?_, ?_, ?_, ?_⟩
    · -- storeEntry
      intro s b hs
      unfold storeEntry; dsimp only
      have h1 : Inv (storeItems n s b) := ihSI _ _ hs
      have h2 := h.applyCommittedL_inv _ h1
      repeat' split
      all_goals first
        | exact ihMC _ (h.notifyFlr_inv _ (h.beginFinishedRounds_inv _ h2))
        | exact ihMC _ (h.notifyFlr_inv _ (h.beginFinishedRounds_inv _ h1))
        | exact h.notifyFlr_inv _ (h.beginFinishedRounds_inv _ h2)
        | exact h.notifyFlr_inv _ (h.beginFinishedRounds_inv _ h1)
        | exact h2
        | exact h1
    · -- storeItems
      intro s b hs
      cases b with
      | nil => unfold storeItems; exact hs
      | cons q qs =>
        unfold storeItems; dsimp only
        apply ihSI
        split
        · exact h.reply _ _ _ hs
        · split
          · split
            · exact h.reply _ _ _ hs
            · exact h.reply _ _ _ hs
          · have h1 := h.ldr s { s.ldr with queue := s.ldr.queue ++ [{ q with index := s.lastLogIndex + 1, term := s.term, cfg := q.cfg.map Config.payload }] } hs
            split
            · split
              · split
                · exact ihCL _ _ (h.appendEntry_inv _ _ h1)
                · exact h.panic _ _ (h.appendEntry_inv _ _ h1)
              · exact h.appendEntry_inv _ _ h1
            · exact h1
    · -- changeConfigL
      intro s c hs
      unfold changeConfigL; dsimp only
      apply ihCAs
      apply foldl_inv
      · intro s x hs
        split
        · exact hs
        · split
          · exact h.addReplication_inv _ _ hs
          · exact h.setRepl_inv _ _ hs
      · exact h.ldr _ _ (h.changeConfigR _ _ (h.ldr _ _ hs))
    · -- doChangeConfig
      intro s t c hs
      unfold doChangeConfig; exact ihSE _ _ hs
    · -- checkConfigActions
      intro s t c hs
      unfold checkConfigActions; dsimp only
      apply foldl_inv
      · intro s x hs
        split
        · exact ihCA _ _ _ _ hs
        · exact hs
      · apply h.popOrder
        split
        · split
          · exact ihDC _ _ _ hs
          · split
            · exact ihDC _ _ _ hs
            · exact h.panic _ _ hs
        · exact hs
    · -- checkConfigAction
      intro s t c id hs
      unfold checkConfigAction; dsimp only
      have h1 := fun r => h.setRepl_inv s r hs
      repeat' split
      all_goals first | exact hs | exact h1 _ | exact ihDC _ _ _ (h1 _)
    · -- setCommitIndexL
      intro s i hs hi
      unfold setCommitIndexL
      extract_lets s1 ready r s2 s3
      have h2 : Inv s2 := h.setCommitIndexR _ i (h.commitLog_inv _ i hs) hi
      have h3 : Inv s3 := by
        unfold s3; split
        · exact ihCAs _ _ _ h2
        · exact h2
      split
      · split
        · exact h.ldr _ _ (foldl_inv _ (fun s t hs => h.reply _ _ _ hs) _ _ h3)
        · exact ihCAs _ _ _ h3
      · exact h3
    · -- onMajorityCommit
      intro s hs
      unfold onMajorityCommit; dsimp only
      have h1 := h.panic s "nil.majorityMatchIndex" hs
      have hc : ∀ site, (s.panic site).commitIndex = s.commitIndex := by
        intro site; unfold Node.panic; split <;> rfl
      split
      · split
        · rename_i hgt
          exact h.notifyFlr_inv _ (h.applyCommittedL_inv _ (ihSC _ _ hs hgt.1))
        · exact hs
      · split
        · rename_i hgt
          exact h.notifyFlr_inv _ (h.applyCommittedL_inv _ (ihSC _ _ h1 (by rw [hc] at hgt; rw [hc]; exact hgt.1)))
        · exact h1

end FClosed

structure FStepClosed (PF : SnapFile → Prop) (PS : Node → Prop) (Inv : Node → Prop) : Prop extends FClosed Inv where
  rpcReply : ∀ (s : Node) r, Inv s → Inv (s.withRpcReply r)
  ret : ∀ (s : Node) r, Inv s → Inv (s.ret r)
  setRole : ∀ (s : Node) r, Inv s → Inv (s.setRole r)
  setLeader : ∀ (s : Node) l, Inv s → Inv (s.setLeader l)
  doClose : ∀ (s : Node) r, Inv s → Inv (s.doClose r)
  setTerm : ∀ (s : Node) t, Inv s → Inv (s.setTerm t)
  /-- `setVotedFor` entering a higher term (vote requests, the self vote of `startElection`) -/
  voteNewTerm : ∀ (s : Node) t c, Inv s → t > s.term → Inv (s.setVotedFor t c)
  /-- `setVotedFor` granting the vote in the current term while no vote was cast yet -/
  voteGrant : ∀ (s : Node) c, Inv s → s.votedFor = 0 → Inv (s.setVotedFor s.term c)
  votesNeeded : ∀ (s : Node) v, Inv s → Inv (s.withVotesNeeded v)
  candTransfer : ∀ (s : Node) v, Inv s → Inv (s.withCandTransfer v)
  removeGTE : ∀ (s : Node) i pt, Inv s →
    Inv { s with log := s.log.removeGTE i, lastLogIndex := i - 1, lastLogTerm := pt }
  removeLTE : ∀ (s : Node) i, Inv s → Inv { s with log := s.log.removeLTE i }
  clearLog : ∀ (s : Node), Inv s →
    Inv { s with log := NLog.reset s.snapIndex, lastLogIndex := s.snapIndex, lastLogTerm := s.snapTerm }
  revertConfig : ∀ (s : Node), Inv s → Inv s.revertConfig
  commitConfig : ∀ (s : Node), Inv s → Inv s.commitConfig
  /-- the core of `onInstallSnapRequest`: publish the received file, reset the log, restore the state machine -/
  installCore : ∀ (s : Node) f, Inv s → PF f → Inv ((s.publishSnapshot f).clearLog.fsmRestore)
  /-- the snapshot goroutine, in a state satisfying `PS` -/
  snapRun : ∀ (s : Node), Inv s → PS s → Inv s.snapRun
  /-- `onInstallSnapRequest` sets the commit index to the new snapshot index, which is above it -/
  installCommit : ∀ (s : Node), Inv s → s.snapIndex > s.commitIndex → Inv (s.withCommitIndex s.snapIndex)
  snapPending : ∀ (s : Node) v, Inv s → Inv (s.withSnapPending v)
  snapResult : ∀ (s : Node) v, Inv s → Inv (s.withSnapResult v)
  bootstrapLast : ∀ (s : Node) i t, Inv s → Inv (s.withLast i t)

namespace FStepClosed

variable {PF : SnapFile → Prop} {PS : Node → Prop} {Inv : Node → Prop} (h : FStepClosed PF PS Inv)
include h

theorem storeEntry_inv (f : Nat) (s : Node) (b) (hs : Inv s) : Inv (storeEntry f s b) := (h.toFClosed.block f).1 s b hs
theorem doChangeConfig_inv (f : Nat) (s : Node) (t c) (hs : Inv s) : Inv (doChangeConfig f s t c) :=
  (h.toFClosed.block f).2.2.2.1 s t c hs
theorem checkConfigActions_inv (f : Nat) (s : Node) (t c) (hs : Inv s) : Inv (checkConfigActions f s t c) :=
  (h.toFClosed.block f).2.2.2.2.1 s t c hs
theorem checkConfigAction_inv (f : Nat) (s : Node) (t c id) (hs : Inv s) : Inv (checkConfigAction f s t c id) :=
  (h.toFClosed.block f).2.2.2.2.2.1 s t c id hs
theorem onMajorityCommit_inv (f : Nat) (s : Node) (hs : Inv s) : Inv (onMajorityCommit f s) :=
  (h.toFClosed.block f).2.2.2.2.2.2.2 s hs

theorem removeGTE_inv (s : Node) (i pt : Nat) (hs : Inv s) : Inv (s.removeGTE i pt) := by
  unfold Node.removeGTE; exact h.point _ _ (h.removeGTE _ _ _ hs)

theorem compactLog_inv (s : Node) (i : Nat) (hs : Inv s) : Inv (s.compactLog i) := by
  unfold Node.compactLog; exact h.point _ _ (h.removeLTE _ _ hs)

theorem clearLog_inv (s : Node) (hs : Inv s) : Inv s.clearLog := by
  unfold Node.clearLog; exact h.point _ _ (h.clearLog _ hs)

theorem applyCommitted_inv (s : Node) (hs : Inv s) : Inv s.applyCommitted := by
  unfold Node.applyCommitted; exact h.toFClosed.fsmApply_inv _ _ hs

theorem checkQuorum_inv (s : Node) (hs : Inv s) : Inv s.checkQuorum := by
  unfold Node.checkQuorum; dsimp only
  repeat' split
  all_goals first
    | exact hs
    | exact h.panic _ _ hs
    | exact h.setLeader _ _ (h.setRole _ _ hs)
    | exact h.setLeader _ _ (h.setRole _ _ (h.panic _ _ hs))

theorem transferReply_inv (s : Node) (r : String) (hs : Inv s) : Inv (s.transferReply r) := by
  unfold Node.transferReply; exact h.ldr _ _ (h.reply _ _ _ hs)

theorem tryTransfer_inv (s : Node) (hs : Inv s) : Inv s.tryTransfer := by
  unfold Node.tryTransfer; dsimp only
  have hp := h.popOrder s hs
  repeat' split
  all_goals first
    | exact hs
    | exact hp
    | exact h.panic _ _ hs
    | exact h.panic _ _ hp
    | exact h.ldr _ _ hs
    | exact h.ldr _ _ hp
    | exact h.ldr _ _ (h.panic _ _ hs)
    | exact h.ldr _ _ (h.panic _ _ hp)

theorem onTransfer_inv (s : Node) (t g : Nat) (hs : Inv s) : Inv (s.onTransfer t g) := by
  unfold Node.onTransfer; dsimp only
  split
  · exact h.reply _ _ _ hs
  · exact h.tryTransfer_inv _ (h.ldr _ _ hs)

theorem replyTransfer_inv (s : Node) (r : String) (hs : Inv s) : Inv (s.replyTransfer r) := by
  unfold Node.replyTransfer; exact h.checkConfigActions_inv _ _ _ _ (h.transferReply_inv _ _ hs)

theorem onTimeoutNowResult_inv (s : Node) (src : Nat) (e : Bool) (r : Nat) (hs : Inv s) :
    Inv (s.onTimeoutNowResult src e r) := by
  unfold Node.onTimeoutNowResult
  extract_lets l0 t0 s1 s2 l1 t1
  have h0 : Inv s1 := h.ldr _ _ hs
  have h2 : Inv s2 := by
    unfold s2
    split
    · split
      · exact h.toFClosed.setRepl_inv _ _ h0
      · exact h0
    · exact h.panic _ _ h0
  split
  · split
    · exact h.tryTransfer_inv _ h2
    · exact h2
  · split
    · split
      · exact h.replyTransfer_inv _ _ h0
      · exact h.tryTransfer_inv _ h0
    · exact h.ldr _ _ h0

theorem leaderInit_inv (s : Node) (hs : Inv s) : Inv s.leaderInit := by
  unfold Node.leaderInit; dsimp only
  apply h.storeEntry_inv
  apply h.checkConfigActions_inv
  apply FClosed.foldl_inv
  · intro s x hs
    split
    · exact hs
    · exact h.toFClosed.addReplication_inv _ _ hs
  · exact h.ldr _ _ (h.toFClosed.assert_inv _ _ _ hs)

theorem leaderRelease_inv (s : Node) (hs : Inv s) : Inv s.leaderRelease := by
  unfold Node.leaderRelease Node.leaderReleaseRest; dsimp only
  apply h.ldr
  apply FClosed.foldl_inv _ (fun s t hs => h.reply _ _ _ hs)
  apply FClosed.foldl_inv _ (fun s t hs => h.reply _ _ _ hs)
  repeat' split
  all_goals first
    | exact hs
    | exact h.setLeader _ _ hs
    | exact h.transferReply_inv _ _ hs
    | exact h.setLeader _ _ (h.transferReply_inv _ _ hs)

theorem startElection_inv (s : Node) (hs : Inv s) : Inv s.startElection := by
  unfold Node.startElection
  extract_lets s1 s2 s3 s4
  have h4 : Inv s4 := h.votesNeeded _ _ (h.voteNewTerm _ _ _ (h.votesNeeded _ _ (h.toFClosed.assert_inv _ _ _ hs)) (Nat.lt_succ_self _))
  split
  · exact h.setLeader _ _ (h.setRole _ _ h4)
  · exact h4

theorem onVoteResult_inv (s : Node) (e : Bool) (t r : Nat) (hs : Inv s) : Inv (s.onVoteResult e t r) := by
  unfold Node.onVoteResult; dsimp only
  repeat' split
  all_goals first
    | exact hs
    | exact h.setTerm _ _ (h.setRole _ _ hs)
    | exact h.setLeader _ _ (h.setRole _ _ (h.votesNeeded _ _ hs))
    | exact h.votesNeeded _ _ hs

theorem followerTimeout_inv (s : Node) (hs : Inv s) : Inv s.followerTimeout := by
  unfold Node.followerTimeout; dsimp only
  split
  · exact h.setRole _ _ (h.setLeader _ _ hs)
  · exact h.setLeader _ _ hs

theorem releaseRole_inv (s : Node) (r : Role) (hs : Inv s) : Inv (s.releaseRole r) := by
  unfold Node.releaseRole
  split
  · exact hs
  · exact h.candTransfer _ _ hs
  · exact h.leaderRelease_inv _ hs

theorem initRole_inv (s : Node) (hs : Inv s) : Inv s.initRole := by
  unfold Node.initRole
  split
  · exact hs
  · exact h.startElection_inv _ hs
  · exact h.leaderInit_inv _ hs

theorem settle_inv (f : Nat) (s : Node) (c : Role) (hs : Inv s) : Inv (settle f s c) := by
  induction f generalizing s c with
  | zero => exact hs
  | succ n ih =>
    unfold settle
    split
    · exact hs
    · exact ih _ _ (h.initRole_inv _ (h.releaseRole_inv _ _ hs))

omit h in
theorem setVotedFor_same (s : Node) : s.setVotedFor s.term s.votedFor = s := by
  unfold Node.setVotedFor; simp

theorem onVoteRequest_inv (s : Node) (q : VoteReq) (hs : Inv s) : Inv (s.onVoteRequest q) := by
  unfold Node.onVoteRequest
  split
  · exact h.ret _ _ hs
  · split
    · exact h.ret _ _ hs
    · rename_i hlt
      have hge : q.term ≥ s.term := Nat.le_of_not_lt hlt
      extract_lets vf tm s1
      have h1 : Inv s1 := by unfold s1; split; exact h.setRole _ _ hs; exact hs
      have hterm : s1.term = s.term := by unfold s1; split <;> rfl
      have hvote : s1.votedFor = s.votedFor := by unfold s1; split <;> rfl
      by_cases hgt : q.term > s.term
      · have e1 : vf = 0 := by unfold vf; simp [hgt]
        have e2 : tm = q.term := by unfold tm; simp [hgt]
        have hn := fun c => h.voteNewTerm s1 q.term c h1 (by omega)
        simp only [e1, e2]
        repeat' split
        all_goals first | exact h.ret _ _ (hn _) | exact absurd rfl ‹_›
      · have e1 : vf = s1.votedFor := by unfold vf; simp [hgt, hvote]
        have e2 : tm = s1.term := by unfold tm; simp [hgt, hterm]
        simp only [e1, e2]
        split
        · rw [setVotedFor_same]; exact h.ret _ _ h1
        · rename_i hv
          have hv' : s1.votedFor = 0 := by simpa using hv
          split
          · rw [setVotedFor_same]; exact h.ret _ _ h1
          · exact h.ret _ _ (h.voteGrant _ _ h1 hv')

end FStepClosed

/-- One backward step for goals `Inv (…)`: close by assumption, peel one primitive (syntactic match),
or split a conditional. -/
syntax "finv_step " term : tactic
macro_rules
  | `(tactic| finv_step $h) => `(tactic| first
      | assumption
      | with_reducible apply FStepClosed.ret $h
      | with_reducible apply FStepClosed.removeGTE_inv $h
      | with_reducible apply FStepClosed.compactLog_inv $h
      | with_reducible apply FStepClosed.clearLog_inv $h
      | with_reducible apply FStepClosed.applyCommitted_inv $h
      | with_reducible apply FStepClosed.checkQuorum_inv $h
      | with_reducible apply FStepClosed.tryTransfer_inv $h
      | with_reducible apply FStepClosed.onTransfer_inv $h
      | with_reducible apply FStepClosed.replyTransfer_inv $h
      | with_reducible apply FStepClosed.transferReply_inv $h
      | with_reducible apply FStepClosed.onTimeoutNowResult_inv $h
      | with_reducible apply FStepClosed.startElection_inv $h
      | with_reducible apply FStepClosed.onVoteResult_inv $h
      | with_reducible apply FStepClosed.followerTimeout_inv $h
      | with_reducible apply FStepClosed.storeEntry_inv $h
      | with_reducible apply FStepClosed.doChangeConfig_inv $h
      | with_reducible apply FStepClosed.checkConfigActions_inv $h
      | with_reducible apply FStepClosed.checkConfigAction_inv $h
      | with_reducible apply FStepClosed.onMajorityCommit_inv $h
      | with_reducible apply FStepClosed.releaseRole_inv $h
      | with_reducible apply FStepClosed.onVoteRequest_inv $h
      | with_reducible apply FClosed.appendEntry_inv (FStepClosed.toFClosed $h)
      | with_reducible apply FClosed.commitLog_inv (FStepClosed.toFClosed $h)
      | with_reducible apply FClosed.assert_inv (FStepClosed.toFClosed $h)
      | with_reducible apply FClosed.fsmApply_inv (FStepClosed.toFClosed $h)
      | with_reducible apply FClosed.setRepl_inv (FStepClosed.toFClosed $h)
      | with_reducible apply FClosed.notifyFlr_inv (FStepClosed.toFClosed $h)
      | with_reducible apply FClosed.panic (FStepClosed.toFClosed $h)
      | with_reducible apply FClosed.reply (FStepClosed.toFClosed $h)
      | with_reducible apply FClosed.point (FStepClosed.toFClosed $h)
      | with_reducible apply FClosed.changeConfigR (FStepClosed.toFClosed $h)
      | with_reducible apply FClosed.setCommitIndexR (FStepClosed.toFClosed $h)
      | with_reducible apply FClosed.ldr (FStepClosed.toFClosed $h)
      | with_reducible apply FStepClosed.setRole $h
      | with_reducible apply FStepClosed.setLeader $h
      | with_reducible apply FStepClosed.setTerm $h
      | with_reducible apply FStepClosed.doClose $h
      | with_reducible apply FStepClosed.revertConfig $h
      | with_reducible apply FStepClosed.commitConfig $h
      | with_reducible apply FStepClosed.installCommit $h
      | with_reducible apply FStepClosed.snapPending $h
      | with_reducible apply FStepClosed.snapResult $h
      | with_reducible apply FStepClosed.candTransfer $h
      | with_reducible apply FStepClosed.votesNeeded $h
      | with_reducible apply FStepClosed.rpcReply $h
      | with_reducible apply FStepClosed.bootstrapLast $h
      | split)

syntax "finv_auto " term : tactic
macro_rules
  | `(tactic| finv_auto $h) => `(tactic| repeat' (finv_step $h))

namespace FStepClosed
variable {PF : SnapFile → Prop} {PS : Node → Prop} {Inv : Node → Prop} (h : FStepClosed PF PS Inv)
include h

theorem resolveConflict_inv (s : Node) (ne : Entry) (pt : Nat) (hs : Inv s) : Inv (s.resolveConflict ne pt) := by
  unfold Node.resolveConflict
  dsimp only
  finv_auto h

theorem appendLoop_inv (st : AppLoop) (es : List Entry) (hs : Inv st.s) : Inv (appendLoop st es).s := by
  induction es generalizing st with
  | nil => exact hs
  | cons ne rest ih =>
    unfold appendLoop
    dsimp only
    have hR : ∀ x a b, Inv x → Inv (x.resolveConflict a b) := fun x a b hx => h.resolveConflict_inv x a b hx
    repeat' (first | finv_step h | apply hR)
    all_goals (first | (apply ih; dsimp only; repeat' (first | finv_step h | apply hR)) | skip)

theorem appendCheck_inv (s : Node) (q : AppendReq) (hs : Inv s) : Inv (s.appendCheck q) := by
  unfold Node.appendCheck
  dsimp only
  finv_auto h
  all_goals (simp only [Node.canCommit, Bool.and_eq_true, decide_eq_true_eq] at *; omega)

theorem onAppendEntries_inv (s : Node) (q : AppendReq) (hs : Inv s) : Inv (s.onAppendEntries q) := by
  unfold Node.onAppendEntries
  dsimp only
  have hA : ∀ x, Inv x → Inv (x.appendCheck q) := fun x hx => h.appendCheck_inv x q hx
  have hL : ∀ st, Inv st.s → Inv (appendLoop st q.entries).s := fun st hst => h.appendLoop_inv st _ hst
  repeat' (first | finv_step h | (apply hA) | (apply hL; dsimp only))
  all_goals (simp only [Node.canCommit, Bool.and_eq_true, decide_eq_true_eq] at *; omega)

omit h in
theorem install_commit_guard (s2 : Node) (f : SnapFile) (hgt : ¬ f.index ≤ s2.commitIndex) :
    ((s2.publishSnapshot f).clearLog.fsmRestore).snapIndex > ((s2.publishSnapshot f).clearLog.fsmRestore).commitIndex := by
  have hf : ∀ x : Node, x.fsmRestore.snapIndex = x.snapIndex ∧ x.fsmRestore.commitIndex = x.commitIndex := by
    intro x; unfold Node.fsmRestore Node.panic Node.withFsm
    constructor <;> (repeat' split) <;> rfl
  have hc : ∀ x : Node, x.clearLog.snapIndex = x.snapIndex ∧ x.clearLog.commitIndex = x.commitIndex :=
    fun x => ⟨rfl, rfl⟩
  have hp : (s2.publishSnapshot f).snapIndex = f.index ∧ (s2.publishSnapshot f).commitIndex = s2.commitIndex :=
    ⟨rfl, rfl⟩
  rw [(hf _).1, (hf _).2, (hc _).1, (hc _).2, hp.1, hp.2]
  omega

theorem onInstallSnap_inv (s : Node) (q : InstallReq) (hs : Inv s)
    (hq : q.term < s.term ∨ PF { index := q.lastIndex, term := q.lastTerm, config := q.lastConfig, data := q.data }) :
    Inv (s.onInstallSnap q) := by
  unfold Node.onInstallSnap
  split
  · exact h.ret _ _ hs
  · rename_i hnst
    have hpf := hq.resolve_left hnst
    extract_lets s1 s2 s3 s4 s5 s6 s7
    have h1 : Inv s1 := by unfold s1; split; exact h.setRole _ _ (h.setTerm _ _ hs); exact hs
    have h2 : Inv s2 := h.setLeader _ _ (h.setRole _ _ h1)
    split
    · exact h.ret _ _ h2
    · rename_i hgt
      split
      · exact h.ret _ _ h2
      · exact h.ret _ _ (h.commitConfig _ (h.changeConfigR _ _ (h.installCommit _ (h.installCore _ _ h2 hpf)
          (install_commit_guard s2 _ hgt))))

theorem onTimeoutNow_inv (s : Node) (hs : Inv s) : Inv s.onTimeoutNow := by
  unfold Node.onTimeoutNow
  finv_auto h

theorem onTakeSnapshot_inv (s : Node) (t th : Nat) (hs : Inv s) : Inv (s.onTakeSnapshot t th) := by
  unfold Node.onTakeSnapshot
  finv_auto h

theorem snapRun_inv (s : Node) (hs : Inv s) (hps : PS s) : Inv s.snapRun := h.snapRun s hs hps

theorem onSnapshotTaken_inv (s : Node) (hs : Inv s) : Inv s.onSnapshotTaken := by
  unfold Node.onSnapshotTaken
  dsimp only
  finv_auto h

theorem onChangeConfig_inv (s : Node) (t : Nat) (c : Config) (hs : Inv s) : Inv (s.onChangeConfig t c) := by
  unfold Node.onChangeConfig
  dsimp only
  finv_auto h

theorem bootstrap_inv (s : Node) (t : Nat) (c : Config) (hs : Inv s) : Inv (s.bootstrap t c) := by
  unfold Node.bootstrap
  dsimp only
  finv_auto h

theorem replUpdLoop_inv (s : Node) (f : UpdFlags) (us : List ReplUpdate) (hs : Inv s) :
    Inv (replUpdLoop s f us).1 := by
  induction us generalizing s f with
  | nil => exact hs
  | cons u us ih =>
    unfold replUpdLoop
    dsimp only
    repeat' (first | finv_step h | apply ih)

theorem checkLogCompact_inv (s : Node) (hs : Inv s) : Inv s.checkLogCompact := by
  unfold Node.checkLogCompact
  finv_auto h

theorem checkReplUpdates_inv (s : Node) (us : List ReplUpdate) (hs : Inv s) : Inv (s.checkReplUpdates us) := by
  unfold Node.checkReplUpdates
  dsimp only
  have hL : Inv (replUpdLoop s {} us).1 := h.replUpdLoop_inv _ _ _ hs
  have hC : ∀ x, Inv x → Inv x.checkLogCompact := fun x hx => h.checkLogCompact_inv x hx
  repeat' (first | finv_step h | apply hC)

theorem rejectEntries_inv (s : Node) (b : List QItem) (hs : Inv s) : Inv (s.rejectEntries b) := by
  induction b generalizing s with
  | nil => exact hs
  | cons q qs ih =>
    unfold Node.rejectEntries
    dsimp only
    repeat' (first | finv_step h | apply ih)

theorem onWaitForStable_inv (s : Node) (t : Nat) (hs : Inv s) : Inv (s.onWaitForStable t) := by
  unfold Node.onWaitForStable
  finv_auto h

theorem rpcDone_inv (s : Node) (a b : Bool) (hs : Inv s) : Inv (s.rpcDone a b) := by
  unfold Node.rpcDone
  finv_auto h

theorem shutdown_inv (s : Node) (hs : Inv s)
    (hps : PS ((s.doClose "serverClosed").releaseRole (s.doClose "serverClosed").role)) : Inv s.shutdown := by
  unfold Node.shutdown
  extract_lets s1 s2 s3
  have h2 : Inv s2 := h.releaseRole_inv _ _ (h.doClose _ _ hs)
  have h3 : Inv s3 := by
    unfold s3; split
    · exact h.snapRun _ h2 hps
    · exact h2
  split
  · exact h.onSnapshotTaken_inv _ h3
  · exact h3

/-- what is asked of an operation: an install request is stale or its file satisfies `PF`; the snapshot goroutine
runs in a state satisfying `PS` -/
def _root_.Raft.Node.FOpOk (PF : SnapFile → Prop) (PS : Node → Prop) (s : Node) : Op → Prop
  | .install q => q.term < s.term ∨ PF { index := q.lastIndex, term := q.lastTerm, config := q.lastConfig, data := q.data }
  | .snapRun => PS s
  | .shutdown => PS ((s.doClose "serverClosed").releaseRole (s.doClose "serverClosed").role)
  | _ => True

theorem handle_inv (s : Node) (op : Op) (hs : Inv s) (hop : FOpOk PF PS s op) : Inv (s.handle op) := by
  cases op <;> unfold Node.handle <;> dsimp only
  case vote q => exact h.rpcDone_inv _ _ _ (h.onVoteRequest_inv _ _ hs)
  case append q => exact h.rpcDone_inv _ _ _ (h.onAppendEntries_inv _ _ hs)
  case install q => exact h.rpcDone_inv _ _ _ (h.onInstallSnap_inv _ _ hs hop)
  case timeoutNow => exact h.rpcDone_inv _ _ _ (h.onTimeoutNow_inv _ hs)
  case identity a b c => exact h.rpcReply _ _ hs
  case disconnected n => finv_auto h
  case timeout => finv_auto h
  case newEntries b => split; exact h.storeEntry_inv _ _ _ hs; exact h.rejectEntries_inv _ _ hs
  case changeConfig t c => split; exact h.onChangeConfig_inv _ _ _ hs; exact h.bootstrap_inv _ _ _ hs
  case takeSnapshot t th => exact h.onTakeSnapshot_inv _ _ _ hs
  case snapRun => exact h.snapRun_inv _ hs hop
  case snapTaken => exact h.onSnapshotTaken_inv _ hs
  case waitStable t => split; exact h.onWaitForStable_inv _ _ hs; exact h.reply _ _ _ hs
  case transfer t g => finv_auto h
  case voteResult e t r => finv_auto h
  case replUpdates us => split; exact h.checkReplUpdates_inv _ _ hs; exact hs
  case transferTimeout => finv_auto h
  case timeoutNowResult a b c => finv_auto h
  case newTermTimeout => finv_auto h
  case shutdown => exact h.shutdown_inv _ hs hop

/-- **Composition theorem**: a predicate closed in the sense of `FStepClosed` that holds after `begin` is preserved
by the handler and the role transitions of every step. -/
theorem step_inv (s : Node) (op : Op) (ra : List Nat) (ord : List (List Nat)) (hs : Inv (s.begin ra ord))
    (hop : FOpOk PF PS (s.begin ra ord) op) : Inv (s.step op ra ord) := by
  unfold Node.step
  dsimp only
  have h1 := h.handle_inv _ op hs hop
  split
  · exact h1
  · exact h.settle_inv _ _ _ h1

end FStepClosed
end Node
end Raft
