/-
Node-level "what does operation X do to a state of this shape" lemmas for the possibility (liveness) proof on the
cluster-level system (Props/C17Sys.lean).  Unlike the safety lemmas of the library (which say what a state AFTER a
step implies about the state before), these lemmas compute the state after the step:

* `Keep s s'`: nothing but role / leader id / (term, vote) / candidate bookkeeping / leader record / ghost outputs moved;
* `timeout_makes_candidate` (follower and candidate), `voteResult_newer_term_steps_down`, `newTerm_report_steps_down`;
* `vote_granted_when_uptodate`; `voteResult_counts` (not the last vote) and `majority_of_grants_makes_leader`.
-/
import RaftVerif.Lemmas.SysInv
import RaftVerif.Lemmas.SnapRelU3

namespace Raft
namespace Progress
open Node LogRel CommitRel

/-- nothing moved but role, leader id, (term, vote), the candidate's and the leader's bookkeeping and the ghost
outputs of the step -/
structure Keep (s s' : Node) : Prop where
  nid : s'.nid = s.nid
  retain : s'.retain = s.retain
  log : s'.log = s.log
  lastLogIndex : s'.lastLogIndex = s.lastLogIndex
  lastLogTerm : s'.lastLogTerm = s.lastLogTerm
  commitIndex : s'.commitIndex = s.commitIndex
  fsm : s'.fsm = s.fsm
  configs : s'.configs = s.configs
  closed : s'.closed = s.closed
  snapIndex : s'.snapIndex = s.snapIndex
  snapsDisk : s'.snapsDisk = s.snapsDisk

theorem Keep.refl (s : Node) : Keep s s := ⟨rfl, rfl, rfl, rfl, rfl, rfl, rfl, rfl, rfl, rfl, rfl⟩

theorem Keep.trans {a b c : Node} (h1 : Keep a b) (h2 : Keep b c) : Keep a c :=
  ⟨h2.nid.trans h1.nid, h2.retain.trans h1.retain, h2.log.trans h1.log, h2.lastLogIndex.trans h1.lastLogIndex,
   h2.lastLogTerm.trans h1.lastLogTerm, h2.commitIndex.trans h1.commitIndex, h2.fsm.trans h1.fsm,
   h2.configs.trans h1.configs, h2.closed.trans h1.closed, h2.snapIndex.trans h1.snapIndex,
   h2.snapsDisk.trans h1.snapsDisk⟩

theorem Keep.nwf {s s' : Node} (h : Keep s s') (hn : NWF s) : NWF s' :=
  nwf_congr hn h.log h.lastLogIndex h.lastLogTerm h.snapIndex h.snapsDisk

theorem keep_begin (s : Node) (ra : List Nat) (ord : List (List Nat)) : Keep s (s.begin ra ord) :=
  ⟨rfl, rfl, rfl, rfl, rfl, rfl, rfl, rfl, rfl, rfl, rfl⟩

theorem keep_setRole (s : Node) (r : Role) : Keep s (s.setRole r) := ⟨rfl, rfl, rfl, rfl, rfl, rfl, rfl, rfl, rfl, rfl, rfl⟩
theorem keep_setLeader (s : Node) (l : Nat) : Keep s (s.setLeader l) := ⟨rfl, rfl, rfl, rfl, rfl, rfl, rfl, rfl, rfl, rfl, rfl⟩
theorem keep_votesNeeded (s : Node) (v : Int) : Keep s (s.withVotesNeeded v) :=
  ⟨rfl, rfl, rfl, rfl, rfl, rfl, rfl, rfl, rfl, rfl, rfl⟩
theorem keep_candTransfer (s : Node) (v : Bool) : Keep s (s.withCandTransfer v) :=
  ⟨rfl, rfl, rfl, rfl, rfl, rfl, rfl, rfl, rfl, rfl, rfl⟩
theorem keep_ret (s : Node) (r : Nat) : Keep s (s.ret r) := ⟨rfl, rfl, rfl, rfl, rfl, rfl, rfl, rfl, rfl, rfl, rfl⟩
theorem keep_rpcReply (s : Node) (r : Option RpcReply) : Keep s (s.withRpcReply r) :=
  ⟨rfl, rfl, rfl, rfl, rfl, rfl, rfl, rfl, rfl, rfl, rfl⟩
theorem keep_withLdr (s : Node) (l : Leader) : Keep s (s.withLdr l) := ⟨rfl, rfl, rfl, rfl, rfl, rfl, rfl, rfl, rfl, rfl, rfl⟩
theorem keep_popOrder (s : Node) : Keep s s.popOrder := ⟨rfl, rfl, rfl, rfl, rfl, rfl, rfl, rfl, rfl, rfl, rfl⟩

theorem keep_panic (s : Node) (site : String) : Keep s (s.panic site) := by
  unfold Node.panic; split <;> exact ⟨rfl, rfl, rfl, rfl, rfl, rfl, rfl, rfl, rfl, rfl, rfl⟩

theorem keep_assert (s : Node) (b : Bool) (site : String) : Keep s (s.assert b site) := by
  unfold Node.assert; split
  · exact Keep.refl s
  · exact keep_panic s site

theorem keep_reply (s : Node) (t : Nat) (r : String) : Keep s (s.reply t r) := by
  unfold Node.reply; split <;> exact ⟨rfl, rfl, rfl, rfl, rfl, rfl, rfl, rfl, rfl, rfl, rfl⟩

theorem keep_storeTermVote (s : Node) (t c : Nat) : Keep s (s.storeTermVote t c) := by
  unfold Node.storeTermVote Node.point; dsimp only
  split <;> exact ⟨rfl, rfl, rfl, rfl, rfl, rfl, rfl, rfl, rfl, rfl, rfl⟩

theorem keep_setTerm (s : Node) (t : Nat) : Keep s (s.setTerm t) := by
  unfold Node.setTerm
  split
  · split
    · exact keep_storeTermVote s t 0
    · exact keep_panic s _
  · exact Keep.refl s

theorem keep_setVotedFor (s : Node) (t c : Nat) : Keep s (s.setVotedFor t c) := by
  unfold Node.setVotedFor
  split
  · split
    · exact keep_storeTermVote s t c
    · exact keep_panic s _
  · exact Keep.refl s

theorem keep_rpcDone (s : Node) (a b : Bool) : Keep s (s.rpcDone a b) := by
  unfold Node.rpcDone
  split
  · exact (keep_rpcReply s _).trans (keep_panic _ _)
  · exact keep_rpcReply s _

theorem keep_foldl {β : Type} (f : Node → β → Node) (hf : ∀ s x, Keep s (f s x)) (xs : List β) (s : Node) :
    Keep s (xs.foldl f s) := by
  induction xs generalizing s with
  | nil => exact Keep.refl s
  | cons x xs ih => exact (hf s x).trans (ih _)

theorem keep_transferReply (s : Node) (r : String) : Keep s (s.transferReply r) := by
  unfold Node.transferReply
  exact (keep_reply s _ _).trans (keep_withLdr _ _)

theorem keep_leaderReleaseRest (s : Node) : Keep s s.leaderReleaseRest := by
  unfold Node.leaderReleaseRest
  extract_lets s1 err s2 s3
  have h1 : Keep s s1 := by
    unfold s1; split
    · exact keep_setLeader s 0
    · exact Keep.refl s
  have h2 : Keep s1 s2 := keep_foldl _ (fun x q => keep_reply x _ _) _ _
  have h3 : Keep s2 s3 := keep_foldl _ (fun x q => keep_reply x _ _) _ _
  exact ((h1.trans h2).trans h3).trans (keep_withLdr _ _)

theorem keep_leaderRelease (s : Node) : Keep s s.leaderRelease := by
  unfold Node.leaderRelease
  split
  · exact (keep_transferReply s _).trans (keep_leaderReleaseRest _)
  · exact keep_leaderReleaseRest s

theorem keep_releaseRole (s : Node) (r : Role) : Keep s (s.releaseRole r) := by
  unfold Node.releaseRole
  cases r
  · exact Keep.refl s
  · exact keep_candTransfer s false
  · exact keep_leaderRelease s

theorem keep_startElection (s : Node) : Keep s s.startElection := by
  unfold Node.startElection
  extract_lets s1 s2 s3 s4
  have h1 : Keep s s1 := keep_assert s _ _
  have h2 : Keep s1 s2 := keep_votesNeeded _ _
  have h3 : Keep s2 s3 := keep_setVotedFor _ _ _
  have h4 : Keep s3 s4 := keep_votesNeeded _ _
  have h := ((h1.trans h2).trans h3).trans h4
  split
  · exact h.trans ((keep_setRole _ _).trans (keep_setLeader _ _))
  · exact h

set_option linter.tactic.unusedName false in
/-- the leader id is not touched by `startElection` unless the node is elected at once -/
theorem startElection_leader (s : Node) (hq : (s.configs.latest.quorum : Int) - 1 ≠ 0) :
    s.startElection.leader = s.leader := by
  obtain ⟨_, _, _, _, e5, _⟩ := startElection_spec s
  unfold Node.startElection at e5 ⊢
  extract_lets s1 s2 s3 s4 at e5 ⊢
  have e : s4.leader = s.leader := by
    show s3.leader = _
    have : s3.leader = s2.leader := by
      unfold s3 Node.setVotedFor Node.storeTermVote Node.panic Node.point; dsimp only
      repeat' split
      all_goals rfl
    rw [this]
    show s1.leader = _
    unfold s1 Node.assert Node.panic
    repeat' split
    all_goals rfl
  split
  · rename_i h0
    rw [if_pos h0] at e5
    exact absurd (e5 ▸ h0 : _) (by intro h; exact hq (by rw [← e5]; exact h0))
  · exact e

/-! ### role transitions -/

theorem step_eq (s : Node) (op : Op) (ra : List Nat) (ord : List (List Nat)) (h : op ≠ .shutdown) :
    s.step op ra ord = settle 6 ((s.begin ra ord).handle op) s.role := by
  unfold Node.step
  cases op <;> first | rfl | exact absurd rfl h

/-- the handler asked for an election and the quorum is not one: `startElection` runs, the node is candidate -/
theorem settle_to_candidate (h : Node) (cur : Role) (hr : h.role = .candidate) (hc : cur ≠ .candidate)
    (hq : h.configs.latest.quorum ≠ 1) : settle 6 h cur = (h.releaseRole cur).startElection := by
  have hne : h.role ≠ cur := by rw [hr]; exact fun e => hc e.symm
  cases settle_shape 3 h cur hne with
  | follower hf _ => rw [hr] at hf; cases hf
  | leader x hl _ _ => rw [hr] at hl; cases hl
  | cand _ e _ => exact e
  | candLeader x _ hl _ _ =>
    obtain ⟨_, _, _, _, _, e6⟩ := startElection_spec (h.releaseRole cur)
    rw [(SameKey.releaseRole h cur).configs] at e6
    rcases e6 with ⟨q0, _⟩ | ⟨_, r1⟩
    · omega
    · rw [r1, (SameKey.releaseRole h cur).role, hr] at hl; cases hl

/-- the handler made the node a follower -/
theorem settle_to_follower (h : Node) (cur : Role) (hr : h.role = .follower) :
    settle 6 h cur = h ∨ settle 6 h cur = h.releaseRole cur := by
  by_cases hne : h.role = cur
  · left; unfold settle; rw [if_pos hne]
  · right
    cases settle_shape 3 h cur hne with
    | follower _ e => exact e
    | leader x hl _ _ => rw [hr] at hl; cases hl
    | cand hc _ _ => rw [hr] at hc; cases hc
    | candLeader x hc _ _ _ => rw [hr] at hc; cases hc

/-- what `startElection` does when the quorum is not one -/
theorem startElection_full (s : Node) (hq : s.configs.latest.quorum ≠ 1) :
    s.startElection.role = s.role ∧ s.startElection.term = s.term + 1 ∧ s.startElection.votedFor = s.nid ∧
    s.startElection.votesNeeded = (s.configs.latest.quorum : Int) - 1 ∧ s.startElection.leader = s.leader ∧
    Keep s s.startElection := by
  have hq' : (s.configs.latest.quorum : Int) - 1 ≠ 0 := by omega
  obtain ⟨_, e2, e3, _, e5, e6⟩ := startElection_spec s
  refine ⟨?_, e2, e3, e5, startElection_leader s hq', keep_startElection s⟩
  rcases e6 with ⟨q0, _⟩ | ⟨_, r⟩
  · exact absurd q0 hq'
  · exact r

/-! ### stage 1: the node-level lemmas -/

/-- **timeout_makes_candidate (follower)**: the election timeout of a follower that is a voter of its bootstrapped
latest configuration (quorum > 1): it forgets its leader, becomes candidate of the next term with its own vote and
`quorum - 1` votes missing; nothing else moves. -/
theorem timeout_makes_candidate (s : Node) (ra : List Nat) (ord : List (List Nat)) (hr : s.role = .follower)
    (hb : s.configs.isBootstrapped = true) (hv : s.configs.latest.isVoter s.nid = true)
    (hq : s.configs.latest.quorum ≠ 1) :
    (s.step .timeout ra ord).role = .candidate ∧ (s.step .timeout ra ord).term = s.term + 1 ∧
    (s.step .timeout ra ord).votedFor = s.nid ∧ (s.step .timeout ra ord).leader = 0 ∧
    (s.step .timeout ra ord).votesNeeded = (s.configs.latest.quorum : Int) - 1 ∧
    Keep s (s.step .timeout ra ord) := by
  rw [step_eq s .timeout ra ord (by intro h; cases h)]
  have hh : (s.begin ra ord).handle .timeout = ((s.begin ra ord).setLeader 0).setRole .candidate := by
    show (match (s.begin ra ord).role with
      | .follower => (s.begin ra ord).followerTimeout
      | .candidate => (s.begin ra ord).startElection
      | .leader => (s.begin ra ord).checkQuorum) = _
    have : (s.begin ra ord).role = .follower := hr
    rw [this]
    show (s.begin ra ord).followerTimeout = _
    unfold Node.followerTimeout
    dsimp only
    rw [if_pos]
    show (s.configs.isBootstrapped && s.configs.latest.isVoter s.nid) = true
    rw [hb, hv]; rfl
  rw [hh, settle_to_candidate (((s.begin ra ord).setLeader 0).setRole .candidate) s.role rfl
    (by rw [hr]; exact fun e => by cases e) hq]
  have hrel : (((s.begin ra ord).setLeader 0).setRole .candidate).releaseRole s.role =
      ((s.begin ra ord).setLeader 0).setRole .candidate := by rw [hr]; rfl
  rw [hrel]
  obtain ⟨a, b, c, d, e, f⟩ := startElection_full (((s.begin ra ord).setLeader 0).setRole .candidate) hq
  exact ⟨a, b, c, e, d, ((keep_begin s ra ord).trans ((keep_setLeader _ _).trans (keep_setRole _ _))).trans f⟩

/-- **timeout_makes_candidate (candidate)**: the election timeout of a candidate (quorum > 1): a new election in
the next term; the leader id and everything else stay. -/
theorem timeout_candidate_again (s : Node) (ra : List Nat) (ord : List (List Nat)) (hr : s.role = .candidate)
    (hq : s.configs.latest.quorum ≠ 1) :
    (s.step .timeout ra ord).role = .candidate ∧ (s.step .timeout ra ord).term = s.term + 1 ∧
    (s.step .timeout ra ord).votedFor = s.nid ∧ (s.step .timeout ra ord).leader = s.leader ∧
    (s.step .timeout ra ord).votesNeeded = (s.configs.latest.quorum : Int) - 1 ∧
    Keep s (s.step .timeout ra ord) := by
  rw [step_eq s .timeout ra ord (by intro h; cases h)]
  have hh : (s.begin ra ord).handle .timeout = (s.begin ra ord).startElection := by
    show (match (s.begin ra ord).role with
      | .follower => (s.begin ra ord).followerTimeout
      | .candidate => (s.begin ra ord).startElection
      | .leader => (s.begin ra ord).checkQuorum) = _
    have : (s.begin ra ord).role = .candidate := hr
    rw [this]
  obtain ⟨a, b, c, d, e, f⟩ := startElection_full (s.begin ra ord) hq
  have hs : settle 6 (s.begin ra ord).startElection s.role = (s.begin ra ord).startElection := by
    unfold settle; rw [if_pos (by rw [a]; rfl)]
  rw [hh, hs]
  exact ⟨a.trans hr, b, c, e, d, (keep_begin s ra ord).trans f⟩

/-- fields that the (term, vote) primitives leave alone -/
structure Side (s s' : Node) : Prop where
  role : s'.role = s.role
  leader : s'.leader = s.leader
  result : s'.result = s.result
  rpcReply : s'.rpcReply = s.rpcReply
  ldr : s'.ldr = s.ldr

theorem side_setVotedFor (s : Node) (t c : Nat) : Side s (s.setVotedFor t c) := by
  unfold Node.setVotedFor Node.storeTermVote Node.panic Node.point; dsimp only
  repeat' split
  all_goals exact ⟨rfl, rfl, rfl, rfl, rfl⟩

theorem side_setTerm (s : Node) (t : Nat) : Side s (s.setTerm t) := by
  unfold Node.setTerm Node.storeTermVote Node.panic Node.point; dsimp only
  repeat' split
  all_goals exact ⟨rfl, rfl, rfl, rfl, rfl⟩

/-- a role release keeps role, term, vote, the reply and everything `Keep` lists -/
theorem releaseRole_all (h : Node) (cur : Role) :
    Keep h (h.releaseRole cur) ∧ (h.releaseRole cur).role = h.role ∧ (h.releaseRole cur).term = h.term ∧
    (h.releaseRole cur).votedFor = h.votedFor ∧ (h.releaseRole cur).rpcReply = h.rpcReply := by
  have k := SameKey.releaseRole h cur
  have r : RelFrame (fun s : Node => s.rpcReply) :=
    ⟨fun s t r => by unfold Node.reply; split <;> rfl, fun _ _ => rfl, fun _ _ => rfl, fun _ _ => rfl⟩
  exact ⟨keep_releaseRole h cur, k.role, k.term, k.votedFor, r.releaseRole h cur⟩

/-- the role transitions after a handler that left a follower -/
theorem settle_follower_all (h : Node) (cur : Role) (hf : h.role = .follower) :
    Keep h (settle 6 h cur) ∧ (settle 6 h cur).role = .follower ∧ (settle 6 h cur).term = h.term ∧
    (settle 6 h cur).votedFor = h.votedFor ∧ (settle 6 h cur).rpcReply = h.rpcReply := by
  rcases settle_follower_cases h cur hf with e | e
  · rw [e]; exact ⟨Keep.refl h, hf, rfl, rfl, rfl⟩
  · rw [e]
    obtain ⟨a, b, c, d, f⟩ := releaseRole_all h cur
    exact ⟨a, b.trans hf, c, d, f⟩

/-- the leader id after the role transitions that follow a handler that left a follower which was not leader -/
theorem settle_follower_leader (h : Node) (cur : Role) (hf : h.role = .follower) (hc : cur ≠ .leader) :
    (settle 6 h cur).leader = h.leader := by
  rcases settle_follower_cases h cur hf with e | e
  · rw [e]
  · rw [e]
    cases cur with
    | follower => rfl
    | candidate => rfl
    | leader => exact absurd rfl hc

/-- **voteResult_newer_term_steps_down**: a candidate that receives a vote response carrying a newer term becomes
follower of that term, its vote is open again; leader id and everything else stay. -/
theorem voteResult_newer_term_steps_down (s : Node) (ra : List Nat) (ord : List (List Nat)) (tm res : Nat)
    (hr : s.role = .candidate) (ht : tm > s.term) :
    (s.step (.voteResult false tm res) ra ord).role = .follower ∧
    (s.step (.voteResult false tm res) ra ord).term = tm ∧
    (s.step (.voteResult false tm res) ra ord).votedFor = 0 ∧
    (s.step (.voteResult false tm res) ra ord).leader = s.leader ∧
    Keep s (s.step (.voteResult false tm res) ra ord) := by
  rw [step_eq s _ ra ord (by intro h; cases h)]
  have hh : (s.begin ra ord).handle (.voteResult false tm res) = ((s.begin ra ord).setRole .follower).setTerm tm := by
    show (if (s.begin ra ord).role = .candidate then (s.begin ra ord).onVoteResult false tm res else _) = _
    rw [if_pos (show (s.begin ra ord).role = .candidate from hr)]
    unfold Node.onVoteResult
    rw [if_neg (by decide), if_pos (show tm > (s.begin ra ord).term from ht)]
  rw [hh]
  have hside := side_setTerm ((s.begin ra ord).setRole .follower) tm
  have hk := keep_setTerm ((s.begin ra ord).setRole .follower) tm
  have hf : (((s.begin ra ord).setRole .follower).setTerm tm).role = .follower := hside.role
  have htv : (((s.begin ra ord).setRole .follower).setTerm tm).term = tm ∧
      (((s.begin ra ord).setRole .follower).setTerm tm).votedFor = 0 := by
    unfold Node.setTerm
    rw [if_pos (show ((s.begin ra ord).setRole .follower).term ≠ tm from by show s.term ≠ tm; omega),
      if_pos (show tm > ((s.begin ra ord).setRole .follower).term from ht)]
    exact ⟨rfl, rfl⟩
  obtain ⟨a, b, c, d, _⟩ := settle_follower_all _ s.role hf
  refine ⟨b, c.trans htv.1, d.trans htv.2, ?_, ?_⟩
  · rw [settle_follower_leader _ _ hf (by rw [hr]; exact fun e => by cases e), hside.leader]; rfl
  · exact ((keep_begin s ra ord).trans ((keep_setRole _ _).trans hk)).trans a

theorem reply_leader (s : Node) (t : Nat) (r : String) : (s.reply t r).leader = s.leader := by
  unfold Node.reply; split <;> rfl

theorem foldl_leader {β : Type} (f : Node → β → Node) (hf : ∀ s x, (f s x).leader = s.leader) (xs : List β)
    (s : Node) : (xs.foldl f s).leader = s.leader := by
  induction xs generalizing s with
  | nil => rfl
  | cons x xs ih => exact (ih _).trans (hf s x)

/-- a released leader that knew no leader still knows none -/
theorem leaderRelease_leader0 (s : Node) (h : s.leader = 0) : s.leaderRelease.leader = 0 := by
  have h1 : ∀ x : Node, x.leader = 0 → x.leaderReleaseRest.leader = 0 := by
    intro x hx
    unfold Node.leaderReleaseRest
    extract_lets s1 err s2 s3
    have e1 : s1.leader = 0 := by unfold s1; split; rfl; exact hx
    have e2 : s2.leader = 0 := (foldl_leader _ (fun y q => reply_leader y _ _) _ _).trans e1
    have e3 : s3.leader = 0 := (foldl_leader _ (fun y q => reply_leader y _ _) _ _).trans e2
    exact e3
  unfold Node.leaderRelease
  split
  · apply h1
    unfold Node.transferReply
    show (s.reply _ _).leader = 0
    rw [reply_leader]; exact h
  · exact h1 s h

/-- **newTerm_report_steps_down**: a leader whose replication to `j` reports the leader's own term as "newer term
seen" (`leader.checkReplUpdates`, case `newTerm`) steps down: follower of the same term, no leader known, same
vote; nothing else moves (the leader record is released). -/
theorem newTerm_report_steps_down (s : Node) (ra : List Nat) (ord : List (List Nat)) (j : Nat)
    (hr : s.role = .leader) (hj : s.findRepl? j ≠ none) :
    (s.step (.replUpdates [{ id := j, removed := false, upd := .newTerm s.term }]) ra ord).role = .follower ∧
    (s.step (.replUpdates [{ id := j, removed := false, upd := .newTerm s.term }]) ra ord).term = s.term ∧
    (s.step (.replUpdates [{ id := j, removed := false, upd := .newTerm s.term }]) ra ord).votedFor = s.votedFor ∧
    (s.step (.replUpdates [{ id := j, removed := false, upd := .newTerm s.term }]) ra ord).leader = 0 ∧
    Keep s (s.step (.replUpdates [{ id := j, removed := false, upd := .newTerm s.term }]) ra ord) := by
  rw [step_eq s _ ra ord (by intro h; cases h)]
  have hh : (s.begin ra ord).handle (.replUpdates [{ id := j, removed := false, upd := .newTerm s.term }]) =
      ((s.begin ra ord).setRole .follower).setLeader 0 := by
    show (if (s.begin ra ord).role = .leader then (s.begin ra ord).checkReplUpdates _ else _) = _
    rw [if_pos (show (s.begin ra ord).role = .leader from hr)]
    cases hst : (s.begin ra ord).findRepl? j with
    | none => exact absurd hst hj
    | some st =>
      have hloop : replUpdLoop (s.begin ra ord) {} [{ id := j, removed := false, upd := .newTerm s.term }] =
          ((((s.begin ra ord).setRole .follower).setLeader 0).setTerm s.term, { stop := true }) := by
        unfold replUpdLoop
        rw [if_neg (by intro h; cases h)]
        dsimp only
        rw [hst]
      unfold Node.checkReplUpdates
      rw [hloop]
      dsimp only
      rw [if_pos rfl]
      unfold Node.setTerm
      rw [if_neg (by intro h; exact h rfl)]
  rw [hh]
  have hf : (((s.begin ra ord).setRole .follower).setLeader 0).role = .follower := rfl
  rw [hr]
  rcases settle_follower_cases _ .leader hf with e | e
  · rw [e]
    exact ⟨rfl, rfl, rfl, rfl, (keep_begin s ra ord).trans ((keep_setRole _ _).trans (keep_setLeader _ _))⟩
  · rw [e]
    obtain ⟨a, b, c, d, _⟩ := releaseRole_all (((s.begin ra ord).setRole .follower).setLeader 0) .leader
    refine ⟨b, c, d, leaderRelease_leader0 _ rfl, ?_⟩
    exact ((keep_begin s ra ord).trans ((keep_setRole _ _).trans (keep_setLeader _ _))).trans a

/-- **vote_granted_when_uptodate**: a node that knows no leader (after its own election timeout: `leader = 0`)
receives a vote request of a HIGHER term from a candidate whose log is at least as up to date as its own (the
check of `onVoteRequest`: last term, then last index): it grants the vote — the reply carries `success`, the node
is follower of the requested term with its vote cast for the candidate; nothing else moves. -/
theorem vote_granted_when_uptodate (s : Node) (ra : List Nat) (ord : List (List Nat)) (q : VoteReq)
    (hl : s.leader = 0) (ht : q.term > s.term)
    (hup : ¬ (s.lastLogTerm > q.lastLogTerm ∨ (s.lastLogTerm = q.lastLogTerm ∧ s.lastLogIndex > q.lastLogIndex))) :
    (s.step (.vote q) ra ord).rpcReply.map (·.result) = some rSuccess ∧
    (s.step (.vote q) ra ord).role = .follower ∧ (s.step (.vote q) ra ord).term = q.term ∧
    (s.step (.vote q) ra ord).votedFor = q.src ∧ Keep s (s.step (.vote q) ra ord) := by
  rw [step_eq s _ ra ord (by intro h; cases h)]
  have hv : (s.begin ra ord).onVoteRequest q =
      (((s.begin ra ord).setRole .follower).setVotedFor q.term q.src).ret rSuccess := by
    unfold Node.onVoteRequest
    rw [if_neg (by
      intro h
      exact h.2.1 hl)]
    rw [if_neg (show ¬ q.term < (s.begin ra ord).term from by show ¬ q.term < s.term; omega)]
    have ht' : q.term > (s.begin ra ord).term := ht
    dsimp only
    simp only [if_pos ht']
    rw [if_neg (by intro h; exact h rfl)]
    exact if_neg hup
  have hsv := side_setVotedFor ((s.begin ra ord).setRole .follower) q.term q.src
  have hkv := keep_setVotedFor ((s.begin ra ord).setRole .follower) q.term q.src
  obtain ⟨_, _, _, _, _, htv⟩ := setVotedFor_key ((s.begin ra ord).setRole .follower) q.term q.src
  obtain ⟨htv1, htv2⟩ := htv (show q.term ≥ s.term by omega)
  have hd : ((s.begin ra ord).onVoteRequest q).rpcDone true =
      ((s.begin ra ord).onVoteRequest q).withRpcReply (some (((s.begin ra ord).onVoteRequest q).mkReply true false)) := by
    unfold Node.rpcDone
    rw [if_neg]
    rw [hv]
    show rSuccess ≠ rUnexpectedErr
    decide
  have hh : (s.begin ra ord).handle (.vote q) = ((s.begin ra ord).onVoteRequest q).rpcDone true := rfl
  rw [hh, hd]
  have hf : (((s.begin ra ord).onVoteRequest q).withRpcReply
      (some (((s.begin ra ord).onVoteRequest q).mkReply true false))).role = .follower := by
    rw [hv]; exact hsv.role
  obtain ⟨a, b, c, d, e⟩ := settle_follower_all _ s.role hf
  refine ⟨?_, b, ?_, ?_, ?_⟩
  · rw [e, hv]; rfl
  · rw [c, hv]; exact htv1
  · rw [d, hv]; exact htv2
  · refine Keep.trans ?_ a
    rw [hv]
    exact ((keep_begin s ra ord).trans ((keep_setRole _ _).trans hkv)).trans
      ((keep_ret _ _).trans (keep_rpcReply _ _))

/-! ### the leader block keeps an open voter of a fixed stable configuration open -/

/-- latest configuration `C`, the node is open, its id is `n`, it is leader of term `t`, and its commit index is at
least `lb` -/
def KI (C : Config) (n t lb : Nat) (s : Node) : Prop :=
  s.configs.latest = C ∧ s.closed = "" ∧ s.nid = n ∧ lb ≤ s.commitIndex ∧ s.role = .leader ∧ s.term = t

theorem ki_congr {C : Config} {n t lb : Nat} {s s' : Node} (h : KI C n t lb s) (e1 : s'.configs = s.configs)
    (e2 : s'.closed = s.closed) (e3 : s'.nid = s.nid) (e4 : s'.commitIndex = s.commitIndex)
    (e5 : s'.role = s.role) (e6 : s'.term = s.term) : KI C n t lb s' := by
  obtain ⟨a, b, c, d, e, f⟩ := h
  exact ⟨by rw [e1]; exact a, by rw [e2]; exact b, by rw [e3]; exact c, by rw [e4]; exact d, by rw [e5]; exact e,
    by rw [e6]; exact f⟩

theorem ki_keep {C : Config} {n t lb : Nat} {s s' : Node} (h : KI C n t lb s) (k : Keep s s')
    (e5 : s'.role = s.role) (e6 : s'.term = s.term) : KI C n t lb s' :=
  ki_congr h k.configs k.closed k.nid k.commitIndex e5 e6

theorem closeIfRemoved_member (x : Node) (h : x.configs.latest.has x.nid = true) : x.closeIfRemoved = x := by
  unfold Node.closeIfRemoved
  rw [if_neg (by intro hc; rw [h] at hc; exact absurd hc.2 (by decide))]

theorem stepDown_fields (x : Node) : x.stepDownIfNotVoter.closed = x.closed ∧
    x.stepDownIfNotVoter.configs = x.configs ∧ x.stepDownIfNotVoter.nid = x.nid := by
  unfold Node.stepDownIfNotVoter
  split
  · exact ⟨rfl, rfl, rfl⟩
  · exact ⟨rfl, rfl, rfl⟩

theorem commitConfig_fields (x : Node) : x.commitConfig.closed = x.closed ∧
    x.commitConfig.configs.latest = x.configs.latest ∧ x.commitConfig.nid = x.nid := by
  unfold Node.commitConfig
  dsimp only
  split
  · exact ⟨rfl, rfl, rfl⟩
  · exact ⟨rfl, rfl, rfl⟩

/-- `Raft.setCommitIndex` on a member of its latest configuration does not close the node -/
theorem setCommitIndexR_closed (s : Node) (i : Nat) (hh : s.configs.latest.has s.nid = true) :
    (s.setCommitIndexR i).1.closed = s.closed := by
  unfold Node.setCommitIndexR
  split
  · show (s.withCommitIndex i).commitConfig.stepDownIfNotVoter.closeIfRemoved.closed = _
    obtain ⟨a1, a2, a3⟩ := stepDown_fields (s.withCommitIndex i).commitConfig
    obtain ⟨b1, b2, b3⟩ := commitConfig_fields (s.withCommitIndex i)
    rw [closeIfRemoved_member _ (by rw [a2, a3, b2, b3]; exact hh), a1, b1]
    rfl
  · rfl

/-- `Raft.setCommitIndex` on an open member of its latest configuration: the commit index is `i`, the latest
configuration, `closed` and the id stay -/
theorem setCommitIndexR_open (s : Node) (i : Nat) (hh : s.configs.latest.has s.nid = true) :
    (s.setCommitIndexR i).1.configs.latest = s.configs.latest ∧ (s.setCommitIndexR i).1.closed = s.closed ∧
    (s.setCommitIndexR i).1.nid = s.nid ∧ (s.setCommitIndexR i).1.commitIndex = i := by
  obtain ⟨_, _, _, _, e5, _, _, _, _, _, e11, _⟩ := NoPanic.setCommitIndexR_spec s i
  exact ⟨e11, setCommitIndexR_closed s i hh, e5, C19.setCommitIndexR_commitIndex s i⟩

theorem has_of_isVoter (c : Config) (id : Nat) (h : c.isVoter id = true) : c.has id = true := by
  unfold Config.isVoter at h
  unfold Config.has
  split at h
  · rename_i n hn; rw [hn]; rfl
  · cases h

theorem ki_closed (C : Config) (Bk : Nat → Nat → Prop) (n t lb : Nat) (hC : C.isVoter n = true) :
    MClosed C Bk (KI C n t lb) where
  cfg := fun s h => h.1
  panic := fun s site h => ki_keep h (keep_panic s site) (SameKey.panic s site).role (SameKey.panic s site).term
  reply := fun s t r h => ki_keep h (keep_reply s t r) (SameKey.reply s t r).role (SameKey.reply s t r).term
  point := fun s nm h => ki_congr h rfl rfl rfl rfl rfl rfl
  fsm := fun s f h => ki_congr h rfl rfl rfl rfl rfl rfl
  popOrder := fun s h => ki_congr h rfl rfl rfl rfl rfl rfl
  ldr := fun s l h _ => ki_congr h rfl rfl rfl rfl rfl rfl
  append := fun s e roll h _ _ => ki_congr h rfl rfl rfl rfl rfl rfl
  commit := fun s i h hi _ _ => by
    have hv : (s.commitLog i).configs.latest.isVoter (s.commitLog i).nid = true := by
      show s.configs.latest.isVoter s.nid = true
      rw [h.1, h.2.2.1]; exact hC
    obtain ⟨a, b, c, d⟩ := setCommitIndexR_open (s.commitLog i) i (has_of_isVoter _ _ hv)
    obtain ⟨_, _, r, _⟩ := setCommitIndexR_voter (s.commitLog i) i hv
    refine ⟨a.trans h.1, b.trans h.2.1, c.trans h.2.2.1, ?_, r.trans h.2.2.2.2.1,
      (setCommitIndexR_key (s.commitLog i) i).2.1.trans h.2.2.2.2.2⟩
    rw [d]
    have := h.2.2.2.1
    omega

/-- `leader.init` keeps an open voter of a stable configuration open, with the same latest configuration -/
theorem leaderInit_ki {C : Config} {n t lb : Nat} (hC : C.isVoter n = true) (hS : C.isStable = true) (x : Node)
    (hx : KI C n t lb x) : KI C n t lb x.leaderInit := by
  have L := ki_closed C AF n t lb hC
  have e : x.leaderInit = storeEntry (fuelFor 1)
      (checkConfigActions (fuelFor 0)
        ((initBase x).configs.latest.nodes.foldl (fun s n => if n.id = s.nid then s else s.addReplication n) (initBase x)) 0
        ((initBase x).configs.latest.nodes.foldl (fun s n => if n.id = s.nid then s else s.addReplication n) (initBase x)).configs.latest)
      [{ typ := etNop }] := rfl
  have h0 : KI C n t lb (initBase x) := by
    obtain ⟨c1, c2, c3, _, _, c6, c7, _⟩ := initBase_lobs x
    unfold initBase
    exact ki_keep hx ((keep_assert x _ _).trans (keep_withLdr _ _)) c2 (core_term c1)
  have key : ∀ (ns : List CNode) (s : Node), KI C n t lb s →
      KI C n t lb (ns.foldl (fun s n => if n.id = s.nid then s else s.addReplication n) s) := by
    intro ns
    induction ns with
    | nil => intro s hs; exact hs
    | cons a as ih =>
      intro s hs
      apply ih
      dsimp only
      split
      · exact hs
      · exact L.addReplication_m _ _ hs
  have h2 := key (initBase x).configs.latest.nodes (initBase x) h0
  rw [e]
  generalize (initBase x).configs.latest.nodes.foldl (fun s n => if n.id = s.nid then s else s.addReplication n)
    (initBase x) = s2 at h2
  have h3 : KI C n t lb (checkConfigActions (fuelFor 0) s2 0 s2.configs.latest) := by
    rw [h2.1]; exact L.checkConfigActions_m hS _ _ _ h2
  exact L.storeEntry_m hS _ _ _ h3 (by intro q hq; rw [List.mem_singleton.mp hq]; decide)

theorem nodup_const_length {α : Type} {a : α} : ∀ {l : List α}, l.Nodup → (∀ x ∈ l, x = a) → l.length ≤ 1
  | [], _, _ => Nat.zero_le _
  | [_], _, _ => Nat.le_refl _
  | x :: y :: l, hn, h => by
    have hx := h x (List.mem_cons_self ..)
    have hy := h y (List.mem_cons_of_mem _ (List.mem_cons_self ..))
    have := (List.nodup_cons.mp hn).1
    exact absurd (List.mem_cons_self ..) (by rw [hx, ← hy] at this; exact this)

/-- the handler of a counted vote response (`Counts`) -/
theorem handle_counted (b : Node) (tm : Nat) (hr : b.role = .candidate) (htm : tm ≤ b.term) :
    b.handle (.voteResult false tm rSuccess) =
      if b.votesNeeded - 1 = 0 then ((b.withVotesNeeded (b.votesNeeded - 1)).setRole .leader).setLeader b.nid
      else b.withVotesNeeded (b.votesNeeded - 1) := by
  show (if b.role = .candidate then b.onVoteResult false tm rSuccess else _) = _
  rw [if_pos hr]
  unfold Node.onVoteResult
  rw [if_neg (by decide), if_neg (show ¬ tm > b.term by omega), if_pos rfl]
  rfl

/-- **voteResult_counts**: a candidate counts a granted vote that is not the last one it needs: one vote less is
missing; nothing else moves. -/
theorem voteResult_counts (s : Node) (ra : List Nat) (ord : List (List Nat)) (tm : Nat)
    (hr : s.role = .candidate) (htm : tm ≤ s.term) (hvn : s.votesNeeded - 1 ≠ 0) :
    (s.step (.voteResult false tm rSuccess) ra ord).role = .candidate ∧
    (s.step (.voteResult false tm rSuccess) ra ord).term = s.term ∧
    (s.step (.voteResult false tm rSuccess) ra ord).votedFor = s.votedFor ∧
    (s.step (.voteResult false tm rSuccess) ra ord).leader = s.leader ∧
    (s.step (.voteResult false tm rSuccess) ra ord).votesNeeded = s.votesNeeded - 1 ∧
    Keep s (s.step (.voteResult false tm rSuccess) ra ord) := by
  rw [step_eq s _ ra ord (by intro h; cases h), handle_counted (s.begin ra ord) tm hr htm,
    if_neg (show ¬ (s.begin ra ord).votesNeeded - 1 = 0 from hvn)]
  have e : settle 6 ((s.begin ra ord).withVotesNeeded ((s.begin ra ord).votesNeeded - 1)) s.role =
      (s.begin ra ord).withVotesNeeded ((s.begin ra ord).votesNeeded - 1) := by
    unfold settle
    rw [if_pos (show ((s.begin ra ord).withVotesNeeded ((s.begin ra ord).votesNeeded - 1)).role = s.role from rfl)]
  rw [e]
  exact ⟨hr, rfl, rfl, rfl, rfl, (keep_begin s ra ord).trans (keep_votesNeeded _ _)⟩

/-- what the step in which a candidate `s` counts its last missing vote leaves (`s'`) -/
structure Elected (s s' : Node) : Prop where
  role : s'.role = .leader
  term : s'.term = s.term
  votedFor : s'.votedFor = s.votedFor
  nid : s'.nid = s.nid
  cfg : s'.configs.latest = s.configs.latest
  closed : s'.closed = ""
  commitIndex : s'.commitIndex = s.commitIndex
  nwf : NWF s'
  ext : ∃ es, es ≠ [] ∧ s'.log.entries = s.log.entries ++ es ∧ ∀ e ∈ es, e.term = s.term

/-- **majority_of_grants_makes_leader**: a candidate (an open voter of its stable latest configuration with at
least two voters, no snapshots) counts the last vote it needs: it is leader of the same term, `leader.init` has
appended at least one entry of that term (the no-op) to its log and nothing else; commit index, latest
configuration, `closed` stay (`Elected`). -/
theorem majority_of_grants_makes_leader (s : Node) (ra : List Nat) (ord : List (List Nat)) (tm : Nat)
    (hr : s.role = .candidate) (htm : tm ≤ s.term) (hvn : s.votesNeeded - 1 = 0)
    (hn : NWF s) (hl : C06.LogWF s.log) (hwf : C05.VoteWF s) (hst : s.configs.latest.isStable = true)
    (hv : s.configs.latest.isVoter s.nid = true) (hnd : s.configs.latest.voters.Nodup)
    (h2 : 2 ≤ s.configs.latest.numVoters) (ho : s.closed = "") :
    Elected s (s.step (.voteResult false tm rSuccess) ra ord) := by
  rw [step_eq s _ ra ord (by intro h; cases h), handle_counted (s.begin ra ord) tm hr htm,
    if_pos (show (s.begin ra ord).votesNeeded - 1 = 0 from hvn)]
  generalize hh : (((s.begin ra ord).withVotesNeeded ((s.begin ra ord).votesNeeded - 1)).setRole .leader).setLeader
    (s.begin ra ord).nid = h
  have kh : Keep s h := by
    rw [← hh]
    exact (keep_begin s ra ord).trans ((keep_votesNeeded _ _).trans ((keep_setRole _ _).trans (keep_setLeader _ _)))
  have hrole : h.role = .leader := by rw [← hh]; rfl
  have hterm : h.term = s.term ∧ h.votedFor = s.votedFor ∧ h.durTerm = s.durTerm ∧ h.durVote = s.durVote := by
    rw [← hh]; exact ⟨rfl, rfl, rfl, rfl⟩
  have hne : h.role ≠ s.role := by rw [hrole, hr]; exact fun e => by cases e
  cases settle_shape 3 h s.role hne with
  | follower hf _ => rw [hrole] at hf; cases hf
  | cand hc _ _ => rw [hrole] at hc; cases hc
  | candLeader x hc _ _ _ => rw [hrole] at hc; cases hc
  | leader x _ ex hp =>
    obtain ⟨kx, rx, tx, vx, _⟩ := releaseRole_all h s.role
    rw [← ex] at kx rx tx vx
    have kx' : Keep s x := kh.trans kx
    have hdur : x.durTerm = s.durTerm ∧ x.durVote = s.durVote := by
      rw [ex, hr]; exact ⟨hterm.2.2.1, hterm.2.2.2⟩
    have hxi : InitHyp x :=
      ⟨kx'.nwf hn, by rw [kx'.log]; exact hl,
        ⟨by rw [hdur.1, tx, hterm.1]; exact hwf.1, by rw [hdur.2, vx, hterm.2.1]; exact hwf.2⟩,
        rx.trans hrole, by rw [kx'.configs]; exact hst, by rw [kx'.configs, kx'.nid]; exact hv,
        by rw [kx'.configs]; exact hnd⟩
    obtain ⟨li, hlen⟩ := leaderInit_li hxi
    have hpost : settle 6 h s.role = x.leaderInit := by
      rcases hp with ⟨_, e⟩ | ⟨r, _⟩
      · exact e
      · rw [li.role] at r; cases r
    rw [hpost]
    obtain ⟨c1, _, c3, c4, _, c6, c7, _⟩ := initBase_lobs x
    have hcore : (initBase x).log = x.log ∧ (initBase x).term = x.term := by
      unfold Core at c1; simp only [Prod.mk.injEq] at c1; exact ⟨c1.1, c1.2.2.2.2.2.1⟩
    have hki : KI s.configs.latest s.nid s.term 0 x.leaderInit :=
      leaderInit_ki hv hst x
        ⟨by rw [kx'.configs], by rw [kx'.closed]; exact ho, kx'.nid, Nat.zero_le _, rx.trans hrole,
          tx.trans hterm.1⟩
    obtain ⟨es, he, hes⟩ := li.ext
    refine ⟨li.role, by rw [li.term, hcore.2, tx, hterm.1], by rw [li.vote.1, c4, vx, hterm.2.1], hki.2.2.1,
      hki.1, hki.2.1, ?_, li.nwf, es, ?_, by rw [he, hcore.1, kx'.log], ?_⟩
    · rcases li.ci with c | ⟨_, _, _, _, Q, q1, q2, q3, q4⟩
      · rw [c, c7, kx'.commitIndex]
      · exfalso
        have hlen1 : Q.length ≤ 1 := nodup_const_length q1 (fun j hj => by
          rcases q4 j hj with e | ⟨_, _, f⟩
          · exact e
          · exact f.elim)
        have : (initBase x).configs.latest.voters.length = s.configs.latest.numVoters := by
          rw [c6, kx'.configs, voters_length]
        rw [this] at q3
        omega
    · intro e0
      rw [e0, List.append_nil, hcore.1] at he
      rw [he] at hlen
      exact Nat.lt_irrefl _ hlen
    · intro e hemem
      rw [hes e hemem, hcore.2, tx, hterm.1]

/-! ### append requests -/

/-- the consistency check of `onAppendEntriesRequest` passes when the log holds the previous entry -/
theorem appendCheck_accepts (s : Node) (q : AppendReq) (hn : NWF s) (h1 : 1 ≤ q.prevLogIndex)
    (h2 : q.prevLogIndex ≤ s.log.entries.length) (ht : termAt s.log.entries q.prevLogIndex = q.prevLogTerm) :
    (s.appendCheck q).result = 0 := by
  have hplt : (if q.prevLogIndex = s.lastLogIndex then s.lastLogTerm else (s.entryTerm? q.prevLogIndex).getD 0) =
      q.prevLogTerm := by
    split
    · rename_i e
      rw [hn.lastT, ← termAt_length, ← hn.last, ← e]; exact ht
    · rw [hn.entryTerm _ h1 h2]; exact ht
  unfold Node.appendCheck
  rw [if_pos (show q.prevLogIndex > s.snapIndex by rw [hn.snapIndex]; omega),
    if_neg (show ¬ q.prevLogIndex > s.lastLogIndex by rw [hn.last]; omega)]
  extract_lets sx plt
  have e1 : sx = s := by
    unfold sx
    split
    · rfl
    · rw [hn.entryTerm _ h1 h2]
  have e2 : plt = q.prevLogTerm := by unfold plt; rw [e1]; exact hplt
  rw [if_neg (by intro h; exact h e2.symm)]
  split
  · rfl
  · rfl

/-- the reply of a step handling an append request is built from the handler's state -/
theorem append_step_reply (s : Node) (q : AppendReq) (ra : List Nat) (ord : List (List Nat))
    (hns : ¬ q.term < s.term) :
    (s.step (.append q) ra ord).rpcReply.map (·.result) = some ((s.begin ra ord).onAppendEntries q).result := by
  have hpost : s.step (.append q) ra ord =
      settle 6 (((s.begin ra ord).onAppendEntries q).rpcDone false true) s.role := rfl
  have hf : (((s.begin ra ord).onAppendEntries q).rpcDone false true).role = .follower := by
    rw [(SameKey.rpcDone _ _ _).role]
    exact onAppendEntries_role _ q hns
  obtain ⟨_, _, _, _, e⟩ := settle_follower_all _ s.role hf
  rw [hpost, e, Node.rpcDone_reply]
  rfl

/-- **append_all_entries_accepted**: a node without snapshots receives an append request that is not stale,
whose previous entry (`prevLogIndex ≥ 1`, `prevLogTerm`) its log holds, in a step that does not fail (in the
system: `C19Sys.reqok_in_sys_partial`): the reply carries `success`. (What the log then holds: `CommitRel.fstep`,
field `ack` — the previous entry and all entries of the request.) -/
theorem append_all_entries_accepted (s : Node) (q : AppendReq) (ra : List Nat) (ord : List (List Nat))
    (hn : NWF s) (hns : ¬ q.term < s.term) (h1 : 1 ≤ q.prevLogIndex)
    (h2 : q.prevLogIndex ≤ s.log.entries.length) (ht : termAt s.log.entries q.prevLogIndex = q.prevLogTerm)
    (hp : (s.step (.append q) ra ord).panicked = none) :
    (s.step (.append q) ra ord).rpcReply.map (·.result) = some rSuccess := by
  rw [append_step_reply s q ra ord hns]
  have hpost : s.step (.append q) ra ord =
      settle 6 (((s.begin ra ord).onAppendEntries q).rpcDone false true) s.role := rfl
  rw [hpost] at hp
  have hp1 := SnapRelU.settle_sticky 6 _ _ hp
  have hne : ((s.begin ra ord).onAppendEntries q).result ≠ rUnexpectedErr := by
    intro he
    unfold Node.rpcDone at hp1
    rw [if_pos he] at hp1
    exact panic_panicked_ne _ _ hp1
  congr 1
  revert hne
  unfold Node.onAppendEntries
  rw [if_neg (show ¬ q.term < (s.begin ra ord).term from hns)]
  extract_lets s1 s2 s3
  have k1 : Keep s s1 := by
    unfold s1
    split
    · exact (keep_begin s ra ord).trans ((keep_setTerm _ _).trans (keep_setRole _ _))
    · exact keep_begin s ra ord
  have k2 : Keep s s2 := k1.trans ((keep_setRole _ _).trans (keep_setLeader _ _))
  have h3 : s3.result = 0 := appendCheck_accepts s2 q (k2.nwf hn) h1 (by rw [k2.log]; exact h2)
    (by rw [k2.log]; exact ht)
  rw [if_neg (by intro h; exact h h3)]
  intro hne
  show (if _ then rUnexpectedErr else rSuccess) = rSuccess
  have hne' : (if _ then rUnexpectedErr else rSuccess) ≠ rUnexpectedErr := hne
  split
  · rename_i he
    rw [if_pos he] at hne'
    exact absurd rfl hne'
  · rfl

/-- the fields a follower's handling of an append request without configuration entries leaves alone -/
def cobs (s : Node) : Nat × Nat × Configs × String := (s.nid, s.retain, s.configs, s.closed)

theorem fsmFrame_cobs : FsmFrame cobs :=
  ⟨fun s site => by unfold Node.panic; split <;> rfl, fun s t r => by unfold Node.reply; split <;> rfl,
   fun _ _ => rfl⟩

theorem cobs_keep {s s' : Node} (k : Keep s s') : cobs s' = cobs s := by
  unfold cobs; rw [k.nid, k.retain, k.configs, k.closed]

theorem cobs_resolveConflict (s : Node) (ne : Entry) (pt : Nat) (h : s.configs.latest.index < ne.index) :
    cobs (s.resolveConflict ne pt) = cobs s := by
  unfold Node.resolveConflict
  split
  · split
    · exact fsmFrame_cobs.panic _ _
    · dsimp only
      rw [if_neg (show ¬ ne.index ≤ (s.removeGTE ne.index pt).configs.latest.index from by
        show ¬ ne.index ≤ s.configs.latest.index; omega)]
      rfl
  · rfl

theorem cobs_appendEntry (s : Node) (e : Entry) : cobs (s.appendEntry e) = cobs s := by
  unfold Node.appendEntry
  show cobs (s.assert _ _) = _
  exact fsmFrame_cobs.assert_eq _ _ _

/-- entries that are no configuration entries and lie beyond the latest configuration's index leave the
configurations (and id, options, `closed`) alone -/
theorem cobs_appendLoop (es : List Entry) : ∀ (st : AppLoop),
    (∀ e ∈ es, e.typ ≠ etConfig ∧ st.s.configs.latest.index < e.index) →
    cobs (appendLoop st es).s = cobs st.s := by
  induction es with
  | nil => intro st _; rfl
  | cons ne rest ih =>
    intro st h
    have hne := h ne (List.mem_cons_self ..)
    have hrest : ∀ (st' : AppLoop), cobs st'.s = cobs st.s →
        ∀ e ∈ rest, e.typ ≠ etConfig ∧ st'.s.configs.latest.index < e.index := by
      intro st' e' e he
      have := h e (List.mem_cons_of_mem _ he)
      have ec : st'.s.configs = st.s.configs := by
        unfold cobs at e'; simp only [Prod.mk.injEq] at e'; exact e'.2.2.1
      rw [ec]; exact this
    unfold appendLoop
    split
    · rfl
    · dsimp only
      split
      · exact ih _ (hrest _ rfl)
      · split
        · exact ih _ (hrest _ rfl)
        · rw [if_neg hne.1]
          have e1 : cobs ((st.s.resolveConflict ne st.term).appendEntry ne) = cobs st.s := by
            rw [cobs_appendEntry, cobs_resolveConflict _ _ _ hne.2]
          exact (ih _ (hrest _ e1)).trans e1

theorem cobs_setCommitIndexR (s : Node) (i : Nat) (hh : s.configs.latest.has s.nid = true) :
    (s.setCommitIndexR i).1.nid = s.nid ∧ (s.setCommitIndexR i).1.retain = s.retain ∧
    (s.setCommitIndexR i).1.configs.latest = s.configs.latest ∧ (s.setCommitIndexR i).1.closed = s.closed := by
  obtain ⟨_, _, _, _, e5, e6, _, _, _, _, e11, _⟩ := NoPanic.setCommitIndexR_spec s i
  exact ⟨e5, e6, e11, setCommitIndexR_closed s i hh⟩

/-- what `cobs` says, with the latest configuration only -/
def lobs' (s : Node) : Nat × Nat × Config × String := (s.nid, s.retain, s.configs.latest, s.closed)

theorem lobs'_of_cobs {s s' : Node} (h : cobs s' = cobs s) : lobs' s' = lobs' s := by
  unfold cobs at h; simp only [Prod.mk.injEq] at h
  unfold lobs'; rw [h.1, h.2.1, h.2.2.1, h.2.2.2]

theorem lobs'_commitApply (s : Node) (i : Nat) (hh : s.configs.latest.has s.nid = true) :
    lobs' (s.setCommitIndexR i).1.applyCommitted = lobs' s := by
  have h1 := lobs'_of_cobs (fsmFrame_cobs.applyCommitted_eq (s.setCommitIndexR i).1)
  obtain ⟨a, b, c, d⟩ := cobs_setCommitIndexR s i hh
  rw [h1]; unfold lobs'; rw [a, b, c, d]

/-- **a follower keeps its latest configuration and stays open** when it handles an append request that is not
stale and whose entries are no configuration entries and lie beyond the index of its latest configuration (of
which it is a member) -/
theorem append_step_frame (s : Node) (q : AppendReq) (ra : List Nat) (ord : List (List Nat))
    (hns : ¬ q.term < s.term) (hh : s.configs.latest.has s.nid = true)
    (hes : ∀ e ∈ q.entries, e.typ ≠ etConfig ∧ s.configs.latest.index < e.index) :
    (s.step (.append q) ra ord).nid = s.nid ∧ (s.step (.append q) ra ord).retain = s.retain ∧
    (s.step (.append q) ra ord).configs.latest = s.configs.latest ∧
    (s.step (.append q) ra ord).closed = s.closed ∧ (s.step (.append q) ra ord).role = .follower := by
  have hpost : s.step (.append q) ra ord =
      settle 6 (((s.begin ra ord).onAppendEntries q).rpcDone false true) s.role := rfl
  have hf : (((s.begin ra ord).onAppendEntries q).rpcDone false true).role = .follower := by
    rw [(SameKey.rpcDone _ _ _).role]
    exact onAppendEntries_role _ q hns
  obtain ⟨ks, rs, _, _, _⟩ := settle_follower_all _ s.role hf
  have kd := keep_rpcDone ((s.begin ra ord).onAppendEntries q) false true
  suffices h : lobs' ((s.begin ra ord).onAppendEntries q) = lobs' s by
    unfold lobs' at h; simp only [Prod.mk.injEq] at h
    rw [hpost]
    refine ⟨by rw [ks.nid, kd.nid]; exact h.1, by rw [ks.retain, kd.retain]; exact h.2.1,
      by rw [ks.configs, kd.configs]; exact h.2.2.1, by rw [ks.closed, kd.closed]; exact h.2.2.2, rs⟩
  unfold Node.onAppendEntries
  rw [if_neg (show ¬ q.term < (s.begin ra ord).term from hns)]
  extract_lets s1 s2 s3 st s4 s6 s5
  have k1 : Keep s s1 := by
    unfold s1
    split
    · exact (keep_begin s ra ord).trans ((keep_setTerm _ _).trans (keep_setRole _ _))
    · exact keep_begin s ra ord
  have k2 : Keep s s2 := k1.trans ((keep_setRole _ _).trans (keep_setLeader _ _))
  have l2 : lobs' s2 = lobs' s := lobs'_of_cobs (cobs_keep k2)
  have hh2 : s2.configs.latest.has s2.nid = true := by rw [k2.configs, k2.nid]; exact hh
  -- the consistency check
  have l3 : lobs' s3 = lobs' s2 := by
    unfold s3 Node.appendCheck
    split
    · split
      · rfl
      · extract_lets sx plt
        have kx : Keep s2 sx := by
          unfold sx; split
          · exact Keep.refl _
          · split
            · exact Keep.refl _
            · exact keep_panic _ _
        have lx : lobs' sx = lobs' s2 := lobs'_of_cobs (cobs_keep kx)
        split
        · exact lx
        · split
          · show lobs' (sx.setCommitIndexR q.prevLogIndex).1.applyCommitted = _
            rw [lobs'_commitApply sx _ (by rw [kx.configs, kx.nid]; exact hh2)]; exact lx
          · exact lx
    · rfl
  split
  · exact l3.trans l2
  · -- the entries
    have c3 : s3.configs.latest = s.configs.latest ∧ s3.nid = s.nid := by
      have := l3.trans l2
      unfold lobs' at this; simp only [Prod.mk.injEq] at this
      exact ⟨this.2.2.1, this.1⟩
    have l4 : lobs' s4 = lobs' s3 :=
      lobs'_of_cobs (cobs_appendLoop q.entries _ (fun e he => by rw [c3.1]; exact hes e he))
    have c4 : s4.configs.latest.has s4.nid = true := by
      have := l4.trans (l3.trans l2)
      unfold lobs' at this; simp only [Prod.mk.injEq] at this
      rw [this.2.2.1, this.1]; exact hh
    have l5 : lobs' s5 = lobs' s4 := by
      unfold s5
      split
      · split
        · rw [lobs'_commitApply s6 _ c4]; rfl
        · rfl
      · rfl
    show lobs' (s5.ret _) = _
    exact (l5.trans (l4.trans (l3.trans l2)))

/-- log and commit index: what the FSM goroutine does not touch -/
def lcobs (s : Node) : NLog × Nat := (s.log, s.commitIndex)

theorem fsmFrame_lcobs : FsmFrame lcobs :=
  ⟨fun s site => by unfold Node.panic; split <;> rfl, fun s t r => by unfold Node.reply; split <;> rfl,
   fun _ _ => rfl⟩

/-- **heartbeat_commits_follower**: a node without snapshots receives an append request without entries that is
not stale, whose previous entry `(N, term of the request)` its log holds, stamped with a leader commit index `≥ N`,
while its own commit index is below `N`, in a step that does not fail: afterwards its commit index is `N`, its
state machine has applied everything up to `N`, the log is unchanged. -/
theorem heartbeat_commits_follower (s : Node) (q : AppendReq) (ra : List Nat) (ord : List (List Nat))
    (hn : NWF s) (hns : ¬ q.term < s.term) (he : q.entries = []) (h1 : 1 ≤ q.prevLogIndex)
    (h2 : q.prevLogIndex ≤ s.log.entries.length) (ht : termAt s.log.entries q.prevLogIndex = q.prevLogTerm)
    (hT : q.prevLogTerm = q.term) (hc : q.prevLogIndex ≤ q.ldrCommitIndex) (hlt : s.commitIndex < q.prevLogIndex)
    (hp : (s.step (.append q) ra ord).panicked = none) :
    (s.step (.append q) ra ord).commitIndex = q.prevLogIndex ∧
    (s.step (.append q) ra ord).fsm.index = q.prevLogIndex ∧ (s.step (.append q) ra ord).log = s.log := by
  have hpost : s.step (.append q) ra ord =
      settle 6 (((s.begin ra ord).onAppendEntries q).rpcDone false true) s.role := rfl
  have hf : (((s.begin ra ord).onAppendEntries q).rpcDone false true).role = .follower := by
    rw [(SameKey.rpcDone _ _ _).role]
    exact onAppendEntries_role _ q hns
  obtain ⟨ks, _, _, _, _⟩ := settle_follower_all _ s.role hf
  have kd := keep_rpcDone ((s.begin ra ord).onAppendEntries q) false true
  rw [hpost] at hp
  have hp1 := SnapRelU.settle_sticky 6 _ _ hp
  have hp2 : ((s.begin ra ord).onAppendEntries q).panicked = none :=
    SnapRelP.npk (k := fun x => x.rpcDone false true) (fun π x => SnapRelP.P_rpcDone x false true) hp1
  suffices h : ((s.begin ra ord).onAppendEntries q).panicked = none →
      ((s.begin ra ord).onAppendEntries q).commitIndex = q.prevLogIndex ∧
      ((s.begin ra ord).onAppendEntries q).fsm.index = q.prevLogIndex ∧
      ((s.begin ra ord).onAppendEntries q).log = s.log by
    obtain ⟨a, b, c⟩ := h hp2
    rw [hpost]
    exact ⟨by rw [ks.commitIndex, kd.commitIndex]; exact a, by rw [ks.fsm, kd.fsm]; exact b,
      by rw [ks.log, kd.log]; exact c⟩
  unfold Node.onAppendEntries
  rw [if_neg (show ¬ q.term < (s.begin ra ord).term from hns)]
  extract_lets s1 s2 s3 st s4 s6 s5
  have k1 : Keep s s1 := by
    unfold s1
    split
    · exact (keep_begin s ra ord).trans ((keep_setTerm _ _).trans (keep_setRole _ _))
    · exact keep_begin s ra ord
  have k2 : Keep s s2 := k1.trans ((keep_setRole _ _).trans (keep_setLeader _ _))
  have n2 : NWF s2 := k2.nwf hn
  have h3 : s3.result = 0 := appendCheck_accepts s2 q n2 h1 (by rw [k2.log]; exact h2) (by rw [k2.log]; exact ht)
  -- the consistency check commits
  have e3 : s3 = ((s2.setCommitIndexR q.prevLogIndex).1.applyCommitted).ret 0 := by
    have hplt : (if q.prevLogIndex = s2.lastLogIndex then s2.lastLogTerm else (s2.entryTerm? q.prevLogIndex).getD 0) =
        q.prevLogTerm := by
      split
      · rename_i e
        rw [n2.lastT, ← termAt_length, ← n2.last, ← e, k2.log]; exact ht
      · rw [n2.entryTerm _ h1 (by rw [k2.log]; exact h2), k2.log]; exact ht
    unfold s3 Node.appendCheck
    rw [if_pos (show q.prevLogIndex > s2.snapIndex by rw [n2.snapIndex]; omega),
      if_neg (show ¬ q.prevLogIndex > s2.lastLogIndex by rw [n2.last, k2.log]; omega)]
    extract_lets sx plt
    have e1 : sx = s2 := by
      unfold sx
      split
      · rfl
      · rw [n2.entryTerm _ h1 (by rw [k2.log]; exact h2)]
    have e2 : plt = q.prevLogTerm := by unfold plt; rw [e1]; exact hplt
    rw [if_neg (by intro h; exact h e2.symm), e1]
    rw [if_pos]
    unfold Node.canCommit
    rw [k2.commitIndex, hT]
    simp only [Bool.and_eq_true, decide_eq_true_eq, beq_self_eq_true, and_true]
    exact ⟨hc, hlt⟩
  rw [if_neg (by intro h; exact h h3)]
  have e4 : s4 = s3 := by unfold s4 st; rw [he]; rfl
  have e5 : s5 = s4 := by
    unfold s5
    rw [if_neg]
    rw [he]; intro h; exact absurd h.1 (by decide)
  intro hpan
  have hpan3 : (s2.setCommitIndexR q.prevLogIndex).1.applyCommitted.panicked = none := by
    have : s3.panicked = none := by
      have hx : (s5.ret (if st.err = true then rUnexpectedErr else rSuccess)).panicked = none := hpan
      rw [e5, e4] at hx; exact hx
    rw [e3] at this; exact this
  obtain ⟨a, b⟩ := C03.apply_never_beyond_commit _ [] hpan3
  have hci := C19.setCommitIndexR_commitIndex s2 q.prevLogIndex
  have hlog : (s2.setCommitIndexR q.prevLogIndex).1.applyCommitted.log = s.log := by
    have := fsmFrame_lcobs.applyCommitted_eq (s2.setCommitIndexR q.prevLogIndex).1
    unfold lcobs at this; simp only [Prod.mk.injEq] at this
    rw [this.1, (NoPanic.setCommitIndexR_spec s2 _).1, k2.log]
  show (s5.ret _).commitIndex = _ ∧ (s5.ret _).fsm.index = _ ∧ (s5.ret _).log = _
  rw [e5, e4, e3]
  rw [hci] at a b
  have a' : (s2.setCommitIndexR q.prevLogIndex).1.applyCommitted.fsm.index = q.prevLogIndex := a
  have b' : (s2.setCommitIndexR q.prevLogIndex).1.applyCommitted.commitIndex = q.prevLogIndex := b
  generalize (s2.setCommitIndexR q.prevLogIndex).1.applyCommitted = A at a' b' hlog
  exact ⟨b', a', hlog⟩

end Progress
end Raft
