/-
Delayed compaction (`leader.checkLogCompact`), part C — the invariant of the cluster system `Raft.Snap5`
(Sys/Snap5.lean).

The cluster of the VIRTUAL nodes (`Snap2.view`: every log with its compacted-away prefix put back) runs in the system of
stage 1 (Sys/Snap.lean):
* a completed step with a batch of replication updates `us` — compaction reports included — is, for the virtual node,
  the step with the batch WITHOUT its compaction reports (`SnapDelay.step_rm_U`), followed — if `checkLogCompact`
  compacted — by a step that only flushes the log and regroups its segments (`SnapInv.sinv_regroup`);
* a crash before `compactLog` is a crash of the virtual node at the same storage point;
* every other transition is a transition of stage 2 (Lemmas/SnapInv2.lean).
On the real nodes the invariant adds `PrevOK` (the log starts at or below the snapshot index) and
`C06Cache.LeaderCache` (the replication table of a leader is sorted by id).
-/
import RaftVerif.Sys.Snap5
import RaftVerif.Lemmas.SnapDelayB

namespace Raft
namespace SnapDelay
open Node Election LogRel Replication CommitRel Commit C02Sys C03Sys SnapRel SnapRelU SnapSim Snap Snap2 SnapInv SnapInv2
  SnapFrame

/-! ### the operations of stage 2 -/

/-- an operation of this stage that reports no compaction is an operation of stage 2 -/
theorem enabled_old {x : Commit.Sys} {i : Nat} {op : Op} {src : Nat} (h : Snap5.Enabled x i op src)
    (hno : ∀ us, op = .replUpdates us → NoCompact us) : Snap.Enabled x i op src := by
  refine ⟨h.id, h.voteSrc, h.real, ⟨?_, h.ok2.2⟩, h.append, h.vote, h.appendSrc, h.upd⟩
  have h1 := h.ok2.1
  cases op <;> first | trivial | exact h1.elim | exact hno _ rfl

/-- the batch without its compaction reports is a batch of stage 2 -/
theorem enabled_rm {x : Commit.Sys} {i : Nat} {us : List ReplUpdate} {src : Nat}
    (h : Snap5.Enabled x i (.replUpdates us) src) : Snap.Enabled x i (.replUpdates (rmF us)) src := by
  refine ⟨h.id, fun q hq => (by cases hq), fun hc => ?_,
    ⟨rmF_noRm us, fun b hb => (by cases hb), fun t c hc => (by cases hc)⟩,
    fun q hq => (by cases hq), fun q hq => (by cases hq), fun q hq => (by cases hq), fun us' hus u hu v hv => ?_⟩
  · obtain ⟨_, _, _, he⟩ := hc; cases he
  · injection hus with hus
    rw [← hus] at hu
    exact h.upd us rfl u (rmF_mem hu) v hv

/-! ### the ledgers do not look at the content of a batch of updates -/

theorem stepL_rm (z : Commit.Sys) (i : Nat) (us us' : List ReplUpdate) (src : Nat) (A : Node) :
    stepL z i (.replUpdates us) src A = stepL z i (.replUpdates us') src A := rfl

/-- the ledgers after a batch of updates read the role, the term, the vote, the entries and the commit index of the
node -/
theorem stepL_congr (z : Commit.Sys) (i : Nat) (us : List ReplUpdate) (src : Nat) (A B : Node) (N : Nat → Node)
    (h1 : A.role = B.role) (h2 : A.term = B.term) (h3 : A.votedFor = B.votedFor)
    (h4 : A.log.entries = B.log.entries) (h5 : A.commitIndex = B.commitIndex) :
    withNodes (stepL z i (.replUpdates us) src A) N = withNodes (stepL z i (.replUpdates us) src B) N := by
  have e1 : selfGrant i (z.node i) A = selfGrant i (z.node i) B := by unfold selfGrant; rw [h2, h3]
  have e2 : newCreated i (z.node i).log.entries A.log.entries (.replUpdates us) =
      newCreated i (z.node i).log.entries B.log.entries (.replUpdates us) := by rw [h4]
  have e3 : selfAck i (.replUpdates us) (z.node i) A = selfAck i (.replUpdates us) (z.node i) B := by
    unfold selfAck LeaderCommit; simp only [h4, h5]
  have e4 : campOf i (z.node i) A = campOf i (z.node i) B := by unfold campOf; rw [h2, h3]
  have e5 : newCommit (.replUpdates us) (z.node i) A = newCommit (.replUpdates us) (z.node i) B := by
    unfold newCommit LeaderCommit; simp only [h4, h5]
  have e6 : voteGrant i (.replUpdates us) A = voteGrant i (.replUpdates us) B := rfl
  have e7 : ackOf i (.replUpdates us) A = ackOf i (.replUpdates us) B := rfl
  unfold stepL withNodes
  simp only [Commit.Sys.node] at e1 e2 e3 e4 e5
  rw [e1, e2, e3, e4, e5, e6, e7, h1, h2]

/-! ### the frame of a step with a batch of updates -/

/-- what the step without the compaction keeps -/
theorem stepNC_frame (s : Node) (us : List ReplUpdate) (ra : List Nat) (ord : List (List Nat))
    (h1 : s.log.prev ≤ s.snapIndex) (h2 : s.log.prev ≤ s.log.flushed) :
    FR s.log.prev s.snapIndex s.snapResult (stepNC s us ra ord) ∧
    FR s.log.prev s.snapIndex s.snapResult (updPre (s.begin ra ord) us) := by
  have hc := FR_closed s.log.prev s.snapIndex h1 s.snapResult
  have h0 : FR s.log.prev s.snapIndex s.snapResult (s.begin ra ord) := ⟨rfl, h2, rfl, rfl, fun p hp => by cases hp⟩
  have e : stepNC s us ra ord = stepNC (s.begin ra ord) us ra ord := rfl
  rw [e]
  exact ⟨hc.stepNC_inv (s.begin ra ord) us ra ord h0, hc.updPre_inv _ us h0⟩

/-- the step without the compaction, when the loop did not stop -/
theorem stepNC_go (s : Node) (us : List ReplUpdate) (ra : List Nat) (ord : List (List Nat))
    (hl : (s.begin ra ord).role = .leader) (hg : (replUpdLoop (s.begin ra ord) {} us).2.stop = false) :
    stepNC s us ra ord = updFin (replUpdLoop (s.begin ra ord) {} us).2 (updPre (s.begin ra ord) us) := by
  unfold stepNC
  rw [if_pos hl, hg]
  rfl

/-- **the shape of the state after a batch of updates**: the state without the compaction, with another log `L` and
other crash points; the un-compaction of `L` — with what it lost added to the compacted-away prefix — holds the entries
of the un-compacted log without the compaction; `L` starts at or below the snapshot index -/
theorem step_rm_shape (β : List Entry) (s : Node) (us : List ReplUpdate) (ra : List Nat) (ord : List (List Nat))
    (hok : C09.SegsOK s.log) (h1 : s.log.prev ≤ s.snapIndex) (h2 : s.log.prev ≤ s.log.flushed)
    (hlen : s.snapIndex ≤ s.log.last)
    (hrm : (s.step (.replUpdates us) ra ord).ldr.removeLTE ≤ (s.step (.replUpdates us) ra ord).snapIndex) :
    ∃ L T, s.step (.replUpdates us) ra ord = relog (stepNC s us ra ord) L T ∧
      (uncLog ((uncLog β s.log).entries.take L.prev) L).entries = (uncLog β (stepNC s us ra ord).log).entries ∧
      L.prev ≤ s.snapIndex ∧
      ((L = (stepNC s us ra ord).log ∧ T = (stepNC s us ra ord).trace) ∨
       (L.flushed = (stepNC s us ra ord).log.last ∧ L.last = (stepNC s us ra ord).log.last)) := by
  obtain ⟨frz, _⟩ := stepNC_frame s us ra ord h1 h2
  rcases step_rm_real s us ra ord with e | hc
  · refine ⟨(stepNC s us ra ord).log, (stepNC s us ra ord).trace, by rw [e]; rfl, ?_, by rw [frz.1]; exact h1,
      Or.inl ⟨rfl, rfl⟩⟩
    rw [frz.1, take_vlog β s.log]
    have := uncLog_pad β (stepNC s us ra ord).log
    rw [frz.1] at this
    rw [this]
  · have hnc : (updPre (s.begin ra ord) us).role ≠ .candidate :=
      notCand_updPre _ us (by rw [hc.leader]; exact fun x => by cases x)
    have hz := stepNC_go s us ra ord hc.leader hc.go
    -- the entries up to the snapshot index and the segment list, before the compaction
    have hlen' : s.snapIndex - s.log.prev ≤ s.log.entries.length := by unfold NLog.last at hlen; omega
    have tk : TK s.log.prev s.snapIndex (s.log.entries.take (s.snapIndex - s.log.prev)) (updPre (s.begin ra ord) us) :=
      (TK_closed s.log.prev s.snapIndex h1 _).updPre_inv (s.begin ra ord) us
        ⟨rfl, rfl, rfl, hlen', wsegs_of_segsOK hok⟩
    obtain ⟨t1, t2, t3, t4, t5⟩ := tk
    obtain ⟨w1, w2, w3, w4, w5, w6⟩ :=
      wsegs_compact (updPre (s.begin ra ord) us).ldr.removeLTE t5
    have hstep := hc.step
    generalize hL : (updPre (s.begin ra ord) us).log.removeLTE (updPre (s.begin ra ord) us).ldr.removeLTE = L at *
    -- the compaction bound
    have hR : (updPre (s.begin ra ord) us).ldr.removeLTE ≤ s.snapIndex := by
      have e1 : (s.step (.replUpdates us) ra ord).ldr.removeLTE = (updPre (s.begin ra ord) us).ldr.removeLTE := by
        rw [hstep]
        show (stepNC s us ra ord).ldr.removeLTE = _
        rw [hz, updFin_removeLTE _ _ hnc]
      have e2 : (s.step (.replUpdates us) ra ord).snapIndex = s.snapIndex := by
        rw [hstep]
        exact frz.2.2.1
      rw [e1, e2] at hrm
      exact hrm
    have hLp : L.prev ≤ s.snapIndex := by
      rcases w3 with e | e
      · rw [e, t1]; exact h1
      · exact Nat.le_trans e hR
    refine ⟨L, _, hstep, ?_, hLp, Or.inr ⟨by rw [hc.log]; exact w5, by rw [hc.log]; exact w6⟩⟩
    rw [hc.log]
    have hk := vlog_keep β (updPre (s.begin ra ord) us).log L w1 w2 w4
    have ht := take_unc_congr β s.log (updPre (s.begin ra ord) us).log L.prev (s.snapIndex - s.log.prev) t1
      (by omega) t3
    rw [ht] at hk
    exact hk

/-! ### a completed step with a batch of updates -/

theorem cache_begin {s : Node} (h : C06Cache.LeaderCache s) (ra : List Nat) (ord : List (List Nat)) :
    (s.begin ra ord).role = .leader → LC.Cache (s.begin ra ord) := by
  intro hl
  have : LC.Cache s := (C06Cache.cacheOK_iff s).mp (h hl)
  exact this.congr rfl

theorem setNode_setNode (f : Nat → Node) (i : Nat) (a b : Node) : setNode (setNode f i a) i b = setNode f i b := by
  funext j
  unfold setNode
  split <;> rfl

variable {V : List Nat}

/-- **a completed step with a batch of replication updates, compaction reports included** -/
theorem step_rm (hV : V.Nodup) {x : Snap2.Sys} (hI : SInv V (view x)) (hP : ∀ i, PrevOK (x.node i))
    (hS : Side2 V x) {i : Nat} {us : List ReplUpdate} {ra : List Nat} {ord : List (List Nat)} {src : Nat}
    (hC : C06Cache.LeaderCache (x.node i))
    (en : Snap5.Enabled x.cs i (.replUpdates us) src)
    (hp : ((x.node i).step (.replUpdates us) ra ord).panicked = none)
    (hS' : Side2 V (stepS x i (.replUpdates us) ra ord src))
    (hrm : ((x.node i).step (.replUpdates us) ra ord).ldr.removeLTE ≤
      ((x.node i).step (.replUpdates us) ra ord).snapIndex) :
    SInv V (view (stepS x i (.replUpdates us) ra ord src)) ∧ PrevOK ((x.node i).step (.replUpdates us) ra ord) ∧
    (stepS x i (.replUpdates us) ra ord src).vlog i =
      ((x.vnode i).step (.replUpdates (rmF us)) ra ord).log.entries := by
  have hfl : (x.node i).log.prev ≤ (x.node i).log.flushed := prev_le_flushed (x.base i) (hS.segs i) (vnode_lwf hI i)
  have hm : (x.vnode i).step (.replUpdates (rmF us)) ra ord = U (x.base i) (stepNC (x.node i) us ra ord) :=
    step_rm_U (x.node i) us ra ord (cache_begin hC ra ord) hp
  have hzp : (stepNC (x.node i) us ra ord).panicked = none := by rw [stepNC_panicked]; exact hp
  obtain ⟨frz, _⟩ := stepNC_frame (x.node i) us ra ord (hP i).le hfl
  -- the snapshot index lies within the log
  have so : SnapOK (x.vnode i) := hI.snap i
  have fbi : FB (E σ0 (x.vnode i)) := hI.fsm i
  have hlen : (x.node i).snapIndex ≤ (x.node i).log.last := by
    have a1 : (x.node i).snapIndex ≤ (x.node i).fsm.index := so.le
    have a2 : (x.node i).fsm.index ≤ (uncLog (x.base i) (x.node i).log).entries.length := fbi.fsm.len
    have a3 := uncLog_last (β := x.base i) (x.node i).log
    unfold NLog.last at a3 ⊢
    have h0 : (uncLog (x.base i) (x.node i).log).prev = 0 := rfl
    rw [h0] at a3
    omega
  obtain ⟨L, T, hs', hent, hLp, hLT⟩ :=
    step_rm_shape (x.base i) (x.node i) us ra ord (hS.segs i) (hP i).le hfl hlen hrm
  have hprev' : ((x.node i).step (.replUpdates us) ra ord).log.prev = L.prev := by rw [hs']; rfl
  -- the virtual node after the step
  have hPdef : U (newBase x i ((x.node i).step (.replUpdates us) ra ord).log.prev)
      ((x.node i).step (.replUpdates us) ra ord) =
      U ((uncLog (x.base i) (x.node i).log).entries.take L.prev) (relog (stepNC (x.node i) us ra ord) L T) := by
    rw [hprev', hs']
    rfl
  generalize hβ' : (uncLog (x.base i) (x.node i).log).entries.take L.prev = β' at hent hPdef
  generalize hz : stepNC (x.node i) us ra ord = z at *
  -- the step of the virtual node
  have hpm : ((x.vnode i).step (.replUpdates (rmF us)) ra ord).panicked = none := by rw [hm]; exact hzp
  have ht : Snap.Trans (view x)
      { cs := stepC (view x).cs i (.replUpdates (rmF us)) ra ord src
        snaps := newSnaps i (x.vnode i).snapsDisk ((x.vnode i).step (.replUpdates (rmF us)) ra ord).snapsDisk ++
          (view x).snaps } :=
    Snap.Trans.step i (.replUpdates (rmF us)) ra ord src (enabled_view (enabled_rm en)) hpm (fun h => nomatch h)
  have hnode : ∀ j, (stepC (view x).cs i (.replUpdates (rmF us)) ra ord src).node j =
      if j = i then U (x.base i) z else x.vnode j := by
    intro j
    show setNode (view x).cs.rp.el.node i (((view x).cs.node i).step (.replUpdates (rmF us)) ra ord) j = _
    unfold setNode
    split
    · exact hm
    · rfl
  have hyi : (stepS x i (.replUpdates us) ra ord src).node i = relog z L T := by rw [stepS_node_i, hs']
  have hSmid : SideS V
      { cs := stepC (view x).cs i (.replUpdates (rmF us)) ra ord src
        snaps := newSnaps i (x.vnode i).snapsDisk ((x.vnode i).step (.replUpdates (rmF us)) ra ord).snapsDisk ++
          (view x).snaps } := by
    refine ⟨⟨fun j => ?_, fun j => ?_⟩, fun j => ?_, fun j e he hty => ?_⟩
    · show ((stepC (view x).cs i (.replUpdates (rmF us)) ra ord src).node j).configs.isBootstrapped = true ∧
        ((stepC (view x).cs i (.replUpdates (rmF us)) ra ord src).node j).configs.latest.voters = V
      rw [hnode]
      split
      · rename_i hj
        have := hS'.sideV.1 i
        rw [show (stepS x i (.replUpdates us) ra ord src).cs.rp.el.node i =
          (stepS x i (.replUpdates us) ra ord src).node i from rfl, hyi] at this
        exact this
      · exact hS.sideV.1 j
    · show ((stepC (view x).cs i (.replUpdates (rmF us)) ra ord src).node j).configs.latest.isStable = true
      rw [hnode]
      split
      · have := hS'.sideV.2 i
        rw [show (stepS x i (.replUpdates us) ra ord src).cs.node i =
          (stepS x i (.replUpdates us) ra ord src).node i from rfl, hyi] at this
        exact this
      · exact hS.sideV.2 j
    · show ((stepC (view x).cs i (.replUpdates (rmF us)) ra ord src).node j).log.prev = 0
      rw [hnode]
      split <;> rfl
    · have he' : e ∈ ((stepC (view x).cs i (.replUpdates (rmF us)) ra ord src).node j).log.entries := he
      rw [hnode] at he'
      split at he'
      · have hd := hS'.dec i
        have hvi : (view (stepS x i (.replUpdates us) ra ord src)).cs.node i =
            U β' (relog z L T) := by
          show (stepS x i (.replUpdates us) ra ord src).vnode i = _
          rw [view_stepS_node, if_pos rfl]
          exact hPdef
        rw [hvi] at hd
        exact hd e (by show e ∈ (uncLog β' L).entries; rw [hent]; exact he') hty
      · exact hS.dec j e he' hty
  have hImid := inv_trans hV hI (sideS_view hS) ht hSmid
  -- the compaction only flushes the virtual log and regroups its segments
  have hmid_i : Snap.Sys.node
      { cs := stepC (view x).cs i (.replUpdates (rmF us)) ra ord src
        snaps := newSnaps i (x.vnode i).snapsDisk ((x.vnode i).step (.replUpdates (rmF us)) ra ord).snapsDisk ++
          (view x).snaps } i = U (x.base i) z := by
    have := hnode i
    rw [if_pos rfl] at this
    exact this
  have hwfz : C06.LogWF (uncLog (x.base i) z.log) := by
    have h0 : C06.LogWF ((stepC (view x).cs i (.replUpdates (rmF us)) ra ord src).node i).log :=
      hImid.cinv.node.lwf i
    rw [hnode, if_pos rfl] at h0
    exact h0
  have hokz : SnapOK (U (x.base i) z) := by
    have := hImid.snap i
    rw [hmid_i] at this
    exact this
  have hsegL : C09.SegsOK L := by
    have := hS'.segs i
    rw [hyi] at this
    exact this
  have ss : SnapStep (U (x.base i) z) (U β' (relog z L T)) := by
    refine snapStep_relog (x.base i) β' z L T hent ?_ ?_ hokz
    · rcases hLT with ⟨e, _⟩ | ⟨e, _⟩
      · rw [e]; exact Nat.le_refl _
      · rw [e]
        have := hwfz.2
        rw [uncLog_last] at this
        exact this
    · rcases hLT with ⟨e, _⟩ | ⟨e1, e2⟩
      · have h1 := hwfz.1
        have h2 := hwfz.2
        rw [uncLog_lastSegPrev] at h1
        rw [uncLog_last] at h2
        refine ⟨?_, ?_⟩
        · rw [uncLog_lastSegPrev, e]; exact h1
        · rw [uncLog_last, e]; exact h2
      · refine ⟨?_, ?_⟩
        · rw [uncLog_lastSegPrev]
          show L.lastSegPrev ≤ L.flushed
          rw [e1, ← e2]
          exact lastSegPrev_le_last hsegL
        · rw [uncLog_last]
          show L.flushed ≤ L.last
          rw [e1, e2]
          exact Nat.le_refl _
  constructor
  · rw [← hmid_i] at ss
    have hreg := sinv_regroup hImid ss
    have pe := ss.feq
    have le := lfieldEq_of_lobs ss.lobs
    rw [hmid_i] at pe le hreg
    -- the view after the step is the regrouped state
    have hcs : (view (stepS x i (.replUpdates us) ra ord src)).cs =
        withNodes (stepC (view x).cs i (.replUpdates (rmF us)) ra ord src)
          (setNode (stepC (view x).cs i (.replUpdates (rmF us)) ra ord src).rp.el.node i (U β' (relog z L T))) := by
      show withNodes (withNodes (stepL (view x).cs i (.replUpdates us) src _) _)
        (stepS x i (.replUpdates us) ra ord src).vnode = _
      rw [withNodes_withNodes, hPdef, stepC_eq, stepL_rm (view x).cs i (rmF us) us,
        show ((view x).cs.node i).step (.replUpdates (rmF us)) ra ord = U (x.base i) z from hm]
      rw [stepL_congr (view x).cs i us src (U (x.base i) z) (U β' (relog z L T)) _
        pe.role.symm pe.term.symm pe.votedFor.symm pe.entries.symm le.commitIndex.symm]
      have hN : (stepS x i (.replUpdates us) ra ord src).vnode =
          setNode (stepL (view x).cs i (.replUpdates us) src (U (x.base i) z)).rp.el.node i (U β' (relog z L T)) := by
        funext j
        rw [view_stepS_node, hPdef]
        show _ = setNode (setNode (view x).cs.rp.el.node i (U (x.base i) z)) i (U β' (relog z L T)) j
        rw [setNode_setNode]
        unfold setNode
        split <;> rfl
      rw [hN]
    have hsn : (view (stepS x i (.replUpdates us) ra ord src)).snaps =
        newSnaps i (U (x.base i) z).snapsDisk (U β' (relog z L T)).snapsDisk ++
          (newSnaps i (x.vnode i).snapsDisk ((x.vnode i).step (.replUpdates (rmF us)) ra ord).snapsDisk ++
            (view x).snaps) := by
      rw [show (U β' (relog z L T)).snapsDisk = (U (x.base i) z).snapsDisk from rfl, newSnaps_same, List.nil_append, hm]
      show newSnaps i (x.node i).snapsDisk ((x.node i).step (.replUpdates us) ra ord).snapsDisk ++ x.snaps = _
      rw [hs']
      rfl
    have hv : view (stepS x i (.replUpdates us) ra ord src) =
        { cs := withNodes (stepC (view x).cs i (.replUpdates (rmF us)) ra ord src)
            (setNode (stepC (view x).cs i (.replUpdates (rmF us)) ra ord src).rp.el.node i (U β' (relog z L T)))
          snaps := newSnaps i (U (x.base i) z).snapsDisk (U β' (relog z L T)).snapsDisk ++
            (newSnaps i (x.vnode i).snapsDisk ((x.vnode i).step (.replUpdates (rmF us)) ra ord).snapsDisk ++
              (view x).snaps) } := sys_ext hcs hsn
    rw [hv]
    exact hreg
  constructor
  · refine ⟨by rw [hprev']; rw [hs']; exact Nat.le_trans hLp (Nat.le_of_eq frz.2.2.1.symm), fun rs hrs => ?_⟩
    rw [hs'] at hrs ⊢
    have h1 : z.snapResult = (x.node i).snapResult := frz.2.2.2.1
    have h2 : z.snapIndex = (x.node i).snapIndex := frz.2.2.1
    show rs.index ≤ z.snapIndex
    rw [h2]
    exact (hP i).res rs (by rw [← h1]; exact hrs)
  · show ((stepS x i (.replUpdates us) ra ord src).vnode i).log.entries = _
    rw [view_stepS_node, if_pos rfl, hPdef, hm]
    exact hent

/-! ### a crash before `compactLog`, and the restart -/

/-- what is on disk when the process dies after `k` storage points of the step without the compaction -/
def zdisk (s z : Node) : Nat → Durable
  | 0 => s.durable
  | k + 1 => match z.trace[k]? with
    | some p => p.2
    | none => z.durable

/-- before `compactLog` the disk is that of the step without the compaction -/
theorem crashDisk_before (s : Node) (us : List ReplUpdate) (ra : List Nat) (ord : List (List Nat)) (k : Nat)
    (hbc : s.step (.replUpdates us) ra ord = stepNC s us ra ord ∨ k ≤ (stepNC s us ra ord).trace.length) :
    C05.crashDisk s (.replUpdates us) ra ord k = zdisk s (stepNC s us ra ord) k := by
  cases k with
  | zero => rfl
  | succ k =>
    rcases step_rm_real s us ra ord with e | hc
    · simp only [C05.crashDisk, zdisk]
      rw [e]
      rfl
    · rcases hbc with e | hk
      · simp only [C05.crashDisk, zdisk]
        rw [e]
        rfl
      · simp only [C05.crashDisk, zdisk]
        have hk' : k < (stepNC s us ra ord).trace.length := hk
        have ht : (s.step (.replUpdates us) ra ord).trace =
            (stepNC s us ra ord).trace ++ [("compactLog",
              ((updPre (s.begin ra ord) us).compactLog (updPre (s.begin ra ord) us).ldr.removeLTE).durable)] := by
          rw [hc.step, hc.trace]; rfl
        rw [ht, List.getElem?_append_left hk', List.getElem?_eq_getElem hk']

theorem zdisk_U (β : List Entry) (s z : Node) (k : Nat) :
    zdisk (U β s) (U β z) k = uncD β (zdisk s z k) := by
  cases k with
  | zero => exact U_durable s
  | succ k =>
    simp only [zdisk]
    show (match (z.trace.map (uncP β))[k]? with | some p => p.2 | none => _) = _
    rw [List.getElem?_map]
    cases z.trace[k]? with
    | none => exact U_durable _
    | some p => rfl

theorem zdisk_cases (s z : Node) (k : Nat) :
    zdisk s z k = s.durable ∨ (∃ p ∈ z.trace, zdisk s z k = p.2) ∨ zdisk s z k = z.durable := by
  cases k with
  | zero => exact Or.inl rfl
  | succ k =>
    simp only [zdisk]
    split
    · rename_i p hp
      exact Or.inr (Or.inl ⟨p, List.mem_of_getElem? hp, rfl⟩)
    · exact Or.inr (Or.inr rfl)

theorem crashC_rm (z : Commit.Sys) (i : Nat) (us us' : List ReplUpdate) (N : Node) :
    crashC z i (.replUpdates us) N = crashC z i (.replUpdates us') N := rfl

/-- **a crash before `compactLog` in a step with a batch of updates, and the restart** -/
theorem crash_rm (hV : V.Nodup) {x : Snap2.Sys} (hI : SInv V (view x)) (hP : ∀ i, PrevOK (x.node i))
    (hS : Side2 V x) {i : Nat} {us : List ReplUpdate} {ra : List Nat} {ord : List (List Nat)}
    {src k retain : Nat} {sor : Bool} {n : Node}
    (hC : C06Cache.LeaderCache (x.node i))
    (en : Snap5.Enabled x.cs i (.replUpdates us) src) (hret : 1 ≤ retain)
    (hp : ((x.node i).step (.replUpdates us) ra ord).panicked = none)
    (hbc : (x.node i).step (.replUpdates us) ra ord = stepNC (x.node i) us ra ord ∨
      k ≤ (stepNC (x.node i) us ra ord).trace.length)
    (hn : Node.restart (C05.crashDisk (x.node i) (.replUpdates us) ra ord k) retain sor = some n)
    (hS' : Side2 V (crashS x i (.replUpdates us) n)) :
    SInv V (view (crashS x i (.replUpdates us) n)) ∧ PrevOK n := by
  have hfl : (x.node i).log.prev ≤ (x.node i).log.flushed := prev_le_flushed (x.base i) (hS.segs i) (vnode_lwf hI i)
  have hm : (x.vnode i).step (.replUpdates (rmF us)) ra ord = U (x.base i) (stepNC (x.node i) us ra ord) :=
    step_rm_U (x.node i) us ra ord (cache_begin hC ra ord) hp
  obtain ⟨frz, _⟩ := stepNC_frame (x.node i) us ra ord (hP i).le hfl
  have hd0 := crashDisk_before (x.node i) us ra ord k hbc
  -- the disk of the virtual node
  have hdisk : C05.crashDisk (x.vnode i) (.replUpdates (rmF us)) ra ord k =
      uncD (x.base i) (C05.crashDisk (x.node i) (.replUpdates us) ra ord k) := by
    rw [hd0, ← zdisk_U]
    have e1 := crashDisk_before (x.vnode i) (rmF us) ra ord k
      (Or.inl (stepNC_noRm _ _ ra ord (rmF_noRm us)))
    rw [e1, ← stepNC_noRm _ _ ra ord (rmF_noRm us), hm]
    rfl
  -- what is on disk starts where the log started
  have hd : (C05.crashDisk (x.node i) (.replUpdates us) ra ord k).log.prev = (x.node i).log.prev ∧
      (C05.crashDisk (x.node i) (.replUpdates us) ra ord k).log.prev +
        (C05.crashDisk (x.node i) (.replUpdates us) ra ord k).log.entries.length ≤
        (C05.crashDisk (x.node i) (.replUpdates us) ra ord k).log.flushed := by
    have hpre : (x.node i).durable.log.prev = (x.node i).log.prev ∧
        (x.node i).durable.log.prev + (x.node i).durable.log.entries.length ≤ (x.node i).durable.log.flushed :=
      ⟨rfl, durable_len _ hfl⟩
    rw [hd0]
    rcases zdisk_cases (x.node i) (stepNC (x.node i) us ra ord) k with e | ⟨p, hpt, e⟩ | e
    · rw [e]; exact hpre
    · rw [e]
      have := frz.2.2.2.2 p hpt
      exact ⟨this.1, this.2.2⟩
    · rw [e]
      exact ⟨frz.1, durable_len _ (by rw [frz.1]; exact frz.2.1)⟩
  -- the newest snapshot on disk is not older than the node's
  have hsn : (x.node i).snapIndex ≤ (headSnap (C05.crashDisk (x.node i) (.replUpdates us) ra ord k)).index := by
    have fbi : FB (E σ0 (x.vnode i)) := hI.fsm i
    have hf : FsmOK 0 (x.vnode i) := ⟨fbi.fsm.le, fbi.fsm.len, fbi.fsm.applied, fbi.fsm.mono⟩
    have := (crash_snaps (x.vnode i) (.replUpdates (rmF us)) ra ord k (rmF_noRm us) (hI.snap i) hf).2
    rw [hdisk] at this
    exact this
  generalize C05.crashDisk (x.node i) (.replUpdates us) ra ord k = d at hn hdisk hd hsn
  have hgap : n.log.prev = 0 ∨ n.log.prev ≠ n.snapIndex := by
    have := hS'.gap i
    rw [crashS_node_i] at this
    exact this
  obtain ⟨r1, r2, r3, r4, r5⟩ := restart_view (x.base i) d retain sor n hn
    (by rw [hd.1]; exact Nat.le_trans (hP i).le hsn) hd.2 hgap
  have hPn : U (newBase x i n.log.prev) n = U (x.base i) n := by
    have hb : newBase x i n.log.prev = pad (x.base i) (x.node i).log.prev := by
      unfold newBase Sys.vlog Sys.vnode
      rw [r2, hd.1]
      exact take_vlog (x.base i) (x.node i).log
    rw [hb, U_pad _ _ _ (by rw [r2, hd.1]) (by rw [r5]; intro pt hpt; cases hpt)]
  refine ⟨?_, ⟨by rw [r2, r3, hd.1]; exact Nat.le_trans (hP i).le hsn, fun rs hrs => by rw [r4] at hrs; cases hrs⟩⟩
  have hview := view_crashS x i (.replUpdates us) n _ hPn
  have ht : Snap.Trans (view x) (view (crashS x i (.replUpdates us) n)) := by
    rw [hview, crashC_rm (view x).cs i us (rmF us)]
    refine Snap.Trans.crash i (.replUpdates (rmF us)) ra ord src k retain sor (U (x.base i) n)
      (enabled_view (enabled_rm en)) hret (fun h => nomatch h) ?_
    show Node.restart (C05.crashDisk (x.vnode i) (.replUpdates (rmF us)) ra ord k) retain sor = _
    rw [hdisk]; exact r1
  exact inv_trans hV hI (sideS_view hS) ht (sideS_view hS')

/-! ### a crash in or after `compactLog` -/

/-- what is on disk besides the log -/
def dfix (s : Node) : Nat × Nat × Nat × Nat × List SnapFile × Nat × Nat :=
  (s.cid, s.nid, s.durTerm, s.durVote, s.snapsDisk, s.snapIndex, s.lastLogIndex)

theorem dfix_reply (s : Node) (t : Nat) (r : String) : dfix (s.reply t r) = dfix s := by
  unfold Node.reply; split <;> rfl

theorem dfix_foldl_replyT (err : String) (xs : List Nat) :
    ∀ (a : Node), dfix (xs.foldl (fun s t => s.reply t err) a) = dfix a := by
  induction xs with
  | nil => intro a; rfl
  | cons x xs ih => intro a; rw [List.foldl_cons, ih, dfix_reply]

theorem dfix_foldl_replyQ (err : String) (xs : List QItem) :
    ∀ (a : Node), dfix (xs.foldl (fun s q => s.reply q.task err) a) = dfix a := by
  induction xs with
  | nil => intro a; rfl
  | cons x xs ih => intro a; rw [List.foldl_cons, ih, dfix_reply]

theorem dfix_tryTransfer (s : Node) : dfix s.tryTransfer = dfix s := by
  unfold Node.tryTransfer Node.panic
  dsimp only
  repeat' split
  all_goals rfl

theorem dfix_leaderReleaseRest (x : Node) : dfix x.leaderReleaseRest = dfix x := by
  unfold Node.leaderReleaseRest
  extract_lets s1 err s2 s3
  show dfix s3 = dfix x
  have e3 : dfix s3 = dfix s2 := dfix_foldl_replyT err _ s2
  have e2 : dfix s2 = dfix s1 := dfix_foldl_replyQ err _ s1
  have e1 : dfix s1 = dfix x := by unfold s1; split <;> rfl
  rw [e3, e2, e1]

theorem dfix_leaderRelease (s : Node) : dfix s.leaderRelease = dfix s := by
  unfold Node.leaderRelease
  rw [dfix_leaderReleaseRest]
  split
  · unfold Node.transferReply
    show dfix (s.reply s.ldr.transfer.task s.releaseResult) = _
    rw [dfix_reply]
  · rfl

theorem dfix_updFin (f : UpdFlags) (a : Node) (h : a.role ≠ .candidate) : dfix (updFin f a) = dfix a := by
  unfold updFin
  have h1 : (updTail f a).role ≠ .candidate := by rw [role_updTail]; exact h
  have h2 : dfix (updTail f a) = dfix a := by
    unfold updTail
    split
    · exact dfix_tryTransfer a
    · rfl
  rw [settle_leader _ h1]
  split
  · exact h2
  · rw [dfix_leaderRelease, h2]

theorem durable_of_dfix {a b : Node} (h : dfix a = dfix b) (hl : a.log = b.log) : a.durable = b.durable := by
  unfold dfix at h
  simp only [Prod.mk.injEq] at h
  obtain ⟨h1, h2, h3, h4, h5, _, _⟩ := h
  unfold Node.durable
  rw [h1, h2, h3, h4, h5, hl]

/-- **a process that dies in or after `compactLog` leaves the disk of the completed step**: when `checkReplUpdates`
compacts, `compactLog` is the last storage point of the step, and what is on disk there is what is on disk after the
step — which is what a crash before the first storage point of the NEXT operation leaves. -/
theorem crash_after_compact (s : Node) (us : List ReplUpdate) (ra : List Nat) (ord : List (List Nat))
    (hc : Compacted s us ra ord) (k : Nat) (hk : (stepNC s us ra ord).trace.length < k) (op' : Op)
    (ra' : List Nat) (ord' : List (List Nat)) :
    C05.crashDisk s (.replUpdates us) ra ord k = (s.step (.replUpdates us) ra ord).durable ∧
    C05.crashDisk (s.step (.replUpdates us) ra ord) op' ra' ord' 0 = (s.step (.replUpdates us) ra ord).durable := by
  refine ⟨?_, rfl⟩
  cases k with
  | zero => cases hk
  | succ k =>
    simp only [C05.crashDisk]
    have ht : (s.step (.replUpdates us) ra ord).trace =
        (stepNC s us ra ord).trace ++ [("compactLog",
          ((updPre (s.begin ra ord) us).compactLog (updPre (s.begin ra ord) us).ldr.removeLTE).durable)] := by
      rw [hc.step, hc.trace]; rfl
    by_cases hk' : k = (stepNC s us ra ord).trace.length
    · rw [ht, hk', List.getElem?_append_right (Nat.le_refl _), Nat.sub_self]
      show ((updPre (s.begin ra ord) us).compactLog (updPre (s.begin ra ord) us).ldr.removeLTE).durable = _
      have hnc : (updPre (s.begin ra ord) us).role ≠ .candidate :=
        notCand_updPre _ us (by rw [hc.leader]; exact fun x => by cases x)
      have hz := stepNC_go s us ra ord hc.leader hc.go
      apply durable_of_dfix
      · rw [hc.step]
        show dfix (updPre (s.begin ra ord) us) = dfix (stepNC s us ra ord)
        rw [hz, dfix_updFin _ _ hnc]
      · rw [hc.step]; rfl
    · have : (s.step (.replUpdates us) ra ord).trace[k]? = none := by
        apply List.getElem?_eq_none
        rw [ht, List.length_append]
        show (stepNC s us ra ord).trace.length + 1 ≤ k
        omega
      rw [this]

/-! ### the invariant -/

/-- **the invariant of `Raft.Snap5`**: the invariant of stage 2 (the invariant of stage 1 for the cluster of the virtual
nodes; every log starts at or below its snapshot index), and the caches of every leader are current (in particular its
replication table is sorted by id) -/
structure Inv5 (V : List Nat) (x : Snap2.Sys) : Prop where
  inv2 : Inv2 V x
  cache : ∀ i, C06Cache.LeaderCache (x.node i)

theorem opOK5_ne_shutdown {op : Op} (h : Snap5.OpOK5 op) : op ≠ .shutdown := by
  intro e; rw [e] at h; exact h

theorem restart_cache (d : Durable) (retain : Nat) (sor : Bool) (n : Node) (h : Node.restart d retain sor = some n) :
    C06Cache.LeaderCache n := by
  have hr : n.role = .follower := (Election.restart_role_nid d retain sor n h).1
  intro hl
  rw [hr] at hl
  cases hl

/-- the batch of a `.replUpdates` operation reports a compaction -/
def HasRm (op : Op) : Prop := ∃ us, op = .replUpdates us ∧ ¬ NoCompact us

theorem old_of_not_hasRm {op : Op} (h : ¬ HasRm op) : ∀ us, op = .replUpdates us → NoCompact us := by
  intro us hus
  apply Classical.byContradiction
  intro hn
  exact h ⟨us, hus, hn⟩

theorem inv5_trans (hV : V.Nodup) {x y : Snap2.Sys} (hI : Inv5 V x) (hS : Snap5.Side5 V x)
    (ht : Snap5.Trans x y) (hS' : Snap5.Side5 V y) : Inv5 V y := by
  cases ht with
  | step i op ra ord src en hp =>
    have key : SInv V (view (stepS x i op ra ord src)) ∧ PrevOK ((x.node i).step op ra ord) := by
      by_cases hrm : HasRm op
      · obtain ⟨us, rfl, _⟩ := hrm
        have hr := hS'.rm i
        rw [stepS_node_i] at hr
        have := step_rm hV hI.inv2.sinv hI.inv2.prev hS.side (hI.cache i) en hp hS'.side hr
        exact ⟨this.1, this.2.1⟩
      · have en' := enabled_old en (old_of_not_hasRm hrm)
        by_cases hsn : op = .snapTaken
        · subst hsn; exact step_snapTaken hV hI.inv2.sinv hI.inv2.prev hS.side en.id
        · exact step_nc hV hI.inv2.sinv hI.inv2.prev hS.side en' hp hsn hS'.side
    refine ⟨⟨key.1, fun j => ?_⟩, fun j => ?_⟩
    · by_cases hj : j = i
      · subst hj; rw [stepS_node_i]; exact key.2
      · rw [stepS_node_j _ _ _ _ _ _ hj]; exact hI.inv2.prev j
    · by_cases hj : j = i
      · subst hj
        rw [stepS_node_i]
        exact C06Cache.step_leaderCache _ op ra ord (opOK5_ne_shutdown en.ok2.1) (hI.cache j)
      · rw [stepS_node_j _ _ _ _ _ _ hj]; exact hI.cache j
  | crash i op ra ord src k retain sor n en hret hp hbc hn =>
    have key : SInv V (view (crashS x i op n)) ∧ PrevOK n := by
      by_cases hrm : HasRm op
      · obtain ⟨us, rfl, _⟩ := hrm
        exact crash_rm hV hI.inv2.sinv hI.inv2.prev hS.side (hI.cache i) en hret hp (hbc us rfl) hn hS'.side
      · have en' := enabled_old en (old_of_not_hasRm hrm)
        by_cases hsn : op = .snapTaken
        · subst hsn; exact crash_snapTaken (src := src) hV hI.inv2.sinv hI.inv2.prev hS.side en.id hret hn hS'.side
        · exact crash_nc hV hI.inv2.sinv hI.inv2.prev hS.side en' hret hp hsn hn hS'.side
    refine ⟨⟨key.1, fun j => ?_⟩, fun j => ?_⟩
    · by_cases hj : j = i
      · subst hj; rw [crashS_node_i]; exact key.2
      · rw [crashS_node_j _ _ _ _ hj]; exact hI.inv2.prev j
    · by_cases hj : j = i
      · subst hj; rw [crashS_node_i]; exact restart_cache _ retain sor n hn
      · rw [crashS_node_j _ _ _ _ hj]; exact hI.cache j
  | send i q hi hl hr hc =>
    refine ⟨⟨?_, hI.inv2.prev⟩, hI.cache⟩
    have ht : Snap.Trans (view x) (view { x with cs := sendC x.cs q }) :=
      Snap.Trans.send (x := view x) i q hi hl hr.read hc
    exact inv_trans hV hI.inv2.sinv (sideS_view hS.side) ht (sideS_view hS'.side)

/-- **the invariant holds in every reachable state of `Raft.Snap5`** -/
theorem inv5_reachable (hV : V.Nodup) {x : Snap2.Sys} (h : Snap5.Reachable5 V x) : Inv5 V x ∧ Snap5.Side5 V x := by
  induction h with
  | init x hi hs =>
    refine ⟨⟨⟨sinv_init hi.init, fun i => ⟨by rw [hi.prev i]; exact Nat.zero_le _,
      fun rs hrs => by rw [hi.result i] at hrs; cases hrs⟩⟩, fun i hl => ?_⟩, hs⟩
    have hr : ((view x).cs.node i).role = .follower := (hi.init.cs.rp.el.1 i).2.2
    have hr' : (x.node i).role = .follower := hr
    rw [hr'] at hl
    cases hl
  | next x y _ ht hs ih => exact ⟨inv5_trans hV ih.1 ih.2 ht hs, hs⟩

/-- every run of stage 2 is a run of this stage (when the side condition on the compaction bound holds) -/
theorem trans_of_trans2 {x y : Snap2.Sys} (h : Snap2.Trans x y) : Snap5.Trans x y := by
  have conv : ∀ {i op src}, Snap.Enabled x.cs i op src → Snap5.Enabled x.cs i op src := by
    intro i op src en
    refine ⟨en.id, en.voteSrc, en.real, ⟨?_, en.ok2.2⟩, en.append, en.vote, en.appendSrc, en.upd⟩
    have h1 := en.ok2.1
    cases op <;> first | trivial | exact h1.elim
  cases h with
  | step i op ra ord src en hp => exact Snap5.Trans.step i op ra ord src (conv en) hp
  | crash i op ra ord src k retain sor n en hret hp hn =>
    refine Snap5.Trans.crash i op ra ord src k retain sor n (conv en) hret hp (fun us hus => Or.inl ?_) hn
    subst hus
    exact stepNC_noRm _ us ra ord en.ok2.1
  | send i q hi hl hr hc => exact Snap5.Trans.send i q hi hl hr hc

end SnapDelay
end Raft
