/-
Delayed compaction (`leader.checkLogCompact`), part D — node level, for EVERY ordered state (`Order.Ordered`, the
per-node invariant of C19), every batch of replication updates and every oracle: no cluster assumptions.

* `updPre_ordered` — the orderings hold in the state in which `checkReplUpdates` decides about the compaction.
* `delayed_compaction_node` — what a compacting step does (see Props/C09Sys4.lean for the statement in words).
* `compact_image_virtual` — the crash image at `compactLog` (= the disk of the completed step) un-compacts to the
  un-compacted log before the compaction: `RemoveLTE` commits first, so nothing of the virtual log is lost.
-/
import RaftVerif.Lemmas.SnapDelayC
import RaftVerif.Props.C19Order

namespace Raft
namespace SnapDelay
open Node SnapRelP SnapRelU SnapSim SnapInv SnapInv2

/-- the orderings hold where `checkReplUpdates` decides about the compaction -/
theorem updPre_ordered (s : Node) (us : List ReplUpdate) (ra : List Nat) (ord : List (List Nat))
    (ho : Order.Ordered s) : Order.Inv s true (updPre (s.begin ra ord) us) := by
  unfold updPre
  dsimp only
  have h0 := Order.inv_begin ra ord ho
  have h1 : Order.Inv s true (replUpdLoop (s.begin ra ord) {} us).1 := Order.inv_replUpdLoop {} us h0
  have h2 : Order.Inv s true (if (replUpdLoop (s.begin ra ord) {} us).2.matchU = true
      then onMajorityCommit (fuelFor 0) (replUpdLoop (s.begin ra ord) {} us).1
      else (replUpdLoop (s.begin ra ord) {} us).1) := by
    split
    · exact Order.inv_onMajorityCommit _ h1
    · exact h1
  split
  · exact Order.inv_checkQuorum h2
  · exact h2

/-- what a compacting step does -/
structure DelayedCompaction (s : Node) (us : List ReplUpdate) (ra : List Nat) (ord : List (List Nat)) : Prop where
  /-- the node led, and a compaction was wanted: `log.prev < ldr.removeLTE` when the decision was taken -/
  compacted : Compacted s us ra ord
  /-- EVERY replication had reported an index at or above the leader's bound -/
  all : ∀ r ∈ (updPre (s.begin ra ord) us).ldr.repls, (updPre (s.begin ra ord) us).ldr.removeLTE ≤ r.removeLTE
  /-- the log is `RemoveLTE(ldr.removeLTE)` of the log before the decision -/
  log : (s.step (.replUpdates us) ra ord).log =
    (updPre (s.begin ra ord) us).log.removeLTE (updPre (s.begin ra ord) us).ldr.removeLTE
  /-- the first index only moves forward, never beyond the leader's bound, which is not beyond the snapshot index -/
  prev_mono : (updPre (s.begin ra ord) us).log.prev ≤ (s.step (.replUpdates us) ra ord).log.prev
  prev_le : (s.step (.replUpdates us) ra ord).log.prev ≤ (updPre (s.begin ra ord) us).ldr.removeLTE
  bound_le : (updPre (s.begin ra ord) us).ldr.removeLTE ≤ (s.step (.replUpdates us) ra ord).snapIndex
  bound_same : (s.step (.replUpdates us) ra ord).ldr.removeLTE = (updPre (s.begin ra ord) us).ldr.removeLTE
  /-- the last index does not move and every index above the new first index keeps its entry -/
  last : (s.step (.replUpdates us) ra ord).log.last = (updPre (s.begin ra ord) us).log.last
  lastLogIndex : (s.step (.replUpdates us) ra ord).lastLogIndex = (updPre (s.begin ra ord) us).lastLogIndex
  kept : ∀ j, (s.step (.replUpdates us) ra ord).log.prev < j →
    (s.step (.replUpdates us) ra ord).log.get? j = (updPre (s.begin ra ord) us).log.get? j
  /-- the state after the step is ordered: in particular `log.prev ≤ snapIndex ≤ commitIndex ≤ lastLogIndex` and the
  segment list is well formed -/
  ordered : Order.Ordered (s.step (.replUpdates us) ra ord)

theorem delayed_compaction_node (s : Node) (us : List ReplUpdate) (ra : List Nat) (ord : List (List Nat))
    (ho : Order.Ordered s) (hp : (s.step (.replUpdates us) ra ord).panicked = none) :
    s.step (.replUpdates us) ra ord = stepNC s us ra ord ∨ DelayedCompaction s us ra ord := by
  rcases step_rm_real s us ra ord with e | hc
  · exact Or.inl e
  · right
    have hnc : (updPre (s.begin ra ord) us).role ≠ .candidate :=
      notCand_updPre _ us (by rw [hc.leader]; exact fun x => by cases x)
    have hz := stepNC_go s us ra ord hc.leader hc.go
    have hzp : (stepNC s us ra ord).panicked = none := by rw [stepNC_panicked]; exact hp
    have hap : (updPre (s.begin ra ord) us).panicked = none := by
      rw [hz] at hzp
      exact updFin_sticky _ _ hzp
    obtain ⟨cw, _, _, _⟩ := updPre_ordered s us ra ord ho hap
    have hdf := dfix_updFin (replUpdLoop (s.begin ra ord) {} us).2 _ hnc
    rw [← hz] at hdf
    unfold dfix at hdf
    simp only [Prod.mk.injEq] at hdf
    obtain ⟨_, _, _, _, _, d6, d7⟩ := hdf
    obtain ⟨_, _, w3, w4, w5, w6, w7⟩ :=
      C09.removeLTE_whole_segments (updPre (s.begin ra ord) us).log (updPre (s.begin ra ord) us).ldr.removeLTE cw.segs
    have hlog : (s.step (.replUpdates us) ra ord).log =
        (updPre (s.begin ra ord) us).log.removeLTE (updPre (s.begin ra ord) us).ldr.removeLTE := by
      rw [hc.step]; rfl
    have hsnap : (s.step (.replUpdates us) ra ord).snapIndex = (updPre (s.begin ra ord) us).snapIndex := by
      rw [hc.step]; exact d6
    refine ⟨hc, hc.all, hlog, by rw [hlog]; exact w3, ?_, by rw [hsnap]; exact cw.removeLTE_le, ?_,
      by rw [hlog]; exact w5, by rw [hc.step]; exact d7, fun j hj => ?_,
      C19Order.ordered_step s _ ra ord ho trivial hp⟩
    · rw [hlog]
      have := hc.gt
      rcases w4 with e | e
      · rw [e]; exact Nat.le_of_lt this
      · exact e
    · rw [hc.step]
      show (stepNC s us ra ord).ldr.removeLTE = _
      rw [hz, updFin_removeLTE _ _ hnc]
    · rw [hlog] at hj ⊢
      exact w6 j hj

/-- **the crash image at `compactLog` un-compacts to the whole un-compacted log**: with what the compaction removed
added to the compacted-away prefix `β`, the disk of the completed step holds every entry the un-compacted log held when
the compaction was decided — flushed or not before (`RemoveLTE` commits first) -/
theorem compact_image_virtual (β : List Entry) (s : Node) (us : List ReplUpdate) (ra : List Nat) (ord : List (List Nat))
    (hd : DelayedCompaction s us ra ord) :
    (uncD ((uncLog β (updPre (s.begin ra ord) us).log).entries.take (s.step (.replUpdates us) ra ord).log.prev)
      (s.step (.replUpdates us) ra ord).durable).log.entries =
      (uncLog β (updPre (s.begin ra ord) us).log).entries := by
  have hL := hd.log
  have hmono := hd.prev_mono
  have hlast := hd.last
  clear hd
  generalize (s.step (.replUpdates us) ra ord) = s' at *
  generalize (updPre (s.begin ra ord) us) = a at *
  have hent : s'.log.entries = a.log.entries.drop (s'.log.prev - a.log.prev) := by rw [hL]; rfl
  have hfl : s'.log.flushed = a.log.last := by rw [hL]; rfl
  have hk := vlog_keep β a.log s'.log hmono
    (by have := hlast; unfold NLog.last at this ⊢; omega) hent
  show ((pad _ s'.durable.log.prev ++ s'.durable.log.entries).take s'.durable.log.flushed) = _
  have e1 : s'.durable.log.prev = s'.log.prev := rfl
  have e2 : s'.durable.log.flushed = s'.log.flushed := rfl
  have e3 : s'.durable.log.entries = s'.log.entries := by
    show s'.log.entries.take (s'.log.flushed - s'.log.prev) = _
    apply List.take_of_length_le
    have := hlast
    unfold NLog.last at this
    rw [hfl]
    unfold NLog.last
    omega
  rw [e1, e2, e3]
  have hk' : pad ((uncLog β a.log).entries.take s'.log.prev) s'.log.prev ++ s'.log.entries =
      (uncLog β a.log).entries := hk
  rw [hk']
  apply List.take_of_length_le
  rw [hfl]
  have := uncLog_last (β := β) a.log
  unfold NLog.last at this ⊢
  have h0 : (uncLog β a.log).prev = 0 := rfl
  rw [h0] at this
  omega

end SnapDelay
end Raft
