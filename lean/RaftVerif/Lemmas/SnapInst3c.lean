/-
The invariant of the cluster system with installation of snapshots (Sys/Snap3.lean), part c: a crash in an operation of
stage 2 and the restart — also from a disk whose log starts exactly at the newest snapshot (then `openStorage` takes the
coordinates of the last entry from the snapshot: `VTerm` makes them those of the virtual log).
-/
import RaftVerif.Lemmas.SnapInst3b

namespace Raft
namespace SnapInst3
open Node Election LogRel Replication CommitRel Commit C02Sys C03Sys SnapRel SnapRelU SnapSim Snap Snap2 SnapInv SnapInv2
open SnapInst SnapInstU Snap3 SnapFrame

section
variable {V : List Nat}

/-- **what a committed key pins down**: a node whose commit index covers index `K` holds, at `K`, the term of any root
path whose key at `K` is committed -/
theorem termAt_of_committed {z : Commit.Sys} (hI : CInv V z) {L : List Entry} (hL : Path z.T L) {K u : Nat}
    (h1 : 1 ≤ K) (hK : K ≤ L.length) (hc : Cmt z (K, termAt L K) u) (j : Nat) (hj : K ≤ (z.node j).commitIndex) :
    termAt (z.node j).log.entries K = termAt L K := by
  have hP : Path z.T (L.take K) := hL.prefix (List.take_prefix _ _)
  have hlen : (L.take K).length = K := by rw [List.length_take]; omega
  have hlt : lastTerm (L.take K) = termAt L K := lastTerm_take L K hK
  have hc' : Cmt z ((L.take K).length, lastTerm (L.take K)) u := by rw [hlen, hlt]; exact hc
  have := path_agree_commit hI hP (by omega) hc' j K hj (by omega)
  rw [List.take_take, Nat.min_self] at this
  rw [← termAt_take (z.node j).log.entries K K (Nat.le_refl _), ← this, termAt_take L K K (Nat.le_refl _)]

/-- the snapshot files on disk whenever the process dies in an operation of stage 2: the files the node had, or —
while the snapshot goroutine publishes — a new one at the applied index labelled with `fsm.term` -/
theorem crash_files3 (s : Node) (op : Op) (ra : List Nat) (ord : List (List Nat)) (k : Nat) (hok : OpOKS op) :
    ∀ g ∈ (C05.crashDisk s op ra ord k).snaps, g ∈ s.snapsDisk ∨
      (op = .snapRun ∧ g.index = s.fsm.index ∧ g.term = s.fsm.term ∧ s.fsm.index ≠ s.snapIndex) := by
  intro g hg
  by_cases hr : op = .snapRun
  · subst hr
    rcases (snap_crashDisk s .snapRun ra ord k (Or.inl rfl)).2 with e | ⟨rq, _, hp, hne, hge, e⟩
    · rw [e] at hg; exact Or.inl hg
    · have hin : g ∈ insertSnap (C09.snapFileOf s rq) s.snapsDisk := by
        rcases e with e | e
        · rw [e] at hg; exact hg
        · rw [e] at hg; exact List.mem_of_mem_take hg
      have : ∀ (l : List SnapFile), g ∈ insertSnap (C09.snapFileOf s rq) l → g = C09.snapFileOf s rq ∨ g ∈ l := by
        intro l
        induction l with
        | nil => intro h; exact Or.inl (List.mem_singleton.mp h)
        | cons a as ih =>
          intro h
          unfold insertSnap at h
          split at h
          · rcases List.mem_cons.mp h with h | h
            · exact Or.inl h
            · exact Or.inr h
          · split at h
            · rcases List.mem_cons.mp h with h | h
              · exact Or.inl h
              · exact Or.inr (List.mem_cons_of_mem _ h)
            · rcases List.mem_cons.mp h with h | h
              · exact Or.inr (h ▸ List.mem_cons_self ..)
              · rcases ih h with h | h
                · exact Or.inl h
                · exact Or.inr (List.mem_cons_of_mem _ h)
      rcases this _ hin with h | h
      · right; rw [h]; exact ⟨rfl, rfl, rfl, hne⟩
      · exact Or.inl h
  · left
    have hfr : ((s.step op ra ord).snapsDisk = s.snapsDisk) ∧ ∀ p ∈ (s.step op ra ord).trace, p.2.snaps = s.snapsDisk := by
      by_cases hst : op = .snapTaken
      · subst hst
        rw [snapTaken_step_eq]
        rcases onSnapshotTaken_tobs (s.begin ra ord) with h | h
        · unfold tobs at h
          simp only [Prod.mk.injEq] at h
          obtain ⟨t1, _, _, _, _, _, t7⟩ := h
          exact ⟨t7, fun p hp => by rw [t1] at hp; cases hp⟩
        · unfold tobs at h
          simp only [Prod.mk.injEq] at h
          obtain ⟨t1, _, _, _, _, _, t7⟩ := h
          refine ⟨t7, fun p hp => ?_⟩
          rw [t1] at hp
          have : p = ("compactLog", { (s.begin ra ord).durable with log := (s.begin ra ord).onSnapshotTaken.log.durable }) := by
            rcases List.mem_append.mp hp with a | a
            · cases a
            · exact List.mem_singleton.mp a
          rw [this]; rfl
      · by_cases happ : ∃ q, op = .append q
        · obtain ⟨q, rfl⟩ := happ
          exact ⟨(append_snap_frame s q ra ord).2.2.1, (append_snap_frame s q ra ord).2.2.2⟩
        · have hpl : Plain op := by
            cases op <;> first | trivial | exact absurd rfl hr | exact hok | exact absurd ⟨_, rfl⟩ happ
          exact ⟨(step_snap_frame s op ra ord hpl).2.2.1, (step_snap_frame s op ra ord hpl).2.2.2⟩
    rcases C04Sys.crashDisk_cases s op ra ord k with e | ⟨p, hp, e⟩ | e
    · rw [e] at hg; exact hg
    · rw [e, hfr.2 p hp] at hg; exact hg
    · rw [e] at hg
      have : (s.step op ra ord).durable.snaps = (s.step op ra ord).snapsDisk := rfl
      rw [this, hfr.1] at hg; exact hg

/-- every snapshot file a crash in an operation of stage 2 can leave on the disk of node `i` carries the term of the
virtual log of `i` at its index -/
theorem crash_files_term {x : Snap3.Sys} (hI : Inv3 V x) {i : Nat} {op : Op} {ra : List Nat} {ord : List (List Nat)}
    (k : Nat) (hok : OpOKS op) (htt : TermTracked (x.node i) op) :
    ∀ g ∈ (C05.crashDisk (x.node i) op ra ord k).snaps, termAt (x.vlog i) g.index = g.term := by
  intro g hg
  have so : SnapOK (x.vnode i) := hI.sinv.snap i
  rcases crash_files3 (x.node i) op ra ord k hok g hg with h | ⟨rfl, h1, h2, h3⟩
  · exact (hI.vterm i).files g h
  · rw [h1, h2]
    have hlt : (x.node i).log.prev < (x.node i).fsm.index := by
      have p1 := (hI.prev i).le
      have p2 : (x.node i).snapIndex ≤ (x.node i).fsm.index := so.le
      omega
    exact termAt_vlog_of_real x i _ _ hlt (htt hlt)

theorem headSnap_mem (d : Durable) (h : 0 < (headSnap d).index) : headSnap d ∈ d.snaps := by
  unfold headSnap at h ⊢
  cases hs : d.snaps with
  | nil => rw [hs] at h; simp at h
  | cons a as => simp

theorem restart_snapTerm (d : Durable) (r : Nat) (sor : Bool) (n : Node) (hn : Node.restart d r sor = some n) :
    n.snapTerm = (headSnap d).term ∧ n.snapsDisk = d.snaps ∧ n.commitIndex = (headSnap d).index ∧
    n.retain = r := by
  obtain ⟨_, _, _, hne⟩ := C10.restart_some d r sor n hn
  obtain ⟨e1, e2, _, _, e5, _, _, e8, _⟩ := C10.restartNode_fields d r sor
  have er : (restartNode d r sor).retain = r := rfl
  obtain ⟨_, _, _, _, o5, o6, _, o8, _⟩ := fsmRestore_other (restartNode d r sor)
  have or' : (restartNode d r sor).fsmRestore.retain = (restartNode d r sor).retain := (obs_fsmRestore _).2.2.2.1
  rw [hne]
  split
  · refine ⟨?_, ?_, ?_, ?_⟩
    · show (restartNode d r sor).fsmRestore.snapTerm = _; rw [o5, e2]; rfl
    · show (restartNode d r sor).fsmRestore.snapsDisk = _; rw [o6, e5]
    · show (restartNode d r sor).snapIndex = _; rw [e1]; rfl
    · show (restartNode d r sor).fsmRestore.retain = _; rw [or', er]
  · rename_i h0
    refine ⟨by rw [e2]; rfl, e5, ?_, er⟩
    rw [e8]
    have : (restartNode d r sor).snapIndex = (headSnap d).index := by rw [e1]; rfl
    omega

/-- the hypothesis `hlt` of `restart_view3`, from the terms of the files on disk -/
theorem pad_term_of_files {x : Snap3.Sys} {i : Nat} {d : Durable} (hp : d.log.prev = (x.node i).log.prev)
    (hf : ∀ g ∈ d.snaps, termAt (x.vlog i) g.index = g.term) :
    0 < d.log.prev → d.log.prev = (headSnap d).index →
      (((pad (x.s2.base i) d.log.prev).getLast?).map (·.term)).getD 0 = (headSnap d).term := by
  intro h0 he
  rw [hp] at h0 ⊢
  rw [pad_getLast_term (x.s2.base i) (x.node i).log.entries _ h0, ← vlog_def]
  have hm : headSnap d ∈ d.snaps := headSnap_mem d (by rw [← he, hp]; exact h0)
  have := hf _ hm
  rw [← he, hp] at this
  exact this

/-- **a crash at any storage point of an operation of stage 2 other than `.snapTaken`, and the restart** -/
theorem crash3_nc (hV : V.Nodup) {x : Snap3.Sys} (hI3 : Inv3 V x) (hS : Side3 V x) {i : Nat} {op : Op} {ra : List Nat}
    {ord : List (List Nat)} {src k retain : Nat} {sor : Bool} {n : Node} (en : Snap.Enabled x.s2.cs i op src)
    (hret : 1 ≤ retain) (hp : ((x.node i).step op ra ord).panicked = none) (hne : op ≠ .snapTaken)
    (hnc : NoCut (x.node i) op) (htt : TermTracked (x.node i) op)
    (hst : staleLog (C05.crashDisk (x.node i) op ra ord k) = false)
    (hn : Node.restart (C05.crashDisk (x.node i) op ra ord k) retain sor = some n)
    (hS' : SideS V (view (crashS x.s2 i op n))) :
    SInv V (view (crashS x.s2 i op n)) ∧ PrevOK n ∧ (crashS x.s2 i op n).vnode i = U (x.s2.base i) n ∧
    FilesOK (x.vlog i) (x.node i).commitIndex (C05.crashDisk (x.node i) op ra ord k).snaps ∧
    (C05.crashDisk (x.node i) op ra ord k).log.prev = (x.node i).log.prev := by
  have hI := hI3.sinv
  have hP := hI3.prev
  have hfl : (x.node i).log.prev ≤ (x.node i).log.flushed :=
    prev_le_flushed (x.s2.base i) (hS.segs i) (vnode_lwf3 hI i)
  have hU := vstep_comm hI hP hS en hp hne hnc
  have hdisk : C05.crashDisk (x.vnode i) op ra ord k = uncD (x.s2.base i) (C05.crashDisk (x.node i) op ra ord k) :=
    crashDisk_U _ op ra ord hU k
  -- what is on disk starts where the log started
  have hd : (C05.crashDisk (x.node i) op ra ord k).log.prev = (x.node i).log.prev ∧
      (C05.crashDisk (x.node i) op ra ord k).log.prev + (C05.crashDisk (x.node i) op ra ord k).log.entries.length ≤
        (C05.crashDisk (x.node i) op ra ord k).log.flushed := by
    have hpre : (x.node i).durable.log.prev = (x.node i).log.prev ∧
        (x.node i).durable.log.prev + (x.node i).durable.log.entries.length ≤ (x.node i).durable.log.flushed :=
      ⟨rfl, durable_len _ hfl⟩
    by_cases hr : op = .snapRun
    · subst hr
      have hc := C04Sys.crashDisk_cases (x.node i) .snapRun ra ord k
      rw [snapRun_step_eq] at hc
      obtain ⟨f1, f2⟩ := snapRun_frame ((x.node i).begin ra ord)
      rcases hc with e | ⟨p, hpt, e⟩ | e
      · rw [e]; exact hpre
      · rw [e]
        rcases f2 p hpt with a | a
        · cases a
        · rw [a]; exact hpre
      · rw [e]
        have : ((x.node i).begin ra ord).snapRun.durable.log = (x.node i).durable.log := by
          show ((x.node i).begin ra ord).snapRun.log.durable = _
          rw [f1]; rfl
        rw [this]; exact hpre
    · have hnc' : StepClosedNC.NCOp op := by
        have h1 := en.ok2.1
        cases op <;> first | trivial | exact h1.elim | exact absurd rfl hne | exact absurd rfl hr | exact h1
      have fr := step_frame (x.node i) op ra ord hnc' (hP i).le hfl
      rcases C04Sys.crashDisk_cases (x.node i) op ra ord k with e | ⟨p, hpt, e⟩ | e
      · rw [e]; exact hpre
      · rw [e]
        have := fr.2.2.2.2 p hpt
        exact ⟨this.1, this.2.2⟩
      · rw [e]
        exact ⟨fr.1, durable_len _ (by rw [fr.1]; exact fr.2.1)⟩
  -- the newest snapshot on disk is not older than the node's
  have hsn : (x.node i).snapIndex ≤ (headSnap (C05.crashDisk (x.node i) op ra ord k)).index := by
    have fbi : FB (E σ0 (x.vnode i)) := hI.fsm i
    have hf : FsmOK 0 (x.vnode i) := ⟨fbi.fsm.le, fbi.fsm.len, fbi.fsm.applied, fbi.fsm.mono⟩
    have := (crash_snaps (x.vnode i) op ra ord k en.ok2.1 (hI.snap i) hf).2
    rw [hdisk] at this
    exact this
  have hft := crash_files_term hI3 (i := i) (op := op) (ra := ra) (ord := ord) k en.ok2.1 htt
  have hfo : FilesOK (x.vlog i) (x.node i).commitIndex (C05.crashDisk (x.node i) op ra ord k).snaps := by
    have fbi : FB (E σ0 (x.vnode i)) := hI.fsm i
    have hf : FsmOK 0 (x.vnode i) := ⟨fbi.fsm.le, fbi.fsm.len, fbi.fsm.applied, fbi.fsm.mono⟩
    have := (crash_snaps (x.vnode i) op ra ord k en.ok2.1 (hI.snap i) hf).1
    rw [hdisk] at this
    exact this
  generalize C05.crashDisk (x.node i) op ra ord k = d at hn hdisk hd hsn hst hft hfo
  obtain ⟨r1, r2, r3, r4, r5⟩ := restart_view3 (x.s2.base i) d retain sor n hn
    (by rw [hd.1]; exact Nat.le_trans (hP i).le hsn) hd.2 hst (pad_term_of_files hd.1 hft)
  have hPn : U (newBase x.s2 i n.log.prev) n = U (x.s2.base i) n := by
    have hb : newBase x.s2 i n.log.prev = pad (x.s2.base i) (x.node i).log.prev := by
      unfold newBase Snap2.Sys.vlog Snap2.Sys.vnode
      rw [r2, hd.1]
      exact take_vlog (x.s2.base i) (x.node i).log
    rw [hb, U_pad _ _ _ (by rw [r2, hd.1]) (by rw [r5]; intro pt hpt; cases hpt)]
  refine ⟨?_, ⟨by rw [r2, r3, hd.1]; exact Nat.le_trans (hP i).le hsn, fun rs hrs => by rw [r4] at hrs; cases hrs⟩, ?_, hfo,
    hd.1⟩
  · have hview := view_crashS x.s2 i op n _ hPn
    have ht : Snap.Trans (view x.s2) (view (crashS x.s2 i op n)) := by
      rw [hview]
      refine Snap.Trans.crash i op ra ord src k retain sor (U (x.s2.base i) n) (enabled_view en) hret
        (fun h => absurd h hne) ?_
      show Node.restart (C05.crashDisk (x.vnode i) op ra ord k) retain sor = _
      rw [hdisk]; exact r1
    exact inv_trans hV hI (sideS_view3 hS) ht hS'
  · rw [view_crashS_node, if_pos rfl, hPn]

/-- **a crash at any storage point of `.snapTaken` (before or after the compaction), and the restart** (port of
`SnapInv2.crash_snapTaken` without `Side2.gap`) -/
theorem crash3_snapTaken (hV : V.Nodup) {x : Snap3.Sys} (hI3 : Inv3 V x) (hS : Side3 V x) {i : Nat} {ra : List Nat}
    {ord : List (List Nat)} {src k retain : Nat} {sor : Bool} {n : Node} (hi : i ≠ 0) (hret : 1 ≤ retain)
    (hst : staleLog (C05.crashDisk (x.node i) .snapTaken ra ord k) = false)
    (hn : Node.restart (C05.crashDisk (x.node i) .snapTaken ra ord k) retain sor = some n)
    (hS' : SideS V (view (crashS x.s2 i .snapTaken n))) :
    SInv V (view (crashS x.s2 i .snapTaken n)) ∧ PrevOK n := by
  have hI := hI3.sinv
  have hP := hI3.prev
  have hfl : (x.node i).log.prev ≤ (x.node i).log.flushed :=
    prev_le_flushed (x.s2.base i) (hS.segs i) (vnode_lwf3 hI i)
  have hhead : (x.node i).snapIndex = (headOf (x.node i).snapsDisk).index := (hI.snap i).head
  rcases snapTaken_crashDisk (x.node i) ra ord k with e | ⟨e, hdur⟩
  · -- nothing was compacted yet
    rw [e] at hn hst
    obtain ⟨r1, r2, r3, r4, r5⟩ := restart_view3 (x.s2.base i) (x.node i).durable retain sor n hn
      (by show (x.node i).log.prev ≤ (headOf (x.node i).snapsDisk).index; rw [← hhead]; exact (hP i).le)
      (durable_len _ hfl) hst (pad_term_of_files (x := x) (i := i) rfl (hI3.vterm i).files)
    have r2' : n.log.prev = (x.node i).log.prev := r2
    have hPn : U (newBase x.s2 i n.log.prev) n = U (x.s2.base i) n := by
      have hb : newBase x.s2 i n.log.prev = pad (x.s2.base i) (x.node i).log.prev := by
        unfold newBase Snap2.Sys.vlog Snap2.Sys.vnode
        rw [r2']
        exact take_vlog (x.s2.base i) (x.node i).log
      rw [hb, U_pad _ _ _ r2' (by rw [r5]; intro pt hpt; cases hpt)]
    refine ⟨?_, ⟨by rw [r2', r3]; show _ ≤ (headOf (x.node i).snapsDisk).index; rw [← hhead]; exact (hP i).le,
      fun rs hrs => by rw [r4] at hrs; cases hrs⟩⟩
    have hview := view_crashS x.s2 i .snapTaken n _ hPn
    rw [crashC_op] at hview
    have ht : Snap.Trans (view x.s2) (view (crashS x.s2 i .snapTaken n)) := by
      rw [hview]
      refine Snap.Trans.crash i (.disconnected 0) [] [] src 0 retain sor (U (x.s2.base i) n)
        (enabled_disc0 _ hi src) hret (fun h => nomatch h) ?_
      show Node.restart (x.vnode i).durable retain sor = _
      rw [show (x.vnode i).durable = uncD (x.s2.base i) (x.node i).durable from U_durable _]
      exact r1
    exact inv_trans hV hI (sideS_view3 hS) ht hS'
  · -- the compacted log is on disk
    have hpost : (x.node i).step .snapTaken ra ord = ((x.node i).begin ra ord).onSnapshotTaken := snapTaken_step_eq _ ra ord
    have hPpost : PrevOK ((x.node i).begin ra ord).onSnapshotTaken := by
      have := (step3_snapTaken hV hI hP hS (ra := ra) (ord := ord) (src := src) hi).2.1
      rw [hpost] at this
      exact this
    have ss := snapTaken_snapStep (x.s2.base i) (x.node i) ra ord (hS.segs i) (hI.snap i) (vnode_lwf3 hI i)
    obtain ⟨c1, c2, c3, _, _, c6, _, _⟩ := compact_cases ((x.node i).begin ra ord) (hS.segs i)
    have hq := onSnapshotTaken_qobs ((x.node i).begin ra ord)
    unfold qobs at hq
    simp only [Prod.mk.injEq] at hq
    obtain ⟨_, _, ⟨s1, _, s3⟩, _⟩ := hq
    rw [e] at hn hst
    have hent0 := vlog_keep (x.s2.base i) (x.node i).log ((x.node i).begin ra ord).onSnapshotTaken.log c1 c2 c3
    generalize hpo : ((x.node i).begin ra ord).onSnapshotTaken = post at *
    have s1' : post.snapIndex = (x.node i).snapIndex := s1
    have s3' : post.snapsDisk = (x.node i).snapsDisk := s3
    generalize hb' : (uncLog (x.s2.base i) (x.node i).log).entries.take post.log.prev = β' at ss hent0
    have hlwf : C06.LogWF (uncLog β' post.log) := ss.feq.lwf (vnode_lwf3 hI i)
    have hflp : post.log.prev ≤ post.log.flushed := prev_le_flushed β' c6 hlwf
    have hlt : 0 < post.log.prev → post.log.prev = (headOf (x.node i).snapsDisk).index →
        (((pad β' post.log.prev).getLast?).map (·.term)).getD 0 = (headOf (x.node i).snapsDisk).term := by
      intro h0 he
      rw [pad_getLast_term β' post.log.entries _ h0]
      have hent1 : pad β' post.log.prev ++ post.log.entries = x.vlog i := hent0
      rw [hent1]
      have hm : headOf (x.node i).snapsDisk ∈ (x.node i).snapsDisk := by
        have : 0 < (headOf (x.node i).snapsDisk).index := by omega
        unfold headOf at this ⊢
        cases hs : (x.node i).snapsDisk with
        | nil => rw [hs] at this; simp at this
        | cons a as => simp
      have := (hI3.vterm i).files _ hm
      rw [← he] at this
      exact this
    obtain ⟨r1, r2, r3, r4, r5⟩ := restart_view3 β' { (x.node i).durable with log := post.log.durable } retain sor n hn
      (by show post.log.prev ≤ (headOf (x.node i).snapsDisk).index; rw [← hhead, ← s1']; exact hPpost.le)
      (durable_len post hflp) hst hlt
    have r2' : n.log.prev = post.log.prev := r2
    have hPn : U (newBase x.s2 i n.log.prev) n = U β' n := by
      unfold newBase Snap2.Sys.vlog Snap2.Sys.vnode
      rw [r2']
      show U ((uncLog (x.s2.base i) (x.node i).log).entries.take post.log.prev) n = _
      rw [hb']
    refine ⟨?_, ⟨by rw [r2', r3]; show _ ≤ (headOf (x.node i).snapsDisk).index; rw [← hhead, ← s1']; exact hPpost.le,
      fun rs hrs => by rw [r4] at hrs; cases hrs⟩⟩
    have hview := view_crashS x.s2 i .snapTaken n _ hPn
    -- the regrouped view
    have hI' := sinv_regroup hI ss
    have pe := ss.feq
    have le := lfieldEq_of_lobs ss.lobs
    have hni : ∀ j, (withNodes (view x.s2).cs (setNode (view x.s2).cs.rp.el.node i (U β' post))).node j =
        if j = i then U β' post else x.vnode j := fun j => rfl
    have hSr : SideS V { cs := withNodes (view x.s2).cs (setNode (view x.s2).cs.rp.el.node i (U β' post))
                         snaps := newSnaps i ((view x.s2).node i).snapsDisk (U β' post).snapsDisk ++ (view x.s2).snaps } := by
      refine ⟨⟨fun j => ?_, fun j => ?_⟩, fun j => ?_, fun j => ?_⟩
      · show ((withNodes (view x.s2).cs (setNode (view x.s2).cs.rp.el.node i (U β' post))).node j).configs.isBootstrapped = true ∧
          ((withNodes (view x.s2).cs (setNode (view x.s2).cs.rp.el.node i (U β' post))).node j).configs.latest.voters = V
        rw [hni]
        split
        · rename_i hj; rw [le.configs]; have := hS.sideV.1 i; exact this
        · exact hS.sideV.1 j
      · show ((withNodes (view x.s2).cs (setNode (view x.s2).cs.rp.el.node i (U β' post))).node j).configs.latest.isStable = true
        rw [hni]
        split
        · rw [le.configs]; exact hS.sideV.2 i
        · exact hS.sideV.2 j
      · show ((withNodes (view x.s2).cs (setNode (view x.s2).cs.rp.el.node i (U β' post))).node j).log.prev = 0
        rw [hni]
        split <;> rfl
      · show ∀ e ∈ ((withNodes (view x.s2).cs (setNode (view x.s2).cs.rp.el.node i (U β' post))).node j).log.entries,
          e.typ = etConfig → e.cfg.isSome = true
        rw [hni]
        split
        · rw [show (U β' post).log.entries = (x.vnode i).log.entries from pe.entries]
          exact hS.dec i
        · exact hS.dec j
    have ht : Snap.Trans
        { cs := withNodes (view x.s2).cs (setNode (view x.s2).cs.rp.el.node i (U β' post))
          snaps := newSnaps i ((view x.s2).node i).snapsDisk (U β' post).snapsDisk ++ (view x.s2).snaps }
        (view (crashS x.s2 i .snapTaken n)) := by
      have hcs : crashC (withNodes (view x.s2).cs (setNode (view x.s2).cs.rp.el.node i (U β' post))) i (.disconnected 0) (U β' n) =
          crashC (view x.s2).cs i .snapTaken (U β' n) := by
        rw [crashC_op]
        exact crashC_regroup (view x.s2).cs i (.disconnected 0) (U β' post) (U β' n) pe.entries pe.term pe.lastLogIndex
          pe.lastLogTerm
      have hsn : newSnaps i (x.vnode i).snapsDisk (U β' n).snapsDisk ++ (view x.s2).snaps =
          newSnaps i (U β' post).snapsDisk (U β' n).snapsDisk ++
            (newSnaps i ((view x.s2).node i).snapsDisk (U β' post).snapsDisk ++ (view x.s2).snaps) := by
        show newSnaps i (x.node i).snapsDisk n.snapsDisk ++ x.s2.snaps =
          newSnaps i post.snapsDisk n.snapsDisk ++ (newSnaps i (x.node i).snapsDisk post.snapsDisk ++ x.s2.snaps)
        rw [s3', newSnaps_same, List.nil_append]
      rw [hview, ← hcs, hsn]
      have hXi : Snap.Sys.node
          { cs := withNodes (view x.s2).cs (setNode (view x.s2).cs.rp.el.node i (U β' post))
            snaps := newSnaps i ((view x.s2).node i).snapsDisk (U β' post).snapsDisk ++ (view x.s2).snaps } i = U β' post :=
        setNode_same _ _ _
      have key := Snap.Trans.crash
        (x := { cs := withNodes (view x.s2).cs (setNode (view x.s2).cs.rp.el.node i (U β' post))
                snaps := newSnaps i ((view x.s2).node i).snapsDisk (U β' post).snapsDisk ++ (view x.s2).snaps })
        i (.disconnected 0) [] [] src 0 retain sor (U β' n) (enabled_disc0 _ hi src) hret (fun h => nomatch h) (by
          rw [hXi]
          show Node.restart (U β' post).durable retain sor = _
          rw [show (U β' post).durable = uncD β' post.durable from U_durable _]
          rw [show post.durable = { (x.node i).durable with log := post.log.durable } from hdur]
          exact r1)
      rw [hXi] at key
      exact key
    exact inv_trans hV hI' hSr ht hS'

end

end SnapInst3
end Raft
