/-
The invariant `SnapInst3.Inv3` of stage 3 after a crash that RESETS the log (used for Sys/Snap6.lean):
* `inv3_crash_stale` — a crash in an operation of stage 2 after which the log is reset: the whole invariant (`sinv`, `prev`,
  `vterm`, `msgs`) in the state after the restart;
* `olddisk_stale_inv` — a crash in the install handler that leaves the OLD log and the OLD snapshot files, the old log being
  stale (companion of `SnapInst3.olddisk_inv`);
-/
import RaftVerif.Lemmas.SnapCutC

namespace Raft
namespace SnapCut
open Node Election LogRel Replication CommitRel Commit C02Sys C03Sys SnapRel SnapRelU SnapSim Snap Snap2 SnapInv SnapInv2
open SnapInst SnapInstU Snap3 SnapFrame SnapInst3

section
variable {V : List Nat}

/-- **the invariant of stage 3 after a crash in an operation of stage 2 that resets the log**: the restarted node's log is
`NLog.reset F` (`F` the index of the newest snapshot file on the disk), its virtual log is the committed prefix
`(x.vlog i).take F` -/
theorem inv3_crash_stale (hV : V.Nodup) {x : Snap3.Sys} (hI : Inv3 V x) (hS : Side3 V x) {i : Nat} {op : Op} {ra : List Nat}
    {ord : List (List Nat)} {src k retain : Nat} {sor : Bool} {n : Node} (en : Snap.Enabled x.s2.cs i op src)
    (hret : 1 ≤ retain) (hp : ((x.node i).step op ra ord).panicked = none)
    (hnc : NoCut (x.node i) op) (htt : TermTracked (x.node i) op)
    (hst : staleLog (C05.crashDisk (x.node i) op ra ord k) = true)
    (hn : Node.restart (C05.crashDisk (x.node i) op ra ord k) retain sor = some n) :
    Inv3 V { x with s2 := crashS x.s2 i op n } ∧
    n.log = NLog.reset (headSnap (C05.crashDisk (x.node i) op ra ord k)).index ∧
    (crashS x.s2 i op n).vlog i = (x.vlog i).take (headSnap (C05.crashDisk (x.node i) op ra ord k)).index := by
  obtain ⟨w1, w2, w3, _⟩ := restart_snapTerm _ retain sor n hn
  have so : SnapOK (x.vnode i) := hI.sinv.snap i
  have key : SInv V (view (crashS x.s2 i op n)) ∧ PrevOK n ∧
      FilesOK (x.vlog i) (x.node i).commitIndex (C05.crashDisk (x.node i) op ra ord k).snaps ∧
      (∀ g ∈ (C05.crashDisk (x.node i) op ra ord k).snaps, termAt (x.vlog i) g.index = g.term) ∧
      n.log = NLog.reset (headSnap (C05.crashDisk (x.node i) op ra ord k)).index ∧
      (crashS x.s2 i op n).vlog i = (x.vlog i).take (headSnap (C05.crashDisk (x.node i) op ra ord k)).index := by
    by_cases hsn : op = .snapTaken
    · subst hsn
      obtain ⟨a1, a2, a3, a4⟩ := crash3_stale_snapTaken (src := src) hV hI hS en.id hret hst hn
      have hsn' : (C05.crashDisk (x.node i) .snapTaken ra ord k).snaps = (x.node i).snapsDisk := by
        rcases snapTaken_crashDisk (x.node i) ra ord k with e | ⟨e, _⟩ <;> rw [e] <;> rfl
      have hh : headSnap (C05.crashDisk (x.node i) .snapTaken ra ord k) = headOf (x.node i).snapsDisk := by
        show headOf _ = _; rw [hsn']
      refine ⟨a1, a2, by rw [hsn']; exact so.files, by rw [hsn']; exact (hI.vterm i).files, by rw [hh]; exact a3,
        by rw [hh]; exact a4⟩
    · exact crash3_stale hV hI hS en hret hp hsn hnc htt hst hn
  obtain ⟨a1, a2, a4, hft, a5, a6⟩ := key
  refine ⟨⟨a1, fun j => ?_, fun j => ?_, fun m hm => (hI.msgs m hm).mono (crashS_T _ _ _ _).1 (crashS_T _ _ _ _).2⟩, a5, a6⟩
  · by_cases hj : j = i
    · subst hj
      show PrevOK ((crashS x.s2 j op n).node j)
      rw [crashS_node_i]; exact a2
    · show PrevOK ((crashS x.s2 i op n).node j)
      rw [crashS_node_j _ _ _ _ hj]; exact hI.prev j
  · by_cases hj : j = i
    · subst hj
      exact vterm_restart hI (y := { x with s2 := crashS x.s2 j op n }) a1 (crashS_T _ _ _ _).1 (crashS_T _ _ _ _).2
        (crashS_node_i _ _ _ _) a4 hft w2 w1 w3
    · exact vterm_crashS_other hj (hI.vterm j)

/-- **a crash in the install handler that leaves the old log and the old snapshot files on disk, the old log being
STALE** (at most the request's newer term reached the disk), and the restart: the stale reset of stage 2 (a crash before
the first storage point of any operation) followed by the adoption of the term -/
theorem olddisk_stale_inv (hV : V.Nodup) {x : Snap3.Sys} (hI : Inv3 V x) (hS : Side3 V x) {i : Nat} (hi : i ≠ 0)
    {d : Durable} {t retain : Nat} {sor : Bool} {n : Node}
    (h1 : d.cid = (x.node i).cid) (h2 : d.nid = (x.node i).nid) (h3 : d.log = (x.node i).durable.log)
    (h4 : d.snaps = (x.node i).snapsDisk)
    (htv : (d.term = (x.node i).durTerm ∧ d.vote = (x.node i).durVote) ∨ ((x.node i).term < t ∧ d.term = t ∧ d.vote = 0))
    (hst : staleLog d = true) (hret : 1 ≤ retain) (hn : Node.restart d retain sor = some n) :
    SInv V (view3 (replS x i n (newBase x.s2 i n.log.prev))) ∧ PrevOK n ∧
    VTerm (replS x i n (newBase x.s2 i n.log.prev)) i := by
  have hI1 := hI.sinv
  have hvw : C05.VoteWF (x.node i) := (hI1.cinv.rp.el.ids i).2
  -- the node restarted from the old disk
  have hd0 := durable_ext d (x.node i) h1 h2 h3 h4
  have hn0 := restart_congr_tv d (x.node i).durTerm (x.node i).durVote retain sor n hn
  rw [hd0] at hn0
  obtain ⟨n0, hn0def⟩ : ∃ n0 : Node, n0 = { n with term := (x.node i).durTerm, votedFor := (x.node i).durVote, durTerm := (x.node i).durTerm, durVote := (x.node i).durVote } :=
    ⟨_, rfl⟩
  rw [← hn0def] at hn0
  have e_log : n0.log = n.log := by rw [hn0def]
  have e_sd : n0.snapsDisk = n.snapsDisk := by rw [hn0def]
  have e_term : n0.term = (x.node i).durTerm := by rw [hn0def]
  obtain ⟨v1, v2, v3, v4⟩ := C10.restart_term_vote d retain sor n hn
  have hst0 : staleLog (x.node i).durable = true := by rw [← hd0]; exact hst
  -- stage A: the stale reset of stage 2 (a trivial operation, nothing stored yet)
  have hpd : ((x.node i).step (.disconnected 0) [] []).panicked = none := by rw [step_disconnected0]; rfl
  obtain ⟨hx1, b5, b6⟩ := inv3_crash_stale hV hI hS (i := i) (op := .disconnected 0) (ra := []) (ord := []) (src := 0)
    (k := 0) (retain := retain) (sor := sor) (n := n0) (enabled_disc0 _ hi 0) hret hpd trivial trivial hst0 hn0
  have b5' : n0.log = NLog.reset (headSnap (x.node i).durable).index := b5
  have b6' : (crashS x.s2 i (.disconnected 0) n0).vlog i = (x.vlog i).take (headSnap (x.node i).durable).index := b6
  -- stage B: the term is adopted
  obtain ⟨r1, r2⟩ := restart_role d retain sor n hn
  have hb : Bumped (({ x with s2 := crashS x.s2 i (.disconnected 0) n0 } : Snap3.Sys).node i) n := by
    show Bumped ((crashS x.s2 i (.disconnected 0) n0).node i) n
    rw [crashS_node_i, hn0def]
    refine ⟨rfl, rfl, rfl, rfl, rfl, rfl, rfl, rfl, r1, rfl, ?_, ⟨v3, v4⟩, rfl, rfl⟩
    show (n.term = (x.node i).durTerm ∧ n.votedFor = (x.node i).durVote) ∨ ((x.node i).durTerm < n.term ∧ n.votedFor = 0)
    rw [v1, v2]
    rcases htv with ⟨e1, e2⟩ | ⟨e0, e1, e2⟩
    · exact Or.inl ⟨e1, e2⟩
    · right; rw [e1, e2, hvw.1]; exact ⟨e0, rfl⟩
  obtain ⟨c1, c2, c3⟩ := bumped_inv hx1 (i := i) hb
  -- the final state is the state reached
  have hn1 : ({ x with s2 := crashS x.s2 i (.disconnected 0) n0 } : Snap3.Sys).node i = n0 := crashS_node_i _ _ _ _
  have hFl : (headSnap (x.node i).durable).index ≤ (x.vlog i).length := by
    have hm := headSnap_mem _ (stale_pos _ hst0)
    have hm' : headSnap (x.node i).durable ∈ (x.vnode i).snapsDisk := hm
    have so : SnapOK (x.vnode i) := hI1.snap i
    obtain ⟨g1, g2, _⟩ := so.files.files _ hm'
    exact (hI1.cinv.cmt.cc i _ g1 g2).1
  have hβ1 : newBase (crashS x.s2 i (.disconnected 0) n0) i
      (({ x with s2 := crashS x.s2 i (.disconnected 0) n0 } : Snap3.Sys).node i).log.prev =
      (x.vlog i).take (headSnap (x.node i).durable).index := by
    rw [hn1]
    unfold newBase
    rw [b6', b5']
    show ((x.vlog i).take _).take (headSnap (x.node i).durable).index = _
    rw [List.take_take, Nat.min_self]
  have hβ : newBase x.s2 i n.log.prev = (x.vlog i).take (headSnap (x.node i).durable).index := by
    rw [← e_log, b5']; rfl
  rw [hβ1] at c1 c3
  rw [hβ]
  generalize (x.vlog i).take (headSnap (x.node i).durable).index = β at c1 c3 hβ b6' hFl ⊢
  have hvn0 : (crashS x.s2 i (.disconnected 0) n0).vnode i = U β n0 := by
    rw [view_crashS_node, if_pos rfl, e_log, hβ]
  have hview : view3 (replS x i n β) =
      view3 (replS { x with s2 := crashS x.s2 i (.disconnected 0) n0 } i n β) := by
    rw [view_replS, view_replS]
    have hPn : U (newBase x.s2 i n0.log.prev) n0 = U β n0 := by
      rw [e_log, hβ]
    have hcs : (view (crashS x.s2 i (.disconnected 0) n0)).cs = repl (view x.s2).cs i (U β n0) := by
      rw [view_crashS x.s2 i (.disconnected 0) n0 _ hPn]
      refine crashC_quiet _ _ _ _ ?_ ?_
      · show chainOf i _ (List.drop _ _) = []
        have hle : (U β n0).log.entries.length ≤ ((view x.s2).cs.node i).log.entries.length := by
          have e : (U β n0).log.entries = (crashS x.s2 i (.disconnected 0) n0).vlog i := by
            show _ = ((crashS x.s2 i (.disconnected 0) n0).vnode i).log.entries
            rw [hvn0]
          rw [e, b6']
          show _ ≤ (x.vlog i).length
          rw [← hβ]
          unfold newBase
          rw [List.length_take]; exact Nat.min_le_right _ _
        rw [List.drop_eq_nil_of_le hle]; rfl
      · unfold campOf
        rw [if_neg]
        intro hc
        have : (U β n0).term = n0.term := rfl
        have h5 : ((view x.s2).cs.node i).term = (x.node i).term := rfl
        rw [this, h5, e_term, hvw.1] at hc
        omega
    have e1 : (view { x with s2 := crashS x.s2 i (.disconnected 0) n0 }.s2).cs = (view (crashS x.s2 i (.disconnected 0) n0)).cs := rfl
    rw [e1, hcs, repl_repl]
    have e2 : ({ x with s2 := crashS x.s2 i (.disconnected 0) n0 } : Snap3.Sys).vnode i = U β n0 := hvn0
    have e3 : (view { x with s2 := crashS x.s2 i (.disconnected 0) n0 }.s2).snaps =
        newSnaps i (x.node i).snapsDisk n0.snapsDisk ++ x.s2.snaps := rfl
    rw [e2, e3]
    refine sys_ext rfl ?_
    show newSnaps i (x.node i).snapsDisk n.snapsDisk ++ x.s2.snaps =
      newSnaps i n0.snapsDisk n.snapsDisk ++ (newSnaps i (x.node i).snapsDisk n0.snapsDisk ++ x.s2.snaps)
    rw [e_sd, newSnaps_same, List.nil_append]
  refine ⟨by rw [hview]; exact c1, c2, ?_⟩
  refine ⟨?_, ?_⟩
  · have := c3.files
    have this' : ∀ f ∈ ((replS { x with s2 := crashS x.s2 i (.disconnected 0) n0 } i n β).node i).snapsDisk,
        termAt ((replS { x with s2 := crashS x.s2 i (.disconnected 0) n0 } i n β).vnode i).log.entries f.index = f.term := this
    rw [replS_node_i, replS_vnode_i] at this'
    show ∀ f ∈ ((replS x i n β).node i).snapsDisk, termAt ((replS x i n β).vnode i).log.entries f.index = f.term
    rw [replS_node_i, replS_vnode_i]
    exact this'
  · have := c3.head
    have this' : ((replS { x with s2 := crashS x.s2 i (.disconnected 0) n0 } i n β).node i).snapTerm =
        (headOf ((replS { x with s2 := crashS x.s2 i (.disconnected 0) n0 } i n β).node i).snapsDisk).term := this
    rw [replS_node_i] at this'
    show ((replS x i n β).node i).snapTerm = (headOf ((replS x i n β).node i).snapsDisk).term
    rw [replS_node_i]
    exact this'

end

end SnapCut
end Raft
