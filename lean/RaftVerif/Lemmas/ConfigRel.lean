/-
How `configs` (latest / committed configuration) of one node can move — definitions and the proof that every
`Node.step` moves them by the moves of `Move` only (used by `Props/C08Step.lean`).

* `SameVoters`, `OneNode`, `Deriv`, `HasAnchor`, `AnchC`, `Adjacent`: relations between configurations;
* `Phase`, `Move`, `Chain`, `ConfigStep`: the two-state description of one `Node.step`;
* `KV`/`kv`: the fields of a node that the description reads, `Quiet x y` (a bookkeeping primitive: those fields are
  untouched and a recorded failure stays recorded);
* `QClosed`: predicates preserved by the primitives that never touch `configs`, the log end, the commit index or the
  node identity, and the handlers built from those primitives only (`q_auto`);
* `CfgLog`, `LogInv`: the configuration entries of the log versus `configs`;
* `Main` (chain so far, identity, term / commit index not below the start, `latest.index ≤ lastLogIndex`, an anchor,
  `LogInv`), `LV` (the leader's cached own entry), `BI = Main ∧ LV`, `Tr` (how a call of a leader handler relates input
  and output: phase, log end, commit index, `startIndex`, failures), `Jc` (the configuration a handler works on has the
  voters of the latest one), `Prog` (a membership change handed to `storeEntry` is carried out), `BatchOK`;
* `block`: the invariant through the mutually recursive leader block (`storeEntry` … `onMajorityCommit`), every budget;
* the handlers around it (`onChangeConfig_fin`, `checkReplUpdates_fin`, `leaderInit_fin`, `settle_fin`, …), the follower
  side (`FI`, `onAppendEntries_fi`, `onInstallSnap_fi`, `bootstrap_fin`) and `handle_fin` (every case of `handle`).
-/
import RaftVerif.Lemmas.StepInv
import RaftVerif.Lemmas.LocalA
import RaftVerif.Lemmas.RoleRel
import RaftVerif.Props.C08

namespace Raft
namespace CfgRel
open Node

/-! ## relations between configurations -/

/-- the same nodes have the vote in `b` and in `c` -/
def SameVoters (b c : Config) : Prop := ∀ x, b.isVoter x = c.isVoter x

/-- an *anchor*: a voter without pending action (as `Configs` looks nodes up: the first entry of that id) -/
def HasAnchor (c : Config) : Prop := ∃ a m, c.find? a = some m ∧ m.voter = true ∧ m.action = actNone

/-- the empty configuration, or one with an anchor -/
def AnchC (c : Config) : Prop := c.nodes = [] ∨ HasAnchor c

/-- `c` differs from `b` in the entry of ONE node only, and that entry of `b` asked for an action -/
def OneNode (b c : Config) : Prop := ∃ id, (b.get id).action ≠ actNone ∧ ∀ x, x ≠ id → c.find? x = b.find? x

/-- `c` has the node list of `b`, or is derived from it by one action -/
def Deriv (b c : Config) : Prop := c.nodes = b.nodes ∨ OneNode b c

/-- **adjacent configurations**: the voting rights agree except possibly at one node, and `c'` has a voter -/
def Adjacent (c c' : Config) : Prop := C08.AdjacentVoters c c' ∧ ∃ v, c'.isVoter v = true

theorem SameVoters.refl (c : Config) : SameVoters c c := fun _ => rfl

theorem find?_congr {c c' : Config} (h : c'.nodes = c.nodes) (x : Nat) : c'.find? x = c.find? x := by
  unfold Config.find?; rw [h]

theorem isVoter_congr {c c' : Config} (h : ∀ x, c'.find? x = c.find? x) (x : Nat) : c'.isVoter x = c.isVoter x := by
  unfold Config.isVoter; rw [h x]

theorem SameVoters.of_nodes {b c : Config} (h : c.nodes = b.nodes) : SameVoters b c :=
  fun x => (isVoter_congr (find?_congr h) x).symm

theorem HasAnchor.congr {c c' : Config} (h : HasAnchor c) (e : c'.nodes = c.nodes) : HasAnchor c' := by
  obtain ⟨a, m, h1, h2, h3⟩ := h
  exact ⟨a, m, by rw [find?_congr e]; exact h1, h2, h3⟩

theorem HasAnchor.voter {c : Config} (h : HasAnchor c) : ∃ v, c.isVoter v = true := by
  obtain ⟨a, m, h1, h2, _⟩ := h
  exact ⟨a, by unfold Config.isVoter; rw [h1]; exact h2⟩

theorem HasAnchor.nonempty {c : Config} (h : HasAnchor c) : c.nodes ≠ [] := by
  obtain ⟨a, m, h1, _, _⟩ := h
  intro he
  unfold Config.find? at h1
  rw [he] at h1
  cases h1

theorem OneNode.congr {b c c' : Config} (h : OneNode b c) (e : c'.nodes = c.nodes) : OneNode b c' := by
  obtain ⟨id, h1, h2⟩ := h
  exact ⟨id, h1, fun x hx => by rw [find?_congr e]; exact h2 x hx⟩

theorem Deriv.congr {b c c' : Config} (h : Deriv b c) (e : c'.nodes = c.nodes) : Deriv b c' := by
  rcases h with h | h
  · exact Or.inl (e.trans h)
  · exact Or.inr (h.congr e)

/-- `get` of an absent id is Go's zero node -/
theorem get_action_ne {c : Config} {id : Nat} (h : (c.get id).action ≠ actNone) : c.find? id = some (c.get id) := by
  unfold Config.get at h ⊢
  cases hf : c.find? id with
  | none => rw [hf] at h; exact absurd rfl h
  | some m => rfl

theorem find?_id {c : Config} {id : Nat} {m : CNode} (h : c.find? id = some m) : m.id = id := by
  unfold Config.find? at h
  have := List.find?_some h
  simpa using this

theorem get_id {c : Config} {id : Nat} (h : (c.get id).action ≠ actNone) : (c.get id).id = id :=
  find?_id (get_action_ne h)

/-- an action leaves the anchors alone -/
theorem OneNode.anchor {b c : Config} (h : OneNode b c) (ha : HasAnchor b) : HasAnchor c := by
  obtain ⟨id, h1, h2⟩ := h
  obtain ⟨a, m, a1, a2, a3⟩ := ha
  have hne : a ≠ id := by
    intro he
    subst he
    apply h1
    unfold Config.get
    rw [a1]
    exact a3
  exact ⟨a, m, by rw [h2 a hne]; exact a1, a2, a3⟩

theorem Deriv.anchor {b c : Config} (h : Deriv b c) (ha : HasAnchor b) : HasAnchor c := by
  rcases h with h | h
  · exact ha.congr h
  · exact h.anchor ha

/-- one action changes the voting right of at most one node -/
theorem Deriv.adjacent {b c L : Config} (h : Deriv b c) (hs : SameVoters b L) : C08.AdjacentVoters L c := by
  rcases h with h | ⟨id, _, h2⟩
  · exact ⟨0, fun x _ => by rw [← hs x]; exact isVoter_congr (find?_congr h) x⟩
  · refine ⟨id, fun x hx => ?_⟩
    rw [← hs x]
    unfold Config.isVoter
    rw [h2 x hx]

/-! ### `Config.set` / `Config.erase` at the node itself -/

theorem find_insertSorted_self (m : CNode) (l : List CNode) :
    (Config.insertSorted m l).find? (·.id == m.id) = some m := by
  induction l with
  | nil => simp [Config.insertSorted]
  | cons a as ih =>
    unfold Config.insertSorted
    split
    · simp [List.find?]
    · split
      · simp [List.find?]
      · rename_i h1 h2
        simp only [List.find?]
        have : (a.id == m.id) = false := by
          simp only [beq_eq_false_iff_ne, ne_eq]
          intro he; exact h2 he.symm
        rw [this]
        exact ih

theorem find_filter_self (l : List CNode) (id : Nat) : (l.filter (·.id != id)).find? (·.id == id) = none := by
  rw [List.find?_eq_none]
  intro x hx
  have := (List.mem_filter.mp hx).2
  simpa using this

theorem find?_set_self (c : Config) (m : CNode) : (c.set m).find? m.id = some m := by
  unfold Config.find? Config.set
  exact find_insertSorted_self m c.nodes

theorem find?_set_ne (c : Config) (m : CNode) (x : Nat) (h : x ≠ m.id) : (c.set m).find? x = c.find? x := by
  unfold Config.find? Config.set
  exact C08.find_insertSorted_ne m c.nodes x h

theorem find?_erase_self (c : Config) (id : Nat) : (c.erase id).find? id = none := by
  unfold Config.find? Config.erase
  exact find_filter_self c.nodes id

theorem find?_erase_ne (c : Config) (id x : Nat) (h : x ≠ id) : (c.erase id).find? x = c.find? x := by
  unfold Config.find? Config.erase
  exact C08.find_filter_ne c.nodes id x h

theorem oneNode_set (c : Config) (id : Nat) (m : CNode) (hm : m.id = id) (ha : (c.get id).action ≠ actNone) :
    OneNode c (c.set m) :=
  ⟨id, ha, fun x hx => find?_set_ne c m x (by rw [hm]; exact hx)⟩

theorem oneNode_erase (c : Config) (id : Nat) (ha : (c.get id).action ≠ actNone) : OneNode c (c.erase id) :=
  ⟨id, ha, fun x hx => find?_erase_ne c id x hx⟩

theorem nextAction_ne {n : CNode} (h : n.nextAction ≠ actNone) : n.action ≠ actNone := by
  intro he
  apply h
  unfold CNode.nextAction
  rw [he]
  simp [actNone, actForceRemove, actDemote, actRemove, actPromote]

/-- whatever `checkConfigAction` proposes is derived from its `config` argument by one action on that node -/
theorem actionConfig_oneNode (li : Nat) (config : Config) (id : Nat) (st : Repl) (c : Config)
    (ha : (config.get id).nextAction ≠ actNone)
    (h : actionConfig li config (config.get id) (config.get id).nextAction st = some c) : OneNode config c := by
  have hact := nextAction_ne ha
  have hid := get_id hact
  unfold actionConfig at h
  repeat' (split at h)
  all_goals first
    | (injection h with h; subst h
       first
        | exact oneNode_set _ _ _ hid hact
        | (rw [hid]; exact oneNode_erase _ _ hact))
    | cases h

/-- demoting or removing a node that has no vote does not change who votes -/
theorem sameVoters_set_nonvoter (c : Config) (id : Nat) (m : CNode) (hm : m.id = id) (hv : m.voter = false)
    (hc : c.isVoter id = false) : SameVoters (c.set m) c := by
  intro x
  by_cases hx : x = id
  · subst hx
    rw [hc]
    unfold Config.isVoter
    rw [← hm, find?_set_self]
    exact hv
  · unfold Config.isVoter
    rw [find?_set_ne c m x (by rw [hm]; exact hx)]

theorem sameVoters_erase_nonvoter (c : Config) (id : Nat) (hc : c.isVoter id = false) : SameVoters (c.erase id) c := by
  intro x
  by_cases hx : x = id
  · subst hx
    rw [hc]
    unfold Config.isVoter
    rw [find?_erase_self]
  · unfold Config.isVoter
    rw [find?_erase_ne c id x hx]

theorem SameVoters.trans {a b c : Config} (h1 : SameVoters a b) (h2 : SameVoters b c) : SameVoters a c :=
  fun x => (h1 x).trans (h2 x)

theorem get_voter_eq_isVoter (c : Config) (id : Nat) : (c.get id).voter = c.isVoter id := by
  unfold Config.get Config.isVoter
  cases c.find? id <;> rfl

/-! ## the two-state description of a step -/

/-- Where a step stands with respect to the leader's membership changes: `fresh` — no configuration was introduced
in this step so far; `changed` — one was, and it has not been committed since; `settled` — that one configuration was
committed within the same step (what only the single-voter fast path, or match indexes beyond the leader's log, can
do) and none was introduced since; `nested` — a further configuration was introduced after that, or a configuration
was introduced after a failure had been recorded (`panicked`: the model runs on a totalised path). -/
inductive Phase where
  | fresh | changed | settled | nested
  deriving DecidableEq, Repr

namespace Phase
def rank : Phase → Nat
  | fresh => 0 | changed => 1 | settled => 2 | nested => 3
def afterChange : Phase → Phase
  | fresh => changed | changed => changed | _ => nested
def afterCommit : Phase → Phase
  | changed => settled | p => p
instance : LE Phase := ⟨fun a b => a.rank ≤ b.rank⟩
instance (a b : Phase) : Decidable (a ≤ b) := inferInstanceAs (Decidable (a.rank ≤ b.rank))
theorem le_def (a b : Phase) : a ≤ b ↔ a.rank ≤ b.rank := Iff.rfl
theorem le_refl (a : Phase) : a ≤ a := Nat.le_refl _
theorem le_trans {a b c : Phase} (h1 : a ≤ b) (h2 : b ≤ c) : a ≤ c := Nat.le_trans h1 h2
theorem le_afterChange (a : Phase) : a ≤ a.afterChange := by cases a <;> decide
theorem le_afterCommit (a : Phase) : a ≤ a.afterCommit := by cases a <;> decide
theorem afterChange_ne (a : Phase) : a.afterChange ≠ fresh := by cases a <;> decide
theorem afterCommit_fresh {a : Phase} (h : a.afterCommit = fresh) : a = fresh := by cases a <;> first | rfl | cases h
theorem eq_fresh_of_le {a b : Phase} (h : a ≤ b) (hb : b = fresh) : a = fresh := by
  subst hb; cases a <;> first | rfl | exact absurd h (by decide)
/-- the phase after a configuration was introduced; `failed`: a failure had been recorded before (the model then
runs on a totalised path and nothing is claimed: `nested`) -/
def afterChangeP (a : Phase) (failed : Bool) : Phase := if failed then nested else a.afterChange
theorem le_afterChangeP (a : Phase) (f : Bool) : a ≤ a.afterChangeP f := by cases a <;> cases f <;> decide
theorem afterChangeP_ne (a : Phase) (f : Bool) : a.afterChangeP f ≠ fresh := by cases a <;> cases f <;> decide
end Phase

/-- **One elementary move of `configs`** inside the step in which the node, in state `s`, handles `op`.
The first `Phase` is the phase before the move, the second the one after it. -/
inductive Move (s : Node) (op : Op) : Phase → Configs → Phase → Configs → Prop
  /-- (a) LEADER CHANGE (`leader.storeEntry` of a configuration entry followed by `leader.changeConfig`).
  `x` is the state of the node right after it appended the entry and before it adopts the configuration `c`:
  the same node, not older than `s`; it IS leader and a voter of its configuration; that configuration is
  committed (`isCommitted`); no leadership transfer is in progress; an entry of its own term is committed
  (`startIndex ≤ commitIndex`); `c` is the entry just appended (index `lastLogIndex`, beyond the predecessor's, and
  the leader's term); `c` was derived from a configuration `b` by at most one action, `b` has the voters of the
  predecessor `x.configs.latest` — claimed while the step has not introduced another configuration before
  (`ph = fresh`) and nothing has failed (`panicked = none`; otherwise the phase becomes `nested`) — and `c` has an
  anchor (a voter without pending action). Afterwards `committed` is the predecessor and `latest = c`. -/
  | change (ph : Phase) (x : Node) (b c : Config) :
      x.nid = s.nid → s.term ≤ x.term → s.commitIndex ≤ x.commitIndex →
      x.role = .leader → x.configs.latest.isVoter x.nid = true →
      x.configs.isCommitted = true → x.ldr.transfer.active = false → x.ldr.startIndex ≤ x.commitIndex →
      x.configs.latest.index < c.index → c.index = x.lastLogIndex → c.term = x.term →
      Deriv b c → (ph = .fresh → x.panicked = none → SameVoters b x.configs.latest) → HasAnchor c →
      Move s op ph x.configs (ph.afterChangeP x.panicked.isSome) ⟨x.configs.latest, c⟩
  /-- (b) COMMIT (`Raft.setCommitIndex`): the latest configuration was not committed and the commit index moves
  to `i`, at or beyond its index: `committed := latest`. -/
  | commit (ph : Phase) (cs : Configs) (i : Nat) :
      cs.isCommitted = false → cs.latest.index ≤ i → s.commitIndex < i →
      Move s op ph cs ph.afterCommit ⟨cs.latest, cs.latest⟩
  /-- (c) FOLLOWER ADOPTION: a configuration entry `e` carried by the append request being handled is stored;
  `committed :=` the previous `latest` (whether or not that one is committed here), `latest :=` the entry. -/
  | adopt (cs : Configs) (q : AppendReq) (e : Entry) (c : Config) :
      op = .append q → e ∈ q.entries → e.config? = some c →
      Move s op .fresh cs .fresh ⟨cs.latest, c⟩
  /-- (c') REVERT: an entry `e` of the append request conflicts with the log at an index at or below that of the
  latest configuration; the log is truncated there and `latest := committed`. -/
  | revert (cs : Configs) (q : AppendReq) (e : Entry) :
      op = .append q → e ∈ q.entries → e.index ≤ cs.latest.index →
      Move s op .fresh cs .fresh ⟨cs.committed, cs.committed⟩
  /-- (d) INSTALL: `latest = committed =` the label of the snapshot of the install request (which is beyond the
  commit index) -/
  | install (cs : Configs) (q : InstallReq) :
      op = .install q → s.commitIndex < q.lastIndex →
      Move s op .fresh cs .fresh ⟨q.lastConfig, q.lastConfig⟩
  /-- (e) BOOTSTRAP of a node that holds no configuration: the submitted configuration (stable, the node itself
  a voter) becomes entry 1 of term 1 -/
  | bootstrap (t : Nat) (c : Config) (self : CNode) :
      op = .changeConfig t c → s.role ≠ .leader → s.configs.isBootstrapped = false →
      c.find? s.nid = some self → self.voter = true → c.isStable = true →
      Move s op .fresh s.configs .fresh ⟨s.configs.latest, { c with index := 1, term := 1 }⟩

/-- the moves of `configs` made so far in the step, with the phase reached -/
inductive Chain (s : Node) (op : Op) : Phase → Configs → Prop
  | start : Chain s op .fresh s.configs
  | step {ph ph' : Phase} {cs cs' : Configs} : Chain s op ph cs → Move s op ph cs ph' cs' → Chain s op ph' cs'

/-- **How `configs` moves in a step**: `s'.configs` is reached from `s.configs` by a chain of moves (possibly none:
then `s'.configs = s.configs`). -/
def ConfigStep (s : Node) (op : Op) (s' : Node) : Prop := ∃ ph, Chain s op ph s'.configs

/-! ## the fields the description reads -/

structure KV where
  configs : Configs
  nid : Nat
  term : Nat
  commitIndex : Nat
  lastLogIndex : Nat
  role : Role
  selfVoter : Bool
  startIndex : Nat
  entries : List Entry

def kv (s : Node) : KV :=
  ⟨s.configs, s.nid, s.term, s.commitIndex, s.lastLogIndex, s.role, s.ldr.node.voter, s.ldr.startIndex, s.log.entries⟩

/-- `y` results from `x` by bookkeeping: the key fields are untouched and a recorded failure stays recorded -/
structure Quiet (x y : Node) : Prop where
  kv : kv y = kv x
  pan : x.panicked ≠ none → y.panicked ≠ none

namespace Quiet
theorem refl (x : Node) : Quiet x x := ⟨rfl, id⟩
theorem trans {x y z : Node} (h1 : Quiet x y) (h2 : Quiet y z) : Quiet x z :=
  ⟨h2.kv.trans h1.kv, fun h => h2.pan (h1.pan h)⟩
theorem configs {x y : Node} (h : Quiet x y) : y.configs = x.configs := congrArg KV.configs h.kv
theorem nid {x y : Node} (h : Quiet x y) : y.nid = x.nid := congrArg KV.nid h.kv
theorem term {x y : Node} (h : Quiet x y) : y.term = x.term := congrArg KV.term h.kv
theorem commitIndex {x y : Node} (h : Quiet x y) : y.commitIndex = x.commitIndex := congrArg KV.commitIndex h.kv
theorem lastLogIndex {x y : Node} (h : Quiet x y) : y.lastLogIndex = x.lastLogIndex := congrArg KV.lastLogIndex h.kv
theorem role {x y : Node} (h : Quiet x y) : y.role = x.role := congrArg KV.role h.kv
theorem selfVoter {x y : Node} (h : Quiet x y) : y.ldr.node.voter = x.ldr.node.voter := congrArg KV.selfVoter h.kv
theorem startIndex {x y : Node} (h : Quiet x y) : y.ldr.startIndex = x.ldr.startIndex := congrArg KV.startIndex h.kv
theorem entries {x y : Node} (h : Quiet x y) : y.log.entries = x.log.entries := congrArg KV.entries h.kv
theorem pan' {x y : Node} (h : Quiet x y) (hy : y.panicked = none) : x.panicked = none := by
  cases hx : x.panicked with
  | none => rfl
  | some v => exact absurd hy (h.pan (by rw [hx]; simp))
end Quiet

theorem panicked_panic (x : Node) (site : String) : (x.panic site).panicked ≠ none := by
  unfold Node.panic
  split
  · simp
  · rename_i h; simpa using h

theorem q_panic (x : Node) (site : String) : Quiet x (x.panic site) := by
  refine ⟨?_, fun _ => panicked_panic x site⟩
  unfold Node.panic; split <;> rfl

theorem q_assert (x : Node) (b : Bool) (site : String) : Quiet x (x.assert b site) := by
  unfold Node.assert; split
  · exact .refl x
  · exact q_panic x site

theorem q_reply (x : Node) (t : Nat) (r : String) : Quiet x (x.reply t r) := by
  unfold Node.reply; split
  · exact .refl x
  · exact ⟨rfl, id⟩

theorem q_point (x : Node) (n : String) : Quiet x (x.point n) := ⟨rfl, id⟩
theorem q_popOrder (x : Node) : Quiet x x.popOrder := ⟨rfl, id⟩
theorem q_fsm (x : Node) (f : Fsm) : Quiet x (x.withFsm f) := ⟨rfl, id⟩

theorem q_ldr (x : Node) (l : Leader) (h1 : l.node = x.ldr.node) (h2 : l.startIndex = x.ldr.startIndex) :
    Quiet x (x.withLdr l) := by
  refine ⟨?_, id⟩
  unfold kv Node.withLdr
  simp only [h1, h2]

theorem q_setRepl (x : Node) (r : Repl) : Quiet x (x.setRepl r) := q_ldr x _ rfl rfl

theorem commitN_entries (l : NLog) (n : Nat) : (l.commitN n).entries = l.entries := by
  unfold NLog.commitN; split <;> rfl

theorem q_commitLog (x : Node) (n : Nat) : Quiet x (x.commitLog n) := by
  refine ⟨?_, id⟩
  unfold kv Node.commitLog Node.point
  simp only [commitN_entries]

theorem q_addReplication (x : Node) (n : CNode) : Quiet x (x.addReplication n) := by
  unfold Node.addReplication
  extract_lets s1 s2
  have h1 : Quiet x s1 := q_assert x _ _
  have h2 : Quiet s1 s2 := by unfold s2; split; exact .refl _; exact q_panic _ _
  exact (h1.trans h2).trans (q_setRepl _ _)

theorem q_notifyFlr (x : Node) : Quiet x x.notifyFlr := by
  unfold Node.notifyFlr
  split
  · exact .refl x
  · split
    · exact .refl x
    · exact q_panic x _

theorem q_beginFinishedRounds (x : Node) : Quiet x x.beginFinishedRounds := q_ldr x _ rfl rfl

theorem q_foldl {β : Type} (f : Node → β → Node) (hf : ∀ s b, Quiet s (f s b)) (xs : List β) (x : Node) :
    Quiet x (xs.foldl f x) := by
  induction xs generalizing x with
  | nil => exact .refl x
  | cons b bs ih => exact (hf x b).trans (ih _)

/-- a recorded failure stays recorded: closed under the primitives of the leader block -/
theorem pnClosed : Closed (fun x : Node => x.panicked ≠ none) where
  panic := fun x site _ => panicked_panic x site
  reply := fun x t r h => (q_reply x t r).pan h
  point := fun _ _ h => h
  ldr := fun _ _ h => h
  append := fun _ _ _ h => h
  commitN := fun _ _ h => h
  fsm := fun _ _ h => h
  changeConfigR := fun x c h => by
    unfold Node.changeConfigR; dsimp only; split <;> exact h
  setCommitIndexR := fun x i h _ => by
    unfold Node.setCommitIndexR Node.afterConfigCommit Node.closeIfRemoved Node.stepDownIfNotVoter Node.commitConfig
      Node.doClose
    dsimp only
    repeat' split
    all_goals exact h
  popOrder := fun _ h => h

theorem kvFsmFrame : FsmFrame kv where
  panic := fun x site => (q_panic x site).kv
  reply := fun x t r => (q_reply x t r).kv
  fsm := fun _ _ => rfl

theorem q_applyCommittedL (x : Node) : Quiet x x.applyCommittedL := by
  refine ⟨?_, fun h => pnClosed.applyCommittedL_inv x h⟩
  unfold Node.applyCommittedL
  dsimp only
  rw [kvFsmFrame.fsmApply_eq]
  rfl

/-! ## predicates preserved by the bookkeeping primitives -/

/-- closed under the primitives that touch neither `configs` nor the log end, the commit index or the identity
(the leader record, role, term and vote may change freely) -/
structure QClosed (Inv : Node → Prop) : Prop where
  panic : ∀ s site, Inv s → Inv (s.panic site)
  reply : ∀ s t r, Inv s → Inv (s.reply t r)
  point : ∀ s n, Inv s → Inv (s.point n)
  ldr : ∀ (s : Node) l, Inv s → Inv (s.withLdr l)
  popOrder : ∀ (s : Node), Inv s → Inv s.popOrder
  rpcReply : ∀ (s : Node) r, Inv s → Inv (s.withRpcReply r)
  ret : ∀ (s : Node) r, Inv s → Inv (s.ret r)
  setRole : ∀ (s : Node) r, Inv s → Inv (s.setRole r)
  setLeader : ∀ (s : Node) l, Inv s → Inv (s.setLeader l)
  doClose : ∀ (s : Node) r, Inv s → Inv (s.doClose r)
  setTerm : ∀ (s : Node) t, Inv s → Inv (s.setTerm t)
  setVotedFor : ∀ (s : Node) t c, Inv s → Inv (s.setVotedFor t c)
  votesNeeded : ∀ (s : Node) v, Inv s → Inv (s.withVotesNeeded v)
  candTransfer : ∀ (s : Node) v, Inv s → Inv (s.withCandTransfer v)
  removeLTE : ∀ (s : Node) i, Inv s → Inv { s with log := s.log.removeLTE i }
  publishSnapshot : ∀ (s : Node) f, Inv s → Inv (s.publishSnapshot f)
  snapPending : ∀ (s : Node) v, Inv s → Inv (s.withSnapPending v)
  snapResult : ∀ (s : Node) v, Inv s → Inv (s.withSnapResult v)

namespace QClosed
variable {Inv : Node → Prop} (h : QClosed Inv)
include h

theorem assert_q (s : Node) (b : Bool) (site : String) (hs : Inv s) : Inv (s.assert b site) := by
  unfold Node.assert; split
  · exact hs
  · exact h.panic _ _ hs

theorem setRepl_q (s : Node) (r : Repl) (hs : Inv s) : Inv (s.setRepl r) := by
  unfold Node.setRepl; exact h.ldr _ _ hs

theorem notifyFlr_q (s : Node) (hs : Inv s) : Inv s.notifyFlr := by
  unfold Node.notifyFlr; split
  · exact hs
  · split
    · exact hs
    · exact h.panic _ _ hs

theorem compactLog_q (s : Node) (i : Nat) (hs : Inv s) : Inv (s.compactLog i) := by
  unfold Node.compactLog; exact h.point _ _ (h.removeLTE _ _ hs)

theorem transferReply_q (s : Node) (r : String) (hs : Inv s) : Inv (s.transferReply r) := by
  unfold Node.transferReply; exact h.ldr _ _ (h.reply _ _ _ hs)

theorem tryTransfer_q (s : Node) (hs : Inv s) : Inv s.tryTransfer := by
  unfold Node.tryTransfer; dsimp only
  have hp := h.popOrder s hs
  repeat' split
  all_goals first
    | exact hs
    | exact hp
    | exact h.panic _ _ hs
    | exact h.panic _ _ hp
    | exact h.ldr _ _ hs
    | exact h.ldr _ _ hp
    | exact h.ldr _ _ (h.panic _ _ hs)
    | exact h.ldr _ _ (h.panic _ _ hp)

theorem onTransfer_q (s : Node) (t g : Nat) (hs : Inv s) : Inv (s.onTransfer t g) := by
  unfold Node.onTransfer; dsimp only
  split
  · exact h.reply _ _ _ hs
  · exact h.tryTransfer_q _ (h.ldr _ _ hs)

theorem checkQuorum_q (s : Node) (hs : Inv s) : Inv s.checkQuorum := by
  unfold Node.checkQuorum; dsimp only
  repeat' split
  all_goals first
    | exact hs
    | exact h.panic _ _ hs
    | exact h.setLeader _ _ (h.setRole _ _ hs)
    | exact h.setLeader _ _ (h.setRole _ _ (h.panic _ _ hs))

omit h in
theorem foldl_q {β : Type} (f : Node → β → Node) (hf : ∀ s x, Inv s → Inv (f s x))
    (xs : List β) (s : Node) (hs : Inv s) : Inv (xs.foldl f s) := by
  induction xs generalizing s with
  | nil => exact hs
  | cons x xs ih => exact ih _ (hf _ _ hs)

theorem leaderRelease_q (s : Node) (hs : Inv s) : Inv s.leaderRelease := by
  unfold Node.leaderRelease Node.leaderReleaseRest; dsimp only
  apply h.ldr
  apply foldl_q _ (fun s t hs => h.reply _ _ _ hs)
  apply foldl_q _ (fun s t hs => h.reply _ _ _ hs)
  repeat' split
  all_goals first
    | exact hs
    | exact h.setLeader _ _ hs
    | exact h.transferReply_q _ _ hs
    | exact h.setLeader _ _ (h.transferReply_q _ _ hs)

theorem releaseRole_q (s : Node) (r : Role) (hs : Inv s) : Inv (s.releaseRole r) := by
  unfold Node.releaseRole
  split
  · exact hs
  · exact h.candTransfer _ _ hs
  · exact h.leaderRelease_q _ hs

theorem startElection_q (s : Node) (hs : Inv s) : Inv s.startElection := by
  unfold Node.startElection
  extract_lets s1 s2 s3 s4
  have h4 : Inv s4 := h.votesNeeded _ _ (h.setVotedFor _ _ _ (h.votesNeeded _ _ (h.assert_q _ _ _ hs)))
  split
  · exact h.setLeader _ _ (h.setRole _ _ h4)
  · exact h4

end QClosed

/-- one backward step for goals `Inv (…)` under a `QClosed` predicate -/
syntax "q_step " term : tactic
macro_rules
  | `(tactic| q_step $h) => `(tactic| first
      | assumption
      | with_reducible apply QClosed.ret $h
      | with_reducible apply QClosed.compactLog_q $h
      | with_reducible apply QClosed.checkQuorum_q $h
      | with_reducible apply QClosed.tryTransfer_q $h
      | with_reducible apply QClosed.onTransfer_q $h
      | with_reducible apply QClosed.transferReply_q $h
      | with_reducible apply QClosed.startElection_q $h
      | with_reducible apply QClosed.releaseRole_q $h
      | with_reducible apply QClosed.assert_q $h
      | with_reducible apply QClosed.setRepl_q $h
      | with_reducible apply QClosed.notifyFlr_q $h
      | with_reducible apply QClosed.panic $h
      | with_reducible apply QClosed.reply $h
      | with_reducible apply QClosed.point $h
      | with_reducible apply QClosed.ldr $h
      | with_reducible apply QClosed.setRole $h
      | with_reducible apply QClosed.setLeader $h
      | with_reducible apply QClosed.setTerm $h
      | with_reducible apply QClosed.setVotedFor $h
      | with_reducible apply QClosed.doClose $h
      | with_reducible apply QClosed.publishSnapshot $h
      | with_reducible apply QClosed.snapPending $h
      | with_reducible apply QClosed.snapResult $h
      | with_reducible apply QClosed.candTransfer $h
      | with_reducible apply QClosed.votesNeeded $h
      | with_reducible apply QClosed.rpcReply $h
      | with_reducible apply QClosed.popOrder $h
      | split)

syntax "q_auto " term : tactic
macro_rules
  | `(tactic| q_auto $h) => `(tactic| repeat' (q_step $h))

namespace QClosed
variable {Inv : Node → Prop} (h : QClosed Inv)
include h

theorem onVoteResult_q (s : Node) (e : Bool) (t r : Nat) (hs : Inv s) : Inv (s.onVoteResult e t r) := by
  unfold Node.onVoteResult; dsimp only
  q_auto h

theorem followerTimeout_q (s : Node) (hs : Inv s) : Inv s.followerTimeout := by
  unfold Node.followerTimeout; dsimp only
  q_auto h

theorem onVoteRequest_q (s : Node) (q : VoteReq) (hs : Inv s) : Inv (s.onVoteRequest q) := by
  unfold Node.onVoteRequest; dsimp only
  q_auto h

theorem onTimeoutNow_q (s : Node) (hs : Inv s) : Inv s.onTimeoutNow := by
  unfold Node.onTimeoutNow
  q_auto h

theorem onTakeSnapshot_q (s : Node) (t th : Nat) (hs : Inv s) : Inv (s.onTakeSnapshot t th) := by
  unfold Node.onTakeSnapshot
  q_auto h

theorem snapRun_q (s : Node) (hs : Inv s) : Inv s.snapRun := by
  unfold Node.snapRun
  dsimp only
  q_auto h

theorem onSnapshotTaken_q (s : Node) (hs : Inv s) : Inv s.onSnapshotTaken := by
  unfold Node.onSnapshotTaken
  dsimp only
  q_auto h

theorem rejectEntries_q (s : Node) (b : List QItem) (hs : Inv s) : Inv (s.rejectEntries b) := by
  induction b generalizing s with
  | nil => exact hs
  | cons q qs ih =>
    unfold Node.rejectEntries
    dsimp only
    repeat' (first | q_step h | apply ih)

theorem onWaitForStable_q (s : Node) (t : Nat) (hs : Inv s) : Inv (s.onWaitForStable t) := by
  unfold Node.onWaitForStable
  q_auto h

theorem rpcDone_q (s : Node) (a b : Bool) (hs : Inv s) : Inv (s.rpcDone a b) := by
  unfold Node.rpcDone
  q_auto h

theorem checkLogCompact_q (s : Node) (hs : Inv s) : Inv s.checkLogCompact := by
  unfold Node.checkLogCompact
  q_auto h

theorem shutdown_q (s : Node) (hs : Inv s) : Inv s.shutdown := by
  unfold Node.shutdown
  dsimp only
  have h1 : ∀ x, Inv x → Inv x.snapRun := fun x hx => h.snapRun_q x hx
  have h2 : ∀ x, Inv x → Inv x.onSnapshotTaken := fun x hx => h.onSnapshotTaken_q x hx
  repeat' (first | q_step h | apply h1 | apply h2)

end QClosed

/-! ## the invariant carried through a step -/

/-- **the configuration entries of the log and `configs`**: every configuration entry of the log lies at or below the
index of `configs.committed`, or is the entry of `configs.latest` — beyond `committed` the log holds at most ONE
configuration entry, the latest one -/
def CfgLog (x : Node) : Prop :=
  ∀ e ∈ x.log.entries, e.typ = etConfig → e.index ≤ x.configs.committed.index ∨ e.index = x.configs.latest.index

/-- … together with `committed.index ≤ latest.index` (part of `Order.Ordered`) -/
def LogInv (x : Node) : Prop := CfgLog x ∧ x.configs.committed.index ≤ x.configs.latest.index

/-- the part that does not depend on the role or the leader record: the moves made so far, the identity, term
and commit index relative to `s`, `latest.index ≤ lastLogIndex`, and an anchor in the latest configuration -/
structure Main (s : Node) (op : Op) (ph : Phase) (x : Node) : Prop where
  chain : Chain s op ph x.configs
  nid : x.nid = s.nid
  term : s.term ≤ x.term
  ci : s.commitIndex ≤ x.commitIndex
  li : x.configs.latest.index ≤ x.lastLogIndex
  anch : AnchC x.configs.latest
  /-- the configuration entries of the log: if `LogInv` held before the step it holds now (unless a failure was
  recorded: then the model runs on a totalised path, e.g. the recursion budget ran out between `storeEntry` and
  `leader.changeConfig`) -/
  cl : LogInv s → x.panicked = none → LogInv x

variable {s : Node} {op : Op} {ph : Phase} {x y : Node}

theorem LogInv.congr (h : LogInv x) (e1 : y.configs = x.configs) (e2 : ∀ e ∈ y.log.entries, e ∈ x.log.entries) :
    LogInv y := by
  unfold LogInv CfgLog at *
  rw [e1]
  exact ⟨fun e he ht => h.1 e (e2 e he) ht, h.2⟩

theorem Main.congr (h : Main s op ph x) (e1 : y.configs = x.configs) (e2 : y.nid = x.nid) (e3 : x.term ≤ y.term)
    (e4 : y.commitIndex = x.commitIndex) (e5 : y.lastLogIndex = x.lastLogIndex)
    (e6 : ∀ e ∈ y.log.entries, e ∈ x.log.entries) (e7 : y.panicked = none → x.panicked = none) : Main s op ph y :=
  ⟨by rw [e1]; exact h.chain, by rw [e2]; exact h.nid, Nat.le_trans h.term e3, by rw [e4]; exact h.ci,
   by rw [e1, e5]; exact h.li, by rw [e1]; exact h.anch, fun hs hp => (h.cl hs (e7 hp)).congr e1 e6⟩

theorem Main.quiet (h : Main s op ph x) (q : Quiet x y) : Main s op ph y :=
  h.congr q.configs q.nid (by rw [q.term]; exact Nat.le_refl _) q.commitIndex q.lastLogIndex
    (fun e he => by rw [← q.entries]; exact he) q.pan'

theorem storeTermVote_fields (x : Node) (t c : Nat) :
    (x.storeTermVote t c).configs = x.configs ∧ (x.storeTermVote t c).nid = x.nid ∧
    (x.storeTermVote t c).commitIndex = x.commitIndex ∧ (x.storeTermVote t c).lastLogIndex = x.lastLogIndex ∧
    (x.storeTermVote t c).term = t ∧ (x.storeTermVote t c).log = x.log ∧ (x.storeTermVote t c).panicked = x.panicked := by
  unfold Node.storeTermVote Node.point
  dsimp only
  refine ⟨?_, ?_, ?_, ?_, rfl, ?_, ?_⟩ <;> split <;> rfl

theorem main_setTerm (h : Main s op ph x) (t : Nat) : Main s op ph (x.setTerm t) := by
  unfold Node.setTerm
  split
  · split
    · obtain ⟨a, b, c, d, e, f, g⟩ := storeTermVote_fields x t 0
      exact h.congr a b (by rw [e]; omega) c d (fun _ he => by rw [← f]; exact he) (fun hp => by rw [← g]; exact hp)
    · exact h.quiet (q_panic _ _)
  · exact h

theorem main_setVotedFor (h : Main s op ph x) (t c : Nat) : Main s op ph (x.setVotedFor t c) := by
  unfold Node.setVotedFor
  split
  · split
    · obtain ⟨a, b, c', d, e, f, g⟩ := storeTermVote_fields x t c
      exact h.congr a b (by rw [e]; omega) c' d (fun _ he => by rw [← f]; exact he) (fun hp => by rw [← g]; exact hp)
    · exact h.quiet (q_panic _ _)
  · exact h

theorem main_doClose (h : Main s op ph x) (r : String) : Main s op ph (x.doClose r) := by
  unfold Node.doClose
  split
  · exact h
  · exact h.congr rfl rfl (Nat.le_refl _) rfl rfl (fun _ he => he) id

/-- `Main` is preserved by every bookkeeping primitive -/
theorem mainQ (s : Node) (op : Op) (ph : Phase) : QClosed (Main s op ph) where
  panic := fun x site h => h.quiet (q_panic x site)
  reply := fun x t r h => h.quiet (q_reply x t r)
  point := fun x n h => h.quiet (q_point x n)
  ldr := fun _ _ h => h.congr rfl rfl (Nat.le_refl _) rfl rfl (fun _ he => he) id
  popOrder := fun x h => h.quiet (q_popOrder x)
  rpcReply := fun _ _ h => h.congr rfl rfl (Nat.le_refl _) rfl rfl (fun _ he => he) id
  ret := fun _ _ h => h.congr rfl rfl (Nat.le_refl _) rfl rfl (fun _ he => he) id
  setRole := fun _ _ h => h.congr rfl rfl (Nat.le_refl _) rfl rfl (fun _ he => he) id
  setLeader := fun _ _ h => h.congr rfl rfl (Nat.le_refl _) rfl rfl (fun _ he => he) id
  doClose := fun _ r h => main_doClose h r
  setTerm := fun _ t h => main_setTerm h t
  setVotedFor := fun _ t c h => main_setVotedFor h t c
  votesNeeded := fun _ _ h => h.congr rfl rfl (Nat.le_refl _) rfl rfl (fun _ he => he) id
  candTransfer := fun _ _ h => h.congr rfl rfl (Nat.le_refl _) rfl rfl (fun _ he => he) id
  removeLTE := fun _ _ h => h.congr rfl rfl (Nat.le_refl _) rfl rfl (fun _ he => List.mem_of_mem_drop he) id
  publishSnapshot := fun _ _ h => h.congr rfl rfl (Nat.le_refl _) rfl rfl (fun _ he => he) id
  snapPending := fun _ _ h => h.congr rfl rfl (Nat.le_refl _) rfl rfl (fun _ he => he) id
  snapResult := fun _ _ h => h.congr rfl rfl (Nat.le_refl _) rfl rfl (fun _ he => he) id

/-- the leader's own cached entry: its voter flag is that of the latest configuration, and a node whose cached
entry is a voter is (still) leader — a leader that finds itself demoted steps down without refreshing the cache -/
structure LV (x : Node) : Prop where
  cache : x.ldr.node.voter = x.configs.latest.isVoter x.nid
  lead : x.ldr.node.voter = true → x.role = .leader

theorem LV.quiet (h : LV x) (q : Quiet x y) : LV y :=
  ⟨by rw [q.selfVoter, q.configs, q.nid]; exact h.cache, fun hv => by rw [q.role]; exact h.lead (by rw [← q.selfVoter]; exact hv)⟩

/-- the invariant inside the leader's handlers -/
structure BI (s : Node) (op : Op) (ph : Phase) (x : Node) : Prop where
  main : Main s op ph x
  lv : LV x

theorem BI.quiet (h : BI s op ph x) (q : Quiet x y) : BI s op ph y := ⟨h.main.quiet q, h.lv.quiet q⟩

/-- how a call of a leader handler relates its input `(x, ph)` to its output `(x', ph')` -/
structure Tr0 (x : Node) (ph : Phase) (x' : Node) (ph' : Phase) : Prop where
  mono : ph ≤ ph'
  lli : x.lastLogIndex ≤ x'.lastLogIndex
  ci : x.commitIndex ≤ x'.commitIndex
  start : x'.ldr.startIndex = x.ldr.startIndex
  pan : x.panicked ≠ none → x'.panicked ≠ none
  /-- while no configuration was introduced: `latest` and the cached voter flag are those of `x`, and a committed
  configuration stays committed -/
  fresh : ph' = .fresh → x'.configs.latest = x.configs.latest ∧
    (x.configs.isCommitted = true → x'.configs.isCommitted = true) ∧ x'.ldr.node.voter = x.ldr.node.voter

/-- … and a configuration is only introduced together with a new log entry -/
structure Tr (x : Node) (ph : Phase) (x' : Node) (ph' : Phase) : Prop extends Tr0 x ph x' ph' where
  moved : ph = .fresh → ph' ≠ .fresh → x.lastLogIndex < x'.lastLogIndex

theorem Tr0.refl (x : Node) (ph : Phase) : Tr0 x ph x ph :=
  ⟨Phase.le_refl _, Nat.le_refl _, Nat.le_refl _, rfl, id, fun _ => ⟨rfl, id, rfl⟩⟩

theorem Tr.refl (x : Node) (ph : Phase) : Tr x ph x ph := ⟨Tr0.refl x ph, fun h1 h2 => absurd h1 h2⟩

theorem Tr0.trans {x y z : Node} {ph ph1 ph2 : Phase} (h1 : Tr0 x ph y ph1) (h2 : Tr0 y ph1 z ph2) : Tr0 x ph z ph2 := by
  refine ⟨Phase.le_trans h1.mono h2.mono, Nat.le_trans h1.lli h2.lli, Nat.le_trans h1.ci h2.ci,
    h2.start.trans h1.start, fun h => h2.pan (h1.pan h), fun hf => ?_⟩
  obtain ⟨a2, b2, c2⟩ := h2.fresh hf
  obtain ⟨a1, b1, c1⟩ := h1.fresh (Phase.eq_fresh_of_le h2.mono hf)
  exact ⟨a2.trans a1, fun h => b2 (b1 h), c2.trans c1⟩

theorem Tr.trans {x y z : Node} {ph ph1 ph2 : Phase} (h1 : Tr x ph y ph1) (h2 : Tr y ph1 z ph2) : Tr x ph z ph2 := by
  refine ⟨h1.toTr0.trans h2.toTr0, fun hf hn => ?_⟩
  by_cases h : ph1 = .fresh
  · have := h2.moved h hn
    have := h1.lli
    omega
  · have := h1.moved hf h
    have := h2.lli
    omega

/-- a `Tr0` call that comes with a new log entry -/
theorem Tr.of_lt {x y z : Node} {ph ph1 ph2 : Phase} (h1 : Tr x ph y ph1) (hlt : x.lastLogIndex < y.lastLogIndex)
    (h2 : Tr0 y ph1 z ph2) : Tr x ph z ph2 :=
  ⟨h1.toTr0.trans h2, fun _ _ => Nat.lt_of_lt_of_le hlt h2.lli⟩

theorem Tr0.quiet (q : Quiet x y) (ph : Phase) : Tr0 x ph y ph :=
  ⟨Phase.le_refl _, Nat.le_of_eq q.lastLogIndex.symm, Nat.le_of_eq q.commitIndex.symm, q.startIndex, q.pan,
   fun _ => ⟨by rw [q.configs], fun h => by rw [q.configs]; exact h, q.selfVoter⟩⟩

theorem Tr.quiet (q : Quiet x y) (ph : Phase) : Tr x ph y ph := ⟨Tr0.quiet q ph, fun h1 h2 => absurd h1 h2⟩

/-- `config` (the configuration a handler works on) has the voters of the node's latest configuration — claimed
while the step has not introduced a configuration and nothing has failed -/
def Jc (x : Node) (ph : Phase) (config : Config) : Prop :=
  ph = .fresh → x.panicked = none → SameVoters config x.configs.latest

theorem Jc.refl (x : Node) (ph : Phase) : Jc x ph x.configs.latest := fun _ _ => SameVoters.refl _

theorem Jc.step {x x' : Node} {ph ph' : Phase} {config : Config} (h : Jc x ph config) (t : Tr0 x ph x' ph') :
    Jc x' ph' config := by
  intro hf hp
  rw [(t.fresh hf).1]
  refine h (Phase.eq_fresh_of_le t.mono hf) ?_
  cases hx : x.panicked with
  | none => rfl
  | some v => exact absurd hp (t.pan (by rw [hx]; simp))

/-- a membership change handed to `storeEntry` by a voting leader without transfer in progress is carried out
(the phase is no longer `fresh`), unless the model's recursion budget fails -/
def Prog (x : Node) (ph' : Phase) (x' : Node) : Prop :=
  x.ldr.node.voter = true → x.ldr.transfer.active = false → ph' ≠ .fresh ∨ x'.panicked ≠ none

theorem Prog.step {x y z : Node} {ph1 ph2 : Phase} (h : Prog x ph1 y) (t : Tr0 y ph1 z ph2) : Prog x ph2 z := by
  intro hv ha
  rcases h hv ha with h | h
  · exact Or.inl (fun hf => h (Phase.eq_fresh_of_le t.mono hf))
  · exact Or.inr (t.pan h)

/-- what is known about a batch handed to `leader.storeEntry`: client entries (no configuration entry), or the single
configuration entry built by `leader.doChangeConfig` for a configuration `c` derived from `b` -/
inductive BatchOK (x : Node) (ph : Phase) : List QItem → Prop
  | plain (b : List QItem) : (∀ q ∈ b, q.typ ≠ etConfig) → BatchOK x ph b
  | cfg (b c : Config) (task i t : Nat) :
      x.configs.isCommitted = true → x.ldr.startIndex ≤ x.commitIndex →
      Deriv b c → Jc x ph b → HasAnchor c →
      BatchOK x ph [{ index := i, term := t, typ := etConfig, cfg := some c, task := task }]

def IsCfg (b : List QItem) : Prop := ∃ q ∈ b, q.typ = etConfig

/-- the outcome of a call: the invariant holds again, in a phase `ph'`, with the relation `Tr` and an extra `W` -/
def StepW (s : Node) (op : Op) (W : Phase → Node → Prop) (x : Node) (ph : Phase) (x' : Node) : Prop :=
  ∃ ph', BI s op ph' x' ∧ Tr x ph x' ph' ∧ W ph' x'

abbrev Step (s : Node) (op : Op) (x : Node) (ph : Phase) (x' : Node) : Prop := StepW s op (fun _ _ => True) x ph x'

theorem Step.refl (h : BI s op ph x) : Step s op x ph x := ⟨ph, h, Tr.refl _ _, trivial⟩

theorem Step.quiet {x y z : Node} (h : Step s op x ph y) (q : Quiet y z) : Step s op x ph z := by
  obtain ⟨ph', hB, hT, _⟩ := h
  exact ⟨ph', hB.quiet q, hT.trans (Tr.quiet q _), trivial⟩

theorem Step.of_quiet (h : BI s op ph x) (q : Quiet x y) : Step s op x ph y := (Step.refl h).quiet q

theorem Step.trans {x y z : Node} (h : Step s op x ph y) (k : ∀ ph1, BI s op ph1 y → Tr x ph y ph1 → Step s op y ph1 z) :
    Step s op x ph z := by
  obtain ⟨ph1, hB, hT, _⟩ := h
  obtain ⟨ph2, hB2, hT2, _⟩ := k ph1 hB hT
  exact ⟨ph2, hB2, hT.trans hT2, trivial⟩

theorem Step.foldl {β : Type} (f : Node → β → Node) (P : Node → Phase → Prop)
    (hP : ∀ {y z : Node} {p1 p2 : Phase}, P y p1 → Tr0 y p1 z p2 → P z p2)
    (hf : ∀ y p b, BI s op p y → P y p → Step s op y p (f y b)) (xs : List β) :
    ∀ x ph, BI s op ph x → P x ph → Step s op x ph (xs.foldl f x) := by
  induction xs with
  | nil => intro x ph h _; exact Step.refl h
  | cons b bs ih =>
    intro x ph h hp
    exact (hf x ph b h hp).trans (fun ph1 hB hT => ih _ ph1 hB (hP hp hT.toTr0))

/-! ### `appendEntry` and one item of `storeItems` -/

theorem assert_ldr (x : Node) (b : Bool) (site : String) : (x.assert b site).ldr = x.ldr := by
  unfold Node.assert Node.panic
  repeat' split
  all_goals rfl

theorem appendEntry_key (x : Node) (e : Entry) :
    (x.appendEntry e).configs = x.configs ∧ (x.appendEntry e).nid = x.nid ∧ (x.appendEntry e).term = x.term ∧
    (x.appendEntry e).commitIndex = x.commitIndex ∧ (x.appendEntry e).role = x.role ∧
    (x.appendEntry e).ldr = x.ldr ∧ (x.appendEntry e).lastLogIndex = e.index ∧
    (x.panicked ≠ none → (x.appendEntry e).panicked ≠ none) := by
  have q := q_assert x (e.index == x.lastLogIndex + 1) "assert.appendEntry"
  exact ⟨q.configs, q.nid, q.term, q.commitIndex, q.role, assert_ldr x _ _, rfl, q.pan⟩

theorem assert_log (x : Node) (b : Bool) (site : String) : (x.assert b site).log = x.log := by
  unfold Node.assert Node.panic
  repeat' split
  all_goals rfl

theorem append_entries (l : NLog) (e : Entry) (roll : Bool) : (l.append e roll).entries = l.entries ++ [e] := by
  unfold NLog.append; split <;> rfl

theorem appendEntry_entries (x : Node) (e : Entry) : (x.appendEntry e).log.entries = x.log.entries ++ [e] := by
  unfold Node.appendEntry
  dsimp only
  rw [append_entries, assert_log]

theorem appendEntry_pan' (x : Node) (e : Entry) (h : (x.appendEntry e).panicked = none) : x.panicked = none := by
  cases hx : x.panicked with
  | none => rfl
  | some v => exact absurd h ((appendEntry_key x e).2.2.2.2.2.2.2 (by rw [hx]; simp))

/-- appending an entry that is not a configuration entry -/
theorem BI.appendEntry (h : BI s op ph x) (e : Entry) (hle : x.lastLogIndex ≤ e.index) (ht : e.typ ≠ etConfig) :
    BI s op ph (x.appendEntry e) := by
  obtain ⟨a1, a2, a3, a4, a5, a6, a7, _⟩ := appendEntry_key x e
  refine ⟨⟨by rw [a1]; exact h.main.chain, by rw [a2]; exact h.main.nid, by rw [a3]; exact h.main.term,
    by rw [a4]; exact h.main.ci, by rw [a1, a7]; exact Nat.le_trans h.main.li hle, by rw [a1]; exact h.main.anch, ?_⟩,
    ⟨by rw [a6, a1, a2]; exact h.lv.cache, fun hv => by rw [a5]; exact h.lv.lead (by rw [← a6]; exact hv)⟩⟩
  intro hs hp
  obtain ⟨c1, c2⟩ := h.main.cl hs (appendEntry_pan' x e hp)
  refine ⟨fun e' he' ht' => ?_, by rw [a1]; exact c2⟩
  rw [appendEntry_entries, List.mem_append, List.mem_singleton] at he'
  rw [a1]
  rcases he' with he' | he'
  · exact c1 e' he' ht'
  · subst he'; exact absurd ht' ht

theorem Tr.appendEntry (x : Node) (ph : Phase) (e : Entry) (hle : x.lastLogIndex ≤ e.index) :
    Tr x ph (x.appendEntry e) ph := by
  obtain ⟨a1, a2, a3, a4, a5, a6, a7, a8⟩ := appendEntry_key x e
  exact ⟨⟨Phase.le_refl _, by rw [a7]; exact hle, Nat.le_of_eq a4.symm, by rw [a6], a8,
    fun _ => ⟨by rw [a1], fun hc => by rw [a1]; exact hc, by rw [a6]⟩⟩,
    fun h1 h2 => absurd h1 h2⟩

/-! ### one item of `storeItems` -/

/-- one iteration of the `for ne != nil` loop of `leader.storeEntry` -/
def storeItem (fuel' : Nat) (s : Node) (q : QItem) : Node :=
  if s.ldr.transfer.active then s.reply q.task "inProgress:transferLeadership"
  else if !s.ldr.node.voter then
    (if s.configs.latest.has s.nid then s.reply q.task "inProgress:demoteLeader"
     else s.reply q.task "inProgress:removeLeader")
  else
    let q := { q with index := s.lastLogIndex + 1, term := s.term, cfg := q.cfg.map Config.payload }
    let s := (s.withLdr ({ s.ldr with queue := s.ldr.queue ++ [q] }))
    if isLogEntryTyp q.typ then
      let s := s.appendEntry q.toEntry
      if q.typ = etConfig then
        match q.toEntry.config? with
        | some c => changeConfigL fuel' s c
        | none => s.panic "bug.configDecode"
      else s
    else s

theorem storeItems_cons (n : Nat) (x : Node) (q : QItem) (qs : List QItem) :
    storeItems (n + 1) x (q :: qs) = storeItems n (storeItem n x q) qs := by
  conv => lhs; unfold storeItems
  rfl

theorem storeItems_nil (n : Nat) (x : Node) : storeItems n x [] = x := by
  unfold storeItems; rfl

/-- the `changeConfigL` clause of the block, as a hypothesis: `leader.changeConfig` called right after the
configuration entry `e` was appended -/
def CLspec (s : Node) (op : Op) (n : Nat) : Prop :=
  ∀ x ph b c e, BI s op ph x → x.ldr.node.voter = true → x.ldr.transfer.active = false →
    x.configs.isCommitted = true → x.ldr.startIndex ≤ x.commitIndex →
    e.typ = etConfig → e.index = x.lastLogIndex + 1 → c.index = e.index → c.term = x.term →
    Deriv b c → Jc x ph b → HasAnchor c →
    ∃ ph', BI s op ph' (changeConfigL n (x.appendEntry e) c) ∧ Tr x ph (changeConfigL n (x.appendEntry e) c) ph' ∧
      (ph' ≠ .fresh ∨ (changeConfigL n (x.appendEntry e) c).panicked ≠ none)

theorem storeItem_spec {n : Nat} {q : QItem} (hCL : CLspec s op n) (hB : BI s op ph x) (hq : BatchOK x ph [q]) :
    StepW s op (fun ph' x' => q.typ = etConfig → Prog x ph' x') x ph (storeItem n x q) := by
  unfold storeItem
  split
  · rename_i hact
    exact ⟨ph, hB.quiet (q_reply _ _ _), Tr.quiet (q_reply _ _ _) _, fun _ _ ha => by rw [hact] at ha; cases ha⟩
  · split
    · rename_i hnv
      have hq' : Quiet x (if x.configs.latest.has x.nid = true then x.reply q.task "inProgress:demoteLeader"
          else x.reply q.task "inProgress:removeLeader") := by split <;> exact q_reply _ _ _
      exact ⟨ph, hB.quiet hq', Tr.quiet hq' _, fun _ hv _ => by simp [hv] at hnv⟩
    · rename_i hact hv
      have hact' : x.ldr.transfer.active = false := by simpa using hact
      have hv' : x.ldr.node.voter = true := by simpa using hv
      extract_lets q' l0 x0 x1
      have hq0 : Quiet x x0 := q_ldr x _ rfl rfl
      have hB0 := hB.quiet hq0
      have hle : x0.lastLogIndex ≤ q'.toEntry.index := by
        show x.lastLogIndex ≤ x.lastLogIndex + 1
        omega
      cases hq with
      | plain _ hpl =>
        have ht : ¬ q'.typ = etConfig := hpl q (List.mem_singleton_self _)
        have hB1 : BI s op ph x1 := hB0.appendEntry _ hle ht
        have hT1 : Tr x ph x1 ph := (Tr.quiet hq0 ph).trans (Tr.appendEntry x0 ph _ hle)
        have hW : q.typ = etConfig → Prog x ph x1 := fun h => absurd h ht
        split
        · first | rw [if_neg ht] | skip
          exact ⟨ph, hB1, hT1, hW⟩
        · exact ⟨ph, hB0, Tr.quiet hq0 ph, fun h => absurd h ht⟩
      | cfg b c task i t h1 h2 h3 h4 h5 =>
        rw [if_pos (by rfl), if_pos (by rfl)]
        split
        · rename_i c' hc'
          have hc : c' = { c.payload with index := x.lastLogIndex + 1, term := x.term } := by
            have : q'.toEntry.config? = some { c.payload with index := x.lastLogIndex + 1, term := x.term } := rfl
            rw [this] at hc'
            injection hc' with hc'
            exact hc'.symm
          have hnodes : c'.nodes = c.nodes := by rw [hc]; rfl
          obtain ⟨ph', hB', hT', hW'⟩ := hCL x0 ph b c' q'.toEntry hB0 hv' hact' h1 h2 rfl rfl (by rw [hc]; rfl)
            (by rw [hc]; rfl) (h3.congr hnodes) (h4.step (Tr0.quiet hq0 ph)) (h5.congr hnodes)
          exact ⟨ph', hB', (Tr.quiet hq0 ph).trans hT', fun _ _ _ => hW'⟩
        · rename_i hnone
          have : q'.toEntry.config? = some { c.payload with index := x.lastLogIndex + 1, term := x.term } := rfl
          rw [this] at hnone
          cases hnone

/-! ### the configuration primitives -/

theorem canChange_facts (h : x.canChangeConfig = true) :
    x.configs.isCommitted = true ∧ x.ldr.transfer.active = false ∧ x.ldr.startIndex ≤ x.commitIndex := by
  unfold Node.canChangeConfig at h
  simp only [Bool.and_eq_true, Bool.not_eq_true', decide_eq_true_eq] at h
  exact ⟨h.1.1, h.1.2, h.2⟩

theorem AnchC.of_get {c : Config} {id : Nat} (h : AnchC c) (ha : (c.get id).action ≠ actNone) : HasAnchor c := by
  rcases h with h | h
  · have := get_action_ne ha
    unfold Config.find? at this
    rw [h] at this
    cases this
  · exact h

theorem changeConfigR_fields (x : Node) (c : Config) :
    (x.changeConfigR c).configs = ⟨x.configs.latest, c⟩ ∧ (x.changeConfigR c).nid = x.nid ∧
    (x.changeConfigR c).term = x.term ∧ (x.changeConfigR c).commitIndex = x.commitIndex ∧
    (x.changeConfigR c).lastLogIndex = x.lastLogIndex ∧ (x.changeConfigR c).role = x.role ∧
    (x.changeConfigR c).ldr = x.ldr ∧ (x.changeConfigR c).panicked = x.panicked ∧
    (x.changeConfigR c).log = x.log := by
  unfold Node.changeConfigR
  dsimp only
  refine ⟨?_, ?_, ?_, ?_, ?_, ?_, ?_, ?_, ?_⟩ <;> split <;> rfl

theorem commitConfig_fields (x : Node) :
    x.commitConfig.configs = ⟨x.configs.latest, x.configs.latest⟩ ∧ x.commitConfig.nid = x.nid ∧
    x.commitConfig.term = x.term ∧ x.commitConfig.commitIndex = x.commitIndex ∧
    x.commitConfig.lastLogIndex = x.lastLogIndex ∧ x.commitConfig.ldr = x.ldr ∧
    x.commitConfig.panicked = x.panicked ∧ x.commitConfig.role = x.role ∧ x.commitConfig.log = x.log := by
  unfold Node.commitConfig
  dsimp only
  refine ⟨?_, ?_, ?_, ?_, ?_, ?_, ?_, ?_, ?_⟩ <;> split <;> rfl

theorem stepDown_fields (x : Node) :
    x.stepDownIfNotVoter.configs = x.configs ∧ x.stepDownIfNotVoter.nid = x.nid ∧
    x.stepDownIfNotVoter.term = x.term ∧ x.stepDownIfNotVoter.commitIndex = x.commitIndex ∧
    x.stepDownIfNotVoter.lastLogIndex = x.lastLogIndex ∧ x.stepDownIfNotVoter.ldr = x.ldr ∧
    x.stepDownIfNotVoter.panicked = x.panicked ∧
    (x.stepDownIfNotVoter.role = x.role ∨ (x.configs.latest.isVoter x.nid = false ∧ x.stepDownIfNotVoter.role = .follower)) ∧
    x.stepDownIfNotVoter.log = x.log := by
  unfold Node.stepDownIfNotVoter
  split
  · rename_i h
    exact ⟨rfl, rfl, rfl, rfl, rfl, rfl, rfl, Or.inr ⟨by simpa using h.2, rfl⟩, rfl⟩
  · exact ⟨rfl, rfl, rfl, rfl, rfl, rfl, rfl, Or.inl rfl, rfl⟩

theorem closeIfRemoved_fields (x : Node) :
    x.closeIfRemoved.configs = x.configs ∧ x.closeIfRemoved.nid = x.nid ∧
    x.closeIfRemoved.term = x.term ∧ x.closeIfRemoved.commitIndex = x.commitIndex ∧
    x.closeIfRemoved.lastLogIndex = x.lastLogIndex ∧ x.closeIfRemoved.ldr = x.ldr ∧
    x.closeIfRemoved.panicked = x.panicked ∧ x.closeIfRemoved.role = x.role ∧ x.closeIfRemoved.log = x.log := by
  unfold Node.closeIfRemoved Node.doClose
  refine ⟨?_, ?_, ?_, ?_, ?_, ?_, ?_, ?_, ?_⟩ <;> repeat' split
  all_goals rfl

/-- the state after `commitConfig` + the step-down / close checks of `Raft.setCommitIndex` -/
theorem commitPath_fields (x : Node) (i : Nat) :
    let y := (x.withCommitIndex i).commitConfig.afterConfigCommit
    y.configs = ⟨x.configs.latest, x.configs.latest⟩ ∧ y.nid = x.nid ∧ y.term = x.term ∧ y.commitIndex = i ∧
    y.lastLogIndex = x.lastLogIndex ∧ y.ldr = x.ldr ∧ y.panicked = x.panicked ∧
    (y.role = x.role ∨ (x.configs.latest.isVoter x.nid = false ∧ y.role = .follower)) ∧ y.log = x.log := by
  intro y
  obtain ⟨a1, a2, a3, a4, a5, a6, a7, a8, a9⟩ := commitConfig_fields (x.withCommitIndex i)
  obtain ⟨b1, b2, b3, b4, b5, b6, b7, b8, b9⟩ := stepDown_fields (x.withCommitIndex i).commitConfig
  obtain ⟨c1, c2, c3, c4, c5, c6, c7, c8, c9⟩ := closeIfRemoved_fields (x.withCommitIndex i).commitConfig.stepDownIfNotVoter
  unfold y Node.afterConfigCommit
  refine ⟨c1.trans (b1.trans a1), c2.trans (b2.trans a2), c3.trans (b3.trans a3), c4.trans (b4.trans a4),
    c5.trans (b5.trans a5), c6.trans (b6.trans a6), c7.trans (b7.trans a7), ?_, c9.trans (b9.trans a9)⟩
  rw [c8]
  rcases b8 with b8 | b8
  · exact Or.inl (b8.trans a8)
  · refine Or.inr ⟨?_, b8.2⟩
    have := b8.1
    rw [a1, a2] at this
    exact this

theorem isCommitted_self (c : Config) : (⟨c, c⟩ : Configs).isCommitted = true := by
  simp [Configs.isCommitted]

theorem isCommitted_eq {cs : Configs} (h : cs.isCommitted = true) : cs.latest.index = cs.committed.index := by
  simpa [Configs.isCommitted] using h

theorem setCommitIndexR_spec (hB : BI s op ph x) (i : Nat) (hi : i > x.commitIndex) :
    ∃ ph', BI s op ph' (x.setCommitIndexR i).1 ∧ Tr x ph (x.setCommitIndexR i).1 ph' := by
  unfold Node.setCommitIndexR
  split
  · rename_i hc
    obtain ⟨a1, a2, a3, a4, a5, a6, a7, a8, a9⟩ := commitPath_fields x i
    dsimp only at a1 a2 a3 a4 a5 a6 a7 a8 a9 ⊢
    have hnc : x.configs.isCommitted = false := by simpa using hc.1
    have hlt : s.commitIndex < i := Nat.lt_of_le_of_lt hB.main.ci hi
    have hch : Chain s op ph.afterCommit ⟨x.configs.latest, x.configs.latest⟩ :=
      .step hB.main.chain (.commit ph x.configs i hnc hc.2 hlt)
    refine ⟨ph.afterCommit, ⟨⟨by rw [a1]; exact hch, by rw [a2]; exact hB.main.nid, by rw [a3]; exact hB.main.term,
      by rw [a4]; exact Nat.le_of_lt hlt, by rw [a1, a5]; exact hB.main.li, by rw [a1]; exact hB.main.anch, ?_⟩,
      ⟨by rw [a6, a1, a2]; exact hB.lv.cache, fun hv => ?_⟩⟩,
      ⟨⟨Phase.le_afterCommit _, Nat.le_of_eq a5.symm, by rw [a4]; exact Nat.le_of_lt hi, by rw [a6],
        fun h => by rw [a7]; exact h, fun _ => ⟨by rw [a1], fun _ => by rw [a1]; exact isCommitted_self _, by rw [a6]⟩⟩,
       fun hf hn => ?_⟩⟩
    · intro hs hp
      rw [a7] at hp
      obtain ⟨c1, c2⟩ := hB.main.cl hs hp
      refine ⟨fun e he ht => ?_, by rw [a1]; exact Nat.le_refl _⟩
      rw [a9] at he
      rw [a1]
      rcases c1 e he ht with h | h
      · exact Or.inl (Nat.le_trans h c2)
      · exact Or.inr h
    · rw [a6] at hv
      rcases a8 with a8 | a8
      · rw [a8]; exact hB.lv.lead hv
      · rw [hB.lv.cache, a8.1] at hv; cases hv
    · subst hf; exact absurd rfl hn
  · dsimp only
    exact ⟨ph, ⟨⟨hB.main.chain, hB.main.nid, hB.main.term, Nat.le_trans hB.main.ci (Nat.le_of_lt hi), hB.main.li,
      hB.main.anch, hB.main.cl⟩, ⟨hB.lv.cache, hB.lv.lead⟩⟩,
      ⟨⟨Phase.le_refl _, Nat.le_refl _, Nat.le_of_lt hi, rfl, id, fun _ => ⟨rfl, id, rfl⟩⟩, fun h1 h2 => absurd h1 h2⟩⟩

/-! ### the mutually recursive leader handlers -/

def SEspec (s : Node) (op : Op) (n : Nat) : Prop := ∀ x ph b, BI s op ph x → BatchOK x ph b →
  StepW s op (fun ph' x' => IsCfg b → Prog x ph' x') x ph (storeEntry n x b)
def SIspec (s : Node) (op : Op) (n : Nat) : Prop := ∀ x ph b, BI s op ph x → BatchOK x ph b →
  StepW s op (fun ph' x' => IsCfg b → Prog x ph' x') x ph (storeItems n x b)
def DCspec (s : Node) (op : Op) (n : Nat) : Prop := ∀ x ph t b c, BI s op ph x → x.configs.isCommitted = true →
  x.ldr.startIndex ≤ x.commitIndex → Deriv b c → Jc x ph b → HasAnchor c →
  StepW s op (fun ph' x' => Prog x ph' x') x ph (doChangeConfig n x t c)
def CAsspec (s : Node) (op : Op) (n : Nat) : Prop := ∀ x ph t config, BI s op ph x → AnchC config → Jc x ph config →
  Step s op x ph (checkConfigActions n x t config)
def CAspec (s : Node) (op : Op) (n : Nat) : Prop := ∀ x ph t config id, BI s op ph x → AnchC config → Jc x ph config →
  Step s op x ph (checkConfigAction n x t config id)
def SCspec (s : Node) (op : Op) (n : Nat) : Prop := ∀ x ph i, BI s op ph x → i > x.commitIndex →
  Step s op x ph (setCommitIndexL n x i)
def MCspec (s : Node) (op : Op) (n : Nat) : Prop := ∀ x ph, BI s op ph x → Step s op x ph (onMajorityCommit n x)

theorem fuel_out (hB : BI s op ph x) (W : Phase → Node → Prop) (hW : W ph (x.panic "fuel")) :
    StepW s op W x ph (x.panic "fuel") :=
  ⟨ph, hB.quiet (q_panic _ _), Tr.quiet (q_panic _ _) _, hW⟩

theorem SE_succ {n : Nat} (hSI : SIspec s op n) (hMC : MCspec s op n) : SEspec s op (n + 1) := by
  intro x ph b hB hb
  obtain ⟨ph1, hB1, hT1, hW1⟩ := hSI x ph b hB hb
  unfold storeEntry
  extract_lets lastIndex x1 x2 x3 x4
  have hq2 : Quiet x1 x2 := by
    unfold x2
    split
    · split
      · exact q_applyCommittedL _
      · exact .refl _
    · exact .refl _
  have hB2 : BI s op ph1 x2 := hB1.quiet hq2
  have hT2 : Tr x ph x2 ph1 := hT1.trans (Tr.quiet hq2 ph1)
  have hW2 : IsCfg b → Prog x ph1 x2 := fun h => (hW1 h).step (Tr0.quiet hq2 ph1)
  split
  · have hq4 : Quiet x2 x4 := (q_beginFinishedRounds x2).trans (q_notifyFlr _)
    split
    · obtain ⟨ph5, hB5, hT5, _⟩ := hMC x4 ph1 (hB2.quiet hq4)
      exact ⟨ph5, hB5, (hT2.trans (Tr.quiet hq4 _)).trans hT5,
        fun h => ((hW2 h).step (Tr0.quiet hq4 _)).step hT5.toTr0⟩
    · exact ⟨ph1, hB2.quiet hq4, hT2.trans (Tr.quiet hq4 _), fun h => (hW2 h).step (Tr0.quiet hq4 _)⟩
  · exact ⟨ph1, hB2, hT2, hW2⟩

theorem SI_succ {n : Nat} (hSI : SIspec s op n) (hCL : CLspec s op n) : SIspec s op (n + 1) := by
  intro x ph b hB hb
  cases b with
  | nil =>
    rw [storeItems_nil]
    exact ⟨ph, hB, Tr.refl _ _, fun ⟨q, hq, _⟩ => by cases hq⟩
  | cons q qs =>
    rw [storeItems_cons]
    have hq1 : BatchOK x ph [q] := by
      cases hb with
      | plain _ h =>
        exact .plain _ (fun q' hq' => h q' (by rw [List.mem_singleton.mp hq']; exact List.mem_cons_self ..))
      | cfg b c task i t h1 h2 h3 h4 h5 => exact .cfg b c task i t h1 h2 h3 h4 h5
    obtain ⟨ph1, hB1, hT1, hW1⟩ := storeItem_spec hCL hB hq1
    have hqs : BatchOK (storeItem n x q) ph1 qs := by
      cases hb with
      | plain _ h => exact .plain _ (fun q' hq' => h q' (List.mem_cons_of_mem _ hq'))
      | cfg b c task i t h1 h2 h3 h4 h5 => exact .plain _ (fun q' hq' => by cases hq')
    obtain ⟨ph2, hB2, hT2, _⟩ := hSI _ ph1 qs hB1 hqs
    refine ⟨ph2, hB2, hT1.trans hT2, fun hc => ?_⟩
    have hcfg : q.typ = etConfig := by
      cases hb with
      | plain _ h => obtain ⟨q', hq', ht⟩ := hc; exact absurd ht (h q' hq')
      | cfg b c task i t h1 h2 h3 h4 h5 => rfl
    exact (hW1 hcfg).step hT2.toTr0

theorem DC_succ {n : Nat} (hSE : SEspec s op n) : DCspec s op (n + 1) := by
  intro x ph t b c hB h1 h2 h3 h4 h5
  unfold doChangeConfig
  obtain ⟨ph', hB', hT', hW'⟩ := hSE x ph _ hB (.cfg b c t c.index c.term h1 h2 h3 h4 h5)
  exact ⟨ph', hB', hT', hW' ⟨_, List.mem_singleton_self _, rfl⟩⟩

theorem CL_succ {n : Nat} (hCAs : CAsspec s op n) : CLspec s op (n + 1) := by
  intro x ph b c e hB hv hact hcm hst hty hei hidx htm hd hj ha
  obtain ⟨e1, e2, e3, e4, e5, e6, e7, e8⟩ := appendEntry_key x e
  unfold changeConfigL
  extract_lets l0 x1 x2 l2 x3 x4
  obtain ⟨a1, a2, a3, a4, a5, a6, a7, a8, a9⟩ := changeConfigR_fields x1 c
  have hrole : x.role = .leader := hB.lv.lead hv
  have hlt : x.configs.latest.index < c.index := by have := hB.main.li; omega
  have hch : Chain s op (ph.afterChangeP (x.appendEntry e).panicked.isSome) ⟨(x.appendEntry e).configs.latest, c⟩ :=
    .step (by rw [e1]; exact hB.main.chain) (.change ph (x.appendEntry e) b c (by rw [e2]; exact hB.main.nid)
      (by rw [e3]; exact hB.main.term) (by rw [e4]; exact hB.main.ci) (by rw [e5]; exact hrole)
      (by rw [e1, e2, ← hB.lv.cache]; exact hv) (by rw [e1]; exact hcm) (by rw [e6]; exact hact)
      (by rw [e6, e4]; exact hst) (by rw [e1]; exact hlt) (by rw [e7]; exact hidx) (by rw [e3]; exact htm) hd
      (fun hf hp => by rw [e1]; exact hj hf (appendEntry_pan' x e hp)) ha)
  have hB2 : BI s op (ph.afterChangeP (x.appendEntry e).panicked.isSome) x2 := by
    refine ⟨⟨by rw [a1]; exact hch, by rw [a2]; show (x.appendEntry e).nid = s.nid; rw [e2]; exact hB.main.nid,
      by rw [a3]; show s.term ≤ (x.appendEntry e).term; rw [e3]; exact hB.main.term,
      by rw [a4]; show s.commitIndex ≤ (x.appendEntry e).commitIndex; rw [e4]; exact hB.main.ci,
      by rw [a1, a5]; show c.index ≤ (x.appendEntry e).lastLogIndex; rw [e7]; exact Nat.le_of_eq hidx,
      by rw [a1]; exact Or.inr ha, ?_⟩,
     ⟨by rw [a7, a1, a2]; exact get_voter_eq_isVoter c (x.appendEntry e).nid,
      fun _ => by rw [a6]; show (x.appendEntry e).role = .leader; rw [e5]; exact hrole⟩⟩
    intro hs hp
    rw [a8] at hp
    obtain ⟨c1, c2⟩ := hB.main.cl hs (appendEntry_pan' x e hp)
    have hLC := isCommitted_eq hcm
    refine ⟨fun e' he' ht' => ?_, ?_⟩
    · rw [a9] at he'
      have he'' : e' ∈ (x.appendEntry e).log.entries := he'
      rw [appendEntry_entries, List.mem_append, List.mem_singleton] at he''
      rw [a1]
      show e'.index ≤ (x.appendEntry e).configs.latest.index ∨ e'.index = c.index
      rw [e1]
      rcases he'' with h | h
      · rcases c1 e' h ht' with h' | h'
        · left; omega
        · left; omega
      · subst h; exact Or.inr hidx.symm
    · rw [a1]
      show (x.appendEntry e).configs.latest.index ≤ c.index
      rw [e1]; omega
  have hT2 : Tr x ph x2 (ph.afterChangeP (x.appendEntry e).panicked.isSome) :=
    ⟨⟨Phase.le_afterChangeP _ _, by rw [a5]; show x.lastLogIndex ≤ (x.appendEntry e).lastLogIndex; rw [e7]; omega,
      by rw [a4]; show x.commitIndex ≤ (x.appendEntry e).commitIndex; rw [e4]; exact Nat.le_refl _,
      by rw [a7]; show (x.appendEntry e).ldr.startIndex = x.ldr.startIndex; rw [e6],
      fun h => by rw [a8]; exact e8 h, fun hf => absurd hf (Phase.afterChangeP_ne _ _)⟩,
     fun _ _ => by rw [a5]; show x.lastLogIndex < (x.appendEntry e).lastLogIndex; rw [e7]; omega⟩
  have hq3 : Quiet x2 x3 := q_ldr x2 _ rfl rfl
  have hq4 : Quiet x2 x4 := by
    refine hq3.trans (q_foldl _ (fun y m => ?_) c.nodes x3)
    split
    · exact .refl _
    · split
      · exact q_addReplication _ _
      · exact q_setRepl _ _
  obtain ⟨ph5, hB5, hT5, _⟩ := hCAs x4 (ph.afterChangeP (x.appendEntry e).panicked.isSome) 0 x4.configs.latest (hB2.quiet hq4) (hB2.quiet hq4).main.anch
    (Jc.refl _ _)
  exact ⟨ph5, hB5, (hT2.trans (Tr.quiet hq4 _)).trans hT5,
    Or.inl (fun hf => Phase.afterChangeP_ne ph _ (Phase.eq_fresh_of_le hT5.mono hf))⟩

theorem CA_succ {n : Nat} (hDC : DCspec s op n) : CAspec s op (n + 1) := by
  intro x ph t config id hB hA hJ
  unfold checkConfigAction
  split
  · exact Step.refl hB
  · rename_i st hst
    extract_lets nn action r x1
    split
    · exact Step.refl hB
    · rename_i hact
      have hq1 : Quiet x x1 := q_setRepl x _
      split
      · exact Step.of_quiet hB hq1
      · split
        · exact Step.of_quiet hB hq1
        · rename_i hcan
          split
          · rename_i c hc
            have hcan' : x1.canChangeConfig = true := by simpa using hcan
            obtain ⟨f1, _, f3⟩ := canChange_facts hcan'
            have hone : OneNode config c := actionConfig_oneNode _ config id r.1 c hact hc
            have hanch : HasAnchor config := hA.of_get (nextAction_ne hact)
            obtain ⟨ph', hB', hT', _⟩ := hDC x1 ph t config c (hB.quiet hq1) f1 f3 (Or.inr hone)
              (hJ.step (Tr0.quiet hq1 ph)) (hone.anchor hanch)
            exact ⟨ph', hB', (Tr.quiet hq1 ph).trans hT', trivial⟩
          · exact Step.of_quiet hB hq1

/-- after the leader's action on ITSELF was handed to `doChangeConfig`: the derived configuration `c'` is what
the loop over the replications works on -/
theorem self_action_J {x x1 : Node} {ph ph1 : Phase} {config c' : Config} (hB : BI s op ph x) (hJ : Jc x ph config)
    (hact : x.ldr.transfer.active = false) (hT : Tr x ph x1 ph1) (hW : Prog x ph1 x1)
    (hsv : config.isVoter x.nid = false → SameVoters c' config) : Jc x1 ph1 c' := by
  intro hf hp
  have hv : x.ldr.node.voter = false := by
    cases hv : x.ldr.node.voter with
    | false => rfl
    | true =>
      rcases hW hv hact with h | h
      · exact absurd hf h
      · exact absurd hp h
  have hpx : x.panicked = none := by
    cases hx : x.panicked with
    | none => rfl
    | some v => exact absurd hp (hT.pan (by rw [hx]; simp))
  have h0 := hJ (Phase.eq_fresh_of_le hT.mono hf) hpx
  rw [(hT.fresh hf).1]
  have hnv : config.isVoter x.nid = false := by rw [h0 x.nid, ← hB.lv.cache]; exact hv
  exact (hsv hnv).trans h0

theorem CAs_succ {n : Nat} (hDC : DCspec s op n) (hCA : CAspec s op n) : CAsspec s op (n + 1) := by
  intro x ph t config hB hA hJ
  unfold checkConfigActions
  extract_lets nn c1 c2 r
  have hr : ∃ ph1, BI s op ph1 r.1 ∧ Tr x ph r.1 ph1 ∧ AnchC r.2 ∧ Jc r.1 ph1 r.2 := by
    unfold r
    split
    · rename_i hc
      obtain ⟨f1, f2, f3⟩ := canChange_facts hc.1
      have hact : (config.get x.nid).action ≠ actNone := hc.2
      have hid : (config.get x.nid).id = x.nid := get_id hact
      have hanch : HasAnchor config := hA.of_get hact
      split
      · have hone : OneNode config c1 := oneNode_set _ x.nid _ hid hact
        obtain ⟨ph1, hB1, hT1, hW1⟩ := hDC x ph t config c1 hB f1 f3 (Or.inr hone) hJ (hone.anchor hanch)
        exact ⟨ph1, hB1, hT1, Or.inr (hone.anchor hanch),
          self_action_J hB hJ f2 hT1 hW1 (fun hnv => sameVoters_set_nonvoter config x.nid _ hid rfl hnv)⟩
      · split
        · have hone : OneNode config c2 := oneNode_erase _ x.nid hact
          obtain ⟨ph1, hB1, hT1, hW1⟩ := hDC x ph t config c2 hB f1 f3 (Or.inr hone) hJ (hone.anchor hanch)
          exact ⟨ph1, hB1, hT1, Or.inr (hone.anchor hanch),
            self_action_J hB hJ f2 hT1 hW1 (fun hnv => sameVoters_erase_nonvoter config x.nid hnv)⟩
        · exact ⟨ph, hB.quiet (q_panic _ _), Tr.quiet (q_panic _ _) _, hA, hJ.step (Tr0.quiet (q_panic _ _) _)⟩
    · exact ⟨ph, hB, Tr.refl _ _, hA, hJ⟩
  obtain ⟨ph1, hB1, hT1, hA1, hJ1⟩ := hr
  have hqp : Quiet r.1 r.1.popOrder := q_popOrder _
  have hloop := Step.foldl (s := s) (op := op)
    (fun s id => match s.findRepl? id with
      | some _ => checkConfigAction n s t r.2 id
      | none => s)
    (fun y p => Jc y p r.2) (fun hp ht => hp.step ht)
    (fun y p id hBy hJy => by
      split
      · exact hCA y p t r.2 id hBy hA1 hJy
      · exact Step.refl hBy)
    r.1.replOrder r.1.popOrder ph1 (hB1.quiet hqp) (hJ1.step (Tr0.quiet hqp _))
  obtain ⟨ph2, hB2, hT2, _⟩ := hloop
  exact ⟨ph2, hB2, (hT1.trans (Tr.quiet hqp _)).trans hT2, trivial⟩

theorem SC_succ {n : Nat} (hCAs : CAsspec s op n) : SCspec s op (n + 1) := by
  intro x ph i hB hi
  unfold setCommitIndexL
  extract_lets x1 ready r x2 x3
  have hq1 : Quiet x x1 := q_commitLog x i
  obtain ⟨ph2, hB2, hT2⟩ := setCommitIndexR_spec (hB.quiet hq1) i (by rw [hq1.commitIndex]; exact hi)
  have hS3 : Step s op x2 ph2 x3 := by
    unfold x3
    split
    · exact hCAs _ _ _ _ hB2 hB2.main.anch (Jc.refl _ _)
    · exact Step.refl hB2
  obtain ⟨ph3, hB3, hT3, _⟩ := hS3
  have hT03 : Tr x ph x3 ph3 := ((Tr.quiet hq1 ph).trans hT2).trans hT3
  split
  · split
    · have hq : Quiet x3 (x3.ldr.waitStable.foldl (fun s t => s.reply t s!"config:{s.configs.latest.index}") x3) :=
        q_foldl _ (fun y t => q_reply _ _ _) _ _
      have hq' := hq.trans (q_ldr _ { (x3.ldr.waitStable.foldl (fun s t => s.reply t s!"config:{s.configs.latest.index}") x3).ldr with waitStable := [] } rfl rfl)
      exact ⟨ph3, hB3.quiet hq', hT03.trans (Tr.quiet hq' _), trivial⟩
    · obtain ⟨ph4, hB4, hT4, _⟩ := hCAs x3 ph3 0 _ hB3 hB3.main.anch (Jc.refl _ _)
      exact ⟨ph4, hB4, hT03.trans hT4, trivial⟩
  · exact ⟨ph3, hB3, hT03, trivial⟩

theorem MC_succ {n : Nat} (hSC : SCspec s op n) : MCspec s op (n + 1) := by
  intro x ph hB
  unfold onMajorityCommit
  extract_lets m x1 x2 x3
  have hq1 : Quiet x x1 := by
    unfold x1
    split
    · exact .refl _
    · exact q_panic _ _
  split
  · rename_i hgt
    obtain ⟨ph2, hB2, hT2, _⟩ := hSC x1 ph m.1 (hB.quiet hq1) hgt.1
    have hq3 : Quiet x2 x3.notifyFlr := (q_applyCommittedL x2).trans (q_notifyFlr _)
    exact ⟨ph2, hB2.quiet hq3, ((Tr.quiet hq1 ph).trans hT2).trans (Tr.quiet hq3 _), trivial⟩
  · exact Step.of_quiet hB hq1

/-- **the leader block**: every handler of the mutually recursive block, from a state satisfying the invariant,
ends in a state satisfying it (in a later phase), for every recursion budget -/
theorem block (s : Node) (op : Op) : ∀ n : Nat,
    SEspec s op n ∧ SIspec s op n ∧ CLspec s op n ∧ DCspec s op n ∧ CAsspec s op n ∧ CAspec s op n ∧ SCspec s op n ∧
    MCspec s op n := by
  intro n
  induction n with
  | zero =>
    refine ⟨?_, ?_, ?_, ?_, ?_, ?_, ?_, ?_⟩
    · intro x ph b hB _
      unfold storeEntry
      exact fuel_out hB _ (fun _ _ _ => Or.inr (panicked_panic _ _))
    · intro x ph b hB _
      cases b with
      | nil => rw [storeItems_nil]; exact ⟨ph, hB, Tr.refl _ _, fun ⟨q, hq, _⟩ => by cases hq⟩
      | cons q qs =>
        unfold storeItems
        exact fuel_out hB _ (fun _ _ _ => Or.inr (panicked_panic _ _))
    · intro x ph b c e hB _ _ _ _ _ hei _ _ _ _ _
      unfold changeConfigL
      obtain ⟨e1, e2, e3, e4, e5, e6, e7, e8⟩ := appendEntry_key x e
      have hq := q_panic (x.appendEntry e) "fuel"
      refine ⟨ph, ⟨⟨by rw [hq.configs, e1]; exact hB.main.chain, by rw [hq.nid, e2]; exact hB.main.nid,
        by rw [hq.term, e3]; exact hB.main.term, by rw [hq.commitIndex, e4]; exact hB.main.ci,
        by rw [hq.configs, hq.lastLogIndex, e1, e7]; have := hB.main.li; omega,
        by rw [hq.configs, e1]; exact hB.main.anch, fun _ hp => absurd hp (panicked_panic _ _)⟩,
        ⟨by rw [hq.selfVoter, hq.configs, hq.nid, e6, e1, e2]; exact hB.lv.cache,
         fun hv => by rw [hq.role, e5]; exact hB.lv.lead (by rw [← e6, ← hq.selfVoter]; exact hv)⟩⟩,
        ⟨⟨Phase.le_refl _, by rw [hq.lastLogIndex, e7]; omega, by rw [hq.commitIndex, e4]; exact Nat.le_refl _,
          by rw [hq.startIndex, e6], fun h => hq.pan (e8 h),
          fun _ => ⟨by rw [hq.configs, e1], fun hc => by rw [hq.configs, e1]; exact hc, by rw [hq.selfVoter, e6]⟩⟩,
         fun h1 h2 => absurd h1 h2⟩, Or.inr (panicked_panic _ _)⟩
    · intro x ph t b c hB _ _ _ _ _
      unfold doChangeConfig
      exact fuel_out hB _ (fun _ _ => Or.inr (panicked_panic _ _))
    · intro x ph t c hB _ _
      unfold checkConfigActions
      exact fuel_out hB _ trivial
    · intro x ph t c id hB _ _
      unfold checkConfigAction
      exact fuel_out hB _ trivial
    · intro x ph i hB _
      unfold setCommitIndexL
      exact fuel_out hB _ trivial
    · intro x ph hB
      unfold onMajorityCommit
      exact fuel_out hB _ trivial
  | succ n ih =>
    obtain ⟨hSE, hSI, hCL, hDC, hCAs, hCA, hSC, hMC⟩ := ih
    exact ⟨SE_succ hSI hMC, SI_succ hSI hCL, CL_succ hCAs, DC_succ hSE, CAs_succ hDC hCA, CA_succ hDC, SC_succ hCAs,
      MC_succ hSC⟩


/-! ## the handlers around the leader block -/

/-- the outcome of a handler: the role-independent part of the invariant holds, in some phase -/
def Fin (s : Node) (op : Op) (x : Node) : Prop := ∃ ph, Main s op ph x

theorem Step.fin {x y : Node} (h : Step s op x ph y) : Fin s op y := by
  obtain ⟨ph', hB, _, _⟩ := h
  exact ⟨ph', hB.main⟩

theorem Fin.map {x y : Node} (h : Fin s op x) (f : ∀ ph, Main s op ph x → Main s op ph y) : Fin s op y := by
  obtain ⟨ph, hm⟩ := h
  exact ⟨ph, f ph hm⟩

theorem storeEntry_step (n : Nat) (b : List QItem) (hB : BI s op ph x) (hb : BatchOK x ph b) :
    Step s op x ph (storeEntry n x b) := by
  obtain ⟨ph', h1, h2, _⟩ := (block s op n).1 x ph b hB hb
  exact ⟨ph', h1, h2, trivial⟩

theorem doChangeConfig_step (n t : Nat) (b c : Config) (hB : BI s op ph x) (h1 : x.configs.isCommitted = true)
    (h2 : x.ldr.startIndex ≤ x.commitIndex) (h3 : Deriv b c) (h4 : Jc x ph b) (h5 : HasAnchor c) :
    Step s op x ph (doChangeConfig n x t c) := by
  obtain ⟨ph', a, b', _⟩ := (block s op n).2.2.2.1 x ph t b c hB h1 h2 h3 h4 h5
  exact ⟨ph', a, b', trivial⟩

theorem checkConfigActions_step (n t : Nat) (config : Config) (hB : BI s op ph x) (hA : AnchC config)
    (hJ : Jc x ph config) : Step s op x ph (checkConfigActions n x t config) :=
  (block s op n).2.2.2.2.1 x ph t config hB hA hJ

theorem checkConfigAction_step (n t : Nat) (config : Config) (id : Nat) (hB : BI s op ph x) (hA : AnchC config)
    (hJ : Jc x ph config) : Step s op x ph (checkConfigAction n x t config id) :=
  (block s op n).2.2.2.2.2.1 x ph t config id hB hA hJ

theorem onMajorityCommit_step (n : Nat) (hB : BI s op ph x) : Step s op x ph (onMajorityCommit n x) :=
  (block s op n).2.2.2.2.2.2.2 x ph hB

theorem q_transferReply (x : Node) (r : String) : Quiet x (x.transferReply r) := by
  unfold Node.transferReply
  exact (q_reply _ _ _).trans (q_ldr _ _ rfl rfl)

theorem q_tryTransfer (x : Node) : Quiet x x.tryTransfer := by
  unfold Node.tryTransfer
  extract_lets r x1 x2
  have h1 : Quiet x x1 := by
    unfold x1; split
    · exact q_popOrder _
    · exact .refl _
  have h2 : Quiet x1 x2 := by
    unfold x2; split
    · exact q_panic _ _
    · exact .refl _
  split
  · exact (h1.trans h2).trans (q_ldr _ _ rfl rfl)
  · exact h1.trans h2

theorem replyTransfer_step (hB : BI s op ph x) (r : String) : Step s op x ph (x.replyTransfer r) := by
  unfold Node.replyTransfer
  extract_lets x1
  exact (Step.of_quiet hB (q_transferReply x r)).trans
    (fun ph1 hB1 _ => checkConfigActions_step _ 0 _ hB1 hB1.main.anch (Jc.refl _ _))

theorem onTimeoutNowResult_step (hB : BI s op ph x) (src : Nat) (e : Bool) (r : Nat) :
    Step s op x ph (x.onTimeoutNowResult src e r) := by
  unfold Node.onTimeoutNowResult
  extract_lets l0 t0 x1 x2 l1 t1
  have h1 : Quiet x x1 := q_ldr x _ rfl rfl
  have h2 : Quiet x1 x2 := by
    unfold x2
    split
    · split
      · exact q_setRepl _ _
      · exact .refl _
    · exact q_panic _ _
  split
  · split
    · exact Step.of_quiet hB ((h1.trans h2).trans (q_tryTransfer _))
    · exact Step.of_quiet hB (h1.trans h2)
  · split
    · split
      · exact (Step.of_quiet hB h1).trans (fun ph1 hB1 _ => replyTransfer_step hB1 _)
      · exact Step.of_quiet hB (h1.trans (q_tryTransfer _))
    · exact Step.of_quiet hB (h1.trans (q_ldr _ _ rfl rfl))

/-! ### `leader.onChangeConfig` -/

theorem find?_of_mem_nodup : ∀ (l : List CNode), (l.map (·.id)).Nodup → ∀ n ∈ l, l.find? (·.id == n.id) = some n
  | [], _, _, h => by cases h
  | a :: as, hn, n, hm => by
    rw [List.map_cons, List.nodup_cons] at hn
    rcases List.mem_cons.mp hm with h | h
    · subst h
      simp [List.find?]
    · have hne : a.id ≠ n.id := fun he => hn.1 (by rw [he]; exact List.mem_map_of_mem h)
      have : (a.id == n.id) = false := by simp [hne]
      simp only [List.find?, this]
      exact find?_of_mem_nodup as hn.2 n h

/-- what `onChangeConfig` checks of a submitted configuration `c` against the latest one `L`: every member of `L`
is still there with the same voting right, and new members are non-voters — so the same nodes vote -/
theorem validated_sameVoters {L c : Config}
    (h1 : ¬ (L.nodes.any (fun n => match c.find? n.id with
      | none => true
      | some nn => n.voter != nn.voter)) = true)
    (h2 : ¬ (c.nodes.any (fun n => !L.has n.id && n.voter)) = true) : SameVoters c L := by
  intro x
  unfold Config.isVoter
  cases hL : L.find? x with
  | some n =>
    have hm : n ∈ L.nodes := List.mem_of_find?_eq_some hL
    have hid : n.id = x := find?_id hL
    have := fun h => h1 (List.any_eq_true.mpr ⟨n, hm, h⟩)
    rw [hid] at this
    cases hc : c.find? x with
    | none => rw [hc] at this; exact absurd rfl this
    | some nn =>
      rw [hc] at this
      dsimp only at this ⊢
      cases hv : n.voter <;> cases hv' : nn.voter <;> simp [hv, hv'] at this ⊢
  | none =>
    cases hc : c.find? x with
    | none => rfl
    | some nn =>
      have hm : nn ∈ c.nodes := List.mem_of_find?_eq_some hc
      have hid : nn.id = x := find?_id hc
      have := fun h => h2 (List.any_eq_true.mpr ⟨nn, hm, h⟩)
      have hhas : L.has nn.id = false := by unfold Config.has; rw [hid, hL]; rfl
      rw [hhas] at this
      dsimp only
      cases hv : nn.voter
      · rfl
      · rw [hv] at this; exact absurd rfl this

theorem validated_anchor {c : Config} (hn : (c.nodes.map (·.id)).Nodup)
    (h3 : ¬ (!c.nodes.any (fun n => n.voter && n.action == actNone)) = true) : HasAnchor c := by
  have : c.nodes.any (fun n => n.voter && n.action == actNone) = true := by simpa using h3
  obtain ⟨n, hm, hp⟩ := List.any_eq_true.mp this
  simp only [Bool.and_eq_true, beq_iff_eq] at hp
  exact ⟨n.id, n, find?_of_mem_nodup c.nodes hn n hm, hp.1, hp.2⟩

theorem onChangeConfig_fin (hB : BI s op .fresh x) (t : Nat) (c : Config) (hn : (c.nodes.map (·.id)).Nodup) :
    Fin s op (x.onChangeConfig t c) := by
  have rep : ∀ r, Fin s op (x.reply t r) := fun r => ⟨_, hB.main.quiet (q_reply _ _ _)⟩
  unfold Node.onChangeConfig
  split
  · exact rep _
  · rename_i hcm
    split
    · exact rep _
    · rename_i hst
      split
      · exact rep _
      · split
        · exact rep _
        · split
          · exact rep _
          · rename_i h1
            split
            · exact rep _
            · rename_i h2
              split
              · exact rep _
              · rename_i h3
                extract_lets lastIndex x1
                have hcm' : x.configs.isCommitted = true := by simpa using hcm
                have hJ : Jc x .fresh c := fun _ _ => validated_sameVoters h1 h2
                have hanch := validated_anchor hn h3
                obtain ⟨ph1, hB1, hT1, _⟩ := checkConfigActions_step (fuelFor 0) t c hB (Or.inr hanch) hJ
                split
                · rename_i heq
                  have heq' : (checkConfigActions (fuelFor 0) x t c).lastLogIndex = x.lastLogIndex := heq
                  have hf : ph1 = .fresh := by
                    cases hp : ph1 with
                    | fresh => rfl
                    | _ =>
                      have := hT1.moved rfl (by rw [hp]; decide)
                      omega
                  obtain ⟨_, f2, _⟩ := hT1.fresh hf
                  exact (doChangeConfig_step (fuelFor 1) t c c hB1 (f2 hcm')
                    (by rw [hT1.start]; exact Nat.le_trans (Nat.le_of_not_lt hst) hT1.ci) (Or.inl rfl) (hJ.step hT1.toTr0) hanch).fin
                · exact ⟨ph1, hB1.main⟩

/-! ### `leader.checkReplUpdates` -/

theorem replUpdLoop_spec (us : List ReplUpdate) : ∀ (x : Node) (ph : Phase) (f : UpdFlags), BI s op ph x →
    ∃ ph', Main s op ph' (replUpdLoop x f us).1 ∧ ((replUpdLoop x f us).2.stop = false → LV (replUpdLoop x f us).1) := by
  induction us with
  | nil => intro x ph f hB; exact ⟨ph, hB.main, fun _ => hB.lv⟩
  | cons u us ih =>
    intro x ph f hB
    unfold replUpdLoop
    split
    · exact ih x ph f hB
    · split
      · exact ih x ph f hB
      · rename_i st hst
        split
        · rename_i v
          extract_lets st' x1 x2
          have hq1 : Quiet x x1 := q_setRepl x _
          have h2 : Step s op x1 ph x2 := by
            unfold x2
            split
            · exact checkConfigAction_step _ 0 _ _ (hB.quiet hq1) (hB.quiet hq1).main.anch (Jc.refl _ _)
            · exact Step.refl (hB.quiet hq1)
          obtain ⟨ph2, hB2, _, _⟩ := h2
          exact ih x2 ph2 _ hB2
        · exact ih _ ph _ (hB.quiet (q_setRepl x _))
        · exact ih _ ph _ (hB.quiet (q_setRepl x _))
        · rename_i v
          refine ⟨ph, ?_, fun h => by cases h⟩
          exact (mainQ s op ph).setTerm _ _ ((mainQ s op ph).setLeader _ _ ((mainQ s op ph).setRole _ _ hB.main))

theorem checkReplUpdates_fin (hB : BI s op ph x) (us : List ReplUpdate) : Fin s op (x.checkReplUpdates us) := by
  unfold Node.checkReplUpdates
  extract_lets r x0 f x1 x2 x3
  obtain ⟨ph0, hm0, hlv0⟩ := replUpdLoop_spec us x ph {} hB
  split
  · exact ⟨ph0, hm0⟩
  · rename_i hstop
    have hB0 : BI s op ph0 x0 := ⟨hm0, hlv0 (by simpa using hstop)⟩
    have h1 : Fin s op x1 := by
      unfold x1
      split
      · exact (onMajorityCommit_step _ hB0).fin
      · exact ⟨ph0, hm0⟩
    have h2 : Fin s op x2 := by
      unfold x2
      split
      · exact h1.map (fun p hm => (mainQ s op p).checkQuorum_q _ hm)
      · exact h1
    have h3 : Fin s op x3 := by
      unfold x3
      split
      · exact h2.map (fun p hm => (mainQ s op p).checkLogCompact_q _ hm)
      · exact h2
    split
    · exact h3.map (fun p hm => (mainQ s op p).tryTransfer_q _ hm)
    · exact h3

/-! ### `leader.init` and the role transitions -/

theorem leaderInit_fin (hm : Main s op ph x) (hr : x.role = .leader) : Fin s op x.leaderInit := by
  unfold Node.leaderInit
  extract_lets x1 x2 x3 x4
  have hq1 : Quiet x x1 := q_assert x _ _
  have hB2 : BI s op ph x2 :=
    ⟨(mainQ s op ph).ldr _ _ (hm.quiet hq1),
     ⟨get_voter_eq_isVoter x1.configs.latest x1.nid, fun _ => by show x1.role = .leader; rw [hq1.role]; exact hr⟩⟩
  have hq3 : Quiet x2 x3 := by
    refine q_foldl _ (fun y m => ?_) _ _
    split
    · exact .refl _
    · exact q_addReplication _ _
  have h4 : Step s op x3 ph x4 := checkConfigActions_step _ 0 _ (hB2.quiet hq3) (hB2.quiet hq3).main.anch (Jc.refl _ _)
  obtain ⟨ph4, hB4, _, _⟩ := h4
  exact (storeEntry_step _ _ hB4 (.plain _ (fun q hq => by rw [List.mem_singleton.mp hq]; decide))).fin

theorem settle_fin (f : Nat) : ∀ (x : Node) (cur : Role) (ph : Phase), Main s op ph x → Fin s op (settle f x cur) := by
  induction f with
  | zero => intro x cur ph hm; exact ⟨ph, hm⟩
  | succ n ih =>
    intro x cur ph hm
    unfold settle
    split
    · exact ⟨ph, hm⟩
    · extract_lets x1 cur' x2
      have h1 : Main s op ph x1 := (mainQ s op ph).releaseRole_q _ _ hm
      have h2 : Fin s op x2 := by
        unfold x2 Node.initRole
        split
        · exact ⟨ph, h1⟩
        · exact ⟨ph, (mainQ s op ph).startElection_q _ h1⟩
        · rename_i hl
          exact leaderInit_fin h1 hl
      obtain ⟨ph2, hm2⟩ := h2
      exact ih x2 cur' ph2 hm2

/-- after a handler that left the node a follower, the role transitions do not touch `configs` -/
theorem settle_follower (f : Nat) (x : Node) (cur : Role) (hr : x.role = .follower) :
    (settle f x cur).configs = x.configs := by
  cases f with
  | zero => rfl
  | succ n =>
    unfold settle
    split
    · rfl
    · extract_lets x1 cur' x2
      have k := SameKey.releaseRole x cur
      have hr1 : x1.role = .follower := by rw [k.role]; exact hr
      have h2 : x2 = x1 := by
        unfold x2 Node.initRole
        split
        · rfl
        · rename_i h; rw [hr1] at h; cases h
        · rename_i h; rw [hr1] at h; cases h
      have hc : cur' = x2.role := by rw [h2]
      rw [hc, Node.settle_same]
      rw [h2]; exact k.configs

/-! ## the follower side: append entries, install snapshot, bootstrap -/

/-- the invariant inside the append / install handlers (after they made the node a follower): only follower-type
moves were made, the commit index did not go back, the node is a follower -/
structure FI (s : Node) (op : Op) (x : Node) : Prop where
  chain : Chain s op .fresh x.configs
  ci : s.commitIndex ≤ x.commitIndex
  role : x.role = .follower

def kf (x : Node) : Configs × Nat × Role := (x.configs, x.commitIndex, x.role)

theorem FI.congr (h : FI s op x) (e : kf y = kf x) : FI s op y := by
  have e1 : y.configs = x.configs := congrArg Prod.fst e
  have e2 : y.commitIndex = x.commitIndex := congrArg (fun p => p.2.1) e
  have e3 : y.role = x.role := congrArg (fun p => p.2.2) e
  exact ⟨by rw [e1]; exact h.chain, by rw [e2]; exact h.ci, by rw [e3]; exact h.role⟩

theorem kf_panic (x : Node) (site : String) : kf (x.panic site) = kf x := by
  unfold Node.panic; split <;> rfl

theorem kf_reply (x : Node) (t : Nat) (r : String) : kf (x.reply t r) = kf x := by
  unfold Node.reply; split <;> rfl

theorem kfFsmFrame : FsmFrame kf := ⟨kf_panic, kf_reply, fun _ _ => rfl⟩

theorem kf_appendEntry (x : Node) (e : Entry) : kf (x.appendEntry e) = kf x := by
  unfold Node.appendEntry Node.assert
  dsimp only
  split
  · rfl
  · exact kf_panic x _

theorem fi_setCommitIndexR (h : FI s op x) (i : Nat) (hi : i > x.commitIndex) : FI s op (x.setCommitIndexR i).1 := by
  unfold Node.setCommitIndexR
  split
  · rename_i hc
    obtain ⟨a1, _, _, a4, _, _, _, a8, _⟩ := commitPath_fields x i
    dsimp only at a1 a4 a8 ⊢
    have hnc : x.configs.isCommitted = false := by simpa using hc.1
    have hlt : s.commitIndex < i := Nat.lt_of_le_of_lt h.ci hi
    refine ⟨by rw [a1]; exact .step h.chain (.commit .fresh x.configs i hnc hc.2 hlt), by rw [a4]; exact Nat.le_of_lt hlt, ?_⟩
    rcases a8 with a8 | a8
    · rw [a8]; exact h.role
    · exact a8.2
  · exact ⟨h.chain, Nat.le_trans h.ci (Nat.le_of_lt hi), h.role⟩

theorem fi_resolveConflict {q : AppendReq} (hop : op = .append q) (h : FI s op x) (ne : Entry) (hne : ne ∈ q.entries)
    (pt : Nat) : FI s op (x.resolveConflict ne pt) := by
  unfold Node.resolveConflict
  split
  · split
    · exact h.congr (kf_panic _ _)
    · extract_lets x1
      have h1 : FI s op x1 := h.congr rfl
      split
      · rename_i hle
        exact ⟨.step h1.chain (.revert x1.configs q ne hop hne hle), h1.ci, h1.role⟩
      · exact h1
  · exact h

theorem fi_appendLoop {q : AppendReq} (hop : op = .append q) (es : List Entry) :
    ∀ (st : AppLoop), (∀ e ∈ es, e ∈ q.entries) → FI s op st.s → FI s op (appendLoop st es).s := by
  induction es with
  | nil => intro st _ h; exact h
  | cons ne rest ih =>
    intro st hsub h
    have hrest : ∀ e ∈ rest, e ∈ q.entries := fun e he => hsub e (List.mem_cons_of_mem _ he)
    have hne : ne ∈ q.entries := hsub ne (List.mem_cons_self ..)
    unfold appendLoop
    split
    · exact h
    · extract_lets prevTerm st1 x0 present x1 st2
      split
      · exact ih _ hrest h
      · split
        · exact ih _ hrest h
        · have h1 : FI s op x1 := (fi_resolveConflict hop h ne hne prevTerm).congr (kf_appendEntry _ _)
          split
          · split
            · rename_i c hc
              refine ih _ hrest ?_
              obtain ⟨a1, _, _, a4, _, a6, _, _⟩ := changeConfigR_fields x1 c
              exact ⟨by show Chain s op .fresh (x1.changeConfigR c).configs; rw [a1]; exact .step h1.chain (.adopt x1.configs q ne c hop hne hc),
                by show s.commitIndex ≤ (x1.changeConfigR c).commitIndex; rw [a4]; exact h1.ci,
                by show (x1.changeConfigR c).role = .follower; rw [a6]; exact h1.role⟩
            · exact h1
          · exact ih _ hrest h1

theorem fi_applyCommitted (h : FI s op x) : FI s op x.applyCommitted := h.congr (kfFsmFrame.applyCommitted_eq x)

theorem fi_appendCheck (h : FI s op x) (q : AppendReq) : FI s op (x.appendCheck q) := by
  unfold Node.appendCheck
  split
  · split
    · exact h.congr rfl
    · extract_lets x1 plt
      have h1 : FI s op x1 := by
        unfold x1
        split
        · exact h
        · split
          · exact h
          · exact h.congr (kf_panic _ _)
      split
      · exact h1.congr rfl
      · split
        · rename_i hcc
          have hgt : q.prevLogIndex > x1.commitIndex := by
            simp only [Node.canCommit, Bool.and_eq_true, decide_eq_true_eq] at hcc
            exact hcc.2
          exact (fi_applyCommitted (fi_setCommitIndexR h1 _ hgt)).congr rfl
        · exact h1.congr rfl
  · exact h.congr rfl

theorem setTerm_kf (x : Node) (t : Nat) : kf (x.setTerm t) = kf x := by
  unfold Node.setTerm
  split
  · split
    · unfold Node.storeTermVote Node.point
      dsimp only
      split <;> rfl
    · exact kf_panic _ _
  · rfl

/-- `onAppendEntries`: a stale request only sets the result; otherwise the node is a follower afterwards and every
move is an adoption, a revert or a commit -/
theorem onAppendEntries_fi (x : Node) (q : AppendReq) (hop : op = .append q) (hc : Chain s op .fresh x.configs)
    (hci : s.commitIndex ≤ x.commitIndex) :
    x.onAppendEntries q = x.ret rStaleTerm ∨ FI s op (x.onAppendEntries q) := by
  unfold Node.onAppendEntries
  split
  · exact Or.inl rfl
  · right
    extract_lets x1 x2 x3 st x4 x6 x5
    have h2 : FI s op x2 := by
      refine ⟨?_, ?_, rfl⟩
      · show Chain s op .fresh x1.configs
        unfold x1
        split
        · show Chain s op .fresh (x.setTerm q.term).configs
          rw [show (x.setTerm q.term).configs = x.configs from congrArg Prod.fst (setTerm_kf x q.term)]
          exact hc
        · exact hc
      · show s.commitIndex ≤ x1.commitIndex
        unfold x1
        split
        · show s.commitIndex ≤ (x.setTerm q.term).commitIndex
          rw [show (x.setTerm q.term).commitIndex = x.commitIndex from congrArg (fun p => p.2.1) (setTerm_kf x q.term)]
          exact hci
        · exact hci
    have h3 : FI s op x3 := fi_appendCheck h2 q
    split
    · exact h3
    · have h4 : FI s op x4 := fi_appendLoop hop q.entries _ (fun e he => he) h3
      have h5 : FI s op x5 := by
        unfold x5
        split
        · have h6 : FI s op x6 := h4.congr rfl
          split
          · rename_i hcc
            have hgt : st.index > x6.commitIndex := by
              simp only [Node.canCommit, Bool.and_eq_true, decide_eq_true_eq] at hcc
              exact hcc.2
            exact fi_applyCommitted (fi_setCommitIndexR h6 _ hgt)
          · exact h6
        · exact h4
      exact h5.congr rfl

theorem kf_fsmRestore (x : Node) : kf x.fsmRestore = kf x := by
  unfold Node.fsmRestore
  split
  · exact kf_panic _ _
  · split
    · rfl
    · exact kf_panic _ _

theorem kf_publishSnapshot (x : Node) (f : SnapFile) : kf (x.publishSnapshot f) = kf x := rfl

theorem kf_clearLog (x : Node) : kf x.clearLog = kf x := rfl

theorem onInstallSnap_fi (x : Node) (q : InstallReq) (hop : op = .install q) (hc : Chain s op .fresh x.configs)
    (hci : s.commitIndex ≤ x.commitIndex) :
    x.onInstallSnap q = x.ret rStaleTerm ∨ FI s op (x.onInstallSnap q) := by
  unfold Node.onInstallSnap
  split
  · exact Or.inl rfl
  · right
    extract_lets x1 x2 x3 x4 x5 x6 x7
    have h2 : FI s op x2 := by
      refine ⟨?_, ?_, rfl⟩
      · show Chain s op .fresh x1.configs
        unfold x1
        split
        · show Chain s op .fresh (x.setTerm q.term).configs
          rw [show (x.setTerm q.term).configs = x.configs from congrArg Prod.fst (setTerm_kf x q.term)]
          exact hc
        · exact hc
      · show s.commitIndex ≤ x1.commitIndex
        unfold x1
        split
        · show s.commitIndex ≤ (x.setTerm q.term).commitIndex
          rw [show (x.setTerm q.term).commitIndex = x.commitIndex from congrArg (fun p => p.2.1) (setTerm_kf x q.term)]
          exact hci
        · exact hci
    split
    · exact h2.congr rfl
    · rename_i hgt
      split
      · exact h2.congr rfl
      · have h5 : kf x5 = kf x2 := (kf_fsmRestore x4).trans ((kf_clearLog x3).trans (kf_publishSnapshot x2 _))
        have hguard := StepClosed.install_commit_guard x2 { index := q.lastIndex, term := q.lastTerm, config := q.lastConfig, data := q.data } hgt
        have hlt : s.commitIndex < q.lastIndex := by have := h2.ci; omega
        obtain ⟨a1, _, _, a4, _, a6, _, _⟩ := changeConfigR_fields x6 q.lastConfig
        obtain ⟨b1, _, _, b4, _, _, _, b8, _⟩ := commitConfig_fields x7
        have e5c : x5.configs = x2.configs := congrArg Prod.fst h5
        have e5i : x5.commitIndex = x2.commitIndex := congrArg (fun p => p.2.1) h5
        have e5r : x5.role = x2.role := congrArg (fun p => p.2.2) h5
        refine FI.congr (x := x7.commitConfig) ⟨?_, ?_, ?_⟩ rfl
        · rw [b1]
          show Chain s op .fresh ⟨(x6.changeConfigR q.lastConfig).configs.latest, (x6.changeConfigR q.lastConfig).configs.latest⟩
          rw [a1]
          exact .step h2.chain (.install x2.configs q hop hlt)
        · rw [b4]
          show s.commitIndex ≤ (x6.changeConfigR q.lastConfig).commitIndex
          rw [a4]
          show s.commitIndex ≤ x5.snapIndex
          have : x5.snapIndex > x5.commitIndex := hguard
          have := h2.ci
          omega
        · rw [b8]
          show (x6.changeConfigR q.lastConfig).role = .follower
          rw [a6]
          show x5.role = .follower
          rw [e5r]; exact h2.role

theorem setTerm_log (x : Node) (t : Nat) : (x.setTerm t).log = x.log := by
  unfold Node.setTerm
  split
  · split
    · exact (storeTermVote_fields x t 0).2.2.2.2.2.1
    · unfold Node.panic; split <;> rfl
  · rfl

theorem setTerm_pan (x : Node) (t : Nat) (h : x.panicked ≠ none) : (x.setTerm t).panicked ≠ none := by
  unfold Node.setTerm
  split
  · split
    · rw [(storeTermVote_fields x t 0).2.2.2.2.2.2]; exact h
    · exact panicked_panic _ _
  · exact h

theorem bootstrap_fin (hm : Main s op .fresh x) (hx : x.configs = s.configs) (hrl : s.role ≠ .leader) (t : Nat)
    (c : Config) (hop : op = .changeConfig t c) : Fin s op (x.bootstrap t c) := by
  have rep : ∀ r, Fin s op (x.reply t r) := fun r => ⟨_, hm.quiet (q_reply _ _ _)⟩
  unfold Node.bootstrap
  split
  · exact rep _
  · rename_i hnb
    split
    · exact rep _
    · split
      · exact rep _
      · rename_i self hself
        split
        · exact rep _
        · rename_i hvoter
          split
          · exact rep _
          · rename_i hstable
            extract_lets c' x1 x2 x3 x4 x5 x6
            have hv : self.voter = true := by simpa using hvoter
            have hst : c.isStable = true := by simpa using hstable
            have hnb' : s.configs.isBootstrapped = false := by rw [← hx]; simpa using hnb
            obtain ⟨a1, a2, a3, a4, _, _, _, _⟩ := appendEntry_key x c'.toEntry
            have e3c : x3.configs = x.configs := (congrArg Prod.fst (setTerm_kf x2 1)).trans a1
            have e3i : x3.commitIndex = x.commitIndex := (congrArg (fun p => p.2.1) (setTerm_kf x2 1)).trans a4
            obtain ⟨t1, _, _, _, t5, _⟩ := setTerm_key x2 1
            have e3n : x3.nid = x.nid := t1.trans a2
            have e3t : x.term ≤ x3.term := by
              have : x2.term = x.term := a3
              rw [← this]; exact t5
            obtain ⟨b1, b2, b3, b4, b5, _, _, b8, b9⟩ := changeConfigR_fields x4 c'
            have hself' : c.find? s.nid = some self := by rw [← hm.nid]; exact hself
            have hact : self.action = actNone := by
              have hmem : self ∈ c.nodes := List.mem_of_find?_eq_some hself
              unfold Config.isStable at hst
              have := List.all_eq_true.mp hst self hmem
              simpa using this
            have hanch : HasAnchor c' := ⟨x.nid, self, hself, hv, hact⟩
            have m5 : Main s op .fresh x5 := by
              refine ⟨?_, ?_, ?_, ?_, ?_, ?_, ?_⟩
              · rw [b1]
                show Chain s op .fresh ⟨x3.configs.latest, c'⟩
                rw [e3c, hx]
                exact .step .start (.bootstrap t c self hop hrl hnb' hself' hv hst)
              · rw [b2]; show x3.nid = s.nid; rw [e3n]; exact hm.nid
              · rw [b3]; show s.term ≤ x3.term; exact Nat.le_trans hm.term e3t
              · rw [b4]; show s.commitIndex ≤ x3.commitIndex; rw [e3i]; exact hm.ci
              · rw [b1, b5]; exact Nat.le_refl _
              · rw [b1]; exact Or.inr hanch
              · intro hs hp
                have hp3 : x3.panicked = none := by rw [b8] at hp; exact hp
                have hp2 : x2.panicked = none := by
                  cases h2 : x2.panicked with
                  | none => rfl
                  | some v => exact absurd hp3 (setTerm_pan x2 1 (by rw [h2]; simp))
                have hpx : x.panicked = none := appendEntry_pan' x _ hp2
                obtain ⟨c1, c2⟩ := hm.cl hs hpx
                have hl0 : x.configs.latest.index = 0 := by
                  have : ¬ (x.configs.latest.index > 0) := by
                    simpa [Configs.isBootstrapped, Config.isBootstrapped] using hnb
                  omega
                have hent : x5.log.entries = x.log.entries ++ [c'.toEntry] := by
                  rw [b9]
                  show x3.log.entries = _
                  rw [setTerm_log x2 1]
                  show (x1.log.commitN 1).entries = _
                  rw [commitN_entries]
                  exact appendEntry_entries x _
                refine ⟨fun e he ht => ?_, ?_⟩
                · rw [hent, List.mem_append, List.mem_singleton] at he
                  rw [b1]
                  show e.index ≤ x3.configs.latest.index ∨ e.index = c'.index
                  rw [e3c]
                  rcases he with h | h
                  · rcases c1 e h ht with h' | h'
                    · left; omega
                    · left; omega
                  · subst h; exact Or.inr rfl
                · rw [b1]
                  show x3.configs.latest.index ≤ c'.index
                  rw [e3c, hl0]
                  exact Nat.zero_le _
            exact ⟨_, (mainQ s op _).setRole _ _ ((mainQ s op _).reply _ _ _ m5)⟩

/-! ## every operation -/

/-- the leader's cached own entry is current (part of `C06Cache.LeaderCache`) -/
def SelfCache (s : Node) : Prop := s.role = .leader → s.ldr.node.voter = s.configs.latest.isVoter s.nid

/-- what is assumed of the operation: a batch of client entries holds no configuration entry (the client API has no
such task; `leader.doChangeConfig` is the only producer), and a submitted configuration has distinct member ids
(`Config.Nodes` is a Go map keyed by id) -/
def OpOk : Op → Prop
  | .newEntries b => ∀ q ∈ b, q.typ ≠ etConfig
  | .changeConfig _ c => (c.nodes.map (·.id)).Nodup
  | _ => True

theorem main_begin (s : Node) (op : Op) (ra : List Nat) (ord : List (List Nat))
    (hli : s.configs.latest.index ≤ s.lastLogIndex) (hanch : AnchC s.configs.latest) :
    Main s op .fresh (s.begin ra ord) :=
  ⟨.start, rfl, Nat.le_refl _, Nat.le_refl _, hli, hanch, fun hs _ => hs⟩

theorem handle_fin (s : Node) (op : Op) (ra : List Nat) (ord : List (List Nat)) (hsc : SelfCache s)
    (hli : s.configs.latest.index ≤ s.lastLogIndex) (hanch : AnchC s.configs.latest) (hok : OpOk op)
    (ha : ∀ q, op ≠ .append q) (hi : ∀ q, op ≠ .install q) : Fin s op ((s.begin ra ord).handle op) := by
  have m0 := main_begin s op ra ord hli hanch
  have Q := mainQ s op .fresh
  have hB : (s.begin ra ord).role = .leader → BI s op .fresh (s.begin ra ord) := fun hr =>
    ⟨m0, ⟨hsc hr, fun _ => hr⟩⟩
  cases op <;> unfold Node.handle <;> dsimp only
  case vote q => exact ⟨_, Q.rpcDone_q _ _ _ (Q.onVoteRequest_q _ _ m0)⟩
  case append q => exact absurd rfl (ha q)
  case install q => exact absurd rfl (hi q)
  case timeoutNow => exact ⟨_, Q.rpcDone_q _ _ _ (Q.onTimeoutNow_q _ m0)⟩
  case identity a b c => exact ⟨_, Q.rpcReply _ _ m0⟩
  case disconnected n =>
    split
    · exact ⟨_, Q.setLeader _ _ m0⟩
    · exact ⟨_, m0⟩
  case timeout =>
    split
    · exact ⟨_, Q.followerTimeout_q _ m0⟩
    · exact ⟨_, Q.startElection_q _ m0⟩
    · exact ⟨_, Q.checkQuorum_q _ m0⟩
  case newEntries b =>
    split
    · rename_i hr
      exact (storeEntry_step _ _ (hB hr) (.plain _ hok)).fin
    · exact ⟨_, Q.rejectEntries_q _ _ m0⟩
  case changeConfig t c =>
    split
    · rename_i hr
      exact onChangeConfig_fin (hB hr) t c hok
    · rename_i hr
      exact bootstrap_fin m0 rfl hr t c rfl
  case takeSnapshot t th => exact ⟨_, Q.onTakeSnapshot_q _ _ _ m0⟩
  case snapRun => exact ⟨_, Q.snapRun_q _ m0⟩
  case snapTaken => exact ⟨_, Q.onSnapshotTaken_q _ m0⟩
  case waitStable t =>
    split
    · exact ⟨_, Q.onWaitForStable_q _ _ m0⟩
    · exact ⟨_, Q.reply _ _ _ m0⟩
  case transfer t g =>
    split
    · exact ⟨_, Q.onTransfer_q _ _ _ m0⟩
    · exact ⟨_, Q.reply _ _ _ m0⟩
  case voteResult e t r =>
    split
    · exact ⟨_, Q.onVoteResult_q _ _ _ _ m0⟩
    · exact ⟨_, m0⟩
  case replUpdates us =>
    split
    · rename_i hr
      exact checkReplUpdates_fin (hB hr) us
    · exact ⟨_, m0⟩
  case transferTimeout =>
    split
    · rename_i hr
      exact (replyTransfer_step (hB hr.1) _).fin
    · exact ⟨_, m0⟩
  case timeoutNowResult a b c =>
    split
    · rename_i hr
      exact (onTimeoutNowResult_step (hB hr.1) _ _ _).fin
    · exact ⟨_, m0⟩
  case newTermTimeout =>
    split
    · exact ⟨_, Q.tryTransfer_q _ (Q.ldr _ _ m0)⟩
    · exact ⟨_, m0⟩
  case shutdown => exact ⟨_, Q.shutdown_q _ m0⟩

theorem kf_rpcDone (x : Node) (a b : Bool) : kf (x.rpcDone a b) = kf x := by
  unfold Node.rpcDone
  split
  · exact (kf_panic _ _).trans rfl
  · rfl


/-! ### the configuration entries of the log on the follower side (install only) -/

theorem q_leaderReleaseRest (x : Node) : Quiet x x.leaderReleaseRest := by
  unfold Node.leaderReleaseRest
  extract_lets x1 err x2 x3
  have h1 : Quiet x x1 := by
    unfold x1; split
    · exact ⟨rfl, id⟩
    · exact .refl _
  have h2 : Quiet x1 x2 := q_foldl _ (fun y q => q_reply _ _ _) _ _
  have h3 : Quiet x2 x3 := q_foldl _ (fun y q => q_reply _ _ _) _ _
  exact ((h1.trans h2).trans h3).trans (q_ldr _ _ rfl rfl)

theorem q_leaderRelease (x : Node) : Quiet x x.leaderRelease := by
  unfold Node.leaderRelease
  split
  · exact (q_transferReply _ _).trans (q_leaderReleaseRest _)
  · exact q_leaderReleaseRest _

theorem q_releaseRole (x : Node) (r : Role) : Quiet x (x.releaseRole r) := by
  unfold Node.releaseRole
  split
  · exact .refl _
  · exact ⟨rfl, id⟩
  · exact q_leaderRelease x

/-- after a handler that left the node a follower, the role transitions are bookkeeping -/
theorem settle_follower_q (f : Nat) (x : Node) (cur : Role) (hr : x.role = .follower) : Quiet x (settle f x cur) := by
  cases f with
  | zero => exact .refl _
  | succ n =>
    unfold settle
    split
    · exact .refl _
    · extract_lets x1 cur' x2
      have k : Quiet x x1 := q_releaseRole x cur
      have hr1 : x1.role = .follower := by rw [k.role]; exact hr
      have h2 : x2 = x1 := by
        unfold x2 Node.initRole
        split
        · rfl
        · rename_i h; rw [hr1] at h; cases h
        · rename_i h; rw [hr1] at h; cases h
      have hc : cur' = x2.role := by rw [h2]
      rw [hc, Node.settle_same]
      rw [h2]; exact k

/-- `onInstallSnap` and the configuration entries of the log: nothing changes, or the log is emptied and both
configurations are the snapshot's label -/
theorem onInstallSnap_logInv (x : Node) (q : InstallReq) (h : LogInv x) : LogInv (x.onInstallSnap q) := by
  unfold Node.onInstallSnap
  split
  · exact h.congr rfl (fun _ he => he)
  · extract_lets x1 x2 x3 x4 x5 x6 x7
    have h1 : LogInv x1 := by
      unfold x1
      split
      · refine h.congr (congrArg Prod.fst (setTerm_kf x q.term)) (fun e he => ?_)
        have : (x.setTerm q.term).log = x.log := setTerm_log x q.term
        rw [← this]; exact he
      · exact h
    have h2 : LogInv x2 := h1.congr rfl (fun _ he => he)
    split
    · exact h2.congr rfl (fun _ he => he)
    · split
      · exact h2.congr rfl (fun _ he => he)
      · obtain ⟨a1, _, _, _, _, _, _, _, a9⟩ := changeConfigR_fields x6 q.lastConfig
        obtain ⟨b1, _, _, _, _, _, _, _, b9⟩ := commitConfig_fields x7
        have hlog : x5.log.entries = [] := by
          have : x5.log = x4.log := by
            unfold x5 Node.fsmRestore
            split
            · unfold Node.panic; split <;> rfl
            · split
              · rfl
              · unfold Node.panic; split <;> rfl
          rw [this]; rfl
        refine LogInv.congr (x := x7.commitConfig) ⟨fun e he _ => ?_, ?_⟩ rfl (fun _ he => he)
        · rw [b9] at he
          have he' : e ∈ (x6.changeConfigR q.lastConfig).log.entries := he
          rw [a9] at he'
          have he'' : e ∈ x5.log.entries := he'
          rw [hlog] at he''
          cases he''
        · rw [b1]; exact Nat.le_refl _


end CfgRel
end Raft
