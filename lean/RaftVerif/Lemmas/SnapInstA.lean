/-
Installation of a snapshot, seen by the invariants of `Raft.Commit` (Sys/Commit.lean) and of the cluster system with
local snapshots (Sys/Snap.lean, invariant `SnapInv.SInv`).

When a follower installs a snapshot its WHOLE log is replaced by the committed prefix the snapshot stands for (in the
virtual log: `base := ` that prefix, `log := ` empty).  `cinv_replace`: the invariants `CInv` / `FsmInv` survive when one
node is replaced by a follower
* whose term did not decrease, whose vote is the old one (same term) or none (newer term), whose memory matches its disk,
* whose log is a completely flushed root path of the tree of created entries, covered by its commit index, every entry of
  which is committed (`Cmt`) and has a term not above the node's,
* whose state machine holds the payloads of that path,
* and — the one clause that is about the OLD log — such that every entry the old log held (with a term not above the old
  term) is still held, or is `Unsafe` (some entry of a later term does not extend it; this is what makes the
  acknowledgements the node gave earlier harmless).
`unsafe_of_committed`: the last clause holds when the new log is a committed path whose last entry the old log does
NOT hold — the condition under which `onInstallSnapRequest` discards the log (leader completeness, tree form).
-/
import RaftVerif.Lemmas.SnapInv

namespace Raft
namespace SnapInst
open Node Election LogRel Replication CommitRel Commit C02Sys C03Sys SnapSim

/-- what is required of the node `n` that replaces node `i` of the cluster `z` -/
structure ReplOK (z : Commit.Sys) (i : Nat) (n : Node) : Prop where
  nid : n.nid = (z.node i).nid
  tv : (n.term = (z.node i).term ∧ n.votedFor = (z.node i).votedFor) ∨ ((z.node i).term < n.term ∧ n.votedFor = 0)
  vwf : C05.VoteWF n
  role : n.role = .follower
  nwf : NWF n
  lwf : C06.LogWF n.log
  unfl : ∀ k, n.log.flushed < k → k ≤ n.log.entries.length →
    ∃ c ∈ z.T, c.e.index = k ∧ c.e.term = termAt n.log.entries k ∧ c.cr = i
  path : Path z.T n.log.entries
  termLe : ∀ e ∈ n.log.entries, e.term ≤ n.term
  commit : ∀ k, 1 ≤ k → k ≤ n.commitIndex → k ≤ n.log.entries.length ∧ Cmt z (k, termAt n.log.entries k) n.term
  fsm : FsmOK 0 n
  stable : ∀ b : Nat × Nat, DurHolds (z.node i) b → b.2 ≤ (z.node i).term → DurHolds n b ∨ Unsafe z.T b n.term

section replace
variable {V : List Nat} {z : Commit.Sys} {i : Nat} {n : Node}

theorem ReplOK.term_le (h : ReplOK z i n) : (z.node i).term ≤ n.term := by
  rcases h.tv with ⟨e, _⟩ | ⟨e, _⟩ <;> omega

theorem ReplOK.vstep (h : ReplOK z i n) : C05.VoteStep (z.node i) n := by
  refine ⟨h.term_le, fun he _ => ?_⟩
  rcases h.tv with ⟨_, e⟩ | ⟨e, _⟩
  · exact e
  · omega

/-- the cluster with node `i` replaced by `n` -/
def repl (z : Commit.Sys) (i : Nat) (n : Node) : Commit.Sys := withNodes z (setNode z.rp.el.node i n)

theorem repl_node_i (z : Commit.Sys) (i : Nat) (n : Node) : (repl z i n).node i = n := setNode_same _ _ _

theorem repl_node_j (z : Commit.Sys) (i : Nat) (n : Node) {j : Nat} (hj : j ≠ i) : (repl z i n).node j = z.node j :=
  setNode_other _ _ _ _ hj

theorem repl_term (h : ReplOK z i n) (j : Nat) : (z.node j).term ≤ ((repl z i n).node j).term := by
  by_cases hj : j = i
  · subst hj; rw [repl_node_i]; exact h.term_le
  · rw [repl_node_j _ _ _ hj]; exact Nat.le_refl _

theorem repl_el (hI : C01Sys.Inv V z.rp.el) (h : ReplOK z i n) : C01Sys.Inv V (repl z i n).rp.el := by
  refine ⟨fun j => ?_, fun g hg => ?_, hI.unique, fun j hr => ?_, fun j hl => ?_, hI.backed, fun c hc => ?_⟩
  · show ((repl z i n).node j).nid = j ∧ C05.VoteWF ((repl z i n).node j)
    by_cases hj : j = i
    · subst hj; rw [repl_node_i]; exact ⟨h.nid.trans (hI.ids j).1, h.vwf⟩
    · rw [repl_node_j _ _ _ hj]; exact hI.ids j
  · show C01Sys.HonouredBy ((repl z i n).node g.voter) g
    by_cases hj : g.voter = i
    · rw [hj, repl_node_i]
      have := hI.honoured g hg
      rw [hj] at this
      exact C01Sys.honouredBy_step this h.vstep
    · rw [repl_node_j _ _ _ hj]; exact hI.honoured g hg
  · have hr' : ((repl z i n).node j).role = .candidate := hr
    by_cases hj : j = i
    · subst hj; rw [repl_node_i, h.role] at hr'; cases hr'
    · rw [repl_node_j _ _ _ hj] at hr'
      exact (hI.cand j hr').transfer (y := (repl z i n).rp.el)
        (show ((repl z i n).node j).term = _ by rw [repl_node_j _ _ _ hj])
        (show ((repl z i n).node j).votesNeeded = _ by rw [repl_node_j _ _ _ hj]) (fun g hg => hg) rfl
  · have hl' : ((repl z i n).node j).role = .leader := hl
    show (j, ((repl z i n).node j).term) ∈ z.rp.el.won
    by_cases hj : j = i
    · subst hj; rw [repl_node_i, h.role] at hl'; cases hl'
    · rw [repl_node_j _ _ _ hj] at hl' ⊢
      exact hI.recorded j hl'
  · show c.2.1 ≤ ((repl z i n).node c.1).term
    exact Nat.le_trans (hI.countedTerm c hc) (repl_term h c.1)

theorem repl_rp (hI : Replication.Inv V z.rp) (h : ReplOK z i n) : Replication.Inv V (repl z i n).rp := by
  refine ⟨repl_el hI.el h, fun j => ?_, hI.uniq, hI.sent, fun j hl => ?_, fun c hc h0 j => ?_, fun c hc h0 => ?_⟩
  · show NWF ((repl z i n).node j) ∧ Chain z.rp.created none ((repl z i n).node j).log.entries
    by_cases hj : j = i
    · subst hj; rw [repl_node_i]; exact ⟨h.nwf, h.path.1⟩
    · rw [repl_node_j _ _ _ hj]; exact hI.nodes j
  · have hl' : ((repl z i n).node j).role = .leader := hl
    by_cases hj : j = i
    · subst hj; rw [repl_node_i, h.role] at hl'; cases hl'
    · rw [repl_node_j _ _ _ hj] at hl'; exact hI.ldrV j hl'
  · show c.e.term ≤ ((repl z i n).node j).term ∧ (((repl z i n).node j).role ≠ .follower → c.e.term < ((repl z i n).node j).term)
    by_cases hj : j = i
    · subst hj
      rw [repl_node_i]
      exact ⟨Nat.le_trans (hI.init0 c hc h0 j).1 h.term_le, fun hr => absurd h.role hr⟩
    · rw [repl_node_j _ _ _ hj]; exact hI.init0 c hc h0 j
  · show c.cr ∈ V ∧ _ ∧ c.e.term ≤ ((repl z i n).node c.cr).term ∧
      (((repl z i n).node c.cr).role = .leader → c.e.term = ((repl z i n).node c.cr).term →
        c.e.index ≤ ((repl z i n).node c.cr).lastLogIndex) ∧
      (((repl z i n).node c.cr).role = .candidate → c.e.term < ((repl z i n).node c.cr).term)
    obtain ⟨a1, a2, a3, a4, a5⟩ := hI.own c hc h0
    by_cases hj : c.cr = i
    · have e : (repl z i n).node c.cr = n := by rw [hj]; exact repl_node_i _ _ _
      rw [e]
      rw [hj] at a3
      refine ⟨a1, a2, Nat.le_trans a3 h.term_le, fun hl => ?_, fun hl => ?_⟩
      · rw [h.role] at hl; cases hl
      · rw [h.role] at hl; cases hl
    · rw [repl_node_j _ _ _ hj]; exact ⟨a1, a2, a3, a4, a5⟩

theorem repl_tree (hI : TreeI V z) (h : ReplOK z i n) : TreeI V (repl z i n) := by
  refine ⟨hI.ok, fun c hc h0 => ?_, fun c hc h0 hl ht => ?_⟩
  · obtain ⟨k, hk, a1, a2, a3, a4, Q, q1, q2, q3, q4⟩ := hI.crElect c hc h0
    refine ⟨k, hk, a1, a2, a3, a4, Q, q1, q2, q3, fun v hv => ?_⟩
    show c.e.term ≤ ((repl z i n).node v).term ∧ UpTo z k v
    exact ⟨Nat.le_trans (q4 v hv).1 (repl_term h v), (q4 v hv).2⟩
  · have hl' : ((repl z i n).node c.cr).role = .leader := hl
    have ht' : ((repl z i n).node c.cr).term = c.e.term := ht
    show Holds ((repl z i n).node c.cr).log.entries c.e.index c.e.term
    by_cases hj : c.cr = i
    · rw [hj, repl_node_i, h.role] at hl'; cases hl'
    · rw [repl_node_j _ _ _ hj] at hl' ht' ⊢
      exact hI.ownLog c hc h0 hl' ht'

theorem repl_node (hI : NodeI z) (h : ReplOK z i n) : NodeI (repl z i n) := by
  have key : ∀ j, j ≠ i → (repl z i n).node j = z.node j := fun j hj => repl_node_j _ _ _ hj
  refine ⟨fun j => ?_, fun j => ?_, fun j k => ?_, fun j hr => ?_, fun j hr => ?_, fun j hl => ?_⟩
  · by_cases hj : j = i
    · subst hj; rw [repl_node_i]; exact h.lwf
    · rw [key j hj]; exact hI.lwf j
  · by_cases hj : j = i
    · subst hj; rw [repl_node_i]; exact h.termLe
    · rw [key j hj]; exact hI.termLe j
  · show ((repl z i n).node j).log.flushed < k → k ≤ ((repl z i n).node j).log.entries.length →
      ∃ c ∈ z.T, c.e.index = k ∧ c.e.term = termAt ((repl z i n).node j).log.entries k ∧ c.cr = j
    by_cases hj : j = i
    · subst hj
      rw [repl_node_i]
      exact h.unfl k
    · rw [key j hj]; exact hI.unfl j k
  · by_cases hj : j = i
    · subst hj; rw [repl_node_i] at hr; exact absurd h.role hr
    · rw [key j hj] at hr ⊢; exact hI.roleVoter j hr
  · show ∃ k ∈ z.camps, k.cand = j ∧ k.term = ((repl z i n).node j).term ∧
      k.lastIndex ≤ ((repl z i n).node j).log.entries.length ∧
      (1 ≤ k.lastIndex → termAt ((repl z i n).node j).log.entries k.lastIndex = k.lastTerm) ∧
      (((repl z i n).node j).role = .candidate → k.lastIndex = ((repl z i n).node j).log.entries.length)
    by_cases hj : j = i
    · subst hj; rw [repl_node_i] at hr; exact absurd h.role hr
    · rw [key j hj] at hr ⊢; exact hI.camp j hr
  · have hl' : ((repl z i n).node j).role = .leader := hl
    show LeadOK (Commit.Backed (repl z i n) j) ((repl z i n).node j)
    by_cases hj : j = i
    · subst hj; rw [repl_node_i, h.role] at hl'; cases hl'
    · rw [key j hj] at hl' ⊢
      refine (hI.ldr j hl').mono (fun v m hb => ?_)
      obtain ⟨a, ha, a1, a2, a3⟩ := hb
      exact ⟨a, ha, a1, by show a.term = ((repl z i n).node j).term; rw [key j hj]; exact a2, a3⟩

theorem repl_sent (hI : SentI V z) (h : ReplOK z i n) : SentI V (repl z i n) := by
  refine ⟨fun q hq => ?_, hI.term, hI.anc, hI.cmt⟩
  show q.src ≠ 0 ∧ q.src ∈ V ∧ (q.src, q.term) ∈ z.rp.el.won ∧ q.term ≤ ((repl z i n).node q.src).term ∧
    (((repl z i n).node q.src).role = .candidate → q.term < ((repl z i n).node q.src).term)
  obtain ⟨a1, a2, a3, a4, a5⟩ := hI.won q hq
  by_cases hj : q.src = i
  · have e : (repl z i n).node q.src = n := by rw [hj]; exact repl_node_i _ _ _
    rw [e]
    rw [hj] at a4
    refine ⟨a1, a2, a3, Nat.le_trans a4 h.term_le, fun hr => ?_⟩
    rw [h.role] at hr; cases hr
  · rw [repl_node_j _ _ _ hj]; exact ⟨a1, a2, a3, a4, a5⟩

theorem unsafe_mono {T : List CEntry} {b : Nat × Nat} {u u' : Nat} (hu : u ≤ u') (h : Unsafe T b u) : Unsafe T b u' := by
  obtain ⟨c, hc, h1, h2, h3⟩ := h
  exact ⟨c, hc, h1, Nat.le_trans h2 hu, h3⟩

theorem repl_ack (hI : AckI z) (h : ReplOK z i n) : AckI (repl z i n) := by
  refine ⟨fun a ha => ?_, hI.src, fun a ha b hb hanc => ?_⟩
  · show 1 ≤ a.index ∧ a.term ≤ ((repl z i n).node a.voter).term ∧ a.eterm ≤ a.term ∧ ∃ c ∈ z.T, key c = a.key
    obtain ⟨a1, a2, a3, a4⟩ := hI.wf a ha
    exact ⟨a1, Nat.le_trans a2 (repl_term h a.voter), a3, a4⟩
  · show DurHolds ((repl z i n).node a.voter) b ∨ Unsafe z.T b ((repl z i n).node a.voter).term
    by_cases hj : a.voter = i
    · rw [hj, repl_node_i]
      have hw := (hI.wf a ha).2.1
      have hs := hI.stable a ha b hb hanc
      rw [hj] at hw hs
      rcases hs with d | u
      · exact h.stable b d (by rw [hb]; exact hw)
      · exact Or.inr (unsafe_mono h.term_le u)
    · rw [repl_node_j _ _ _ hj]; exact hI.stable a ha b hb hanc

theorem repl_vote (hI : VoteI V z) (h : ReplOK z i n) : VoteI V (repl z i n) := by
  refine ⟨hI.campUniq, fun k hk => ?_, fun v h0 hv => ?_, fun v h0 k hk hc ht => ?_, hI.grantInv, hI.electInv,
    hI.countedGrant, hI.grantCamp⟩
  · show k.cand ≠ 0 ∧ k.term ≤ ((repl z i n).node k.cand).term ∧ _
    obtain ⟨a1, a2, a3⟩ := hI.campWf k hk
    exact ⟨a1, Nat.le_trans a2 (repl_term h k.cand), a3⟩
  · have h0' : ((repl z i n).node v).votedFor ≠ 0 := h0
    have hv' : ((repl z i n).node v).votedFor ≠ v := hv
    show ∃ k ∈ z.camps, k.cand = ((repl z i n).node v).votedFor ∧ k.term = ((repl z i n).node v).term
    by_cases hj : v = i
    · subst hj
      rw [repl_node_i] at h0' hv' ⊢
      rcases h.tv with ⟨e1, e2⟩ | ⟨_, e2⟩
      · rw [e1, e2]; rw [e2] at h0' hv'; exact hI.voteCamp v h0' hv'
      · exact absurd e2 h0'
    · rw [repl_node_j _ _ _ hj] at h0' hv' ⊢; exact hI.voteCamp v h0' hv'
  · have h0' : ((repl z i n).node v).votedFor ≠ 0 := h0
    have hc' : k.cand = ((repl z i n).node v).votedFor := hc
    have ht' : k.term = ((repl z i n).node v).term := ht
    by_cases hj : v = i
    · subst hj
      rw [repl_node_i] at h0' hc' ht'
      rcases h.tv with ⟨e1, e2⟩ | ⟨_, e2⟩
      · rw [e2] at h0' hc'; rw [e1] at ht'; exact hI.voteInv v h0' k hk hc' ht'
      · exact absurd e2 h0'
    · rw [repl_node_j _ _ _ hj] at h0' hc' ht'; exact hI.voteInv v h0' k hk hc' ht'

theorem repl_cmt (hI : CmtI V z) (h : ReplOK z i n) : CmtI V (repl z i n) := by
  refine ⟨hI.quorum, hI.lc, fun j k hk hkc => ?_⟩
  have hkc' : k ≤ ((repl z i n).node j).commitIndex := hkc
  show k ≤ ((repl z i n).node j).log.entries.length ∧
    Cmt z (k, termAt ((repl z i n).node j).log.entries k) ((repl z i n).node j).term
  by_cases hj : j = i
  · subst hj
    rw [repl_node_i] at hkc' ⊢
    exact h.commit k hk hkc'
  · rw [repl_node_j _ _ _ hj] at hkc' ⊢; exact hI.cc j k hk hkc'

/-- **the invariants of `Raft.Commit` survive the replacement of a node by a follower whose log is a committed root
path** (`ReplOK`) -/
theorem cinv_replace (hI : CInv V z) (hF : FsmInv z) (h : ReplOK z i n) :
    CInv V (repl z i n) ∧ FsmInv (repl z i n) := by
  refine ⟨⟨repl_rp hI.rp h, repl_tree hI.tree h, repl_node hI.node h, repl_sent hI.sent h, repl_ack hI.ack h,
    repl_vote hI.vote h, repl_cmt hI.cmt h⟩, fun j => ?_⟩
  show FB ((repl z i n).node j)
  by_cases hj : j = i
  · subst hj
    rw [repl_node_i]
    exact ⟨h.fsm, fun hl => by rw [h.role] at hl; cases hl⟩
  · rw [repl_node_j _ _ _ hj]; exact hF j

end replace

/-- **a node that only adopted a newer term and became follower** (its log, commit index and state machine as before)
may replace the old one -/
theorem replOK_same {V : List Nat} {z : Commit.Sys} (hI : CInv V z) (hF : FsmInv z) {i : Nat} {n : Node}
    (nid : n.nid = (z.node i).nid)
    (tv : (n.term = (z.node i).term ∧ n.votedFor = (z.node i).votedFor) ∨ ((z.node i).term < n.term ∧ n.votedFor = 0))
    (vwf : C05.VoteWF n) (role : n.role = .follower) (hlog : n.log = (z.node i).log)
    (hli : n.lastLogIndex = (z.node i).lastLogIndex) (hlt : n.lastLogTerm = (z.node i).lastLogTerm)
    (hsi : n.snapIndex = (z.node i).snapIndex) (hsd : n.snapsDisk = (z.node i).snapsDisk)
    (hci : n.commitIndex = (z.node i).commitIndex) (hfsm : n.fsm = (z.node i).fsm) : ReplOK z i n := by
  have hle : (z.node i).term ≤ n.term := by rcases tv with ⟨e, _⟩ | ⟨e, _⟩ <;> omega
  refine ⟨nid, tv, vwf, role, nwf_congr (nwf hI i) hlog hli hlt hsi hsd, by rw [hlog]; exact hI.node.lwf i,
    by rw [hlog]; exact hI.node.unfl i, by rw [hlog]; exact log_path hI i, fun e he => ?_, fun k h1 h2 => ?_, ?_,
    fun b hb _ => Or.inl ?_⟩
  · rw [hlog] at he
    exact Nat.le_trans (hI.node.termLe i e he) hle
  · rw [hci] at h2
    rw [hlog]
    obtain ⟨a, m, hm, m1, m2⟩ := hI.cmt.cc i k h1 h2
    exact ⟨a, m, hm, Nat.le_trans m1 hle, m2⟩
  · obtain ⟨f, _⟩ := hF i
    exact ⟨by rw [hfsm, hci]; exact f.le, by rw [hfsm, hlog]; exact f.len, by rw [hfsm, hlog]; exact f.applied,
      Nat.zero_le _⟩
  · unfold DurHolds at hb ⊢
    rw [hlog]; exact hb

/-! ### the clause about the old log -/

section committed
variable {V : List Nat} {z : Commit.Sys}

theorem holds_last_of_path {P : List Entry} (hne : 1 ≤ P.length) : Holds P P.length (lastTerm P) :=
  ⟨hne, Nat.le_refl _, termAt_length P⟩

/-- **what the discarded log held is not lost.** Let `P` be a root path whose last entry is committed by a leader of a
term `≤ u`, and let the log of node `i` NOT hold that last entry. Then every entry `b` the log of `i` holds is an entry
of `P` — or some entry of a term in `(b.term, u]` does not extend it (`Unsafe`): an acknowledgement `i` gave for `b` can
no longer take part in committing anything in a term up to `u` that does not lie on the path of the committed entry.
(Leader completeness in tree form: `CmtI.lc`, `TreeOK.tblock`.) -/
theorem stable_of_committed (hI : CInv V z) {i : Nat} {P : List Entry} (hP : Path z.T P) (hne : 1 ≤ P.length)
    {u : Nat} (hc : Cmt z (P.length, lastTerm P) u)
    (hnot : ¬ Holds (z.node i).log.entries P.length (lastTerm P)) :
    ∀ b : Nat × Nat, Holds (z.node i).log.entries b.1 b.2 → Holds P b.1 b.2 ∨ Unsafe z.T b u := by
  intro b hb
  have hU := uniq hI
  have hL : Holds P P.length (lastTerm P) := holds_last_of_path hne
  obtain ⟨m, hm, hmu, hLm⟩ := hc
  obtain ⟨⟨cm, hcm, hcmk, _⟩, _⟩ := hI.cmt.quorum m hm
  obtain ⟨cb, hcb, hcbk⟩ := log_record hI i hb
  have hbb : (b.1, b.2) = b := rfl
  rw [hbb] at hcbk
  -- the old log cannot hold anything that extends the last entry of `P`
  have noext : ∀ {y : Nat × Nat}, Anc z.T (P.length, lastTerm P) y → ¬ Holds (z.node i).log.entries y.1 y.2 :=
    fun ha hy => hnot (log_holds_anc hI i ha hy)
  by_cases hbm : Anc z.T b m
  · by_cases hle : b.1 ≤ P.length
    · left
      have hbL : Anc z.T b (P.length, lastTerm P) := hbm.comparable hU hLm hle
      exact hbL.on_path hU hP hL
    · exact absurd hb (noext (hLm.comparable hU hbm (by show P.length ≤ b.1; omega)))
  · by_cases h1 : b.2 < m.2
    · right
      refine ⟨cm, hcm, ?_, ?_, ?_⟩
      · have : cm.e.term = m.2 := by unfold key at hcmk; rw [← hcmk]
        rw [this]; exact h1
      · have : cm.e.term = m.2 := by unfold key at hcmk; rw [← hcmk]
        rw [this]; exact hmu
      · rw [hcmk]; exact hbm
    · have hcbt : cb.e.term = b.2 := by unfold key at hcbk; rw [← hcbk]
      have hcbi : cb.e.index = b.1 := by unfold key at hcbk; rw [← hcbk]
      have hcmt : cm.e.term = m.2 := by unfold key at hcmk; rw [← hcmk]
      have hcmi : cm.e.index = m.1 := by unfold key at hcmk; rw [← hcmk]
      have hmb : Anc z.T m b := by
        by_cases h2 : m.2 < b.2
        · have := hI.cmt.lc m hm cb hcb (by rw [hcbt]; exact h2)
          rw [hcbk] at this
          exact this
        · have heq : cm.e.term = cb.e.term := by rw [hcbt, hcmt]; omega
          by_cases h3 : cb.e.index ≤ cm.e.index
          · exfalso
            have := hI.tree.ok.tblock cb hcb cm hcm heq.symm h3
            rw [hcbk, hcmk] at this
            exact hbm this
          · have := hI.tree.ok.tblock cm hcm cb hcb heq (by omega)
            rw [hcbk, hcmk] at this
            exact this
      exact absurd hb (noext (hLm.trans hU hmb))

/-- the terms along a root path whose last entry is committed by a leader of a term `≤ u` are `≤ u` -/
theorem cmt_prefix {a c : Nat × Nat} {u : Nat} (hU : Uniq z.T) (ha : Anc z.T a c) (hc : Cmt z c u) : Cmt z a u := by
  obtain ⟨m, hm, h1, h2⟩ := hc
  exact ⟨m, hm, h1, ha.trans hU h2⟩

/-- every key of a root path is committed when its last key is -/
theorem path_cmt {P : List Entry} (hU : Uniq z.T) (hP : Path z.T P) {u : Nat} (hne : 1 ≤ P.length)
    (hc : Cmt z (P.length, lastTerm P) u) : ∀ k, 1 ≤ k → k ≤ P.length → Cmt z (k, termAt P k) u := by
  intro k h1 h2
  exact cmt_prefix hU (anc_of_path hP (a := (k, termAt P k)) (c := (P.length, lastTerm P)) ⟨h1, h2, rfl⟩
    (holds_last_of_path hne) h2) hc

/-- **a committed root path and a log agree on what the log's commit index covers** -/
theorem path_agree_commit (hI : CInv V z) {P : List Entry} (hP : Path z.T P) {u : Nat} (hne : 1 ≤ P.length)
    (hc : Cmt z (P.length, lastTerm P) u) (j : Nat) (F : Nat) (hF : F ≤ (z.node j).commitIndex) (hFP : F ≤ P.length) :
    P.take F = (z.node j).log.entries.take F := by
  by_cases h0 : F = 0
  · rw [h0]; rfl
  · have hF1 : 1 ≤ F := by omega
    obtain ⟨hhj, m', hm', _, m2'⟩ := covered_committed hI hF1 hF
    obtain ⟨m, hm, _, m2⟩ := path_cmt (uniq hI) hP hne hc F hF1 hFP
    have := committed_unique hI (a := (F, termAt P F)) (a' := (F, termAt (z.node j).log.entries F))
      ⟨m, hm, m2⟩ ⟨m', hm', m2'⟩ rfl
    have ht : termAt P F = termAt (z.node j).log.entries F := congrArg Prod.snd this
    exact SnapInv.take_of_paths (uniq hI) hP (log_path hI j) hFP hhj.2.1 ht

end committed

/-! ### the cluster with local snapshots (stage 1, `SnapInv.SInv`) -/

section snap
open SnapRel SnapInv Snap
variable {V : List Nat}

theorem eview_repl (z : Commit.Sys) (i : Nat) (n : Node) : eview (repl z i n) = repl (eview z) i (E σ0 n) := by
  unfold eview repl withNodes
  have : (fun j => E σ0 (setNode z.rp.el.node i n j)) = setNode (fun j => E σ0 (z.rp.el.node j)) i (E σ0 n) :=
    setNode_E z.rp.el.node i n
  simp only [Commit.Sys.node]
  rw [this]

/-- what is required of the (virtual) node `n` that replaces node `i` of the cluster with snapshots `x` -/
structure VRepl (x : Snap.Sys) (i : Nat) (n : Node) : Prop where
  basic : ReplOK (eview x.cs) i (E σ0 n)
  snap : SnapOK n
  ci : (x.node i).commitIndex ≤ n.commitIndex
  keep : n.log.entries.take (x.node i).commitIndex = (x.node i).log.entries.take (x.node i).commitIndex
  mono : (x.node i).snapIndex ≤ n.snapIndex
  files : ∀ g ∈ n.snapsDisk, g ∈ (x.node i).snapsDisk ∨
    (1 ≤ g.index ∧ g.index ≤ n.snapIndex ∧ g.data = ups (n.log.entries.take g.index))

/-- **the invariant of the cluster with snapshots survives the replacement of a node's log by a committed root path**
(`VRepl`; the ledgers stay, the snapshot files that appear are recorded) -/
theorem sinv_replace {x : Snap.Sys} (hI : SInv V x) {i : Nat} {n : Node} (h : VRepl x i n) :
    SInv V { cs := repl x.cs i n
             snaps := newSnaps i (x.node i).snapsDisk n.snapsDisk ++ x.snaps } := by
  have hni : (repl x.cs i n).node i = n := repl_node_i _ _ _
  have hnj : ∀ j, j ≠ i → (repl x.cs i n).node j = x.node j := fun j hj => repl_node_j _ _ _ hj
  obtain ⟨c1, c2⟩ := cinv_replace hI.cinv hI.fsm h.basic
  have so := hI.snap i
  have hsc : (x.node i).snapIndex ≤ (x.node i).commitIndex := by rw [so.head]; exact so.files.head_le
  refine ⟨by rw [eview_repl]; exact c1, by rw [eview_repl]; exact c2, fun j => ?_, fun p hp' => ?_⟩
  · show SnapOK ((repl x.cs i n).node j)
    by_cases hj : j = i
    · subst hj; rw [hni]; exact h.snap
    · rw [hnj j hj]; exact hI.snap j
  · show 1 ≤ p.2.index ∧ p.2.index ≤ ((repl x.cs i n).node p.1).snapIndex ∧
      p.2.data = ups (((repl x.cs i n).node p.1).log.entries.take p.2.index)
    rcases List.mem_append.mp hp' with hn | ho
    · unfold newSnaps at hn
      obtain ⟨g, hg, rfl⟩ := List.mem_map.mp hn
      obtain ⟨hg1, hg2⟩ := List.mem_filter.mp hg
      rw [hni]
      rcases h.files g hg1 with hin | ⟨a, b, c⟩
      · simp [hin] at hg2
      · exact ⟨a, b, c⟩
    · obtain ⟨a, b, c⟩ := hI.ledger p ho
      by_cases hj : p.1 = i
      · rw [hj, hni]
        rw [hj] at b c
        refine ⟨a, Nat.le_trans b h.mono, ?_⟩
        have hle : p.2.index ≤ (x.node i).commitIndex := Nat.le_trans b hsc
        have := congrArg (List.take p.2.index) h.keep
        rw [List.take_take, List.take_take, Nat.min_eq_left hle] at this
        rw [this]; exact c
      · rw [hnj _ hj]; exact ⟨a, b, c⟩

end snap

end SnapInst
end Raft
