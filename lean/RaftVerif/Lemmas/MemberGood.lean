/-
Node-level layer for discharging the side conditions of the membership-change theorems (Props/C08Member.lean):
WHAT a leader writes into a configuration entry.

Part A — `CfgAll c`: the content of a configuration that every node can hold and that keeps the cluster out of the
single-voter regime: member ids strictly increasing (the model's representation of a Go map), every member's action one
of the five defined ones and never `Promote` on a voter (`Node.validate`), and TWO anchors — voters without pending
action (`NoPanic.AnchoredT true`). It is preserved by the configurations `leader.checkConfigActions` /
`leader.checkConfigAction` derive (`Config.set` / `Config.erase` at a node with a pending action), and holds of a
submitted configuration that passed `Config.validate` and `NoPanic.UserCfg true`.
Part B — `K b s`: relative to the state `b` a step started from — the log is `b`'s plus new entries; every
configuration entry of the log carries a `CfgAll` configuration (`EntOK`); the latest configuration is `CfgAll` (or empty);
the leader's cached own voter flag is current; and THE FIRST configuration entry appended since `b` (if any) has voting
rights that differ from those of `b.configs.latest` at one node at most (`C08.AdjacentVoters`) — all claimed while
nothing has failed. A closure principle for the mutually recursive leader block (`block`), phase-free: the
configuration a handler works on has the voters of `b.configs.latest` AS LONG AS NO CONFIGURATION ENTRY WAS APPENDED
(`Rel`), which is all the first entry needs.
Part C — the handlers around the block, `leader.init`, the role transitions, and one whole step (`step_content`).
-/
import RaftVerif.Lemmas.MemberCommit
import RaftVerif.Lemmas.NoPanic
import RaftVerif.Lemmas.QuorumRel

namespace Raft
namespace MemberGood
open Node CfgRel NoPanic

/-! ## Part A: the content of a configuration -/

/-- what every configuration (entry) of a run is: member ids strictly increasing, every action defined and never
`Promote` on a voter, two voters without pending action -/
structure CfgAll (c : Config) : Prop where
  sorted : c.nodes.Pairwise (fun a b => a.id < b.id)
  acts : ∀ n ∈ c.nodes, n.action ≤ 4 ∧ (n.voter = true → n.action ≠ actPromote)
  anch : AnchoredT true c

/-- the empty configuration (a node that holds none), or a `CfgAll` one -/
def PZ (c : Config) : Prop := c.nodes = [] ∨ CfgAll c

/-- a configuration entry carries a `CfgAll` configuration -/
def EntOK (e : Entry) : Prop := e.typ = etConfig → ∃ c, e.cfg = some c ∧ CfgAll c

theorem CfgAll.congr {c c' : Config} (h : CfgAll c) (e : c'.nodes = c.nodes) : CfgAll c' :=
  ⟨by rw [e]; exact h.sorted, by rw [e]; exact h.acts, h.anch.congr e⟩

theorem PZ.congr {c c' : Config} (h : PZ c) (e : c'.nodes = c.nodes) : PZ c' :=
  h.imp (fun h => e.trans h) (fun h => h.congr e)

theorem sorted_insert (n : CNode) : ∀ (l : List CNode), l.Pairwise (fun a b => a.id < b.id) →
    (Config.insertSorted n l).Pairwise (fun a b => a.id < b.id) := by
  intro l
  induction l with
  | nil => intro _; exact List.pairwise_singleton _ _
  | cons m ms ih =>
    intro h
    obtain ⟨h1, h2⟩ := List.pairwise_cons.mp h
    unfold Config.insertSorted
    split
    · rename_i hlt
      refine List.pairwise_cons.mpr ⟨fun x hx => ?_, h⟩
      rcases List.mem_cons.mp hx with e | e
      · rw [e]; exact hlt
      · exact Nat.lt_trans hlt (h1 x e)
    · split
      · rename_i _ heq
        exact List.pairwise_cons.mpr ⟨fun x hx => by rw [heq]; exact h1 x hx, h2⟩
      · rename_i hnlt hne
        refine List.pairwise_cons.mpr ⟨fun x hx => ?_, ih h2⟩
        rcases mem_insertSorted hx with e | e
        · rw [e]; omega
        · exact h1 x e

/-- the node `get` returns when it carries an action is a member -/
theorem get_mem {c : Config} {id : Nat} (h : (c.get id).action ≠ actNone) : c.get id ∈ c.nodes ∧ (c.get id).id = id :=
  find_spec (get_action_ne h)

theorem nextAction_ne' {n : CNode} (h : n.nextAction ≠ actNone) : n.action ≠ actNone := nextAction_ne h

theorem CfgAll.set {c : Config} (h : CfgAll c) (n' : CNode)
    (hn : (c.get n'.id).nextAction ≠ actNone ∨ (c.get n'.id).action ≠ actNone)
    (ha : n'.action ≤ 4 ∧ (n'.voter = true → n'.action ≠ actPromote)) : CfgAll (c.set n') := by
  refine ⟨sorted_insert n' c.nodes h.sorted, fun x hx => ?_, h.anch.set n' hn⟩
  rcases mem_insertSorted hx with e | e
  · rw [e]; exact ha
  · exact h.acts x e

theorem CfgAll.erase {c : Config} (h : CfgAll c) (x : Nat)
    (hn : (c.get x).nextAction ≠ actNone ∨ (c.get x).action ≠ actNone) : CfgAll (c.erase x) := by
  refine ⟨List.Pairwise.filter _ h.sorted, fun y hy => ?_, h.anch.erase x hn⟩
  exact h.acts y (List.mem_filter.mp hy).1

/-- a configuration in which some node carries an action is not empty -/
theorem PZ.of_get {c : Config} {id : Nat} (h : PZ c) (ha : (c.get id).action ≠ actNone) : CfgAll c := by
  rcases h with h | h
  · have := (get_mem ha).1
    rw [h] at this; cases this
  · exact h

/-- the configuration `checkConfigAction` proposes -/
theorem cfgAll_actionConfig {id : Nat} {c c' : Config} {li : Nat} {st : Repl} (h : CfgAll c)
    (hn : (c.get id).nextAction ≠ actNone)
    (ha : actionConfig li c (c.get id) (c.get id).nextAction st = some c') : CfgAll c' := by
  have hact := nextAction_ne hn
  obtain ⟨hmem, hid⟩ := get_mem hact
  have hacts := h.acts _ hmem
  unfold actionConfig at ha
  have hset : ∀ n' : CNode, n'.id = id → (n'.action ≤ 4 ∧ (n'.voter = true → n'.action ≠ actPromote)) →
      CfgAll (c.set n') := fun n' e k => h.set n' (Or.inl (by rw [e]; exact hn)) k
  have herase : CfgAll (c.erase (c.get id).id) := by rw [hid]; exact h.erase id (Or.inl hn)
  split at ha
  · injection ha with ha; rw [← ha]
    exact hset _ hid ⟨Nat.zero_le _, fun _ => (by decide : (0 : Nat) ≠ 1)⟩
  · split at ha
    · split at ha
      · injection ha with ha; rw [← ha]; exact herase
      · cases ha
    · split at ha
      · injection ha with ha; rw [← ha]; exact herase
      · split at ha
        · injection ha with ha; rw [← ha]
          refine hset _ hid ⟨?_, fun hv => by cases hv⟩
          show (if (c.get id).action = actDemote then actNone else (c.get id).action) ≤ 4
          split
          · exact Nat.zero_le _
          · exact hacts.1
        · cases ha

/-- the leader's own entry: demoted -/
theorem cfgAll_demoteSelf {nid : Nat} {c : Config} (h : CfgAll c) (ha : (c.get nid).action ≠ actNone) :
    CfgAll (c.set { c.get nid with voter := false, action := actNone }) :=
  h.set _ (Or.inr (by
    show (c.get ({ c.get nid with voter := false, action := actNone } : CNode).id).action ≠ actNone
    rw [show ({ c.get nid with voter := false, action := actNone } : CNode).id = (c.get nid).id from rfl,
      (get_mem ha).2]
    exact ha)) ⟨Nat.zero_le _, fun hv => by cases hv⟩

theorem cfgAll_removeSelf {nid : Nat} {c : Config} (h : CfgAll c) (ha : (c.get nid).action ≠ actNone) :
    CfgAll (c.erase nid) := h.erase nid (Or.inr ha)

/-- ids strictly increasing: no duplicates -/
theorem ids_nodup {c : Config} (h : c.nodes.Pairwise (fun a b => a.id < b.id)) : c.ids.Nodup := by
  unfold Config.ids
  rw [List.nodup_iff_pairwise_ne, List.pairwise_map]
  exact h.imp (fun hlt => Nat.ne_of_lt hlt)

theorem CfgAll.voters_nodup {c : Config} (h : CfgAll c) : c.voters.Nodup :=
  QuorumRel.voters_nodup c (ids_nodup h.sorted)

theorem CfgAll.two {c : Config} (h : CfgAll c) : 2 ≤ c.numVoters := numVoters_of_anchored2 (h.anch.2 rfl)

theorem CfgAll.quorum_ne_one {c : Config} (h : CfgAll c) : c.quorum ≠ 1 := by
  have := h.two
  unfold Config.quorum
  omega

/-- every node can hold a `CfgAll` configuration -/
theorem CfgAll.cfgOk {c : Config} (h : CfgAll c) (nid : Nat) : CfgOk true nid c := by
  refine ⟨?_, fun _ => h.anch⟩
  unfold SelfAct
  rcases NoPanic.get_id c nid with e | e
  · by_cases ha : (c.get nid).action = actNone
    · rw [ha]; exact ⟨Nat.zero_le _, fun _ => by decide⟩
    · exact h.acts _ (get_mem ha).1
  · rw [e]; exact ⟨Nat.zero_le _, fun hv => by cases hv⟩

theorem PZ.cfgOk {c : Config} (h : PZ c) (nid : Nat) : CfgOk true nid c := by
  rcases h with h | h
  · exact (cfgOk_empty true nid).congr h
  · exact h.cfgOk nid

/-- a submitted configuration that passed `Config.validate`, with ids strictly increasing and two voters without action
(`NoPanic.UserCfg true`) -/
theorem cfgAll_user {nid : Nat} {c : Config} (hu : UserCfg true nid c) (hv : configValid c = true) : CfgAll c := by
  have h2 := hu.2.2 rfl
  have hany : c.nodes.any (fun n => n.voter && n.action == actNone) = true := by
    rw [List.any_eq_true]
    cases hl : c.nodes.filter (fun n => n.voter && n.action == actNone) with
    | nil => rw [hl] at h2; exact absurd h2 (by decide)
    | cons x _ =>
      have hx : x ∈ c.nodes.filter (fun n => n.voter && n.action == actNone) := by rw [hl]; exact List.mem_cons_self
      exact ⟨x, (List.mem_filter.mp hx).1, (List.mem_filter.mp hx).2⟩
  refine ⟨hu.1, fun n hn => ?_, anchoredT_of_sorted hu.1 hany hu.2.2⟩
  unfold configValid at hv
  simp only [Bool.and_eq_true, List.all_eq_true] at hv
  have hnv := hv.1.1 n hn
  unfold nodeValid at hnv
  simp only [Bool.and_eq_true, Bool.not_eq_true', decide_eq_false_iff_not, not_and, decide_eq_true_eq] at hnv
  refine ⟨hnv.1.1.2, fun hvo hact => ?_⟩
  exact hnv.1.2 hact hvo

theorem config?_nodes {e : Entry} {c c' : Config} (hc : e.cfg = some c) (h : e.config? = some c') : c'.nodes = c.nodes := by
  unfold Entry.config? at h
  split at h
  · rw [hc] at h
    injection h with h
    rw [← h]
  · cases h

/-- a `CfgAll` configuration decoded from an entry: the index and term do not matter -/
theorem entOK_config {e : Entry} {c : Config} (h : EntOK e) (hc : e.config? = some c) : CfgAll c := by
  obtain ⟨ht, _, _⟩ := MemberCommit.config?_facts hc
  obtain ⟨c0, hc0, h0⟩ := h ht
  exact h0.congr (config?_nodes hc0 hc)

theorem entOK_dec {e : Entry} (h : EntOK e) (ht : e.typ = etConfig) : ∃ c, e.config? = some c ∧ CfgAll c := by
  obtain ⟨c0, hc0, h0⟩ := h ht
  refine ⟨{ c0 with index := e.index, term := e.term }, ?_, h0.congr rfl⟩
  unfold Entry.config?
  rw [if_pos ht, hc0]; rfl


/-! ## Part B: the invariant carried through a leader's handlers -/

/-- the first configuration entry appended since `b` -/
def fc (b s : Node) : Option Entry :=
  (s.log.entries.drop b.log.entries.length).find? (fun x => x.typ == etConfig)

/-- claimed while nothing has failed -/
structure KOK (b s : Node) : Prop where
  /-- every configuration entry of the log carries a `CfgAll` configuration -/
  ents : ∀ e ∈ s.log.entries, EntOK e
  latest : PZ s.configs.latest
  /-- the leader's cached own voter flag is that of the latest configuration -/
  cache : s.ldr.node.voter = s.configs.latest.isVoter s.nid
  /-- the first configuration entry appended since `b` is adjacent to `b.configs.latest` -/
  adj : ∀ e, fc b s = some e → ∃ c, e.config? = some c ∧ C08.AdjacentVoters b.configs.latest c
  /-- while none was appended the latest configuration is `b`'s -/
  keep : fc b s = none → s.configs.latest = b.configs.latest

/-- relative to `b`, the state a step started from -/
structure K (b s : Node) : Prop where
  nid : s.nid = b.nid
  ext : ∃ es, s.log.entries = b.log.entries ++ es
  ok : s.panicked = none → KOK b s

/-- `y` comes after `x`: a recorded failure stays recorded, the log only grows -/
structure Grow (x y : Node) : Prop where
  pan : y.panicked = none → x.panicked = none
  ext : ∃ r, y.log.entries = x.log.entries ++ r

theorem Grow.refl (x : Node) : Grow x x := ⟨id, [], (List.append_nil _).symm⟩

theorem Grow.trans {x y z : Node} (h1 : Grow x y) (h2 : Grow y z) : Grow x z := by
  obtain ⟨r1, e1⟩ := h1.ext
  obtain ⟨r2, e2⟩ := h2.ext
  exact ⟨fun h => h1.pan (h2.pan h), r1 ++ r2, by rw [e2, e1, List.append_assoc]⟩

theorem Grow.of_quiet {x y : Node} (q : Quiet x y) : Grow x y :=
  ⟨q.pan', [], by rw [q.entries, List.append_nil]⟩

/-- the fields `K` looks at (`panicked` apart) -/
def obsK (s : Node) : Config × Nat × Bool × List Entry := (s.configs.latest, s.nid, s.ldr.node.voter, s.log.entries)

theorem obsK_eq {x y : Node} (h : obsK y = obsK x) :
    y.configs.latest = x.configs.latest ∧ y.nid = x.nid ∧ y.ldr.node.voter = x.ldr.node.voter ∧
    y.log.entries = x.log.entries := by
  unfold obsK at h
  simp only [Prod.mk.injEq] at h
  exact h

theorem fc_congr {b x y : Node} (h : y.log.entries = x.log.entries) : fc b y = fc b x := by
  unfold fc; rw [h]

theorem K.congr {b x y : Node} (h : K b x) (e : obsK y = obsK x) (hp : y.panicked = none → x.panicked = none) :
    K b y := by
  obtain ⟨e1, e2, e3, e4⟩ := obsK_eq e
  refine ⟨e2.trans h.nid, by rw [e4]; exact h.ext, fun hy => ?_⟩
  have k := h.ok (hp hy)
  exact ⟨by rw [e4]; exact k.ents, by rw [e1]; exact k.latest, by rw [e1, e2, e3]; exact k.cache,
    by rw [fc_congr e4]; exact k.adj, by rw [fc_congr e4, e1]; exact k.keep⟩

theorem Grow.of_same {x y : Node} (e : obsK y = obsK x) (hp : y.panicked = none → x.panicked = none) : Grow x y :=
  ⟨hp, [], by rw [(obsK_eq e).2.2.2, List.append_nil]⟩

theorem obsK_quiet {x y : Node} (q : Quiet x y) : obsK y = obsK x := by
  unfold obsK
  rw [q.configs, q.nid, q.selfVoter, q.entries]

/-- the outcome of a call -/
def KS (b x y : Node) : Prop := K b y ∧ Grow x y

theorem KS.refl {b x : Node} (h : K b x) : KS b x x := ⟨h, Grow.refl x⟩

theorem KS.trans {b x y z : Node} (h1 : KS b x y) (h2 : KS b y z) : KS b x z := ⟨h2.1, h1.2.trans h2.2⟩

theorem KS.same {b x y : Node} (h : K b x) (e : obsK y = obsK x) (hp : y.panicked = none → x.panicked = none) :
    KS b x y := ⟨h.congr e hp, Grow.of_same e hp⟩

theorem KS.quiet {b x y : Node} (h : K b x) (q : Quiet x y) : KS b x y := KS.same h (obsK_quiet q) q.pan'

theorem KS.then {b x y z : Node} (h1 : KS b x y) (k : K b y → KS b y z) : KS b x z := h1.trans (k h1.1)

/-- the log only grows: the first configuration entry stays the first -/
theorem fc_grow {b x y : Node} (hx : ∃ es, x.log.entries = b.log.entries ++ es) (g : Grow x y) :
    (∀ e, fc b x = some e → fc b y = some e) ∧ (fc b y = none → fc b x = none) := by
  obtain ⟨es, he⟩ := hx
  obtain ⟨r, hr⟩ := g.ext
  have h1 : fc b x = es.find? (fun x => x.typ == etConfig) := by
    unfold fc; rw [he, List.drop_left]
  have h2 : fc b y = (es ++ r).find? (fun x => x.typ == etConfig) := by
    unfold fc; rw [hr, he, List.append_assoc, List.drop_left]
  rw [h1, h2, List.find?_append]
  constructor
  · intro e h; rw [h]; rfl
  · intro h
    cases hf : es.find? (fun x => x.typ == etConfig) with
    | none => rfl
    | some v => rw [hf] at h; cases h

/-- the configuration a handler works on has the voters of `b.configs.latest` — claimed while nothing has failed and
no configuration entry was appended since `b` -/
def Rel (b s : Node) (config : Config) : Prop :=
  s.panicked = none → fc b s = none → SameVoters config b.configs.latest

theorem Rel.grow {b x y : Node} {config : Config} (h : Rel b x config) (hx : K b x) (g : Grow x y) : Rel b y config :=
  fun hp hf => h (g.pan hp) ((fc_grow hx.ext g).2 hf)

theorem Rel.latest {b x : Node} (h : K b x) : Rel b x x.configs.latest := by
  intro hp hf
  rw [(h.ok hp).keep hf]
  exact SameVoters.refl _

/-! ### the primitives -/

theorem find?_single_ne {e : Entry} (h : e.typ ≠ etConfig) : [e].find? (fun x => x.typ == etConfig) = none := by
  rw [List.find?_cons_of_neg (by simpa using h)]; rfl

theorem find?_single_eq {e : Entry} (h : e.typ = etConfig) : [e].find? (fun x => x.typ == etConfig) = some e := by
  rw [List.find?_cons_of_pos (by simpa using h)]

theorem fc_append {b x y : Node} {e : Entry} (hx : ∃ es, x.log.entries = b.log.entries ++ es)
    (hy : y.log.entries = x.log.entries ++ [e]) :
    fc b y = (fc b x).or ([e].find? (fun x => x.typ == etConfig)) := by
  obtain ⟨es, he⟩ := hx
  unfold fc
  rw [hy, he, List.append_assoc, List.drop_left, List.drop_left, List.find?_append]

/-- an entry that is not a configuration entry is appended -/
theorem ks_appendPlain {b x : Node} (h : K b x) (e : Entry) (ht : e.typ ≠ etConfig) : KS b x (x.appendEntry e) := by
  obtain ⟨a1, a2, _, _, _, a6, _, _⟩ := appendEntry_key x e
  have hent := appendEntry_entries x e
  have hg : Grow x (x.appendEntry e) := ⟨appendEntry_pan' x e, [e], hent⟩
  have hfc : fc b (x.appendEntry e) = fc b x := by
    rw [fc_append h.ext hent, find?_single_ne ht]
    cases fc b x <;> rfl
  refine ⟨⟨a2.trans h.nid, ?_, fun hp => ?_⟩, hg⟩
  · obtain ⟨es, he⟩ := h.ext
    exact ⟨es ++ [e], by rw [hent, he, List.append_assoc]⟩
  · have k := h.ok (hg.pan hp)
    refine ⟨fun e' he' => ?_, by rw [a1]; exact k.latest, by rw [a6, a1, a2]; exact k.cache,
      by rw [hfc]; exact k.adj, by rw [hfc, a1]; exact k.keep⟩
    rw [hent, List.mem_append, List.mem_singleton] at he'
    rcases he' with he' | he'
    · exact k.ents e' he'
    · rw [he']; exact fun ht' => absurd ht' ht

/-- a configuration entry is appended and adopted (`leader.changeConfig`: cached own entry and voter count refreshed,
`Raft.changeConfig`) -/
theorem ks_appendCfg {b x : Node} (h : K b x) (e : Entry) (c : Config) (hc : e.config? = some c)
    (hall : x.panicked = none → CfgAll c)
    (hadj : x.panicked = none → fc b x = none → C08.AdjacentVoters b.configs.latest c) :
    KS b x (MemberCommit.adopt (x.appendEntry e) c) := by
  obtain ⟨a1, a2, _, _, _, a6, _, _⟩ := appendEntry_key x e
  have hent := appendEntry_entries x e
  have hpan0 := appendEntry_pan' x e
  obtain ⟨ht, _, _⟩ := MemberCommit.config?_facts hc
  generalize x.appendEntry e = z at a1 a2 a6 hent hpan0
  unfold MemberCommit.adopt
  obtain ⟨c1, c2, _, _, _, _, c7, c8, c9⟩ := CfgRel.changeConfigR_fields
    (z.withLdr { z.ldr with node := c.get z.nid, numVoters := c.numVoters }) c
  generalize (z.withLdr { z.ldr with node := c.get z.nid, numVoters := c.numVoters }).changeConfigR c = y
    at c1 c2 c7 c8 c9
  have c2 : y.nid = z.nid := c2
  have c7 : y.ldr.node = c.get z.nid := by rw [c7]; rfl
  have c8 : y.panicked = z.panicked := c8
  have c9 : y.log = z.log := c9
  have hlog : y.log.entries = x.log.entries ++ [e] := by rw [c9]; exact hent
  have hpan : y.panicked = none → x.panicked = none := fun hp => hpan0 (by rw [← c8]; exact hp)
  have hg : Grow x y := ⟨hpan, [e], hlog⟩
  have hfc : fc b y = (fc b x).or (some e) := by rw [fc_append h.ext hlog, find?_single_eq ht]
  refine ⟨⟨by rw [c2]; exact a2.trans h.nid, ?_, fun hp => ?_⟩, hg⟩
  · obtain ⟨es, he⟩ := h.ext
    exact ⟨es ++ [e], by rw [hlog, he, List.append_assoc]⟩
  · have k := h.ok (hpan hp)
    have hlat : y.configs.latest = c := by rw [c1]
    have hall := hall (hpan hp)
    refine ⟨fun e' he' => ?_, by rw [hlat]; exact Or.inr hall, ?_, fun e' he' => ?_, fun hn => ?_⟩
    · rw [hlog, List.mem_append, List.mem_singleton] at he'
      rcases he' with he' | he'
      · exact k.ents e' he'
      · rw [he']
        intro _
        cases hcfg : e.cfg with
        | none =>
          unfold Entry.config? at hc
          rw [if_pos ht, hcfg] at hc; cases hc
        | some c0 => exact ⟨c0, rfl, hall.congr ((config?_nodes hcfg hc).symm)⟩
    · rw [hlat, c2, c7]
      exact get_voter_eq_isVoter c _
    · rw [hfc] at he'
      cases hx : fc b x with
      | none =>
        rw [hx] at he'
        injection he' with he'
        rw [← he']
        exact ⟨c, hc, hadj (hpan hp) hx⟩
      | some e0 =>
        rw [hx] at he'
        injection he' with he'
        rw [← he']
        exact k.adj e0 hx
    · rw [hfc] at hn
      cases hx : fc b x <;> rw [hx] at hn <;> cases hn

/-- `leader.setCommitIndex`: flush, `Raft.setCommitIndex` -/
theorem ks_commit {b x : Node} (h : K b x) (i : Nat) : KS b x ((x.commitLog i).setCommitIndexR i).1 := by
  have hq := q_commitLog x i
  have h1 := (KS.quiet h hq).1
  refine (KS.quiet h hq).trans ?_
  generalize x.commitLog i = z at h1
  unfold Node.setCommitIndexR
  split
  · obtain ⟨a1, a2, _, _, _, a6, a7, _, a9⟩ := commitPath_fields z i
    dsimp only at a1 a2 a6 a7 a9 ⊢
    exact KS.same h1 (by unfold obsK; rw [a1, a2, a6, a9]) (fun hp => by rw [← a7]; exact hp)
  · exact KS.same h1 rfl id

theorem ks_panic {b x : Node} (h : K b x) (site : String) : KS b x (x.panic site) := KS.quiet h (q_panic x site)


/-- a state in which a failure is recorded satisfies the invariant, whatever else happened -/
theorem K.of_failed {b y : Node} (h1 : y.nid = b.nid) (h2 : ∃ es, y.log.entries = b.log.entries ++ es)
    (h3 : y.panicked ≠ none) : K b y := ⟨h1, h2, fun hp => absurd hp h3⟩

/-! ### the mutually recursive leader handlers -/

/-- what is known about a batch handed to `leader.storeEntry`: client entries (no configuration entry), or the single
configuration entry built by `leader.doChangeConfig` for a `CfgAll` configuration that — if it is the first of the step —
is adjacent to `b.configs.latest` -/
inductive BatchK (b x : Node) : List QItem → Prop
  | plain (bt : List QItem) : (∀ q ∈ bt, q.typ ≠ etConfig) → BatchK b x bt
  | cfg (c : Config) (task i t : Nat) : (x.panicked = none → CfgAll c) →
      (x.panicked = none → fc b x = none → C08.AdjacentVoters b.configs.latest c) →
      BatchK b x [{ index := i, term := t, typ := etConfig, cfg := some c, task := task }]

/-- a membership change handed over by a voting leader without transfer in progress is carried out — a configuration
entry is appended — unless something fails -/
def Prog (b x y : Node) : Prop :=
  x.ldr.node.voter = true → x.ldr.transfer.active = false → y.panicked = none → fc b y ≠ none

theorem Prog.grow {b x y z : Node} (h : Prog b x y) (hy : K b y) (g : Grow y z) : Prog b x z :=
  fun hv ha hp hf => h hv ha (g.pan hp) ((fc_grow hy.ext g).2 hf)

def SEspec (b : Node) (n : Nat) : Prop := ∀ x bt, K b x → BatchK b x bt →
  KS b x (storeEntry n x bt) ∧ (IsCfg bt → Prog b x (storeEntry n x bt))
def SIspec (b : Node) (n : Nat) : Prop := ∀ x bt, K b x → BatchK b x bt →
  KS b x (storeItems n x bt) ∧ (IsCfg bt → Prog b x (storeItems n x bt))
def CLspec (b : Node) (n : Nat) : Prop := ∀ x e c, K b x → e.config? = some c → (x.panicked = none → CfgAll c) →
  (x.panicked = none → fc b x = none → C08.AdjacentVoters b.configs.latest c) →
  KS b x (changeConfigL n (x.appendEntry e) c) ∧ fc b (changeConfigL n (x.appendEntry e) c) ≠ none
def DCspec (b : Node) (n : Nat) : Prop := ∀ x t c, K b x → (x.panicked = none → CfgAll c) →
  (x.panicked = none → fc b x = none → C08.AdjacentVoters b.configs.latest c) →
  KS b x (doChangeConfig n x t c) ∧ Prog b x (doChangeConfig n x t c)
def CAsspec (b : Node) (n : Nat) : Prop := ∀ x t config, K b x → (x.panicked = none → PZ config) → Rel b x config →
  KS b x (checkConfigActions n x t config)
def CAspec (b : Node) (n : Nat) : Prop := ∀ x t config id, K b x → (x.panicked = none → PZ config) → Rel b x config →
  KS b x (checkConfigAction n x t config id)
def SCspec (b : Node) (n : Nat) : Prop := ∀ x i, K b x → KS b x (setCommitIndexL n x i)
def MCspec (b : Node) (n : Nat) : Prop := ∀ x, K b x → KS b x (onMajorityCommit n x)

variable {b : Node}

theorem fuel_out {x : Node} (h : K b x) : KS b x (x.panic "fuel") := ks_panic h _

theorem prog_failed {x y : Node} (h : y.panicked ≠ none) : Prog b x y := fun _ _ hp => absurd hp h

theorem SE_succ {n : Nat} (hSI : SIspec b n) (hMC : MCspec b n) : SEspec b (n + 1) := by
  intro x bt h hb
  obtain ⟨⟨hK1, hG1⟩, hW1⟩ := hSI x bt h hb
  unfold storeEntry
  extract_lets lastIndex x1 x2 x3 x4
  have hq2 : Quiet x1 x2 := by
    unfold x2
    split
    · split
      · exact q_applyCommittedL _
      · exact .refl _
    · exact .refl _
  have h2 : KS b x x2 := KS.trans ⟨hK1, hG1⟩ (KS.quiet hK1 hq2)
  have hW2 : IsCfg bt → Prog b x x2 := fun hc => (hW1 hc).grow hK1 (Grow.of_quiet hq2)
  split
  · have hq4 : Quiet x2 x4 := (q_beginFinishedRounds x2).trans (q_notifyFlr _)
    have h4 : KS b x x4 := h2.trans (KS.quiet h2.1 hq4)
    have hW4 : IsCfg bt → Prog b x x4 := fun hc => (hW2 hc).grow h2.1 (Grow.of_quiet hq4)
    split
    · have h5 := hMC x4 h4.1
      exact ⟨h4.trans h5, fun hc => (hW4 hc).grow h4.1 h5.2⟩
    · exact ⟨h4, hW4⟩
  · exact ⟨h2, hW2⟩

theorem storeItem_k {n : Nat} {x : Node} {q : QItem} (hCL : CLspec b n) (h : K b x) (hq : BatchK b x [q]) :
    KS b x (storeItem n x q) ∧ (q.typ = etConfig → Prog b x (storeItem n x q)) := by
  unfold storeItem
  split
  · rename_i hact
    exact ⟨KS.quiet h (q_reply _ _ _), fun _ _ ha => by rw [hact] at ha; cases ha⟩
  · split
    · rename_i hnv
      have hq' : Quiet x (if x.configs.latest.has x.nid = true then x.reply q.task "inProgress:demoteLeader"
          else x.reply q.task "inProgress:removeLeader") := by split <;> exact q_reply _ _ _
      exact ⟨KS.quiet h hq', fun _ hv _ => by simp [hv] at hnv⟩
    · extract_lets q' l0 x0 x1
      have hq0 : Quiet x x0 := q_ldr x _ rfl rfl
      have h0 := KS.quiet h hq0
      cases hq with
      | plain _ hpl =>
        have ht : ¬ q'.typ = etConfig := hpl q (List.mem_singleton_self _)
        have h1 : KS b x x1 := h0.trans (ks_appendPlain h0.1 _ ht)
        split
        · first | rw [if_neg ht] | skip
          exact ⟨h1, fun hc => absurd hc ht⟩
        · exact ⟨h0, fun hc => absurd hc ht⟩
      | cfg c task i t hall hadj =>
        rw [if_pos (by rfl), if_pos (by rfl)]
        split
        · rename_i c' hc'
          have hcfg : q'.toEntry.cfg = some c.payload := rfl
          have hnodes : c'.nodes = c.nodes := (config?_nodes hcfg hc').trans rfl
          obtain ⟨hk, hf⟩ := hCL x0 q'.toEntry c' h0.1 hc' (fun hp => (hall (hq0.pan' hp)).congr hnodes) (fun hp hf => by
            obtain ⟨id, hid⟩ := hadj (hq0.pan' hp) (by rw [← fc_congr hq0.entries]; exact hf)
            exact ⟨id, fun y hy => by rw [isVoter_congr (find?_congr hnodes) y]; exact hid y hy⟩)
          exact ⟨h0.trans hk, fun _ _ _ _ => hf⟩
        · exact ⟨h0.trans ⟨K.of_failed
            (by rw [(q_panic _ _).nid, (appendEntry_key x0 _).2.1]; exact h0.1.nid)
            (by
              obtain ⟨es, he⟩ := h0.1.ext
              exact ⟨es ++ [q'.toEntry], by rw [(q_panic _ _).entries, appendEntry_entries, he, List.append_assoc]⟩)
            (panicked_panic _ _),
            ⟨fun hp => absurd hp (panicked_panic _ _), [q'.toEntry], by
              rw [(q_panic _ _).entries, appendEntry_entries]⟩⟩, fun _ => prog_failed (panicked_panic _ _)⟩

theorem SI_succ {n : Nat} (hSI : SIspec b n) (hCL : CLspec b n) : SIspec b (n + 1) := by
  intro x bt h hb
  cases bt with
  | nil =>
    rw [storeItems_nil]
    exact ⟨KS.refl h, fun ⟨q, hq, _⟩ => by cases hq⟩
  | cons q qs =>
    rw [storeItems_cons]
    have hq1 : BatchK b x [q] := by
      cases hb with
      | plain _ hp =>
        exact .plain _ (fun q' hq' => hp q' (by rw [List.mem_singleton.mp hq']; exact List.mem_cons_self ..))
      | cfg c task i t h1 h2 => exact .cfg c task i t h1 h2
    obtain ⟨h1, hW1⟩ := storeItem_k hCL h hq1
    have hqs : BatchK b (storeItem n x q) qs := by
      cases hb with
      | plain _ hp => exact .plain _ (fun q' hq' => hp q' (List.mem_cons_of_mem _ hq'))
      | cfg c task i t _ _ => exact .plain _ (fun q' hq' => by cases hq')
    obtain ⟨h2, _⟩ := hSI _ qs h1.1 hqs
    refine ⟨h1.trans h2, fun hc => ?_⟩
    have hcfg : q.typ = etConfig := by
      cases hb with
      | plain _ hp => obtain ⟨q', hq', ht⟩ := hc; exact absurd ht (hp q' hq')
      | cfg c task i t _ _ => rfl
    exact (hW1 hcfg).grow h1.1 h2.2

theorem DC_succ {n : Nat} (hSE : SEspec b n) : DCspec b (n + 1) := by
  intro x t c h hall hadj
  unfold doChangeConfig
  obtain ⟨hk, hW⟩ := hSE x _ h (.cfg c t c.index c.term hall hadj)
  exact ⟨hk, hW ⟨_, List.mem_singleton_self _, rfl⟩⟩

theorem CL_succ {n : Nat} (hCAs : CAsspec b n) : CLspec b (n + 1) := by
  intro x e c h hc hall hadj
  unfold changeConfigL
  extract_lets l0 x1 x2 l2 x3 x4
  have h2 : KS b x x2 := ks_appendCfg h e c hc hall hadj
  have hq3 : Quiet x2 x3 := q_ldr x2 _ rfl rfl
  have hq4 : Quiet x2 x4 := by
    refine hq3.trans (q_foldl _ (fun y m => ?_) c.nodes x3)
    split
    · exact .refl _
    · split
      · exact q_addReplication _ _
      · exact q_setRepl _ _
  have h4 : KS b x x4 := h2.trans (KS.quiet h2.1 hq4)
  have h5 := hCAs x4 0 x4.configs.latest h4.1 (fun hp => (h4.1.ok hp).latest) (Rel.latest h4.1)
  refine ⟨h4.trans h5, ?_⟩
  have hf2 : fc b x2 ≠ none := by
    obtain ⟨ht, _, _⟩ := MemberCommit.config?_facts hc
    have hlog : x2.log.entries = x.log.entries ++ [e] := by
      rw [(CfgRel.changeConfigR_fields x1 c).2.2.2.2.2.2.2.2]
      exact appendEntry_entries x e
    rw [fc_append h.ext hlog, find?_single_eq ht]
    cases fc b x <;> exact fun hh => by cases hh
  exact fun hf => hf2 ((fc_grow h2.1.ext ((Grow.of_quiet hq4).trans h5.2)).2 hf)


theorem CA_succ {n : Nat} (hDC : DCspec b n) : CAspec b (n + 1) := by
  intro x t config id h hP hJ
  unfold checkConfigAction
  split
  · exact KS.refl h
  · rename_i st hst
    extract_lets nn action r x1
    split
    · exact KS.refl h
    · rename_i hact
      have hq1 : Quiet x x1 := q_setRepl x _
      have h1 := KS.quiet h hq1
      split
      · exact h1
      · split
        · exact h1
        · split
          · rename_i c hc
            have hone : OneNode config c := actionConfig_oneNode _ config id r.1 c hact hc
            obtain ⟨hk, _⟩ := hDC x1 t c h1.1
              (fun hp => cfgAll_actionConfig ((hP (hq1.pan' hp)).of_get (nextAction_ne hact)) hact hc)
              (fun hp hf => Deriv.adjacent (Or.inr hone)
                (hJ (hq1.pan' hp) (by rw [← fc_congr hq1.entries]; exact hf)))
            exact h1.trans hk
          · exact h1

/-- after the leader's action on ITSELF was handed to `doChangeConfig`: the derived configuration `c'` is what the loop
over the replications works on -/
theorem self_rel {x x1 : Node} {config c' : Config} (h : K b x) (hJ : Rel b x config)
    (hact : x.ldr.transfer.active = false) (hk : KS b x x1) (hW : Prog b x x1)
    (hsv : config.isVoter x.nid = false → SameVoters c' config) : Rel b x1 c' := by
  intro hp hf
  have hpx := hk.2.pan hp
  have hfx := (fc_grow h.ext hk.2).2 hf
  have hv : x.ldr.node.voter = false := by
    cases hv : x.ldr.node.voter with
    | false => rfl
    | true => exact absurd hf (hW hv hact hp)
  have k := h.ok hpx
  have h0 := hJ hpx hfx
  have hnv : config.isVoter x.nid = false := by
    rw [h0 x.nid, ← k.keep hfx, ← k.cache]; exact hv
  exact (hsv hnv).trans h0

theorem CAs_succ {n : Nat} (hDC : DCspec b n) (hCA : CAspec b n) : CAsspec b (n + 1) := by
  intro x t config h hP hJ
  unfold checkConfigActions
  extract_lets nn c1 c2 r
  have hr : KS b x r.1 ∧ (r.1.panicked = none → PZ r.2) ∧ Rel b r.1 r.2 := by
    unfold r
    split
    · rename_i hc
      obtain ⟨f1, f2, f3⟩ := canChange_facts hc.1
      have hact : (config.get x.nid).action ≠ actNone := hc.2
      have hid : (config.get x.nid).id = x.nid := CfgRel.get_id hact
      split
      · have hone : OneNode config c1 := oneNode_set _ x.nid _ hid hact
        obtain ⟨hk, hW⟩ := hDC x t c1 h (fun hp => cfgAll_demoteSelf ((hP hp).of_get hact) hact)
          (fun hp hf => Deriv.adjacent (Or.inr hone) (hJ hp hf))
        exact ⟨hk, fun hp => Or.inr (cfgAll_demoteSelf ((hP (hk.2.pan hp)).of_get hact) hact),
          self_rel h hJ f2 hk hW (fun hnv => sameVoters_set_nonvoter config x.nid _ hid rfl hnv)⟩
      · split
        · have hone : OneNode config c2 := oneNode_erase _ x.nid hact
          obtain ⟨hk, hW⟩ := hDC x t c2 h (fun hp => cfgAll_removeSelf ((hP hp).of_get hact) hact)
            (fun hp hf => Deriv.adjacent (Or.inr hone) (hJ hp hf))
          exact ⟨hk, fun hp => Or.inr (cfgAll_removeSelf ((hP (hk.2.pan hp)).of_get hact) hact),
            self_rel h hJ f2 hk hW (fun hnv => sameVoters_erase_nonvoter config x.nid hnv)⟩
        · exact ⟨ks_panic h _, fun hp => absurd hp (panicked_panic _ _), fun hp => absurd hp (panicked_panic _ _)⟩
    · exact ⟨KS.refl h, hP, hJ⟩
  obtain ⟨h1, hP1, hJ1⟩ := hr
  have hqp : Quiet r.1 r.1.popOrder := q_popOrder _
  have hloop : ∀ (ids : List Nat) (y : Node), K b y → (y.panicked = none → PZ r.2) → Rel b y r.2 →
      KS b y (ids.foldl (fun s id =>
        match s.findRepl? id with
        | some _ => checkConfigAction n s t r.2 id
        | none => s) y) := by
    intro ids
    induction ids with
    | nil => intro y hy _ _; exact KS.refl hy
    | cons id ids ih =>
      intro y hy hPy hJy
      rw [List.foldl_cons]
      have hstep : KS b y (match y.findRepl? id with
          | some _ => checkConfigAction n y t r.2 id
          | none => y) := by
        split
        · exact hCA y t r.2 id hy hPy hJy
        · exact KS.refl hy
      exact hstep.trans (ih _ hstep.1 (fun hp => hPy (hstep.2.pan hp)) (hJy.grow hy hstep.2))
  have hp0 := KS.quiet h1.1 hqp
  exact h1.trans (hp0.trans (hloop _ _ hp0.1 (fun hp => hP1 (hqp.pan' hp)) (hJ1.grow h1.1 hp0.2)))

theorem SC_succ {n : Nat} (hCAs : CAsspec b n) : SCspec b (n + 1) := by
  intro x i h
  unfold setCommitIndexL
  extract_lets x1 ready r x2 x3
  have h2 : KS b x x2 := ks_commit h i
  have h3 : KS b x x3 := by
    unfold x3
    split
    · exact h2.trans (hCAs _ _ _ h2.1 (fun hp => (h2.1.ok hp).latest) (Rel.latest h2.1))
    · exact h2
  split
  · split
    · have hq : Quiet x3 (x3.ldr.waitStable.foldl (fun s t => s.reply t s!"config:{s.configs.latest.index}") x3) :=
        q_foldl _ (fun y t => q_reply _ _ _) _ _
      have hq' := hq.trans (q_ldr _ { (x3.ldr.waitStable.foldl (fun s t => s.reply t s!"config:{s.configs.latest.index}") x3).ldr with waitStable := [] } rfl rfl)
      exact h3.trans (KS.quiet h3.1 hq')
    · exact h3.trans (hCAs x3 0 _ h3.1 (fun hp => (h3.1.ok hp).latest) (Rel.latest h3.1))
  · exact h3

theorem MC_succ {n : Nat} (hSC : SCspec b n) : MCspec b (n + 1) := by
  intro x h
  unfold onMajorityCommit
  extract_lets m x1 x2 x3
  have hq1 : Quiet x x1 := by
    unfold x1
    split
    · exact .refl _
    · exact q_panic _ _
  have h1 := KS.quiet h hq1
  split
  · have h2 := hSC x1 m.1 h1.1
    have hq3 : Quiet x2 x3.notifyFlr := (q_applyCommittedL x2).trans (q_notifyFlr _)
    exact h1.trans (h2.trans (KS.quiet h2.1 hq3))
  · exact h1

/-- **the leader block**: every handler of the mutually recursive block preserves `K b`, for every recursion budget -/
theorem block (b : Node) : ∀ n : Nat,
    SEspec b n ∧ SIspec b n ∧ CLspec b n ∧ DCspec b n ∧ CAsspec b n ∧ CAspec b n ∧ SCspec b n ∧ MCspec b n := by
  intro n
  induction n with
  | zero =>
    refine ⟨?_, ?_, ?_, ?_, ?_, ?_, ?_, ?_⟩
    · intro x bt h _
      unfold storeEntry
      exact ⟨fuel_out h, fun _ => prog_failed (panicked_panic _ _)⟩
    · intro x bt h _
      cases bt with
      | nil => rw [storeItems_nil]; exact ⟨KS.refl h, fun ⟨q, hq, _⟩ => by cases hq⟩
      | cons q qs =>
        unfold storeItems
        exact ⟨fuel_out h, fun _ => prog_failed (panicked_panic _ _)⟩
    · intro x e c h hc _ _
      unfold changeConfigL
      obtain ⟨ht, _, _⟩ := MemberCommit.config?_facts hc
      have hlog : ((x.appendEntry e).panic "fuel").log.entries = x.log.entries ++ [e] := by
        rw [(q_panic _ _).entries, appendEntry_entries]
      refine ⟨⟨K.of_failed (by rw [(q_panic _ _).nid, (appendEntry_key x e).2.1]; exact h.nid) ?_
        (panicked_panic _ _), fun hp => absurd hp (panicked_panic _ _), [e], hlog⟩, ?_⟩
      · obtain ⟨es, he⟩ := h.ext
        exact ⟨es ++ [e], by rw [hlog, he, List.append_assoc]⟩
      · rw [fc_append h.ext hlog, find?_single_eq ht]
        cases fc b x <;> exact fun hh => by cases hh
    · intro x t c h _ _
      unfold doChangeConfig
      exact ⟨fuel_out h, prog_failed (panicked_panic _ _)⟩
    · intro x t c h _ _
      unfold checkConfigActions
      exact fuel_out h
    · intro x t c id h _ _
      unfold checkConfigAction
      exact fuel_out h
    · intro x i h
      unfold setCommitIndexL
      exact fuel_out h
    · intro x h
      unfold onMajorityCommit
      exact fuel_out h
  | succ n ih =>
    obtain ⟨hSE, hSI, hCL, hDC, hCAs, hCA, hSC, hMC⟩ := ih
    exact ⟨SE_succ hSI hMC, SI_succ hSI hCL, CL_succ hCAs, DC_succ hSE, CAs_succ hDC hCA, CA_succ hDC, SC_succ hCAs,
      MC_succ hSC⟩


/-! ## Part C: the handlers around the block, `leader.init`, the role transitions, one step -/

theorem storeEntry_k {x : Node} (n : Nat) (bt : List QItem) (h : K b x) (hb : BatchK b x bt) :
    KS b x (storeEntry n x bt) := ((block b n).1 x bt h hb).1

theorem doChangeConfig_k {x : Node} (n t : Nat) (c : Config) (h : K b x) (hall : x.panicked = none → CfgAll c)
    (hadj : x.panicked = none → fc b x = none → C08.AdjacentVoters b.configs.latest c) :
    KS b x (doChangeConfig n x t c) := ((block b n).2.2.2.1 x t c h hall hadj).1

theorem checkConfigActions_k {x : Node} (n t : Nat) (config : Config) (h : K b x)
    (hP : x.panicked = none → PZ config) (hJ : Rel b x config) : KS b x (checkConfigActions n x t config) :=
  (block b n).2.2.2.2.1 x t config h hP hJ

theorem checkConfigActions_latest {x : Node} (n t : Nat) (h : K b x) :
    KS b x (checkConfigActions n x t x.configs.latest) :=
  checkConfigActions_k n t _ h (fun hp => (h.ok hp).latest) (Rel.latest h)

theorem checkConfigAction_latest {x : Node} (n t id : Nat) (h : K b x) :
    KS b x (checkConfigAction n x t x.configs.latest id) :=
  (block b n).2.2.2.2.2.1 x t _ id h (fun hp => (h.ok hp).latest) (Rel.latest h)

theorem onMajorityCommit_k {x : Node} (n : Nat) (h : K b x) : KS b x (onMajorityCommit n x) :=
  (block b n).2.2.2.2.2.2.2 x h

theorem replyTransfer_k {x : Node} (h : K b x) (r : String) : KS b x (x.replyTransfer r) := by
  unfold Node.replyTransfer
  extract_lets x1
  exact (KS.quiet h (q_transferReply x r)).then (fun h1 => checkConfigActions_latest _ 0 h1)

theorem onTimeoutNowResult_k {x : Node} (h : K b x) (src : Nat) (e : Bool) (r : Nat) :
    KS b x (x.onTimeoutNowResult src e r) := by
  unfold Node.onTimeoutNowResult
  extract_lets l0 t0 x1 x2 l1 t1
  have h1 : Quiet x x1 := q_ldr x _ rfl rfl
  have h2 : Quiet x1 x2 := by
    unfold x2
    split
    · split
      · exact q_setRepl _ _
      · exact .refl _
    · exact q_panic _ _
  split
  · split
    · exact KS.quiet h ((h1.trans h2).trans (q_tryTransfer _))
    · exact KS.quiet h (h1.trans h2)
  · split
    · split
      · exact (KS.quiet h h1).then (fun k => replyTransfer_k k _)
      · exact KS.quiet h (h1.trans (q_tryTransfer _))
    · exact KS.quiet h (h1.trans (q_ldr _ _ rfl rfl))

/-- `leader.onChangeConfig` for a submitted configuration with strictly increasing ids and two voters without action -/
theorem onChangeConfig_k {x : Node} (h : K b x) (t : Nat) (c : Config) (hu : UserCfg true x.nid c) :
    KS b x (x.onChangeConfig t c) := by
  have rep : ∀ r, KS b x (x.reply t r) := fun r => KS.quiet h (q_reply _ _ _)
  unfold Node.onChangeConfig
  split
  · exact rep _
  · split
    · exact rep _
    · split
      · exact rep _
      · split
        · exact rep _
        · rename_i hval
          split
          · exact rep _
          · rename_i h1
            split
            · exact rep _
            · rename_i h2
              split
              · exact rep _
              · extract_lets lastIndex x1
                have hall : CfgAll c := cfgAll_user hu (by simpa using hval)
                have hsv : SameVoters c x.configs.latest := validated_sameVoters h1 h2
                have hJ : Rel b x c := fun hp hf => by rw [← (h.ok hp).keep hf]; exact hsv
                have k1 := checkConfigActions_k (fuelFor 0) t c h (fun _ => Or.inr hall) hJ
                split
                · exact k1.then (fun k => doChangeConfig_k (fuelFor 1) t c k (fun _ => hall)
                    (fun hp hf => Deriv.adjacent (Or.inl rfl) ((hJ.grow h k1.2) hp hf)))
                · exact k1

theorem setTerm_obsK (x : Node) (t : Nat) : obsK (x.setTerm t) = obsK x := by
  unfold Node.setTerm Node.storeTermVote Node.panic Node.point
  repeat' split
  all_goals rfl

theorem replUpdLoop_k (us : List ReplUpdate) : ∀ (x : Node) (f : UpdFlags), K b x → KS b x (replUpdLoop x f us).1 := by
  induction us with
  | nil => intro x f h; exact KS.refl h
  | cons u us ih =>
    intro x f h
    unfold replUpdLoop
    split
    · exact ih x f h
    · split
      · exact ih x f h
      · rename_i st hst
        split
        · rename_i v
          extract_lets st' x1 x2
          have hq1 : Quiet x x1 := q_setRepl x _
          have h1 := KS.quiet h hq1
          have h2 : KS b x1 x2 := by
            unfold x2
            split
            · exact checkConfigAction_latest _ 0 _ h1.1
            · exact KS.refl h1.1
          exact h1.trans (h2.trans (ih x2 _ h2.1))
        · exact (KS.quiet h (q_setRepl x _)).then (fun k => ih _ _ k)
        · exact (KS.quiet h (q_setRepl x _)).then (fun k => ih _ _ k)
        · exact KS.same h ((setTerm_obsK _ _).trans rfl)
            (fun hp => MemberCommit.setTerm_pan' ((x.setRole .follower).setLeader 0) _ hp)

/-- a batch without compaction reports leaves the compaction flag down -/
theorem replUpdLoop_flag (us : List ReplUpdate) (hus : LogRel.NoCompact us) : ∀ (x : Node) (f : UpdFlags),
    f.removeLTEU = false → (replUpdLoop x f us).2.removeLTEU = false := by
  induction us with
  | nil => intro x f hf; exact hf
  | cons u us ih =>
    have hus' : LogRel.NoCompact us := fun u' hu' => hus u' (List.mem_cons_of_mem _ hu')
    intro x f hf
    unfold replUpdLoop
    split
    · exact ih hus' x f hf
    · split
      · exact ih hus' x f hf
      · split
        · exact ih hus' _ _ hf
        · rename_i v hv
          exact absurd hv (hus u List.mem_cons_self v)
        · exact ih hus' _ _ hf
        · exact hf

theorem checkQuorum_obsK (x : Node) : obsK x.checkQuorum = obsK x ∧ (x.checkQuorum.panicked = none → x.panicked = none) := by
  unfold Node.checkQuorum
  extract_lets vs reachable x1
  have h1 : Quiet x x1 := by
    unfold x1; split
    · exact q_panic _ _
    · exact .refl _
  split
  · exact ⟨obsK_quiet h1, h1.pan'⟩
  · exact ⟨(show obsK ((x1.setRole .follower).setLeader 0) = obsK x1 from rfl).trans (obsK_quiet h1), h1.pan'⟩

theorem checkReplUpdates_k {x : Node} (h : K b x) (us : List ReplUpdate) (hus : LogRel.NoCompact us) :
    KS b x (x.checkReplUpdates us) := by
  unfold Node.checkReplUpdates
  extract_lets r x0 f x1 x2 x3
  have h0 : KS b x x0 := replUpdLoop_k us x {} h
  have hf : f.removeLTEU = false := replUpdLoop_flag us hus x {} rfl
  split
  · exact h0
  · have h1 : KS b x x1 := by
      unfold x1
      split
      · exact h0.then (fun k => onMajorityCommit_k _ k)
      · exact h0
    have h2 : KS b x x2 := by
      unfold x2
      split
      · exact h1.then (fun k => KS.same k (checkQuorum_obsK x1).1 (checkQuorum_obsK x1).2)
      · exact h1
    have h3 : KS b x x3 := by
      unfold x3
      rw [if_neg (by rw [hf]; simp)]
      exact h2
    split
    · exact h3.then (fun k => KS.quiet k (q_tryTransfer _))
    · exact h3

/-! ### the part that does not need the leader's cache -/

/-- claimed while nothing has failed (as `KOK`, without the cache of the leader's own entry) -/
structure KWOK (b s : Node) : Prop where
  ents : ∀ e ∈ s.log.entries, EntOK e
  latest : PZ s.configs.latest
  adj : ∀ e, fc b s = some e → ∃ c, e.config? = some c ∧ C08.AdjacentVoters b.configs.latest c
  keep : fc b s = none → s.configs.latest = b.configs.latest

/-- `K` without the cache: what holds of every state of a step, whatever the role -/
structure KW (b s : Node) : Prop where
  nid : s.nid = b.nid
  ext : ∃ es, s.log.entries = b.log.entries ++ es
  ok : s.panicked = none → KWOK b s

theorem K.toKW {x : Node} (h : K b x) : KW b x :=
  ⟨h.nid, h.ext, fun hp => ⟨(h.ok hp).ents, (h.ok hp).latest, (h.ok hp).adj, (h.ok hp).keep⟩⟩

theorem KW.toK {x : Node} (h : KW b x) (hc : x.panicked = none → x.ldr.node.voter = x.configs.latest.isVoter x.nid) :
    K b x :=
  ⟨h.nid, h.ext, fun hp => ⟨(h.ok hp).ents, (h.ok hp).latest, hc hp, (h.ok hp).adj, (h.ok hp).keep⟩⟩

/-- the fields `KW` looks at (`panicked` apart) -/
def obsW (s : Node) : Config × Nat × List Entry := (s.configs.latest, s.nid, s.log.entries)

theorem KW.congr {x y : Node} (h : KW b x) (e : obsW y = obsW x) (hp : y.panicked = none → x.panicked = none) :
    KW b y := by
  unfold obsW at e
  simp only [Prod.mk.injEq] at e
  obtain ⟨e1, e2, e4⟩ := e
  refine ⟨e2.trans h.nid, by rw [e4]; exact h.ext, fun hy => ?_⟩
  have k := h.ok (hp hy)
  exact ⟨by rw [e4]; exact k.ents, by rw [e1]; exact k.latest,
    by rw [fc_congr e4]; exact k.adj, by rw [fc_congr e4, e1]; exact k.keep⟩

/-- closed under the bookkeeping primitives that touch neither the log nor `configs` nor the identity (as
`CfgRel.QClosed`, without the compaction / snapshot primitives, which the model with membership changes excludes) -/
structure OClosed (Inv : Node → Prop) : Prop where
  panic : ∀ s site, Inv s → Inv (s.panic site)
  reply : ∀ s t r, Inv s → Inv (s.reply t r)
  point : ∀ s n, Inv s → Inv (s.point n)
  ldr : ∀ (s : Node) l, Inv s → Inv (s.withLdr l)
  popOrder : ∀ (s : Node), Inv s → Inv s.popOrder
  rpcReply : ∀ (s : Node) r, Inv s → Inv (s.withRpcReply r)
  ret : ∀ (s : Node) r, Inv s → Inv (s.ret r)
  setRole : ∀ (s : Node) r, Inv s → Inv (s.setRole r)
  setLeader : ∀ (s : Node) l, Inv s → Inv (s.setLeader l)
  setTerm : ∀ (s : Node) t, Inv s → Inv (s.setTerm t)
  setVotedFor : ∀ (s : Node) t c, Inv s → Inv (s.setVotedFor t c)
  votesNeeded : ∀ (s : Node) v, Inv s → Inv (s.withVotesNeeded v)
  candTransfer : ∀ (s : Node) v, Inv s → Inv (s.withCandTransfer v)
  snapPending : ∀ (s : Node) v, Inv s → Inv (s.withSnapPending v)

namespace OClosed
variable {Inv : Node → Prop} (h : OClosed Inv)
include h

theorem assert_o (s : Node) (c : Bool) (site : String) (hs : Inv s) : Inv (s.assert c site) := by
  unfold Node.assert; split
  · exact hs
  · exact h.panic _ _ hs

theorem transferReply_o (s : Node) (r : String) (hs : Inv s) : Inv (s.transferReply r) := by
  unfold Node.transferReply; exact h.ldr _ _ (h.reply _ _ _ hs)

theorem tryTransfer_o (s : Node) (hs : Inv s) : Inv s.tryTransfer := by
  unfold Node.tryTransfer; dsimp only
  have hp := h.popOrder s hs
  repeat' split
  all_goals first
    | exact hs
    | exact hp
    | exact h.panic _ _ hs
    | exact h.panic _ _ hp
    | exact h.ldr _ _ hs
    | exact h.ldr _ _ hp
    | exact h.ldr _ _ (h.panic _ _ hs)
    | exact h.ldr _ _ (h.panic _ _ hp)

theorem onTransfer_o (s : Node) (t g : Nat) (hs : Inv s) : Inv (s.onTransfer t g) := by
  unfold Node.onTransfer; dsimp only
  split
  · exact h.reply _ _ _ hs
  · exact h.tryTransfer_o _ (h.ldr _ _ hs)

theorem checkQuorum_o (s : Node) (hs : Inv s) : Inv s.checkQuorum := by
  unfold Node.checkQuorum; dsimp only
  repeat' split
  all_goals first
    | exact hs
    | exact h.panic _ _ hs
    | exact h.setLeader _ _ (h.setRole _ _ hs)
    | exact h.setLeader _ _ (h.setRole _ _ (h.panic _ _ hs))

omit h in
theorem foldl_o {β : Type} (f : Node → β → Node) (hf : ∀ s x, Inv s → Inv (f s x))
    (xs : List β) (s : Node) (hs : Inv s) : Inv (xs.foldl f s) := by
  induction xs generalizing s with
  | nil => exact hs
  | cons x xs ih => exact ih _ (hf _ _ hs)

theorem leaderRelease_o (s : Node) (hs : Inv s) : Inv s.leaderRelease := by
  unfold Node.leaderRelease Node.leaderReleaseRest; dsimp only
  apply h.ldr
  apply foldl_o _ (fun s t hs => h.reply _ _ _ hs)
  apply foldl_o _ (fun s t hs => h.reply _ _ _ hs)
  repeat' split
  all_goals first
    | exact hs
    | exact h.setLeader _ _ hs
    | exact h.transferReply_o _ _ hs
    | exact h.setLeader _ _ (h.transferReply_o _ _ hs)

theorem releaseRole_o (s : Node) (r : Role) (hs : Inv s) : Inv (s.releaseRole r) := by
  unfold Node.releaseRole
  split
  · exact hs
  · exact h.candTransfer _ _ hs
  · exact h.leaderRelease_o _ hs

theorem startElection_o (s : Node) (hs : Inv s) : Inv s.startElection := by
  unfold Node.startElection
  extract_lets s1 s2 s3 s4
  have h4 : Inv s4 := h.votesNeeded _ _ (h.setVotedFor _ _ _ (h.votesNeeded _ _ (h.assert_o _ _ _ hs)))
  split
  · exact h.setLeader _ _ (h.setRole _ _ h4)
  · exact h4

end OClosed

/-- one backward step for goals `Inv (…)` under an `OClosed` predicate -/
syntax "o_step " term : tactic
macro_rules
  | `(tactic| o_step $h) => `(tactic| first
      | assumption
      | with_reducible apply OClosed.ret $h
      | with_reducible apply OClosed.checkQuorum_o $h
      | with_reducible apply OClosed.tryTransfer_o $h
      | with_reducible apply OClosed.onTransfer_o $h
      | with_reducible apply OClosed.transferReply_o $h
      | with_reducible apply OClosed.startElection_o $h
      | with_reducible apply OClosed.releaseRole_o $h
      | with_reducible apply OClosed.assert_o $h
      | with_reducible apply OClosed.panic $h
      | with_reducible apply OClosed.reply $h
      | with_reducible apply OClosed.point $h
      | with_reducible apply OClosed.ldr $h
      | with_reducible apply OClosed.setRole $h
      | with_reducible apply OClosed.setLeader $h
      | with_reducible apply OClosed.setTerm $h
      | with_reducible apply OClosed.setVotedFor $h
      | with_reducible apply OClosed.snapPending $h
      | with_reducible apply OClosed.candTransfer $h
      | with_reducible apply OClosed.votesNeeded $h
      | with_reducible apply OClosed.rpcReply $h
      | with_reducible apply OClosed.popOrder $h
      | split)

syntax "o_auto " term : tactic
macro_rules
  | `(tactic| o_auto $h) => `(tactic| repeat' (o_step $h))

namespace OClosed
variable {Inv : Node → Prop} (h : OClosed Inv)
include h

theorem onVoteResult_o (s : Node) (e : Bool) (t r : Nat) (hs : Inv s) : Inv (s.onVoteResult e t r) := by
  unfold Node.onVoteResult; dsimp only
  o_auto h

theorem followerTimeout_o (s : Node) (hs : Inv s) : Inv s.followerTimeout := by
  unfold Node.followerTimeout; dsimp only
  o_auto h

theorem onVoteRequest_o (s : Node) (q : VoteReq) (hs : Inv s) : Inv (s.onVoteRequest q) := by
  unfold Node.onVoteRequest; dsimp only
  o_auto h

theorem onTimeoutNow_o (s : Node) (hs : Inv s) : Inv s.onTimeoutNow := by
  unfold Node.onTimeoutNow
  o_auto h

theorem onTakeSnapshot_o (s : Node) (t th : Nat) (hs : Inv s) : Inv (s.onTakeSnapshot t th) := by
  unfold Node.onTakeSnapshot
  o_auto h

theorem rejectEntries_o (s : Node) (bt : List QItem) (hs : Inv s) : Inv (s.rejectEntries bt) := by
  induction bt generalizing s with
  | nil => exact hs
  | cons q qs ih =>
    unfold Node.rejectEntries
    dsimp only
    repeat' (first | o_step h | apply ih)

theorem onWaitForStable_o (s : Node) (t : Nat) (hs : Inv s) : Inv (s.onWaitForStable t) := by
  unfold Node.onWaitForStable
  o_auto h

theorem rpcDone_o (s : Node) (a c : Bool) (hs : Inv s) : Inv (s.rpcDone a c) := by
  unfold Node.rpcDone
  o_auto h

end OClosed

theorem setVotedFor_pan' (x : Node) (t c : Nat) (h : (x.setVotedFor t c).panicked = none) : x.panicked = none := by
  cases hx : x.panicked with
  | none => rfl
  | some v =>
    exfalso
    revert h
    unfold Node.setVotedFor Node.storeTermVote Node.panic Node.point
    repeat' split
    all_goals simp_all

theorem kwClosed (b : Node) : OClosed (KW b) where
  panic := fun s site h => h.congr (by unfold obsW Node.panic; split <;> rfl) (q_panic s site).pan'
  reply := fun s t r h => h.congr (by unfold obsW Node.reply; split <;> rfl) (q_reply s t r).pan'
  point := fun _ _ h => h.congr rfl id
  ldr := fun _ _ h => h.congr rfl id
  popOrder := fun _ h => h.congr rfl id
  rpcReply := fun _ _ h => h.congr rfl id
  ret := fun _ _ h => h.congr rfl id
  setRole := fun _ _ h => h.congr rfl id
  setLeader := fun _ _ h => h.congr rfl id
  setTerm := fun s t h => h.congr (by
    unfold obsW Node.setTerm Node.storeTermVote Node.panic Node.point
    repeat' split
    all_goals rfl) (MemberCommit.setTerm_pan' s t)
  setVotedFor := fun s t c h => h.congr (by
    unfold obsW Node.setVotedFor Node.storeTermVote Node.panic Node.point
    repeat' split
    all_goals rfl) (setVotedFor_pan' s t c)
  votesNeeded := fun _ _ h => h.congr rfl id
  candTransfer := fun _ _ h => h.congr rfl id
  snapPending := fun _ _ h => h.congr rfl id

/-- `leader.init`: the caches are set from the latest configuration, then the block runs -/
theorem leaderInit_kw {x : Node} (h : KW b x) : KW b x.leaderInit := by
  unfold Node.leaderInit
  extract_lets x1 x2 x3 x4
  have hq1 : Quiet x x1 := q_assert x _ _
  have h1 : KW b x1 := h.congr (by unfold obsW; rw [hq1.configs, hq1.nid, hq1.entries]) hq1.pan'
  have h2 : K b x2 := (h1.congr (y := x2) rfl id).toK (fun _ => get_voter_eq_isVoter x1.configs.latest x1.nid)
  have hq3 : Quiet x2 x3 := by
    refine q_foldl _ (fun y m => ?_) _ _
    split
    · exact .refl _
    · exact q_addReplication _ _
  have h3 := KS.quiet h2 hq3
  have h4 := checkConfigActions_latest (fuelFor 0) 0 h3.1
  exact (storeEntry_k _ _ h4.1 (.plain _ (fun q hq => by rw [List.mem_singleton.mp hq]; decide))).1.toKW

theorem settle_kw (f : Nat) : ∀ (x : Node) (cur : Role), KW b x → KW b (settle f x cur) := by
  induction f with
  | zero => intro x cur h; exact h
  | succ n ih =>
    intro x cur h
    unfold settle
    split
    · exact h
    · extract_lets x1 cur' x2
      have h1 : KW b x1 := (kwClosed b).releaseRole_o _ _ h
      have h2 : KW b x2 := by
        unfold x2 Node.initRole
        split
        · exact h1
        · exact (kwClosed b).startElection_o _ h1
        · exact leaderInit_kw h1
      exact ih x2 cur' h2


/-- **every case of `handle`** other than an append request (the operations of the model with membership changes:
`LogRel.OpOK`, `CfgRel.OpOk`), for a bootstrapped node; a configuration submitted to a leader has strictly increasing
ids and two voters without pending action (`NoPanic.UserCfg true`) -/
theorem handle_kw (b : Node) (op : Op) (hb : KW b b)
    (hcache : b.role = .leader → b.ldr.node.voter = b.configs.latest.isVoter b.nid)
    (hboot : b.configs.isBootstrapped = true) (hok : LogRel.OpOK op) (hcf : CfgRel.OpOk op)
    (happ : ∀ q, op ≠ .append q)
    (hu : ∀ t c, op = .changeConfig t c → b.role = .leader → UserCfg true b.nid c) : KW b (b.handle op) := by
  have O := kwClosed b
  have hK : b.role = .leader → K b b := fun hr => hb.toK (fun _ => hcache hr)
  cases op <;> unfold Node.handle <;> dsimp only
  case vote q => exact O.rpcDone_o _ _ _ (O.onVoteRequest_o _ _ hb)
  case append q => exact absurd rfl (happ q)
  case install q => exact absurd hok (by simp [LogRel.OpOK])
  case timeoutNow => exact O.rpcDone_o _ _ _ (O.onTimeoutNow_o _ hb)
  case identity a c d => exact O.rpcReply _ _ hb
  case disconnected n =>
    split
    · exact O.setLeader _ _ hb
    · exact hb
  case timeout =>
    split
    · exact O.followerTimeout_o _ hb
    · exact O.startElection_o _ hb
    · exact O.checkQuorum_o _ hb
  case newEntries bt =>
    split
    · rename_i hr
      exact (storeEntry_k _ _ (hK hr) (.plain _ hcf)).1.toKW
    · exact O.rejectEntries_o _ _ hb
  case changeConfig t c =>
    split
    · rename_i hr
      exact (onChangeConfig_k (hK hr) t c (hu t c rfl hr)).1.toKW
    · unfold Node.bootstrap
      rw [if_pos hboot]
      exact O.reply _ _ _ hb
  case takeSnapshot t th => exact O.onTakeSnapshot_o _ _ _ hb
  case snapRun => exact absurd hok (by simp [LogRel.OpOK])
  case snapTaken => exact absurd hok (by simp [LogRel.OpOK])
  case waitStable t =>
    split
    · exact O.onWaitForStable_o _ _ hb
    · exact O.reply _ _ _ hb
  case transfer t g =>
    split
    · exact O.onTransfer_o _ _ _ hb
    · exact O.reply _ _ _ hb
  case voteResult e t r =>
    split
    · exact O.onVoteResult_o _ _ _ _ hb
    · exact hb
  case replUpdates us =>
    split
    · rename_i hr
      exact (checkReplUpdates_k (hK hr) us hok).1.toKW
    · exact hb
  case transferTimeout =>
    split
    · rename_i hr
      exact (replyTransfer_k (hK hr.1) _).1.toKW
    · exact hb
  case timeoutNowResult a c d =>
    split
    · rename_i hr
      exact (onTimeoutNowResult_k (hK hr.1) _ _ _).1.toKW
    · exact hb
  case newTermTimeout =>
    split
    · exact O.tryTransfer_o _ (O.ldr _ _ hb)
    · exact hb
  case shutdown => exact absurd hok (by simp [LogRel.OpOK])

/-- **what a step that is not an append request writes into the log** (node level; the content part of the side
condition `tree` of Props/C02Member.lean). Let `s` be a bootstrapped node whose configuration entries all carry `CfgAll`
configurations (`EntOK`), whose latest configuration is `CfgAll` or empty, and whose cached own entry is current if it
is leader (`CfgRel.SelfCache`). Let it handle to completion, WITHOUT FAILURE, an operation of the model with membership
changes that is not an append request; a configuration submitted to it as leader has strictly increasing ids and two
voters without pending action (`NoPanic.UserCfg true`). Then
1. the log is the old log plus new entries;
2. every configuration entry of the new log carries a `CfgAll` configuration, and the latest configuration is `CfgAll`
   or empty;
3. THE FIRST configuration entry appended in the step (if any) decodes to a configuration whose voting rights differ
   from those of the latest configuration before the step at one node at most (`C08.AdjacentVoters`);
4. if no configuration entry was appended the latest configuration is unchanged. -/
theorem step_content (s : Node) (op : Op) (ra : List Nat) (ord : List (List Nat))
    (hents : ∀ e ∈ s.log.entries, EntOK e) (hlat : PZ s.configs.latest) (hsc : SelfCache s)
    (hboot : s.configs.isBootstrapped = true) (hok : LogRel.OpOK op) (hcf : CfgRel.OpOk op)
    (happ : ∀ q, op ≠ .append q)
    (hu : ∀ t c, op = .changeConfig t c → s.role = .leader → UserCfg true s.nid c)
    (hp : (s.step op ra ord).panicked = none) :
    (∃ es, (s.step op ra ord).log.entries = s.log.entries ++ es) ∧
    (∀ e ∈ (s.step op ra ord).log.entries, EntOK e) ∧ PZ (s.step op ra ord).configs.latest ∧
    (∀ e, ((s.step op ra ord).log.entries.drop s.log.entries.length).find? (fun x => x.typ == etConfig) = some e →
      ∃ c, e.config? = some c ∧ C08.AdjacentVoters s.configs.latest c) ∧
    (((s.step op ra ord).log.entries.drop s.log.entries.length).find? (fun x => x.typ == etConfig) = none →
      (s.step op ra ord).configs.latest = s.configs.latest) := by
  have hb : KW (s.begin ra ord) (s.begin ra ord) :=
    ⟨rfl, ⟨[], (List.append_nil _).symm⟩, fun _ => ⟨hents, hlat,
      fun e he => (by
        have : fc (s.begin ra ord) (s.begin ra ord) = none := by unfold fc; rw [List.drop_length]; rfl
        rw [this] at he; cases he),
      fun _ => rfl⟩⟩
  have hh := handle_kw (s.begin ra ord) op hb hsc hboot hok hcf happ hu
  have key : KW (s.begin ra ord) (s.step op ra ord) := by
    unfold Node.step
    dsimp only
    split
    · exact hh
    · exact settle_kw 6 _ _ hh
  have k := key.ok hp
  exact ⟨key.ext, k.ents, k.latest, k.adj, k.keep⟩

end MemberGood
end Raft

#print axioms Raft.MemberGood.block
#print axioms Raft.MemberGood.step_content
