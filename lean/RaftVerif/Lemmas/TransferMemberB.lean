/-
C16 with membership changes, node level, part B — every case of `handle` run by a leader, for EVERY operation of the
model with membership changes (`LogRel.OpOK`: no snapshot operation; client batches may hold anything, configuration
change requests are handled by `leader.onChangeConfig`):

* `handle_frozen`  — if the handler of a leader ends in the leader role with a transfer in progress, then the log, the
                     last index / term and the LATEST configuration are as they were when the handler started;
* `handle_endM`    — `SysMore.handle_end` (how the handler ends as far as the transfer record is concerned) without the
                     restriction `OpOK2` (no configuration change);
* `step_frozen`    — the same for a whole step (handler + role transitions).
-/
import RaftVerif.Lemmas.TransferMemberA

namespace Raft
namespace TransferMember
open Node SysMore LogRel

/-! ### primitives that touch neither the log, nor the latest configuration, nor the leader record -/

/-- `s'` has the log, last index / term, latest configuration and leader record of `s` -/
def Keep (s s' : Node) : Prop := lq s' = lq s ∧ s'.ldr = s.ldr

theorem Keep.refl (s : Node) : Keep s s := ⟨rfl, rfl⟩

theorem Keep.trans {a b c : Node} (h1 : Keep a b) (h2 : Keep b c) : Keep a c :=
  ⟨h2.1.trans h1.1, h2.2.trans h1.2⟩

theorem Keep.frozen {b s s' : Node} (k : Keep s s') (h : Frozen b s) : Frozen b s' := frozen_congr h k.1 k.2

theorem keep_panic (s : Node) (site : String) : Keep s (s.panic site) := ⟨lq_panic s site, ldr_panic s site⟩

theorem keep_reply (s : Node) (t : Nat) (r : String) : Keep s (s.reply t r) := ⟨lq_reply s t r, ldr_reply s t r⟩

theorem keep_setVotedFor (s : Node) (t c : Nat) : Keep s (s.setVotedFor t c) := by
  unfold Node.setVotedFor Node.storeTermVote Node.point Node.panic
  dsimp only
  repeat' split
  all_goals exact ⟨rfl, rfl⟩

theorem keep_setTerm (s : Node) (t : Nat) : Keep s (s.setTerm t) := by
  unfold Node.setTerm Node.storeTermVote Node.point Node.panic
  dsimp only
  repeat' split
  all_goals exact ⟨rfl, rfl⟩

theorem keep_rpcDone (s : Node) (a b : Bool) : Keep s (s.rpcDone a b) := by
  unfold Node.rpcDone
  split
  · exact (Keep.trans (a := s) ⟨rfl, rfl⟩ (keep_panic _ _))
  · exact ⟨rfl, rfl⟩

theorem role_rpcDone (s : Node) (a b : Bool) : (s.rpcDone a b).role = s.role := by
  unfold Node.rpcDone Node.panic Node.withRpcReply
  dsimp only
  repeat' split
  all_goals rfl

theorem keep_onVoteRequest (s : Node) (q : VoteReq) : Keep s (s.onVoteRequest q) := by
  unfold Node.onVoteRequest
  dsimp only
  have k1 : ∀ (x : Node) t c r, Keep s x → Keep s ((x.setVotedFor t c).ret r) :=
    fun x t c r hx => hx.trans ((keep_setVotedFor x t c).trans ⟨rfl, rfl⟩)
  have k0 : Keep s (s.setRole .follower) := ⟨rfl, rfl⟩
  repeat' split
  all_goals first
    | exact ⟨rfl, rfl⟩
    | exact k1 _ _ _ _ k0
    | exact k1 _ _ _ _ (Keep.refl s)

theorem keep_onTimeoutNow (s : Node) : Keep s s.onTimeoutNow := by
  unfold Node.onTimeoutNow
  split <;> exact ⟨rfl, rfl⟩

theorem keep_checkQuorum (s : Node) : Keep s s.checkQuorum := by
  unfold Node.checkQuorum
  dsimp only
  repeat' split
  all_goals first
    | exact ⟨rfl, rfl⟩
    | exact keep_panic _ _
    | exact (keep_panic s _).trans ⟨rfl, rfl⟩

theorem keep_onTakeSnapshot (s : Node) (t th : Nat) : Keep s (s.onTakeSnapshot t th) := by
  unfold Node.onTakeSnapshot
  split
  · exact keep_reply _ _ _
  · exact ⟨rfl, rfl⟩

/-- `tryTransfer` keeps the log and the configurations, and whether a transfer is in progress -/
theorem lq_tryTransfer (c : Node) : lq c.tryTransfer = lq c := by
  unfold Node.tryTransfer Node.withLdr Node.panic Node.popOrder
  dsimp only
  repeat' split
  all_goals rfl

theorem frozen_tryTransfer {b c : Node} (h : Frozen b c) : Frozen b c.tryTransfer := by
  intro ha
  rw [lq_tryTransfer]
  exact h (by rw [← (tryTransfer_transfer c).2.2.1]; exact ha)

/-- the leader record is replaced by one whose transfer is in progress only if the old one was -/
theorem frozen_ldr {b s : Node} (l : Leader) (h : Frozen b s) (hl : l.transfer.active = true → s.ldr.transfer.active = true) :
    Frozen b (s.withLdr l) := fun ha => h (hl ha)

theorem frozen_idle {b s : Node} (h : s.ldr.transfer = {}) : Frozen b s := by
  intro ha
  rw [h] at ha
  cases ha

/-! ### `leader.checkReplUpdates` -/

theorem replUpdLoop_frozen (b : Node) (us : List ReplUpdate) (hus : NoCompact us) :
    ∀ (s : Node) (f : UpdFlags), Frozen b s → f.removeLTEU = false →
      Frozen b (replUpdLoop s f us).1 ∧ (replUpdLoop s f us).2.removeLTEU = false := by
  induction us with
  | nil => intro s f hs hf; exact ⟨hs, hf⟩
  | cons u us ih =>
    have hus' : NoCompact us := fun u' hu' => hus u' (List.mem_cons_of_mem _ hu')
    intro s f hs hf
    unfold Node.replUpdLoop
    split
    · exact ih hus' s f hs hf
    · split
      · exact ih hus' s f hs hf
      · rename_i st hst
        split
        · rename_i v hv
          dsimp only
          refine ih hus' _ { f with matchU := true } ?_ hf
          have h1 := (frozen_closed b).setRepl_inv s { st with matchIndex := v } hs
          split
          · exact (frozen_closed b).checkConfigAction_inv _ _ _ _ _ h1
          · exact h1
        · rename_i v hv
          exact absurd hv (hus u (List.mem_cons_self ..) v)
        · exact ih hus' _ { f with noContactU := true } ((frozen_closed b).setRepl_inv _ _ hs) hf
        · refine ⟨?_, hf⟩
          exact (keep_setTerm _ _).frozen (Keep.frozen (s := s) ⟨rfl, rfl⟩ hs)

theorem replCore_frozen (b s : Node) (us : List ReplUpdate) (hus : NoCompact us) (hs : Frozen b s) :
    Frozen b (replCore s us).1 := by
  unfold replCore
  dsimp only
  obtain ⟨h1, h2⟩ := replUpdLoop_frozen b us hus s {} hs rfl
  split
  · exact h1
  · dsimp only
    rw [h2]
    simp only [Bool.false_eq_true, false_and, if_false]
    have h3 : Frozen b (if (replUpdLoop s {} us).2.matchU = true then onMajorityCommit (fuelFor 0) (replUpdLoop s {} us).1
        else (replUpdLoop s {} us).1) := by
      split
      · exact (frozen_closed b).onMajorityCommit_inv _ _ h1
      · exact h1
    split
    · exact (keep_checkQuorum _).frozen h3
    · exact h3

/-! ### every case of `handle`, run by a leader -/

theorem onChangeConfig_frozen (b s : Node) (t : Nat) (c : Config) (hs : Frozen b s) : Frozen b (s.onChangeConfig t c) := by
  unfold Node.onChangeConfig
  dsimp only
  have h1 := (frozen_closed b).checkConfigActions_inv (fuelFor 0) s t c hs
  repeat' split
  all_goals first
    | exact (frozen_closed b).reply _ _ _ hs
    | exact (frozen_closed b).doChangeConfig_inv _ _ _ _ h1
    | exact h1

/-- **while a transfer is in progress the handler of a leader stores nothing** — for EVERY state `b` of a node in
the leader role, every operation of the model with membership changes (`LogRel.OpOK`): if the handler ends in the
leader role with a transfer in progress, then the log, the last index / term and the latest configuration are as they
were when the handler started. -/
theorem handle_frozen (b : Node) (op : Op) (hok : OpOK op) (hl : b.role = .leader)
    (hr : (b.handle op).role = .leader) : Frozen b (b.handle op) := by
  have h0 : Frozen b b := fun _ => rfl
  cases op <;> unfold Node.handle at hr ⊢ <;> dsimp only at hr ⊢
  case vote q => exact ((keep_onVoteRequest b q).trans (keep_rpcDone _ _ _)).frozen h0
  case append q =>
    by_cases hq : q.term < b.term
    · have e : b.onAppendEntries q = b.ret rStaleTerm := by
        unfold Node.onAppendEntries
        rw [if_pos hq]
      rw [e]
      exact (Keep.trans (a := b) (b := b.ret rStaleTerm) ⟨rfl, rfl⟩ (keep_rpcDone _ _ _)).frozen h0
    · rw [role_rpcDone, onAppendEntries_role b q hq] at hr
      cases hr
  case install q => exact absurd hok (by simp [OpOK])
  case timeoutNow => exact ((keep_onTimeoutNow b).trans (keep_rpcDone _ _ _)).frozen h0
  case identity a c d => exact Keep.frozen (s := b) ⟨rfl, rfl⟩ h0
  case disconnected n =>
    split
    · exact Keep.frozen (s := b) ⟨rfl, rfl⟩ h0
    · exact h0
  case timeout =>
    rw [hl]
    exact (keep_checkQuorum b).frozen h0
  case newEntries bt =>
    rw [if_pos hl]
    exact (frozen_closed b).storeEntry_inv _ _ _ h0
  case changeConfig t c =>
    rw [if_pos hl]
    exact onChangeConfig_frozen b b t c h0
  case takeSnapshot t th => exact (keep_onTakeSnapshot b t th).frozen h0
  case snapRun => exact absurd hok (by simp [OpOK])
  case snapTaken => exact absurd hok (by simp [OpOK])
  case waitStable t =>
    rw [if_pos hl]
    unfold Node.onWaitForStable
    split
    · exact (keep_reply _ _ _).frozen h0
    · exact (frozen_closed b).ldr _ _ h0 rfl
  case transfer t g =>
    rw [if_pos hl]
    unfold Node.onTransfer
    dsimp only
    split
    · exact (keep_reply _ _ _).frozen h0
    · apply frozen_tryTransfer
      intro _
      rfl
  case voteResult e t r =>
    rw [if_neg (by rw [hl]; exact fun h => by cases h)]
    exact h0
  case replUpdates us =>
    rw [if_pos hl, checkReplUpdates_eq]
    have hc := replCore_frozen b b us hok h0
    split
    · exact hc
    · split
      · exact frozen_tryTransfer hc
      · exact hc
  case transferTimeout =>
    split
    · exact frozen_idle (replyTransfer_transfer _ _)
    · exact h0
  case timeoutNowResult src err r =>
    split
    · unfold Node.onTimeoutNowResult
      extract_lets l0 t0 s1 s2 l1 t1
      have f1 : Frozen b s1 := frozen_ldr _ h0 (fun h => h)
      have f2 : Frozen b s2 := by
        unfold s2
        split
        · split
          · exact (frozen_closed b).setRepl_inv _ _ f1
          · exact f1
        · exact (keep_panic _ _).frozen f1
      split
      · split
        · exact frozen_tryTransfer f2
        · exact f2
      · split
        · split
          · exact frozen_idle (replyTransfer_transfer _ _)
          · exact frozen_tryTransfer f1
        · exact frozen_ldr _ h0 (fun h => h)
    · exact h0
  case newTermTimeout =>
    split
    · exact frozen_tryTransfer (frozen_ldr _ h0 (fun h => h))
    · exact h0
  case shutdown => exact absurd hok (by simp [OpOK])

/-! ### `handle_end` for every operation -/

theorem onChangeConfig_teq (b : Node) (t : Nat) (c : Config) : TEq b (b.onChangeConfig t c) := by
  unfold Node.onChangeConfig
  dsimp only
  have h := teq_step b
  have h0 : TEq b b := rfl
  have h1 := h.checkConfigActions_inv (fuelFor 0) b t c h0
  repeat' split
  all_goals first
    | exact h.reply _ _ _ h0
    | exact h.doChangeConfig_inv _ _ _ _ h1
    | exact h1

/-- **every case of `handle`, run by a leader, for the operations of the model with membership changes**: the
classification `SysMore.HEnd` (the transfer record is kept / the handler ends with `tryTransfer` / it ends with
`replyTransfer r`, `r ≠ "ok"`). A client batch satisfies `CfgRel.OpOk` (it holds no configuration entry). -/
theorem handle_endM (b : Node) (op : Op) (hok : OpOK op) (hcf : CfgRel.OpOk op) (hl : b.role = .leader) :
    HEnd b (b.handle op) := by
  by_cases hc : ∃ t c, op = .changeConfig t c
  · obtain ⟨t, c, rfl⟩ := hc
    unfold Node.handle
    dsimp only
    rw [if_pos hl]
    exact .keep (TSame.of_eq (onChangeConfig_teq b t c))
  · refine handle_end b op ⟨hok, fun bt e => ?_, fun t c e => hc ⟨t, c, e⟩⟩ hl
    subst e
    exact hcf

/-! ### the whole step -/

/-- the role transitions keep "no transfer in progress" -/
theorem settle_noTransfer (f : Nat) (s : Node) (cur : Role) (h : s.ldr.transfer = {}) :
    (settle f s cur).ldr.transfer = {} := by
  induction f generalizing s cur with
  | zero => exact h
  | succ n ih =>
    unfold settle
    split
    · exact h
    · apply ih
      have h1 : (s.releaseRole cur).ldr.transfer = {} := by
        unfold Node.releaseRole
        split
        · exact h
        · exact h
        · rw [leaderRelease_transfer]
      unfold Node.initRole
      split
      · exact h1
      · rw [startElection_ldr]; exact h1
      · rw [leaderInit_transfer]

/-- a leader whose handler left the leader role ends the step without a transfer -/
theorem settle_left_noTransfer (f : Nat) (s : Node) (hr : s.role ≠ .leader) :
    (settle (f + 1) s .leader).ldr.transfer = {} := by
  unfold settle
  rw [if_neg hr]
  apply settle_noTransfer
  have h1 : (s.releaseRole .leader).ldr.transfer = {} := by
    unfold Node.releaseRole; dsimp only; rw [leaderRelease_transfer]
  unfold Node.initRole
  split
  · exact h1
  · rw [startElection_ldr]; exact h1
  · rw [leaderInit_transfer]

/-- **C16, node level, while a transfer is in progress the leader stores nothing** — for EVERY state `s` of a node
in the leader role, every operation of the model with membership changes (`LogRel.OpOK`; client batches, configuration
change requests, reports of the replications — which drive promotions / removals —, commits), every oracle: if AFTER
the step a transfer is in progress (`ldr.transfer.active`), then
* the handler ended in the leader role, the step is the handler, the node is still leader, and
* the log (entries, first index), the last index and term and the LATEST configuration are those before the step:
  no client entry and no configuration entry was appended, no configuration adopted.
(With `handle_endM`: the transfer in progress after the step is the one that was in progress before, or was started
by this very step, which then did nothing else.) -/
theorem step_frozen (s : Node) (op : Op) (ra : List Nat) (ord : List (List Nat)) (hok : OpOK op)
    (hl : s.role = .leader) (ha : (s.step op ra ord).ldr.transfer.active = true) :
    ((s.begin ra ord).handle op).role = .leader ∧ s.step op ra ord = (s.begin ra ord).handle op ∧
    lq (s.step op ra ord) = lq s := by
  have hne : op ≠ .shutdown := by intro e; rw [e] at hok; exact hok
  have hst := TL.step_eq_settle s op ra ord hne
  rw [hl] at hst
  have hlb : (s.begin ra ord).role = .leader := hl
  by_cases hr : ((s.begin ra ord).handle op).role = .leader
  · have hp : s.step op ra ord = (s.begin ra ord).handle op := by
      rw [hst, ← hr]; exact settle_same 6 _
    refine ⟨hr, hp, ?_⟩
    rw [hp] at ha ⊢
    exact handle_frozen (s.begin ra ord) op hok hlb hr ha
  · have := settle_left_noTransfer 5 _ hr
    rw [← hst] at this
    rw [this] at ha
    cases ha

end TransferMember
end Raft
