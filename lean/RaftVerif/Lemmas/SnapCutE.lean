/-
The cut (part 1): crash disks and restart for the un-compaction that keeps the segment list (`SnapInstV.V`,
Lemmas/SnapInstV.lean) — what `Snap3.NoCut` excluded for crashes: a process that dies while an append request overwrites
the uncommitted first entry directly behind an installed snapshot.

* `crashDisk_V` — the disk of `V β s` at a crash point is `vD β` of the disk of `s`;
* `restart_segs` — `openStorage` does not read the segment list: a restart from a disk with another segment list yields
  the same node with that segment list (when the log is not reset);
* `crashC_congr` — the ledgers of a crash read of the restarted node only term, vote and log entries.
-/
import RaftVerif.Lemmas.SnapCutD
import RaftVerif.Lemmas.SnapInst3v
import RaftVerif.Lemmas.SnapInst4b

namespace Raft
namespace SnapCut
open Node Election LogRel Replication CommitRel Commit C02Sys C03Sys SnapRel SnapRelU SnapSim Snap Snap2 SnapInv SnapInv2
open SnapInst SnapInstU Snap3 SnapFrame SnapInst3 SnapInstV

variable {β : List Entry}

/-- what is on disk when the process dies: the disk of `V β s` is `vD β` of the disk of `s` -/
theorem crashDisk_V (s : Node) (op : Op) (ra : List Nat) (ord : List (List Nat))
    (h : (V β s).step op ra ord = V β (s.step op ra ord)) (k : Nat) :
    C05.crashDisk (V β s) op ra ord k = vD β (C05.crashDisk s op ra ord k) := by
  cases k with
  | zero => exact V_durable s
  | succ k =>
    simp only [C05.crashDisk]
    rw [h]
    show (match ((s.step op ra ord).trace.map (vP β))[k]? with | some p => p.2 | none => _) = _
    rw [List.getElem?_map]
    cases (s.step op ra ord).trace[k]? with
    | none => exact V_durable _
    | some p => rfl

/-- the log with another segment list -/
def segL (l : NLog) (sg : List Nat) : NLog := { l with segs := sg }

theorem vD_eq (d : Durable) : vD β d = { uncD β d with log := segL (uncD β d).log d.log.segs } := rfl

theorem scan_segs (l : NLog) (sg : List Nat) (sn : Nat) : ∀ (fuel i : Nat) (latest : Option Config),
    scanConfigs (segL l sg) sn fuel i latest = scanConfigs l sn fuel i latest := by
  intro fuel
  induction fuel with
  | zero => intro i latest; rfl
  | succ n ih =>
    intro i latest
    unfold scanConfigs
    by_cases hi : i ≤ sn
    · rw [if_pos hi, if_pos hi]
    · rw [if_neg hi, if_neg hi]
      have hg : (segL l sg).get? i = l.get? i := rfl
      rw [hg]
      cases l.get? i with
      | none => rfl
      | some e =>
        dsimp only
        cases e.config? with
        | some c =>
          dsimp only
          cases latest with
          | none => exact ih _ _
          | some l' => rfl
        | none =>
          dsimp only
          split
          · rfl
          · exact ih _ _

theorem staleLog_segs (D : Durable) (sg : List Nat) : staleLog { D with log := segL D.log sg } = staleLog D := rfl

/-- **`openStorage` does not read the segment list** -/
theorem restart_segs (D : Durable) (sg : List Nat) (r : Nat) (sor : Bool) (N : Node)
    (hN : Node.restart D r sor = some N) (hst : staleLog D = false) :
    Node.restart { D with log := segL D.log sg } r sor = some { N with log := segL N.log sg } := by
  have hst' := staleLog_segs D sg
  rw [hst] at hst'
  have hf : restartFails { D with log := segL D.log sg } = restartFails D := by
    unfold restartFails
    dsimp only
    simp only [hst, hst', Bool.false_eq_true, if_false]
    rw [scan_segs]
    rfl
  have hrn : restartNode { D with log := segL D.log sg } r sor =
      { restartNode D r sor with log := segL (restartNode D r sor).log sg } := by
    unfold restartNode
    dsimp only
    simp only [hst, hst', Bool.false_eq_true, if_false]
    rw [scan_segs]
    rfl
  unfold Node.restart at hN ⊢
  rw [hf]
  show (if D.cid = 0 ∨ D.nid = 0 then none else _) = _
  split at hN
  · cases hN
  · rename_i h1
    rw [if_neg h1]
    split at hN
    · cases hN
    · rename_i h2
      rw [if_neg h2]
      injection hN with hN
      rw [← hN]
      dsimp only
      rw [hrn]
      show some (if (restartNode D r sor).snapIndex > 0 then _ else _) = _
      split
      · rw [fsmRestore_eq, fsmRestore_eq]; rfl
      · rfl

/-- the ledgers of a crash read of the restarted node only term, vote and log entries -/
theorem crashC_congr (z : Commit.Sys) (i : Nat) (op : Op) (N N' : Node)
    (h1 : N'.term = N.term) (h2 : N'.votedFor = N.votedFor) (h3 : N'.log.entries = N.log.entries) :
    withNodes (crashC z i op N) (setNode (crashC z i op N).rp.el.node i N') = crashC z i op N' := by
  have hs : setNode (setNode z.rp.el.node i N) i N' = setNode z.rp.el.node i N' := by
    funext j; unfold setNode; split <;> rfl
  unfold crashC crashRp campOf withNodes
  simp only [h1, h2, h3, hs]

theorem restart_segs_eq (d : Durable) (r : Nat) (sor : Bool) (n : Node) (hn : Node.restart d r sor = some n)
    (hst : staleLog d = false) : n.log.segs = d.log.segs := by
  have hne := C10.restart_fsm d r sor n hn
  have hl : n.log = (restartNode d r sor).log := hne.2.2.2.1
  have hl2 := (C10.restartNode_fields d r sor).2.2.1
  have hlo : C10.logOf d = d.log := by
    rcases C10.logOf_cases d with ⟨hs', _⟩ | ⟨_, e⟩
    · rw [hst] at hs'; cases hs'
    · exact e
  rw [hl, hl2, hlo]

section
variable {V : List Nat}

/-- **a crash at any storage point of the handler of ANY append request — also one that overwrites the first entry of a
log that starts exactly at its snapshot index (`RemoveGTE` empties the log: the case `Snap3.NoCut` excluded) — and the
restart from a log that is not stale.**  The virtual node is regrouped to the un-compaction that keeps the segment list
(`SnapInstV.V`), crashes there (a crash of stage 1: `crashDisk_V`, `restart_segs`), and the restarted node is regrouped
back. -/
theorem crash3_append (hV : V.Nodup) {x : Snap3.Sys} (hI3 : Inv3 V x) (hS : Side3 V x) {i : Nat} {q : AppendReq}
    {ra : List Nat} {ord : List (List Nat)} {src k retain : Nat} {sor : Bool} {n : Node}
    (en : Snap.Enabled x.s2.cs i (.append q) src) (hret : 1 ≤ retain)
    (hp : ((x.node i).step (.append q) ra ord).panicked = none)
    (hst : staleLog (C05.crashDisk (x.node i) (.append q) ra ord k) = false)
    (hn : Node.restart (C05.crashDisk (x.node i) (.append q) ra ord k) retain sor = some n)
    (hseg : n.log.segs ≠ [])
    (hS' : SideS V (view (crashS x.s2 i (.append q) n))) :
    SInv V (view (crashS x.s2 i (.append q) n)) ∧ PrevOK n ∧
    (crashS x.s2 i (.append q) n).vnode i = U (x.s2.base i) n ∧
    FilesOK (x.vlog i) (x.node i).commitIndex (C05.crashDisk (x.node i) (.append q) ra ord k).snaps ∧
    (∀ g ∈ (C05.crashDisk (x.node i) (.append q) ra ord k).snaps, termAt (x.vlog i) g.index = g.term) ∧
    (C05.crashDisk (x.node i) (.append q) ra ord k).log.prev = (x.node i).log.prev := by
  have hI := hI3.sinv
  have hP := hI3.prev
  have hfl : (x.node i).log.prev ≤ (x.node i).log.flushed :=
    prev_le_flushed (x.s2.base i) (hS.segs i) (vnode_lwf3 hI i)
  have hne : (x.node i).log.segs ≠ [] := fun h => by
    have := (hS.segs i).head; rw [h] at this; cases this
  have hav : AV (x.node i) := ⟨(hP i).le, hne⟩
  have so : SnapOK (x.vnode i) := hI.snap i
  have hcomm0 := append_step_V (β := x.s2.base i) (x.node i) q ra ord hav hp
  have hdiskV := crashDisk_V (β := x.s2.base i) (x.node i) (.append q) ra ord hcomm0 k
  -- the disk
  have fr := step_frame (x.node i) (.append q) ra ord trivial (hP i).le hfl
  have hd : (C05.crashDisk (x.node i) (.append q) ra ord k).log.prev = (x.node i).log.prev ∧
      (C05.crashDisk (x.node i) (.append q) ra ord k).log.prev +
        (C05.crashDisk (x.node i) (.append q) ra ord k).log.entries.length ≤
        (C05.crashDisk (x.node i) (.append q) ra ord k).log.flushed := by
    have hpre : (x.node i).durable.log.prev = (x.node i).log.prev ∧
        (x.node i).durable.log.prev + (x.node i).durable.log.entries.length ≤ (x.node i).durable.log.flushed :=
      ⟨rfl, durable_len _ hfl⟩
    rcases C04Sys.crashDisk_cases (x.node i) (.append q) ra ord k with e | ⟨p, hpt, e⟩ | e
    · rw [e]; exact hpre
    · rw [e]
      have := fr.2.2.2.2 p hpt
      exact ⟨this.1, this.2.2⟩
    · rw [e]
      exact ⟨fr.1, durable_len _ (by rw [fr.1]; exact fr.2.1)⟩
  have hsd := SnapInst4.crash_snaps_eq (x.node i) (.append q) ra ord k en.ok2.1 (fun h => nomatch h) (fun h => nomatch h)
  generalize C05.crashDisk (x.node i) (.append q) ra ord k = d at hn hst hdiskV hd hsd
  have hhd : headSnap d = headOf (x.node i).snapsDisk := by show headOf d.snaps = _; rw [hsd]
  have hft : ∀ g ∈ d.snaps, termAt (x.vlog i) g.index = g.term := by rw [hsd]; exact (hI3.vterm i).files
  have hfo : FilesOK (x.vlog i) (x.node i).commitIndex d.snaps := by rw [hsd]; exact so.files
  have hsn : (x.node i).snapIndex = (headSnap d).index := by rw [hhd]; exact so.head
  obtain ⟨r1, r2, r3, r4, r5⟩ := restart_view3 (x.s2.base i) d retain sor n hn
    (by rw [hd.1, ← hsn]; exact (hP i).le) hd.2 hst (pad_term_of_files hd.1 hft)
  have hnu : staleLog (uncD (x.s2.base i) d) = false := restart_notstale _ retain sor _ r1 rfl
  obtain ⟨N1, hN1⟩ : ∃ N1 : Node, N1 = { U (x.s2.base i) n with log := segL (U (x.s2.base i) n).log d.log.segs } := ⟨_, rfl⟩
  have rV : Node.restart (vD (x.s2.base i) d) retain sor = some N1 := by
    rw [vD_eq, hN1]; exact restart_segs _ _ _ _ _ r1 hnu
  have hPn : U (newBase x.s2 i n.log.prev) n = U (x.s2.base i) n := by
    have hb : newBase x.s2 i n.log.prev = pad (x.s2.base i) (x.node i).log.prev := by
      unfold newBase Snap2.Sys.vlog Snap2.Sys.vnode
      rw [r2, hd.1]
      exact take_vlog (x.s2.base i) (x.node i).log
    rw [hb, U_pad _ _ _ (by rw [r2, hd.1]) (by rw [r5]; intro pt hpt; cases hpt)]
  -- step 1: regroup the virtual node of `i` to `V`
  obtain ⟨ss1, _⟩ := snapStep_UV (x.s2.base i) (x.node i) hne so
  have hI1 := sinv_regroup hI ss1
  obtain ⟨X1, hX1⟩ : ∃ X1 : Snap.Sys, X1 = { cs := withNodes (view x.s2).cs (setNode (view x.s2).cs.rp.el.node i (SnapInstV.V (x.s2.base i) (x.node i))), snaps := newSnaps i ((view x.s2).node i).snapsDisk (SnapInstV.V (x.s2.base i) (x.node i)).snapsDisk ++ (view x.s2).snaps } :=
    ⟨_, rfl⟩
  rw [← hX1] at hI1
  have hx1i : X1.node i = SnapInstV.V (x.s2.base i) (x.node i) := by rw [hX1]; exact setNode_same _ _ _
  have hx1j : ∀ j, j ≠ i → X1.node j = x.vnode j := fun j hj => by rw [hX1]; exact setNode_other _ _ _ _ hj
  have hx1sent : X1.cs.rp.sent = x.s2.cs.rp.sent := by rw [hX1]; rfl
  have hSX1 : SideS V X1 := by
    refine ⟨⟨fun j => ?_, fun j => ?_⟩, fun j => ?_, fun j => ?_⟩
    · show (X1.node j).configs.isBootstrapped = true ∧ (X1.node j).configs.latest.voters = V
      by_cases hj : j = i
      · subst hj; rw [hx1i]; exact hS.sideV.1 j
      · rw [hx1j j hj]; exact hS.sideV.1 j
    · show (X1.node j).configs.latest.isStable = true
      by_cases hj : j = i
      · subst hj; rw [hx1i]; exact hS.sideV.2 j
      · rw [hx1j j hj]; exact hS.sideV.2 j
    · by_cases hj : j = i
      · subst hj; rw [hx1i]; rfl
      · rw [hx1j j hj]; rfl
    · show ∀ e ∈ (X1.node j).log.entries, e.typ = etConfig → e.cfg.isSome = true
      by_cases hj : j = i
      · subst hj; rw [hx1i]; exact hS.dec j
      · rw [hx1j j hj]; exact hS.dec j
  have hx1i' : X1.cs.node i = SnapInstV.V (x.s2.base i) (x.node i) := hx1i
  have en1 : Snap.Enabled X1.cs i (.append q) src := by
    refine ⟨en.id, (fun q' h => by cases h), (fun hc => ?_), en.ok2, (fun q' hq' => ?_), (fun q' h => by cases h),
      en.appendSrc, (fun us h => by cases h)⟩
    · obtain ⟨_, _, _, he⟩ := hc; cases he
    · have := en.append q' hq'
      show q'.term < (X1.cs.node i).term ∨ q' ∈ X1.cs.rp.sent
      rw [hx1i', hx1sent]; exact this
  -- step 2: the virtual node crashes and restarts (stage 1)
  obtain ⟨Y1, hY1⟩ : ∃ Y1 : Snap.Sys, Y1 = { cs := crashC X1.cs i (.append q) N1, snaps := newSnaps i (X1.node i).snapsDisk N1.snapsDisk ++ X1.snaps } :=
    ⟨_, rfl⟩
  have ht : Snap.Trans X1 Y1 := by
    rw [hY1]
    exact Snap.Trans.crash i (.append q) ra ord src k retain sor N1 en1 hret (fun h => nomatch h)
      (by rw [hx1i, hdiskV]; exact rV)
  have hY1i : Y1.node i = N1 := by rw [hY1]; exact crashC_node_i _ _ _ _
  have hY1j : ∀ j, j ≠ i → Y1.node j = x.vnode j := fun j hj => by
    rw [hY1]
    show (crashC X1.cs i (.append q) N1).node j = _
    rw [crashC_node_j _ _ _ _ hj]; exact hx1j j hj
  have hvy : ∀ j, (crashS x.s2 i (.append q) n).vnode j = if j = i then U (x.s2.base i) n else x.vnode j := by
    intro j; rw [view_crashS_node, hPn]
  have hN1c : N1.configs = n.configs := by rw [hN1]; rfl
  have hN1e : N1.log.entries = (U (x.s2.base i) n).log.entries := by rw [hN1]; rfl
  have hSY1 : SideS V Y1 := by
    refine ⟨⟨fun j => ?_, fun j => ?_⟩, fun j => ?_, fun j => ?_⟩
    · show (Y1.node j).configs.isBootstrapped = true ∧ (Y1.node j).configs.latest.voters = V
      have := hS'.sideV.1 j
      have this' : ((crashS x.s2 i (.append q) n).vnode j).configs.isBootstrapped = true ∧
          ((crashS x.s2 i (.append q) n).vnode j).configs.latest.voters = V := this
      rw [hvy] at this'
      by_cases hj : j = i
      · subst hj; rw [hY1i, hN1c]; rw [if_pos rfl] at this'; exact this'
      · rw [hY1j j hj]; rw [if_neg hj] at this'; exact this'
    · show (Y1.node j).configs.latest.isStable = true
      have := hS'.sideV.2 j
      have this' : ((crashS x.s2 i (.append q) n).vnode j).configs.latest.isStable = true := this
      rw [hvy] at this'
      by_cases hj : j = i
      · subst hj; rw [hY1i, hN1c]; rw [if_pos rfl] at this'; exact this'
      · rw [hY1j j hj]; rw [if_neg hj] at this'; exact this'
    · show (Y1.node j).log.prev = 0
      by_cases hj : j = i
      · subst hj; rw [hY1i, hN1]; rfl
      · rw [hY1j j hj]; rfl
    · show ∀ e ∈ (Y1.node j).log.entries, e.typ = etConfig → e.cfg.isSome = true
      have := hS'.dec j
      have this' : ∀ e ∈ ((crashS x.s2 i (.append q) n).vnode j).log.entries,
          e.typ = etConfig → e.cfg.isSome = true := this
      rw [hvy] at this'
      by_cases hj : j = i
      · subst hj; rw [hY1i, hN1e]; rw [if_pos rfl] at this'; exact this'
      · rw [hY1j j hj]; rw [if_neg hj] at this'; exact this'
  have hIY1 := inv_trans hV hI1 hSX1 ht hSY1
  -- step 3: regroup back to `U`
  have hsegs : n.log.segs = d.log.segs := restart_segs_eq d retain sor n hn hst
  have hsoN : SnapOK N1 := by rw [← hY1i]; exact hIY1.snap i
  have ss2 : SnapStep N1 (U (x.s2.base i) n) := by
    rw [hN1] at hsoN ⊢
    refine ⟨⟨rfl, rfl, rfl, rfl, rfl, rfl, rfl, Nat.le_refl _, fun hw => ?_, rfl, rfl, rfl, rfl, rfl, rfl⟩, rfl,
      ⟨hsoN.retain, hsoN.files, hsoN.head, hsoN.le⟩, Nat.le_refl _, fun g hg => Or.inl hg⟩
    show C06.LogWF (uncLog (x.s2.base i) n.log)
    have hw' : C06.LogWF (segL (uncLog (x.s2.base i) n.log) d.log.segs) := hw
    unfold C06.LogWF at hw' ⊢
    have h1 : (segL (uncLog (x.s2.base i) n.log) d.log.segs).lastSegPrev = (uncLog (x.s2.base i) n.log).lastSegPrev := by
      rw [uncLog_lastSegPrev]
      unfold NLog.lastSegPrev segL
      dsimp only
      rw [← hsegs]
      cases hl : n.log.segs.getLast? with
      | none => exact absurd (List.getLast?_eq_none_iff.mp hl) hseg
      | some v => rfl
    have h2 : (segL (uncLog (x.s2.base i) n.log) d.log.segs).last = (uncLog (x.s2.base i) n.log).last := rfl
    have h3 : (segL (uncLog (x.s2.base i) n.log) d.log.segs).flushed = (uncLog (x.s2.base i) n.log).flushed := rfl
    rw [h1, h2, h3] at hw'
    exact hw'
  have ss2' : SnapStep (Y1.node i) (U (x.s2.base i) n) := by rw [hY1i]; exact ss2
  have hI2 := sinv_regroup hIY1 ss2'
  -- step 4: this is the view of the state after the crash
  have hview : view (crashS x.s2 i (.append q) n) =
      { cs := withNodes Y1.cs (setNode Y1.cs.rp.el.node i (U (x.s2.base i) n)),
        snaps := newSnaps i (Y1.node i).snapsDisk (U (x.s2.base i) n).snapsDisk ++ Y1.snaps } := by
    rw [view_crashS x.s2 i (.append q) n _ hPn]
    refine sys_ext ?_ ?_
    · show crashC (view x.s2).cs i (.append q) (U (x.s2.base i) n) = withNodes Y1.cs (setNode Y1.cs.rp.el.node i _)
      have hYcs : Y1.cs = crashC (view x.s2).cs i (.append q) N1 := by
        rw [hY1, hX1]
        exact crashC_regroup (view x.s2).cs i (.append q) (SnapInstV.V (x.s2.base i) (x.node i)) N1 rfl rfl rfl rfl
      rw [hYcs]
      exact (crashC_congr (view x.s2).cs i (.append q) N1 (U (x.s2.base i) n) (by rw [hN1]) (by rw [hN1])
        (by rw [hN1]; rfl)).symm
    · show newSnaps i (x.node i).snapsDisk n.snapsDisk ++ x.s2.snaps = _
      have e1 : (Y1.node i).snapsDisk = n.snapsDisk := by rw [hY1i, hN1]; rfl
      have e2 : (X1.node i).snapsDisk = (x.node i).snapsDisk := by rw [hx1i]; rfl
      have e3 : N1.snapsDisk = n.snapsDisk := by rw [hN1]; rfl
      have e4 : X1.snaps = newSnaps i (x.node i).snapsDisk (x.node i).snapsDisk ++ x.s2.snaps := by rw [hX1]; rfl
      have e5 : Y1.snaps = newSnaps i (X1.node i).snapsDisk N1.snapsDisk ++ X1.snaps := by rw [hY1]
      rw [e1, e5, e2, e3, e4]
      show _ = newSnaps i n.snapsDisk n.snapsDisk ++ _
      rw [newSnaps_same, newSnaps_same, List.nil_append, List.nil_append]
  refine ⟨by rw [hview]; exact hI2, ⟨by rw [r2, r3, hd.1, ← hsn]; exact (hP i).le,
    fun rs hrs => by rw [r4] at hrs; cases hrs⟩, by rw [hvy, if_pos rfl], hfo, hft, hd.1⟩

end

end SnapCut
end Raft
