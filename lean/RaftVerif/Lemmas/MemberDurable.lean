/-
Durability of committed entries on the cluster system WITH membership changes (`Raft.Member`, Sys/Member.lean) — helper
lemmas for Props/C06Member.lean (part 1: the ghost ledgers only grow; the members of the majority of a commit record hold
the committed key durably, in the state and on every crash image).

The invariant `MemberInv.MInv x G` is stated for ghost ledgers `G` (commit records `G.R` — one per commit moment of a
leader, with the configuration that was latest in the leader's log at that moment and the majority `Q` of ITS voters that
had acknowledged —, election records, self acknowledgements of interrupted steps). `MemberStep.minv_trans` only says that
SOME ghost ledgers exist after a transition. Here:
* `GLe G G'` — `G'` extends `G` (same bootstrap key, more records, more ghost acknowledgements);
* `minv_step_mono`, `minv_crash_mono`, `minv_transNF_mono` — every transition preserves the invariant for ghost ledgers
  that EXTEND the old ones (the same constructions as `MemberStep.minv_step` / `CM.minv`, with the extension exported);
* `rec_durHolds` — every member of the majority of a commit record holds the committed key in its durable log
  (`AckM.stable` + leader completeness `lcM`);
* `rec_protG`, `SM.rec_img` — … and the key is PROTECTED there: no request that is not stale conflicts with the member's
  log up to it, so every crash image of every step of the member still holds the log up to the key.
-/
import RaftVerif.Lemmas.MemberCrash

namespace Raft
namespace MemberDurable
open Node Election LogRel Replication CommitRel Commit Member MemberCore QuorumRel MemberInv MemberCommit MemberStep
open SM (recOf)

/-- the ghost ledgers `G'` extend `G` -/
structure GLe (G G' : Ghost) : Prop where
  root : G'.root = G.root
  R : ∀ r ∈ G.R, r ∈ G'.R
  SA : ∀ a ∈ G.SA, a ∈ G'.SA

theorem GLe.refl (G : Ghost) : GLe G G := ⟨rfl, fun _ h => h, fun _ h => h⟩

theorem GLe.trans {G G' G'' : Ghost} (h : GLe G G') (h' : GLe G' G'') : GLe G G'' :=
  ⟨h'.root.trans h.root, fun r hr => h'.R r (h.R r hr), fun a ha => h'.SA a (h.SA a ha)⟩

/-- **a completed step preserves the invariant, for ghost ledgers that extend the old ones**; the new commit records are
the commit moments `L` of the step (ANY list of commit moments that describes the step: `MEvs`) -/
theorem minv_step_evs {x : Member.Sys} {G : Ghost} {i : Nat} {op : Op} {ra : List Nat} {ord : List (List Nat)}
    {src : Nat} (h : SM x G i op ra ord src) (happ : ∀ q, op ≠ .append q) {T : Nat} {L : List CEvt}
    (m : MEvs (x.node i) (Commit.Backed x.cm i) h.post T L) :
    ∃ E', MInv (stepM x i op ra ord src) ⟨G.root, L.map (recOf T) ++ G.R, E', G.SA⟩ := by
  obtain ⟨E', hE'⟩ := h.elM_step happ (L.map (recOf T) ++ G.R)
  have t := h.treeM
  exact ⟨E', h.ry, ⟨t.pathc, t.tmono, t.tbI, t.cu, t.ownLog, t.rootC, t.rootA, t.rootOnly, t.initLt⟩, h.nodeM,
    h.sentM, h.ackM, h.voteM, h.recM_step happ m E', hE', h.cmtM,
    h.cfgM ⟨G.root, L.map (recOf T) ++ G.R, E', G.SA⟩ rfl (fun r hr => List.mem_append_right _ hr)
      (h.recM_step happ m E').cover⟩

theorem minv_step_mono {x : Member.Sys} {G : Ghost} (hI : MInv x G) (hS : SideM x) (i : Nat) (op : Op) (ra : List Nat)
    (ord : List (List Nat)) (src : Nat) (he : Member.Enabled x i op src)
    (hnf : (x.node i).role ≠ .follower → ((x.node i).step op ra ord).panicked = none) :
    ∃ G', MInv (stepM x i op ra ord src) G' ∧ GLe G G' := by
  have h : SM x G i op ra ord src := ⟨hI, hS, he, hnf⟩
  rcases SM.op_cases op with happ | ⟨q, rfl⟩
  · obtain ⟨T, L, m⟩ := h.evs happ
    obtain ⟨E', hI'⟩ := minv_step_evs h happ m
    exact ⟨_, hI', rfl, fun r hr => List.mem_append_right _ hr, fun a ha => ha⟩
  · exact ⟨G, ⟨h.ry, h.treeM, h.nodeM, h.sentM, h.ackM, h.voteM, h.recM_app, h.elM_app, h.cmtM,
      h.cfgM G rfl (fun r hr => hr) h.recM_app.cover⟩, GLe.refl G⟩

/-- **a crash during a step and the restart preserve the invariant, for ghost ledgers that extend the old ones** -/
theorem minv_crash_mono {x : Member.Sys} {G : Ghost} {i : Nat} {op : Op} {ra : List Nat} {ord : List (List Nat)}
    {src k retain : Nat} {sor : Bool} {n : Node} (h : CM x G i op ra ord src k retain sor n)
    (hsidey : SideT (crashM x i op n)) : ∃ G', MInv (crashM x i op n) G' ∧ GLe G G' := by
  have hI := h.sm.inv
  rcases SM.op_cases op with happ | ⟨q, rfl⟩
  · obtain ⟨T, L, m⟩ := h.sm.evs happ
    have hnew : ∀ a ∈ (CM.kept n L).map (CM.selfOf i T), SelfA x i n a := by
      intro a ha
      obtain ⟨ev, hev, rfl⟩ := List.mem_map.mp ha
      exact h.selfA_kept happ m hev
    obtain ⟨es, te, hN⟩ := h.newM
    obtain ⟨E', hE'⟩ := hN.elM (fun k hk => List.mem_append_right _ hk) ((CM.kept n L).map (recOf T) ++ G.R)
      ((CM.kept n L).map (CM.selfOf i T) ++ G.SA) (h.new_acks hnew)
    have t := h.treeM
    exact ⟨⟨G.root, (CM.kept n L).map (recOf T) ++ G.R, E', (CM.kept n L).map (CM.selfOf i T) ++ G.SA⟩,
      ⟨h.ry, ⟨t.pathc, t.tmono, t.tbI, t.cu, t.ownLog, t.rootC, t.rootA, t.rootOnly, t.initLt⟩, h.nodeM, h.sentM,
        h.ackM hnew, h.voteM hnew, h.recM happ m E', hE', h.cmtM,
        h.cfgM hsidey ⟨G.root, (CM.kept n L).map (recOf T) ++ G.R, E', (CM.kept n L).map (CM.selfOf i T) ++ G.SA⟩ rfl
          (fun r hr => List.mem_append_right _ hr)⟩,
      rfl, fun r hr => List.mem_append_right _ hr, fun a ha => List.mem_append_right _ ha⟩
  · have hnil : ∀ a ∈ ([] : List Ack), SelfA x i n a := fun a ha => by cases ha
    have hT : h.y.cm.T = x.cm.T := rfl
    refine ⟨G, ⟨h.ry, h.treeM, h.nodeM, h.sentM, h.ackM hnil, h.voteM hnil, h.recM_app, ?_, h.cmtM,
      h.cfgM hsidey G rfl (fun r hr => hr)⟩, GLe.refl G⟩
    refine ⟨by rw [hT]; exact hI.el.creator, fun e he => ?_⟩
    exact elOK_mono hI h.ext h.ry.uniq (fun k hk => List.mem_append_right _ hk) (h.new_acks hnil) (hI.el.elect e he)

/-- **every transition (in which the operation at hand does not fail) preserves the invariant, for ghost ledgers that
extend the old ones** -/
theorem minv_transNF_mono {x y : Member.Sys} {G : Ghost} (hI : MInv x G) (hS : SideM x) (hSy : SideT y)
    (ht : TransNF x y) : ∃ G', MInv y G' ∧ GLe G G' := by
  cases ht with
  | step i op ra ord src he hnf => exact minv_step_mono hI hS i op ra ord src he hnf
  | crash i op ra ord src k retain sor n he hnf hn =>
    exact minv_crash_mono (⟨⟨hI, hS, he, hnf⟩, hn⟩ : CM x G i op ra ord src k retain sor n) hSy
  | send i q hi hl hr hc => exact ⟨G, minv_send hI hi hl hr hc, GLe.refl G⟩

/-- the ledgers of the state only grow in a transition -/
theorem trans_grow {x y : Member.Sys} (ht : Member.Trans x y) :
    (∀ c ∈ x.cm.T, c ∈ y.cm.T) ∧ (∀ a ∈ x.cm.acks, a ∈ y.cm.acks) ∧ (∀ m ∈ x.cm.committed, m ∈ y.cm.committed) := by
  cases ht with
  | step i op ra ord src he =>
    exact ⟨fun c hc => List.mem_append_right _ hc, fun a ha => List.mem_append_right _ (List.mem_append_right _ ha),
      fun m hm => List.mem_append_right _ hm⟩
  | crash i op ra ord src k retain sor n he hn =>
    exact ⟨fun c hc => List.mem_append_right _ hc, fun a ha => ha, fun m hm => hm⟩
  | send i q hi hl hr hc => exact ⟨fun c hc => hc, fun a ha => ha, fun m hm => hm⟩

/-! ### what a commit record promises, in one state -/

section static
variable {x : Member.Sys} {G : Ghost}

/-- the committed key of a record is a record of the tree -/
theorem rec_node (hI : MInv x G) {r : Rec} (hr : r ∈ G.R) : ∃ c ∈ x.cm.T, key c = r.m := by
  obtain ⟨_, r2, _⟩ := hI.recs.recd r hr
  obtain ⟨_, es, p, _, hm⟩ := r2
  obtain ⟨c, hc, c1, c2, _⟩ := path_record p hm
  exact ⟨c, hc, by unfold key; rw [c1, c2]⟩

/-- no entry of a later term fails to extend the committed key of a record -/
theorem rec_not_unsafe (hI : MInv x G) (hS : SideT x) {r : Rec} (hr : r ∈ G.R) (u : Nat) : ¬ Unsafe x.cm.T r.m u := by
  rintro ⟨c, hc, h1, _, h3⟩
  exact h3 (lcM hI hS r hr c hc h1)

/-- **every member of the majority of a commit record holds the committed key in its DURABLE log** — it acknowledged an
entry at or above the key in the key's term (`RecOK`), an acknowledged entry of the acknowledgement's term stays durable
unless an entry of a later term does not extend it (`AckM.stable`), and every later entry extends a committed key
(`lcM`) -/
theorem rec_durHolds (hI : MInv x G) (hS : SideT x) {r : Rec} (hr : r ∈ G.R) {v : Nat} (hv : v ∈ r.Q) :
    DurHolds (x.node v) r.m ∧ r.m.2 ≤ (x.node v).term := by
  obtain ⟨_, _, _, D, cfg, _, _, _, r7⟩ := hI.recs.recd r hr
  obtain ⟨a, ha, a1, a2, a3⟩ := r7 v hv
  have hd := (hI.ack.stable a ha r.m a2.symm a3).resolve_right (rec_not_unsafe hI hS hr _)
  have ht := (hI.ack.wf a ha).2.1
  rw [a1] at hd ht
  exact ⟨hd, by rw [← a2]; exact ht⟩

/-- … and the index of the key is protected in the member's log (`MemberInv.ProtG`) -/
theorem rec_protG (hI : MInv x G) (hS : SideT x) {r : Rec} (hr : r ∈ G.R) {v : Nat} (hv : v ∈ r.Q) :
    ProtG x G v r.m.1 := by
  obtain ⟨hd, ht⟩ := rec_durHolds hI hS hr hv
  obtain ⟨c, hc, hk⟩ := rec_node hI hr
  refine ⟨hd.2.1, hd.2.2.1, Or.inr ⟨r, hr, ht, ?_⟩⟩
  rw [hd.2.2.2, ← hk]
  exact (forestM hI).refl _ ⟨c, hc, rfl⟩

/-- the members of the majority are voters of the configuration of the record, and that list is duplicate free -/
theorem rec_quorum (hI : MInv x G) (hS : SideT x) {r : Rec} (hr : r ∈ G.R) :
    r.m.2 = r.l.2 ∧ Anc x.cm.T r.m r.l ∧ ∃ D cfg, CfgAt x.cm.T D cfg r.l ∧ cfg.voters.Nodup ∧ r.Q.Nodup ∧
      (∀ v ∈ r.Q, v ∈ cfg.voters) ∧ 2 * r.Q.length > cfg.voters.length := by
  obtain ⟨r1, r2, _, D, cfg, r4, r5, r6, _⟩ := hI.recs.recd r hr
  have r4' := r4
  obtain ⟨⟨cD, hcD, _, hcfgD⟩, _, _⟩ := r4'
  have hnd : cfg.voters.Nodup := hS.nodup cD hcD cfg hcfgD
  exact ⟨r1, r2, D, cfg, r4, hnd, hnd.sublist r5, fun v hv => r5.subset hv, r6⟩

end static

/-! ### the crash images of a step of a member of the majority -/

namespace SM
variable {x : Member.Sys} {G : Ghost} {i : Nat} {op : Op} {ra : List Nat} {ord : List (List Nat)} {src : Nat}

/-- **whenever a member `i` of the majority of a commit record may die, its disk still holds its log up to the
committed key**: the disk image at every storage point of every step keeps the first `r.m.1` entries -/
theorem rec_img (h : MemberStep.SM x G i op ra ord src) {r : Rec} (hr : r ∈ G.R) (hv : i ∈ r.Q) (k : Nat) :
    (C05.crashDisk (x.node i) op ra ord k).log.prev = 0 ∧
    (C05.crashDisk (x.node i) op ra ord k).log.entries.take r.m.1 = (x.node i).log.entries.take r.m.1 ∧
    r.m.1 ≤ (C05.crashDisk (x.node i) op ra ord k).log.entries.length := by
  have hI := h.inv
  have hS := h.side.tree
  have im := h.img k
  obtain ⟨hd, _⟩ := rec_durHolds hI hS hr hv
  have hp := rec_protG hI hS hr hv
  refine ⟨im.prev, im.keep r.m.1 hd.1 (fun q hq hns => ?_)⟩
  subst hq
  exact protNoConf hI hS (h.fst hns).1 hns hp

end SM

/-! ### a node that durably holds a committed key — and has reached the term in which a key at or above it was
committed — keeps it for ever (ghost-free form) -/

/-- **node `v` KEEPS the key `b`**: its durable log holds `b`, and `b` is an ancestor of (or equal to) an entry of the ledger
`committed` of a term not above `v`'s current term. (Why the term condition — an informal remark, not formalised: a node that has not yet reached the
term in which `b` was committed may still be sent — by a deposed leader of a term in between — a request that replaces
`b`.) -/
structure Kept (x : Member.Sys) (v : Nat) (b : K) : Prop where
  dur : DurHolds (x.node v) b
  cmt : Cmt x.cm b (x.node v).term

section kept
variable {x : Member.Sys} {G : Ghost}

/-- the index of a kept key is protected -/
theorem Kept.protG (hI : MInv x G) {v : Nat} {b : K} (hk : Kept x v b) : ProtG x G v b.1 := by
  obtain ⟨m, hm, m1, m2⟩ := hk.cmt
  obtain ⟨r, hr, e⟩ := hI.recs.cover m hm
  refine ⟨hk.dur.2.1, hk.dur.2.2.1, Or.inr ⟨r, hr, by rw [e]; exact m1, ?_⟩⟩
  rw [hk.dur.2.2.2, e]; exact m2

/-- a member of the majority of a commit record keeps the committed key, if the key is in the ledger -/
theorem kept_of_rec (hI : MInv x G) (hS : SideT x) {r : Rec} (hr : r ∈ G.R) (hm : r.m ∈ x.cm.committed) {v : Nat}
    (hv : v ∈ r.Q) : Kept x v r.m := by
  obtain ⟨hd, ht⟩ := rec_durHolds hI hS hr hv
  obtain ⟨c, hc, hk⟩ := rec_node hI hr
  exact ⟨hd, r.m, hm, ht, by rw [← hk]; exact (forestM hI).refl _ ⟨c, hc, rfl⟩⟩

/-- an ancestor of a kept key is kept -/
theorem Kept.anc (hI : MInv x G) {v : Nat} {a b : K} (hk : Kept x v b) (h : Anc x.cm.T a b) : Kept x v a := by
  obtain ⟨m, hm, m1, m2⟩ := hk.cmt
  exact ⟨⟨Nat.le_trans h.1 hk.dur.1, log_holds_ancM hI v h hk.dur.2⟩, m, hm, m1, h.trans (uniqM hI) m2⟩

variable {i : Nat} {op : Op} {ra : List Nat} {ord : List (List Nat)} {src : Nat}

/-- **whenever a node that keeps `b` may die, its disk still holds its log up to `b`**: the disk image at every storage
point of every step keeps the first `b.1` entries -/
theorem Kept.img (h : MemberStep.SM x G i op ra ord src) {b : K} (hk : Kept x i b) (k : Nat) :
    (C05.crashDisk (x.node i) op ra ord k).log.prev = 0 ∧
    (C05.crashDisk (x.node i) op ra ord k).log.entries.take b.1 = (x.node i).log.entries.take b.1 ∧
    b.1 ≤ (C05.crashDisk (x.node i) op ra ord k).log.entries.length := by
  have hI := h.inv
  have im := h.img k
  have hp := hk.protG hI
  refine ⟨im.prev, im.keep b.1 hk.dur.1 (fun q hq hns => ?_)⟩
  subst hq
  exact protNoConf hI h.side.tree (h.fst hns).1 hns hp

/-- a completed step of any node preserves `Kept` -/
theorem Kept.step (h : MemberStep.SM x G i op ra ord src) {v : Nat} {b : K} (hk : Kept x v b) :
    Kept (stepM x i op ra ord src) v b := by
  have hI := h.inv
  have hE := h.ext
  refine ⟨?_, hE.cmt (hE.term v) hk.cmt⟩
  by_cases hv : v = i
  · subst hv
    rw [show (stepM x v op ra ord src).node v = h.post from h.node_i]
    have hp := hk.protG hI
    obtain ⟨k1, k2⟩ := h.img_post.keep b.1 hk.dur.1 (fun q hq hns => by
      subst hq
      exact protNoConf hI h.side.tree (h.fst hns).1 hns hp)
    have hd : h.post.durable.log.entries = h.post.log.entries.take h.post.log.flushed := durable_entries h.nwf_post
    rw [hd] at k1 k2
    rw [List.length_take] at k2
    have hh : Holds (h.post.log.entries.take h.post.log.flushed) b.1 b.2 :=
      holds_of_take_eq k1 hk.dur.2 (Nat.le_refl _)
    exact ⟨by omega, holds_prefix (List.take_prefix _ _) hh⟩
  · rw [show (stepM x i op ra ord src).node v = x.node v from h.node_j hv]
    exact hk.dur

/-- a crash during a step of any node, and its restart, preserve `Kept` -/
theorem Kept.crash {k retain : Nat} {sor : Bool} {n : Node} (h : CM x G i op ra ord src k retain sor n) {v : Nat}
    {b : K} (hk : Kept x v b) : Kept (crashM x i op n) v b := by
  have hE := h.ext
  refine ⟨?_, hE.cmt (hE.term v) hk.cmt⟩
  by_cases hv : v = i
  · subst hv
    rw [show (crashM x v op n).node v = n from h.node_i]
    obtain ⟨_, k1, k2⟩ := hk.img h.sm k
    obtain ⟨_, _, _, _, _, _, f7, _, f9⟩ := h.facts
    refine ⟨by rw [f7, f9]; exact k2, ?_⟩
    rw [f9]
    exact holds_of_take_eq k1 hk.dur.2 (Nat.le_refl _)
  · rw [show (crashM x i op n).node v = x.node v from h.node_j hv]
    exact hk.dur

/-- **every transition preserves `Kept`** -/
theorem Kept.transNF {y : Member.Sys} (hI : MInv x G) (hS : SideM x) (ht : TransNF x y) {v : Nat} {b : K}
    (hk : Kept x v b) : Kept y v b := by
  cases ht with
  | step i op ra ord src he hnf => exact hk.step ⟨hI, hS, he, hnf⟩
  | crash i op ra ord src k retain sor n he hnf hn =>
    exact hk.crash (⟨⟨hI, hS, he, hnf⟩, hn⟩ : CM x G i op ra ord src k retain sor n)
  | send i q hi hl hr hc => exact ⟨hk.dur, hk.cmt⟩

end kept

end MemberDurable
end Raft

#print axioms Raft.MemberDurable.minv_transNF_mono
#print axioms Raft.MemberDurable.Kept.transNF
#print axioms Raft.MemberDurable.Kept.img
