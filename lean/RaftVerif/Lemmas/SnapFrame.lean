/-
Frame facts for the operations that neither compact the log nor touch the snapshots (`Node.StepClosedNC.NCOp`,
Lemmas/StepInvNC.lean): the first index of the log stays what it is — in memory and at every crash point —, it stays
within the flushed part of the log, and the snapshot index and the pending result of the snapshot goroutine are not
touched.
-/
import RaftVerif.Lemmas.StepInvNC

namespace Raft
namespace SnapFrame
open Node

/-- the log starts after index `c`, which is flushed (in memory and at every crash point of the current step); the
snapshot index is `k`, the pending snapshot result is `r` -/
def FR (c k : Nat) (r : Option SnapRes) (s : Node) : Prop :=
  s.log.prev = c ∧ c ≤ s.log.flushed ∧ s.snapIndex = k ∧ s.snapResult = r ∧
  ∀ p ∈ s.trace, p.2.log.prev = c ∧ c ≤ p.2.log.flushed ∧ p.2.log.prev + p.2.log.entries.length ≤ p.2.log.flushed

variable {c k : Nat} {r : Option SnapRes}

theorem FR_congr {s s' : Node} (h : FR c k r s) (e1 : s'.log.prev = s.log.prev) (e0 : s'.log.flushed = s.log.flushed)
    (e4 : s'.snapIndex = s.snapIndex) (e2 : s'.snapResult = s.snapResult) (e3 : s'.trace = s.trace) : FR c k r s' := by
  unfold FR
  rw [e1, e0, e2, e3, e4]; exact h

theorem FR_panic (s : Node) (site : String) (h : FR c k r s) : FR c k r (s.panic site) := by
  unfold Node.panic; split <;> exact h

/-- what is on disk: the flushed part of the log -/
theorem durable_len (s : Node) (h : s.log.prev ≤ s.log.flushed) :
    s.durable.log.prev + s.durable.log.entries.length ≤ s.durable.log.flushed := by
  show s.log.prev + (s.log.entries.take (s.log.flushed - s.log.prev)).length ≤ s.log.flushed
  rw [List.length_take]
  omega

theorem FR_point (s : Node) (n : String) (h : FR c k r s) : FR c k r (s.point n) := by
  refine ⟨h.1, h.2.1, h.2.2.1, h.2.2.2.1, fun p hp => ?_⟩
  rcases List.mem_append.mp hp with a | a
  · exact h.2.2.2.2 p a
  · rw [List.mem_singleton.mp a]
    exact ⟨h.1, h.2.1, durable_len s (by rw [h.1]; exact h.2.1)⟩

theorem FR_storeTermVote (s : Node) (t v : Nat) (h : FR c k r s) : FR c k r (s.storeTermVote t v) := by
  unfold Node.storeTermVote
  dsimp only
  split
  · exact h
  · exact FR_point (n := "value.set") { s with durTerm := t, durVote := v } h

theorem FR_setVotedFor (s : Node) (t v : Nat) (h : FR c k r s) : FR c k r (s.setVotedFor t v) := by
  unfold Node.setVotedFor
  repeat' split
  all_goals first | exact h | exact FR_storeTermVote _ _ _ h | exact FR_panic _ _ h

theorem FR_closed (c k : Nat) (hck : c ≤ k) (r : Option SnapRes) : StepClosedNC (FR c k r) where
  panic := fun s site h => FR_panic s site h
  reply := fun s t r h => by unfold Node.reply; split <;> exact h
  point := fun s name h => FR_point s name h
  ldr := fun s l h => h
  append := fun s e roll h => by
    refine ⟨?_, ?_, h.2.2.1, h.2.2.2.1, h.2.2.2.2⟩
    · show (s.log.append e roll).prev = c
      unfold NLog.append; split <;> exact h.1
    · show c ≤ (s.log.append e roll).flushed
      unfold NLog.append
      split
      · show c ≤ s.log.last
        unfold NLog.last; rw [h.1]; exact Nat.le_add_right _ _
      · exact h.2.1
  commitN := fun s n h => by
    refine ⟨?_, ?_, h.2.2.1, h.2.2.2.1, h.2.2.2.2⟩
    · show (s.log.commitN n).prev = c
      unfold NLog.commitN; split <;> exact h.1
    · show c ≤ (s.log.commitN n).flushed
      unfold NLog.commitN
      split
      · show c ≤ s.log.last
        unfold NLog.last; rw [h.1]; exact Nat.le_add_right _ _
      · exact h.2.1
  fsm := fun s f h => h
  changeConfigR := fun s c h => by unfold Node.changeConfigR; dsimp only; split <;> exact h
  setCommitIndexR := fun s i h _ => by
    unfold Node.setCommitIndexR Node.afterConfigCommit Node.closeIfRemoved Node.stepDownIfNotVoter Node.commitConfig
      Node.doClose
    dsimp only
    repeat' split
    all_goals exact FR_congr h rfl rfl rfl rfl rfl
  popOrder := fun s h => h
  begin := fun s ra ord h => ⟨h.1, h.2.1, h.2.2.1, h.2.2.2.1, fun p hp => by cases hp⟩
  rpcReply := fun s r h => h
  ret := fun s r h => h
  setRole := fun s r h => h
  setLeader := fun s l h => h
  doClose := fun s r h => by unfold Node.doClose; split <;> exact h
  setTerm := fun s t h => by
    unfold Node.setTerm
    repeat' split
    all_goals first | exact h | exact FR_storeTermVote _ _ _ h | exact FR_panic _ _ h
  voteNewTerm := fun s t c h _ => FR_setVotedFor s t c h
  voteGrant := fun s c h _ => FR_setVotedFor s _ c h
  votesNeeded := fun s v h => h
  candTransfer := fun s v h => h
  removeGTE := fun s i pt h hi => by
    refine ⟨h.1, ?_, h.2.2.1, h.2.2.2.1, h.2.2.2.2⟩
    show c ≤ i - 1
    have : s.snapIndex = k := h.2.2.1
    omega
  revertConfig := fun s h => h
  commitConfig := fun s h => by unfold Node.commitConfig; dsimp only; split <;> exact h
  snapPending := fun s v h => h
  bootstrapLast := fun s i t h => h

/-- **the first index of the log, the snapshot index and the pending snapshot result are not touched** by an
operation that neither compacts the log nor touches the snapshots — neither in memory nor at any crash point —, and
the first index stays within the flushed part -/
theorem step_frame (s : Node) (op : Op) (ra : List Nat) (ord : List (List Nat)) (hop : StepClosedNC.NCOp op)
    (h1 : s.log.prev ≤ s.snapIndex) (h2 : s.log.prev ≤ s.log.flushed) :
    FR s.log.prev s.snapIndex s.snapResult (s.step op ra ord) := by
  have h0 : FR s.log.prev s.snapIndex s.snapResult (s.begin ra ord) := ⟨rfl, h2, rfl, rfl, fun p hp => by cases hp⟩
  have e : s.step op ra ord = (s.begin ra ord).step op ra ord := rfl
  rw [e]
  exact (FR_closed s.log.prev s.snapIndex h1 s.snapResult).step_inv (s.begin ra ord) op ra ord hop h0

end SnapFrame
end Raft
