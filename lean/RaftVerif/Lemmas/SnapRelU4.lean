/-
Un-compaction, continued: what is on disk at a crash point, and the restart from it.
-/
import RaftVerif.Lemmas.SnapRelU3
import RaftVerif.Lemmas.SnapSim
namespace Raft
namespace SnapRelU
open Node SnapRelP SnapRel SnapSim
variable {β : List Entry}

/-! ### crash points and restart -/

/-- what is on disk when the process dies: the disk of the un-compacted node is the un-compacted disk -/
theorem crashDisk_U (s : Node) (op : Op) (ra : List Nat) (ord : List (List Nat))
    (h : (U β s).step op ra ord = U β (s.step op ra ord)) (k : Nat) :
    C05.crashDisk (U β s) op ra ord k = uncD β (C05.crashDisk s op ra ord k) := by
  cases k with
  | zero => exact U_durable s
  | succ k =>
    simp only [C05.crashDisk]
    rw [h]
    show (match ((s.step op ra ord).trace.map (uncP β))[k]? with | some p => p.2 | none => _) = _
    rw [List.getElem?_map]
    cases (s.step op ra ord).trace[k]? with
    | none => exact U_durable _
    | some p => rfl

theorem uncD_eq (d : Durable) (h : d.log.prev + d.log.entries.length ≤ d.log.flushed) :
    uncD β d = { d with log := uncLog β d.log } := by
  unfold uncD uncLog
  rw [List.take_of_length_le (by rw [List.length_append, pad_length]; exact h)]

theorem uncLog_get? (l : NLog) (i : Nat) (h : l.prev < i) : (uncLog β l).get? i = l.get? i := by
  unfold NLog.get?
  rw [if_pos h]
  show (if 0 < i then (pad β l.prev ++ l.entries)[i - 0 - 1]? else none) = _
  rw [if_pos (by omega), List.getElem?_append_right (by rw [pad_length]; omega), pad_length]
  congr 1
  omega

theorem scan_U (l : NLog) (sn : Nat) (h : l.prev ≤ sn) : ∀ (fuel i : Nat) (latest : Option Config),
    scanConfigs (uncLog β l) sn fuel i latest = scanConfigs l sn fuel i latest := by
  intro fuel
  induction fuel with
  | zero => intro i latest; rfl
  | succ n ih =>
    intro i latest
    unfold scanConfigs
    by_cases hi : i ≤ sn
    · rw [if_pos hi, if_pos hi]
    · rw [if_neg hi, if_neg hi, uncLog_get? l i (by omega)]
      cases l.get? i with
      | none => rfl
      | some e =>
        dsimp only
        cases e.config? with
        | some c =>
          dsimp only
          cases latest with
          | none => exact ih _ _
          | some l' => rfl
        | none =>
          dsimp only
          split
          · rfl
          · exact ih _ _

@[usimp] theorem U_fsmRestore (s : Node) : (U β s).fsmRestore = U β s.fsmRestore := by
  unfold Node.fsmRestore
  have hp : True := trivial
  ucomm hp

theorem uncLog_entries0 (l : NLog) (h : l.prev = 0) : (uncLog β l).entries = l.entries := by
  show pad β l.prev ++ l.entries = _
  rw [h]
  have : pad β 0 = [] := by unfold pad; simp
  rw [this, List.nil_append]

theorem restart_aux (d : Durable) (hne : d.log.entries ≠ [] ∨ d.log.prev = 0) :
    (decide ((uncLog β d.log).count > 0) = decide (d.log.count > 0)) ∧
    ((uncLog β d.log).entries.getLast?.map (·.term)).getD 0 = ((d.log.entries.getLast?).map (·.term)).getD 0 := by
  rcases hne with hne | h0
  · have hc : d.log.count > 0 := List.length_pos_iff.mpr hne
    have hc' : (uncLog β d.log).count > 0 := by
      show 0 < (pad β d.log.prev ++ d.log.entries).length
      rw [List.length_append]; exact Nat.lt_of_lt_of_le hc (Nat.le_add_left _ _)
    refine ⟨by simp [hc, hc'], ?_⟩
    show (((pad β d.log.prev ++ d.log.entries).getLast?).map (·.term)).getD 0 = _
    rw [List.getLast?_append]
    cases h : d.log.entries.getLast? with
    | none => exact absurd (List.getLast?_eq_none_iff.mp h) hne
    | some x => rfl
  · unfold NLog.count
    rw [uncLog_entries0 d.log h0]
    exact ⟨rfl, rfl⟩

/-- un-compaction does not change whether the log on disk is stale, when the log starts at index 1 or strictly
below the newest snapshot (then the entry at the snapshot index is an entry of the compacted log) -/
theorem staleLog_U (d : Durable) (h : d.log.prev = 0 ∨ d.log.prev < (headSnap d).index) :
    staleLog { d with log := uncLog β d.log } = staleLog d := by
  unfold staleLog
  show (decide ((uncLog β d.log).last < (headSnap d).index) ||
      (decide ((uncLog β d.log).prev < (headSnap d).index) &&
        (((uncLog β d.log).get? (headSnap d).index).map (·.term) != some (headSnap d).term))) =
    (decide (d.log.last < (headSnap d).index) ||
      (decide (d.log.prev < (headSnap d).index) &&
        ((d.log.get? (headSnap d).index).map (·.term) != some (headSnap d).term)))
  rw [uncLog_last, uncLog_prev]
  by_cases hlt : d.log.prev < (headSnap d).index
  · rw [uncLog_get? d.log _ hlt]
    have h0 : 0 < (headSnap d).index := by omega
    simp only [hlt, h0, decide_true]
  · have hp : d.log.prev = 0 := by rcases h with h | h; exact h; exact absurd h hlt
    rw [hp] at hlt ⊢
    simp only [hlt, decide_false, Bool.false_and]

theorem restartNode_U (d : Durable) (retain : Nat) (sor : Bool) (hne : d.log.entries ≠ [] ∨ d.log.prev = 0)
    (hnr : staleLog d = false) (hnu : staleLog { d with log := uncLog β d.log } = false)
    (hps : d.log.prev ≤ (headSnap d).index) :
    restartNode { d with log := uncLog β d.log } retain sor = U β (restartNode d retain sor) := by
  unfold restartNode
  obtain ⟨hcnt, hlast⟩ := restart_aux (β := β) d hne
  have hps' : d.log.prev ≤ ((d.snaps.head?).getD {}).index := hps
  dsimp only
  simp only [hnr, hnu, Bool.false_eq_true, if_false, hlast, uncLog_last, scan_U d.log _ hps']
  by_cases hc : d.log.count > 0
  · have hc' : (uncLog β d.log).count > 0 := by simpa [hc] using hcnt
    simp only [if_pos hc, if_pos hc', scan_U d.log _ hps']
    rfl
  · have hc' : ¬ (uncLog β d.log).count > 0 := by simpa [hc] using hcnt
    simp only [if_neg hc, if_neg hc', scan_U d.log _ hps']
    rfl

theorem restartFails_U (d : Durable) (hne : d.log.entries ≠ [] ∨ d.log.prev = 0)
    (hnr : staleLog d = false) (hnu : staleLog { d with log := uncLog β d.log } = false)
    (hps : d.log.prev ≤ (headSnap d).index) :
    restartFails { d with log := uncLog β d.log } = restartFails d := by
  unfold restartFails
  obtain ⟨hcnt, _⟩ := restart_aux (β := β) d hne
  have hps' : d.log.prev ≤ ((d.snaps.head?).getD {}).index := hps
  dsimp only
  simp only [hnr, hnu, Bool.false_eq_true, if_false, uncLog_last]
  by_cases hc : d.log.count > 0
  · have hc' : (uncLog β d.log).count > 0 := by simpa [hc] using hcnt
    simp only [if_pos hc, if_pos hc', scan_U d.log _ hps']
  · have hc' : ¬ (uncLog β d.log).count > 0 := by simpa [hc] using hcnt
    simp only [if_neg hc, if_neg hc', scan_U d.log _ hps']

/-- **restart from the un-compacted disk** (when the log on disk is not empty unless it starts at index 1, starts
at or below the newest snapshot, and neither the log on disk nor the un-compacted log is stale — `openStorage` resets
neither; by `staleLog_U` the second follows from the first when the log starts strictly below the snapshot) -/
theorem restart_U (d : Durable) (retain : Nat) (sor : Bool) (hne : d.log.entries ≠ [] ∨ d.log.prev = 0)
    (hnr : staleLog d = false) (hnu : staleLog { d with log := uncLog β d.log } = false)
    (hps : d.log.prev ≤ (headSnap d).index) :
    Node.restart { d with log := uncLog β d.log } retain sor = (Node.restart d retain sor).map (U β) := by
  unfold Node.restart
  rw [restartFails_U d hne hnr hnu hps]
  show (if d.cid = 0 ∨ d.nid = 0 then none else _) = _
  split
  · rfl
  · split
    · rfl
    · dsimp only
      rw [restartNode_U d retain sor hne hnr hnu hps]
      show some (if (restartNode d retain sor).snapIndex > 0 then _ else _) = _
      split
      · rw [U_fsmRestore]; rfl
      · rfl

end SnapRelU
end Raft
