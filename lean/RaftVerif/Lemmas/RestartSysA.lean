/-
C10 on the cluster-level systems WITH snapshots (Sys/Snap3.lean, Sys/Snap4.lean), part A: the hypotheses of the per-node
crash theorem `C12Crash.tracks_after_crash_at_any_point_partial` are discharged inside the system.
* `sentDec_reach3`  — every configuration entry of every append request on the wire decodes (a request is read from a
                      leader's virtual log, whose configuration entries decode: `Snap.CfgDec`);
* `crashInv_node4`  — every node (with a cluster id) of every state reachable in `Raft.Snap4` satisfies `C12Crash.CrashInv`;
* `reqDec_enabled`  — an enabled operation satisfies `TrackCrash.ReqDec`;
* `restart_some_snap4` — hence the restart from EVERY crash image of EVERY enabled step (append, vote, timeout, client
                      batches, `snapRun`, `snapTaken`, replication updates …) succeeds and yields a tracking, ordered node.
-/
import RaftVerif.Lemmas.SnapInst4c
import RaftVerif.Props.C12Crash

namespace Raft
namespace RestartSys
open Node Election LogRel Replication CommitRel Commit C02Sys C03Sys SnapRel SnapRelU SnapSim Snap Snap2 SnapInv SnapInv2
open SnapInst SnapInstU Snap3 SnapInst3 Snap4 SnapInst4 TrackCrash

section
variable {V : List Nat}

/-- every configuration entry of every append request on the wire decodes -/
def SentDec (x : Snap3.Sys) : Prop := ∀ q ∈ x.s2.cs.rp.sent, EntriesDec q.entries

theorem sentDec_send {x : Snap3.Sys} (h : SentDec x) (hd : CfgDec (view x.s2).cs) (i : Nat) (q : AppendReq)
    (hr : ReadFrom2 (x.node i) (x.vnode i) q) :
    SentDec { x with s2 := { x.s2 with cs := sendC x.s2.cs q } } := by
  intro q' hq'
  have hq'' : q' ∈ q :: x.s2.cs.rp.sent := hq'
  rcases List.mem_cons.mp hq'' with rfl | hm
  · obtain ⟨n, hn⟩ := hr.read.entries
    intro ne hne ht
    rw [hn] at hne
    exact hd i ne (List.mem_of_mem_drop (List.mem_of_mem_take hne)) ht
  · exact h q' hm

theorem sentDec_trans {x y : Snap3.Sys} (h : SentDec x) (hd : CfgDec (view x.s2).cs) (ht : Snap3.Trans x y) :
    SentDec y := by
  cases ht with
  | step i op ra ord src en hp htt => exact h
  | crash i op ra ord src k retain sor n en hret hp hnc htt hst hn => exact h
  | send i q hi hl hr hc => exact sentDec_send h hd i q hr
  | sendSnap i q hi hl hr => exact h
  | install i m ra ord hi hm hp => exact h
  | crashInstall i m ra ord k retain sor n hi hm hret hp hold hn => exact h

/-- **every append request on the wire decodes**, in every reachable state of `Raft.Snap3` -/
theorem sentDec_reach3 {x : Snap3.Sys} (h : Reachable3 V x) : SentDec x := by
  induction h with
  | init x hi hs =>
    intro q hq
    have : x.s2.cs.rp.sent = [] := hi.init.init.cs.rp.sent
    rw [this] at hq; cases hq
  | next x y hx ht hs ih =>
    have hsx : Side3 V x := by
      cases hx with
      | init _ _ hs' => exact hs'
      | next _ _ _ _ hs' => exact hs'
    exact sentDec_trans ih hsx.dec ht

/-- the configuration entries of the (real) log of a node decode -/
theorem logDec_real {x : Snap3.Sys} (hS : Side3 V x) (i : Nat) : NoPanic.LogDec (x.node i).log.entries := by
  intro e he ht
  refine hS.dec i e ?_ ht
  show e ∈ x.vlog i
  rw [vlog_def]
  exact List.mem_append_right _ he

/-- **every node of every reachable state of `Raft.Snap4` satisfies the per-node invariant that survives a crash at any
point** (`C12Crash.CrashInv`), provided it has a cluster id -/
theorem crashInv_node4 (hV : V.Nodup) {x : Snap3.Sys} (h : Reachable4 V x) (i : Nat) (hi : i ≠ 0)
    (hcid : (x.node i).cid ≠ 0) : C12Crash.CrashInv (x.node i) := by
  obtain ⟨r3, i4, s4⟩ := reach4 hV h
  have hI := (inv3_reachable hV r3).1
  have hnid : (x.node i).nid = i := (hI.sinv.cinv.rp.el.ids i).1
  exact ⟨i4.tracks i, i4.ord i, ⟨lwf_real hI i, s4.lab i, logDec_real s4.side i⟩, hcid, by rw [hnid]; exact hi⟩

/-- an enabled operation carries decodable configuration entries -/
theorem reqDec_enabled {x : Snap3.Sys} (hD : SentDec x) {i : Nat} {op : Op} {src : Nat}
    (en : Snap.Enabled x.s2.cs i op src) : ReqDec (x.node i) op := by
  cases op with
  | append q =>
    show q.term < (x.node i).term ∨ EntriesDec q.entries
    rcases en.append q rfl with h | h
    · exact Or.inl h
    · exact Or.inr (hD q h)
  | _ => trivial

/-- **the restart from every crash image of every enabled step succeeds** (`Raft.Snap4`) and yields a node that tracks,
is ordered, takes its configurations from the log on disk above the snapshot (else the snapshot's label), and satisfies
`CrashInv` again. `SnapFbOp`: see `C12Crash` (a condition on `.snapRun` only). -/
theorem restart_some_snap4 (hV : V.Nodup) {x : Snap3.Sys} (h : Reachable4 V x) {i : Nat} {op : Op} {src : Nat}
    (ra : List Nat) (ord : List (List Nat)) (en : Snap.Enabled x.s2.cs i op src)
    (hp : ((x.node i).step op ra ord).panicked = none) (hfb : SnapFbOp (x.node i) op) (hcid : (x.node i).cid ≠ 0)
    (k r : Nat) (hr : 1 ≤ r) (sor : Bool) :
    ∃ n, Node.restart (C05.crashDisk (x.node i) op ra ord k) r sor = some n ∧
      C12Track.Tracks n ∧ Order.Ordered n ∧
      n.configs.latest = ((C10.configsAbove (C05.crashDisk (x.node i) op ra ord k))[0]?).getD
        (C10.snapOf (C05.crashDisk (x.node i) op ra ord k)).config ∧
      n.configs.committed = ((C10.configsAbove (C05.crashDisk (x.node i) op ra ord k))[1]?).getD
        (C10.snapOf (C05.crashDisk (x.node i) op ra ord k)).config ∧
      C19Latest.LatestIsNewest n ∧ C12Crash.CrashInv n := by
  obtain ⟨r3, _, s4⟩ := reach4 hV h
  have hI := (inv3_reachable hV r3).1
  exact C12Crash.tracks_after_crash_at_any_point_partial (x.node i) op ra ord k r sor
    (crashInv_node4 hV h i en.id hcid) (reqOk_old hI en (s4.cfg i)) (reqDec_enabled (sentDec_reach3 r3) en) hfb hp hr

/-- the same for a crash at any storage point of the install handler (no further hypothesis: an install request that is
not stale is one of the ledger, whose label its snapshot covers) -/
theorem restart_some_install4 (hV : V.Nodup) {x : Snap3.Sys} (h : Reachable4 V x) {i : Nat} (m : SnapMsg)
    (ra : List Nat) (ord : List (List Nat)) (hi : i ≠ 0) (hm : m.q.term < (x.node i).term ∨ m ∈ x.sentSnaps)
    (hp : ((x.node i).step (.install m.q) ra ord).panicked = none) (hcid : (x.node i).cid ≠ 0)
    (k r : Nat) (hr : 1 ≤ r) (sor : Bool) :
    ∃ n, Node.restart (C05.crashDisk (x.node i) (.install m.q) ra ord k) r sor = some n ∧
      C12Track.Tracks n ∧ Order.Ordered n ∧
      n.configs.latest = ((C10.configsAbove (C05.crashDisk (x.node i) (.install m.q) ra ord k))[0]?).getD
        (C10.snapOf (C05.crashDisk (x.node i) (.install m.q) ra ord k)).config ∧
      n.configs.committed = ((C10.configsAbove (C05.crashDisk (x.node i) (.install m.q) ra ord k))[1]?).getD
        (C10.snapOf (C05.crashDisk (x.node i) (.install m.q) ra ord k)).config ∧
      C19Latest.LatestIsNewest n ∧ C12Crash.CrashInv n := by
  obtain ⟨_, i4, _⟩ := reach4 hV h
  have hrq : Order.ReqOk (x.node i) (.install m.q) := by
    show m.q.term < (x.node i).term ∨ m.q.lastIndex ≤ (x.node i).commitIndex ∨ Order.InstallOk m.q
    rcases hm with h' | h'
    · exact Or.inl h'
    · exact Or.inr (Or.inr (i4.mlab m h'))
  exact C12Crash.tracks_after_crash_at_any_point_partial (x.node i) (.install m.q) ra ord k r sor
    (crashInv_node4 hV h i hi hcid) hrq trivial trivial hp hr

end

end RestartSys
end Raft
