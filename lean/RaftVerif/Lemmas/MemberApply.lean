/-
C03 on the cluster WITH membership changes (`Raft.Member`, Sys/Member.lean) — the state-machine invariant of
`Props/C03Sys.lean` (`FB`: `fsm.applied` is the list of the update payloads of the log entries `1 … fsm.index`,
`fsm.index ≤ commitIndex`; a leader's queue items are the log entries at their index) carried over to the system in which
configuration entries are ordinary log entries and `.changeConfig` requests are delivered:

* node level: `handle_g_cc` — the one operation `C03Sys.handle_g` excludes (`OpOK2`): a `.changeConfig` request, handled
  by `leader.onChangeConfig` (the leader block of `C03Sys.fl_block` already covers `changeConfigL` / `doChangeConfig` /
  `checkConfigActions`) or refused by a bootstrapped node that is not leader; `fsm_stepM` — every operation of
  `Member.Enabled`;
* cluster level: `FsmInvM` holds in every state of `C08Member.ReachableR` (`fsmInvM_reachable`): completed steps
  (`fsm_stepM`; the append request at hand does not conflict with the log at or below the commit index: `reqokM`; the
  step does not fail: `C15NoPanic.good_step_two`), crashes at any storage point + restart (the state machine restarts
  empty), sends.
-/
import RaftVerif.Props.C08Member
import RaftVerif.Props.C03Sys

namespace Raft
namespace MemberApply
open Node LogRel CommitRel Commit Member MemberInv MemberSide NoPanic C03Sys
open MemberStep (SM CM)

/-! ### node level -/

/-- **a `.changeConfig` request keeps the state machine's content right**: a leader runs `leader.onChangeConfig` (checks,
then `checkConfigActions` / `doChangeConfig` of the leader block), a bootstrapped node that is not leader refuses -/
theorem handle_g_cc (b : Node) (t : Nat) (c : Config) (hwf : C05.VoteWF b) (hboot : b.configs.isBootstrapped = true)
    (hs : FsmOK m b ∧ LW b) (hq : b.role = .leader → QOK b) : G m b.role (b.handle (.changeConfig t c)) := by
  have S0 : SX b (AOp b (.changeConfig t c)) True b := sx_refl b _ _ hwf
  unfold Node.handle
  dsimp only
  split
  · rename_i hr
    have F0 : FL m b := fun _ => ⟨hs.1, hs.2, hq hr⟩
    apply g_of_fl
    unfold Node.onChangeConfig
    have hR := fun r => fl_reply b t r F0
    have hC := fl_checkConfigActions (fuelFor 0) b t c F0
    have hD := (fl_block (m := m) (fuelFor 1)).2.2.2.1 _ t c hC
    dsimp only
    repeat' split
    all_goals first
      | exact hR _
      | exact hC
      | exact hD
  · unfold Node.bootstrap
    rw [if_pos hboot]
    exact g_sx (sx_reply _ _ S0) hs hq

/-- **One step of a node keeps the state machine's content right — every operation of `Member.Enabled`** (`OpOK`: no
snapshot operation; `CfgRel.OpOk`: no configuration entry in a client batch), on a bootstrapped node, unless the step
fails an assertion: `C03Sys.fsm_step` plus the `.changeConfig` request. -/
theorem fsm_stepM (pre : Node) (op : Op) (ra : List Nat) (ord : List (List Nat)) (hn : NWF pre)
    (hl : C06.LogWF pre.log) (hwf : C05.VoteWF pre) (hok : OpOK op) (hcfg : CfgRel.OpOk op)
    (hboot : pre.configs.isBootstrapped = true) (hfb : FB pre)
    (happ : ∀ q, op = .append q → ¬ q.term < pre.term →
      (∀ k (h : k < q.entries.length), q.entries[k].index = q.prevLogIndex + k + 1) ∧
      NoConf pre q pre.commitIndex ∧ pre.commitIndex ≤ pre.log.entries.length) :
    FBp pre.fsm.index (pre.step op ra ord) := by
  by_cases hcc : ∃ t c, op = .changeConfig t c
  · obtain ⟨t, c, rfl⟩ := hcc
    have hpost : pre.step (.changeConfig t c) ra ord =
        settle 6 ((pre.begin ra ord).handle (.changeConfig t c)) (pre.begin ra ord).role := rfl
    rw [hpost]
    apply settle_g
    exact handle_g_cc (pre.begin ra ord) t c hwf hboot
      ⟨⟨hfb.fsm.le, hfb.fsm.len, hfb.fsm.applied, Nat.le_refl _⟩, hn.prev, hn.last⟩ (fun hr => hfb.queue hr)
  · refine fsm_step pre op ra ord hn hl hwf ⟨hok, fun b hb => ?_, fun t c h => hcc ⟨t, c, h⟩⟩ hfb happ
    subst hb
    exact hcfg

/-! ### cluster level -/

/-- the state-machine invariant of the cluster -/
def FsmInvM (x : Member.Sys) : Prop := ∀ i, FB (x.node i)

variable {x : Member.Sys} {G : Ghost}

theorem fsmInvM_init (hi : Member.Init x) : FsmInvM x := by
  intro i
  obtain ⟨_, _, _, _, h5⟩ := hi.cm.nodes i
  refine ⟨⟨by rw [h5]; exact Nat.zero_le _, by rw [h5]; exact Nat.zero_le _, by rw [h5]; rfl, Nat.zero_le _⟩,
    fun hl => ?_⟩
  rw [(hi.cm.rp.el.1 i).2.2] at hl; cases hl

/-- what the system guarantees of an append request delivered to node `i` -/
theorem happ_of (hI : MInv x G) (hS : SideT x) {i : Nat} {op : Op} {src : Nat} (he : Member.Enabled x i op src) :
    ∀ q, op = .append q → ¬ q.term < (x.node i).term →
      (∀ k (h : k < q.entries.length), q.entries[k].index = q.prevLogIndex + k + 1) ∧
      NoConf (x.node i) q (x.node i).commitIndex ∧ (x.node i).commitIndex ≤ (x.node i).log.entries.length := by
  intro q hq hst
  subst hq
  have hq : q ∈ x.cm.rp.sent := (he.rp.append q rfl).resolve_left hst
  exact ⟨(hI.rp.sent q hq).idx, reqokM hI hS hq hst, ciLeM hI i⟩

/-- the step of an open node on a delivered operation, node level -/
theorem fbp_step (hI : MInv x G) (hX : XInv x) (hF : FsmInvM x) {i : Nat} {op : Op} {src : Nat}
    (he : Member.Enabled x i op src) (ra : List Nat) (ord : List (List Nat)) :
    FBp (x.node i).fsm.index ((x.node i).step op ra ord) :=
  fsm_stepM (x.node i) op ra ord (nwfM hI i) (hI.node.lwf i) (hI.rp.el.ids i).2 he.rp.ok he.cfg (boot_of hI i) (hF i)
    (happ_of hI hX.sideT he)

theorem fsmInvM_trans (hI : MInv x G) (hX : XInv x) (hLC : ∀ i, C06Cache.LeaderCache (x.node i)) (hF : FsmInvM x)
    {y : Member.Sys} (ht : TransR x y) : FsmInvM y := by
  have restarted : ∀ (n : Node), n.fsm = {} → n.role = .follower → FB n := by
    intro n hf hr
    refine ⟨⟨by rw [hf]; exact Nat.zero_le _, by rw [hf]; exact Nat.zero_le _, by rw [hf]; rfl, Nat.zero_le _⟩,
      fun hl => ?_⟩
    rw [hr] at hl; cases hl
  cases ht with
  | step i op ra ord src he hg ho =>
    have hp := (C15NoPanic.good_step_two _ op ra ord (hX.good i) ho (reqok hI hX he hg)).1
    have sm : SM x G i op ra ord src := ⟨hI, sideM_of hI hX hLC, he, fun _ => hp⟩
    intro j
    by_cases hj : j = i
    · subst hj
      show FB (sm.y.node j)
      rw [sm.node_i]
      obtain ⟨f, _, qk⟩ := fbp_step hI hX hF he ra ord hp
      exact ⟨f.weaken (Nat.zero_le _), qk⟩
    · show FB (sm.y.node j)
      rw [sm.node_j hj]; exact hF j
  | crash i op ra ord src k retain sor n he hg hopen hret hn =>
    have key : ∃ op' , ∃ cm : CM x G i op' ra ord src k retain sor n, crashM x i op n = crashM x i op' n := by
      rcases hopen with ho | hk
      · have hp := (C15NoPanic.good_step_two _ op ra ord (hX.good i) ho (reqok hI hX he hg)).1
        exact ⟨op, ⟨⟨hI, sideM_of hI hX hLC, he, fun _ => hp⟩, hn⟩, rfl⟩
      · subst hk
        obtain ⟨he', hp', heq⟩ := crash0_swap hI (sideM_of hI hX hLC) he hn
        exact ⟨.disconnected 0, ⟨⟨hI, sideM_of hI hX hLC, he', fun _ => hp'⟩, hn⟩, heq⟩
    obtain ⟨op', cm, heq⟩ := key
    rw [heq]
    intro j
    by_cases hj : j = i
    · subst hj
      show FB (cm.y.node j)
      rw [cm.node_i]
      obtain ⟨_, _, _, hr, _, hf, _⟩ := cm.facts
      exact restarted n hf hr
    · show FB (cm.y.node j)
      rw [cm.node_j hj]; exact hF j
  | send i q hi hl hr hc => exact hF

/-- **the state-machine invariant holds in every reachable state** -/
theorem fsmInvM_reachable (root : MemberCore.K) (x : Member.Sys) (h : C08Member.ReachableR root x) : FsmInvM x := by
  induction h with
  | init x hi => exact fsmInvM_init hi.init
  | next x y hx ht ih =>
    obtain ⟨⟨G, hI, _⟩, hX⟩ := C08Member.inv_reachable root x hx
    exact fsmInvM_trans hI hX (C08Sys.leaderCache_reachable x (C08Member.reachableP_of hx)) ih ht

end MemberApply
end Raft

#print axioms Raft.MemberApply.fsm_stepM
#print axioms Raft.MemberApply.fsmInvM_reachable
