/-
S36 — membership changes THROUGH single-voter configurations: definitions and primitive lemmas.

When the leader is the only voter (`FP`: the single-voter fast path of `leader.storeEntry`) a configuration entry is
committed the moment it is stored, INSIDE `storeEntry`; `setCommitIndex → checkConfigActions` then re-enters the
configuration machinery and may store the NEXT configuration entry within the same call. The loops of the callers
(`checkConfigActions` working on the configuration it was CALLED with) continue afterwards with a configuration that is
no longer the latest one. The lemmas here and in `MemberOneB.lean` show that such a loop never acts a second time:
after a nested change either the step has failed, or the latest configuration is not committed (`Blocked`), or every
replication is `Settled` (there is nothing to do for it) and the stale configuration agrees with the latest one on every
node that still has a replication (`Agr`).
-/
import RaftVerif.Lemmas.TaskLedger
import RaftVerif.Lemmas.ConfigRel

namespace Raft
namespace One
open Node CfgRel

/-! ### configurations -/

theorem length_ge_two_of_mem {α : Type} {l : List α} {a b : α} (ha : a ∈ l) (hb : b ∈ l) (hne : a ≠ b) :
    2 ≤ l.length := by
  match l with
  | [] => cases ha
  | [x] =>
    rw [List.mem_singleton] at ha hb
    exact absurd (ha.trans hb.symm) hne
  | _ :: _ :: _ => simp

/-- two entries found under different ids, both voters: at least two voters -/
theorem two_voters {c : Config} {a b : Nat} {m1 m2 : CNode} (h1 : c.find? a = some m1) (h2 : c.find? b = some m2)
    (hne : a ≠ b) (v1 : m1.voter = true) (v2 : m2.voter = true) : 2 ≤ c.numVoters := by
  unfold Config.numVoters
  have i1 := CfgRel.find?_id h1
  have i2 := CfgRel.find?_id h2
  unfold Config.find? at h1 h2
  refine length_ge_two_of_mem (a := m1) (b := m2) ?_ ?_ ?_
  · exact List.mem_filter.mpr ⟨List.mem_of_find?_eq_some h1, v1⟩
  · exact List.mem_filter.mpr ⟨List.mem_of_find?_eq_some h2, v2⟩
  · intro e; rw [e] at i1; exact hne (i1.symm.trans i2)

theorem isVoter_find {c : Config} {id : Nat} (h : c.isVoter id = true) : ∃ m, c.find? id = some m ∧ m.voter = true := by
  unfold Config.isVoter at h
  cases hf : c.find? id with
  | none => rw [hf] at h; cases h
  | some m => rw [hf] at h; exact ⟨m, rfl, h⟩

/-- in a configuration with exactly one voter, `nid`, nobody else votes -/
theorem single_voter {c : Config} {nid id : Nat} (h1 : c.numVoters = 1) (hv : c.isVoter nid = true) (hne : id ≠ nid) :
    c.isVoter id = false := by
  cases hx : c.isVoter id with
  | false => rfl
  | true =>
    obtain ⟨m1, f1, v1⟩ := isVoter_find hv
    obtain ⟨m2, f2, v2⟩ := isVoter_find hx
    have := two_voters f2 f1 hne v2 v1
    omega

theorem get_of_find {c : Config} {id : Nat} {m : CNode} (h : c.find? id = some m) : c.get id = m := by
  unfold Config.get; rw [h]; rfl

theorem get_congr_find {c c' : Config} {id : Nat} (h : c'.find? id = c.find? id) : c'.get id = c.get id := by
  unfold Config.get; rw [h]

/-- the member ids of the configuration are strictly increasing (`Config.Nodes` is a Go map keyed by id; the model keeps
it as a list sorted by id) -/
def Srt (c : Config) : Prop := c.nodes.Pairwise (fun a b => a.id < b.id)

theorem Srt.congr {c c' : Config} (h : Srt c) (e : c'.nodes = c.nodes) : Srt c' := by unfold Srt; rw [e]; exact h

theorem sorted_insert (n : CNode) : ∀ (l : List CNode), l.Pairwise (fun a b => a.id < b.id) →
    (Config.insertSorted n l).Pairwise (fun a b => a.id < b.id) := by
  intro l
  induction l with
  | nil => intro _; exact List.pairwise_singleton _ _
  | cons m ms ih =>
    intro h
    obtain ⟨h1, h2⟩ := List.pairwise_cons.mp h
    unfold Config.insertSorted
    split
    · rename_i hlt
      refine List.pairwise_cons.mpr ⟨fun x hx => ?_, h⟩
      rcases List.mem_cons.mp hx with e | e
      · rw [e]; exact hlt
      · exact Nat.lt_trans hlt (h1 x e)
    · split
      · rename_i _ heq
        exact List.pairwise_cons.mpr ⟨fun x hx => by rw [heq]; exact h1 x hx, h2⟩
      · rename_i hnlt hne
        refine List.pairwise_cons.mpr ⟨fun x hx => ?_, ih h2⟩
        rcases NoPanic.mem_insertSorted hx with e | e
        · rw [e]; omega
        · exact h1 x e

theorem Srt.set {c : Config} (h : Srt c) (n : CNode) : Srt (c.set n) := sorted_insert n c.nodes h

theorem Srt.erase {c : Config} (h : Srt c) (id : Nat) : Srt (c.erase id) := List.Pairwise.filter _ h

/-- whatever `checkConfigAction` proposes for a sorted configuration is sorted -/
theorem srt_actionConfig {I : Nat} {cfg : Config} {n : CNode} {a : Nat} {st : Repl} {c : Config} (h : Srt cfg)
    (hc : actionConfig I cfg n a st = some c) : Srt c := by
  unfold actionConfig at hc
  repeat' split at hc
  all_goals first
    | (injection hc with hc; subst hc; first | exact h.set _ | exact h.erase _)
    | cases hc

/-! ### rounds -/

/-- the replication waits for the follower to catch up with a round in progress: nothing to do for a promotion -/
def Waiting (st : Repl) : Prop := ∃ rd, st.round = some rd ∧ rd.finished = false ∧ st.matchIndex < rd.lastIndex

/-- **nothing to do** for the replication `st` of a node whose configuration entry is `n`, when the latest
configuration has index `I`: no action; a removal that waits for the follower to catch up with the latest
configuration; a promotion whose round is in progress. (`ForceRemove` / `Demote` are never settled.) -/
def Settled (I : Nat) (n : CNode) (st : Repl) : Prop :=
  n.nextAction = actNone ∨ (n.nextAction = actRemove ∧ st.matchIndex < I) ∨ (n.nextAction = actPromote ∧ Waiting st)

theorem Settled.mono {I I' : Nat} {n : CNode} {st : Repl} (h : Settled I n st) (hle : I ≤ I') : Settled I' n st := by
  rcases h with h | ⟨h1, h2⟩ | h
  · exact Or.inl h
  · exact Or.inr (Or.inl ⟨h1, by omega⟩)
  · exact Or.inr (Or.inr h)

theorem roundStep_fields (L a : Nat) (st : Repl) :
    (roundStep L a st).1.id = st.id ∧ (roundStep L a st).1.matchIndex = st.matchIndex ∧
    (roundStep L a st).1.node = st.node := by
  unfold roundStep startRound finishRound
  dsimp only
  repeat' split
  all_goals exact ⟨rfl, rfl, rfl⟩

theorem finishRound_early (L : Nat) (st : Repl) (rd : Round) (h : (finishRound L st rd).2 = true) :
    Waiting (finishRound L st rd).1 := by
  unfold finishRound at h ⊢
  extract_lets rd' at h ⊢
  have hrd' : rd'.finished = false → rd.finished = false ∧ st.matchIndex < rd.lastIndex ∧ rd' = rd := by
    intro hf
    unfold rd' at hf ⊢
    split
    · rename_i hc; rw [if_pos hc] at hf; cases hf
    · rename_i hc
      rw [if_neg hc] at hf
      refine ⟨hf, ?_, rfl⟩
      rw [hf] at hc
      simp only [Bool.not_false, true_and, ge_iff_le, Nat.not_le] at hc
      exact hc
  by_cases h1 : (!rd'.finished) = true
  · rw [if_pos h1]
    have hf : rd'.finished = false := by simpa using h1
    obtain ⟨_, b, c⟩ := hrd' hf
    exact ⟨rd', rfl, hf, by rw [c]; exact b⟩
  · rw [if_neg h1] at h ⊢
    by_cases h2 : L > st.matchIndex ∧ rd'.aged = true
    · rw [if_pos h2]
      exact ⟨_, rfl, rfl, h2.1⟩
    · rw [if_neg h2] at h
      cases h

/-- an early return of the round bookkeeping: a promotion whose round is (now) in progress -/
theorem roundStep_early (L a : Nat) (st : Repl) (h : (roundStep L a st).2 = true) :
    a = actPromote ∧ Waiting (roundStep L a st).1 := by
  unfold roundStep at h ⊢
  dsimp only at h ⊢
  split at h
  · cases h
  · rename_i rd hr
    refine ⟨?_, finishRound_early L _ rd h⟩
    by_cases ha : a = actPromote
    · exact ha
    · exfalso
      unfold startRound at hr
      rw [if_pos ha] at hr
      cases hr

/-- a `Waiting` replication is left as it is by the round bookkeeping of a promotion, which returns early -/
theorem roundStep_waiting (L : Nat) (st : Repl) (h : Waiting st) :
    roundStep L actPromote st = (st, true) := by
  obtain ⟨rd, h1, h2, h3⟩ := h
  have hs : startRound L actPromote st = st := by
    unfold startRound
    rw [if_neg (by decide), h1]
  unfold roundStep
  dsimp only
  rw [hs, h1]
  dsimp only
  unfold finishRound
  dsimp only
  have hc : ¬ ((!rd.finished) = true ∧ st.matchIndex ≥ rd.lastIndex) := by
    intro ⟨_, hge⟩; omega
  rw [if_neg hc, if_pos (by rw [h2]; rfl)]
  have : ({ st with round := some rd } : Repl) = st := by
    cases st; simp only at h1; subst h1; rfl
  rw [this]

/-- `actionConfig` proposes nothing for a pending action only for a removal that has to wait -/
theorem actionConfig_none {I : Nat} {cfg : Config} {n : CNode} {st : Repl}
    (ha : n.nextAction ≠ actNone) (h : actionConfig I cfg n n.nextAction st = none) :
    n.nextAction = actRemove ∧ st.matchIndex < I := by
  unfold actionConfig at h
  split at h
  · cases h
  · split at h
    · rename_i h2
      split at h
      · cases h
      · rename_i h3
        exact ⟨h2, by omega⟩
    · split at h
      · cases h
      · split at h
        · cases h
        · rename_i h1 h2 h3 h4
          exfalso
          unfold CNode.nextAction at ha h1 h2 h3 h4
          repeat' split at ha
          all_goals simp_all

/-! ### the fields read here, and steps that leave them alone -/

/-- everything the predicates of this file read, except the replications -/
def k0 (x : Node) :=
  (x.configs, x.ldr.transfer.active, x.commitIndex, x.ldr.startIndex, x.lastLogIndex, x.ldr.numVoters, x.ldr.node,
   x.log.entries, x.nid)

/-- … and the replications -/
def k1 (x : Node) := (k0 x, x.ldr.repls)

theorem k0_eq {x y : Node} (h : k0 y = k0 x) :
    y.configs = x.configs ∧ y.ldr.transfer.active = x.ldr.transfer.active ∧ y.commitIndex = x.commitIndex ∧
    y.ldr.startIndex = x.ldr.startIndex ∧ y.lastLogIndex = x.lastLogIndex ∧ y.ldr.numVoters = x.ldr.numVoters ∧
    y.ldr.node = x.ldr.node ∧ y.log.entries = x.log.entries ∧ y.nid = x.nid := by
  unfold k0 at h
  simp only [Prod.mk.injEq] at h
  exact h

theorem k1_eq {x y : Node} (h : k1 y = k1 x) : k0 y = k0 x ∧ y.ldr.repls = x.ldr.repls := by
  unfold k1 at h
  simp only [Prod.mk.injEq] at h
  exact h

theorem k0_of_k1 {x y : Node} (h : k1 y = k1 x) : k0 y = k0 x := (k1_eq h).1

theorem canChange_k0 {x y : Node} (h : k0 y = k0 x) : y.canChangeConfig = x.canChangeConfig := by
  obtain ⟨a, b, c, d, _⟩ := k0_eq h
  unfold Node.canChangeConfig
  rw [a, b, c, d]

theorem view_k1 {x y : Node} (h : k1 y = k1 x) : LC.view y = LC.view x := by
  obtain ⟨h0, hr⟩ := k1_eq h
  obtain ⟨a, _, _, _, _, f, g, _, i⟩ := k0_eq h0
  unfold LC.view
  rw [a, f, g, i, hr]

theorem k1_panic (x : Node) (site : String) : k1 (x.panic site) = k1 x := by
  unfold Node.panic; split <;> rfl

theorem k1_reply (x : Node) (t : Nat) (r : String) : k1 (x.reply t r) = k1 x := by
  unfold Node.reply; split <;> rfl

theorem k1FsmFrame : FsmFrame k1 := ⟨k1_panic, k1_reply, fun _ _ => rfl⟩

theorem k1_assert (x : Node) (b : Bool) (site : String) : k1 (x.assert b site) = k1 x := k1FsmFrame.assert_eq x b site

theorem k1_applyCommittedL (x : Node) : k1 x.applyCommittedL = k1 x := by
  unfold Node.applyCommittedL
  dsimp only
  rw [k1FsmFrame.fsmApply_eq]
  rfl

theorem k1_notifyFlr (x : Node) : k1 x.notifyFlr = k1 x := by
  unfold Node.notifyFlr; split
  · rfl
  · split
    · rfl
    · exact k1_panic x _

theorem k1_commitLog (x : Node) (n : Nat) : k1 (x.commitLog n) = k1 x := by
  unfold k1 k0 Node.commitLog Node.point
  simp only [CfgRel.commitN_entries]

theorem k1_popOrder (x : Node) : k1 x.popOrder = k1 x := rfl

theorem k0_setRepl (x : Node) (r : Repl) : k0 (x.setRepl r) = k0 x := rfl

theorem k0_beginFinishedRounds (x : Node) : k0 x.beginFinishedRounds = k0 x := rfl

theorem k0_foldl {β : Type} (f : Node → β → Node) (hf : ∀ s b, k0 (f s b) = k0 s) (xs : List β) (x : Node) :
    k0 (xs.foldl f x) = k0 x := by
  induction xs generalizing x with
  | nil => rfl
  | cons b bs ih => rw [List.foldl_cons, ih, hf]

theorem k0_addReplication (x : Node) (n : CNode) : k0 (x.addReplication n) = k0 x := by
  unfold Node.addReplication
  dsimp only
  rw [k0_setRepl]
  split
  · exact k0_of_k1 (k1_assert x _ _)
  · rw [k0_of_k1 (k1_panic _ _)]; exact k0_of_k1 (k1_assert x _ _)

/-- a recorded failure -/
def Failed (x : Node) : Prop := x.panicked ≠ none

theorem failed_panic (x : Node) (site : String) : Failed (x.panic site) := CfgRel.panicked_panic x site

/-- the single-voter fast path of `leader.storeEntry` / `leader.majorityMatchIndex` is taken -/
def FP (x : Node) : Prop := x.ldr.numVoters = 1 ∧ x.ldr.node.voter = true

/-- the latest configuration is not committed: no configuration change can start -/
def Blocked (x : Node) : Prop := x.configs.isCommitted = false

theorem FP.k0 {x y : Node} (h : FP x) (e : k0 y = k0 x) : FP y := by
  obtain ⟨_, _, _, _, _, f, g, _⟩ := k0_eq e
  unfold FP; rw [f, g]; exact h

theorem Blocked.k0 {x y : Node} (h : Blocked x) (e : k0 y = k0 x) : Blocked y := by
  unfold Blocked; rw [(k0_eq e).1]; exact h

theorem Blocked.cannot {x : Node} (h : Blocked x) : x.canChangeConfig = false := by
  unfold Node.canChangeConfig
  unfold Blocked at h
  rw [h]; rfl

/-- every replication is settled with respect to the latest configuration -/
def Q (x : Node) : Prop :=
  ∀ st ∈ x.ldr.repls, Settled x.configs.latest.index (x.configs.latest.get st.id) st

/-- the configuration `c` and the latest configuration have the same entry for every node that has a replication -/
def Agr (c : Config) (x : Node) : Prop := ∀ st ∈ x.ldr.repls, x.configs.latest.find? st.id = c.find? st.id

theorem Q.k1 {x y : Node} (h : Q x) (e : k1 y = k1 x) : Q y := by
  obtain ⟨h0, hr⟩ := k1_eq e
  unfold Q; rw [(k0_eq h0).1, hr]; exact h

theorem Agr.k1 {c : Config} {x y : Node} (h : Agr c x) (e : k1 y = k1 x) : Agr c y := by
  obtain ⟨h0, hr⟩ := k1_eq e
  unfold Agr; rw [(k0_eq h0).1, hr]; exact h

/-- the outcome of a call that stored the configuration `c`: the step has failed, or the latest configuration is not
committed, or everything is settled, the latest configuration agrees with `c` wherever there is a replication, and the
leader is the only voter -/
def Post (c : Config) (x : Node) : Prop := Failed x ∨ Blocked x ∨ (Q x ∧ Agr c x ∧ FP x)

theorem Post.k1 {c : Config} {x y : Node} (h : Post c x) (e : k1 y = k1 x) (hp : Failed x → Failed y) : Post c y := by
  rcases h with h | h | ⟨h1, h2, h3⟩
  · exact Or.inl (hp h)
  · exact Or.inr (Or.inl (h.k0 (k0_of_k1 e)))
  · exact Or.inr (Or.inr ⟨h1.k1 e, h2.k1 e, h3.k0 (k0_of_k1 e)⟩)

theorem insertRepl_self (st : Repl) (l : List Repl) (hs : LC.Sorted l) (hm : st ∈ l) : insertRepl st l = l := by
  induction l with
  | nil => cases hm
  | cons m ms ih =>
    have hms : LC.Sorted ms := (List.pairwise_cons.mp hs).2
    have hlt : ∀ y ∈ ms, m.id < y.id := (List.pairwise_cons.mp hs).1
    unfold insertRepl
    rcases List.mem_cons.mp hm with e | h'
    · subst e
      rw [if_neg (by omega), if_pos rfl]
    · have := hlt st h'
      rw [if_neg (by omega), if_neg (by omega), ih hms h']

/-- `r` is `st` up to the round bookkeeping -/
def RSame (r st : Repl) : Prop := r.id = st.id ∧ r.matchIndex = st.matchIndex ∧ r.node = st.node

theorem RSame.refl (st : Repl) : RSame st st := ⟨rfl, rfl, rfl⟩

theorem rsame_roundStep (L a : Nat) (st : Repl) : RSame (roundStep L a st).1 st := roundStep_fields L a st

/-- the cases of `leader.checkConfigAction` for a node with a replication `st` -/
theorem ca_cases (n : Nat) (x : Node) (task : Nat) (cfg : Config) (id : Nat) (st : Repl)
    (hf : x.findRepl? id = some st) :
    (checkConfigAction (n + 1) x task cfg id = x ∧ Settled x.configs.latest.index (cfg.get id) st) ∨
    (∃ r, RSame r st ∧ checkConfigAction (n + 1) x task cfg id = x.setRepl r ∧
      (Settled x.configs.latest.index (cfg.get id) r ∨ x.canChangeConfig = false)) ∨
    (∃ r c, RSame r st ∧ x.canChangeConfig = true ∧ (cfg.get id).nextAction ≠ actNone ∧
      actionConfig x.configs.latest.index cfg (cfg.get id) (cfg.get id).nextAction r = some c ∧
      checkConfigAction (n + 1) x task cfg id = doChangeConfig n (x.setRepl r) task c) := by
  unfold checkConfigAction
  rw [hf]
  dsimp only
  split
  · rename_i ha
    exact Or.inl ⟨rfl, Or.inl ha⟩
  · rename_i ha
    have hrs := rsame_roundStep x.lastLogIndex (cfg.get id).nextAction st
    split
    · rename_i h2
      obtain ⟨hp, hw⟩ := roundStep_early _ _ _ h2
      exact Or.inr (Or.inl ⟨_, hrs, rfl, Or.inl (Or.inr (Or.inr ⟨hp, hw⟩))⟩)
    · split
      · rename_i h3
        refine Or.inr (Or.inl ⟨_, hrs, rfl, Or.inr ?_⟩)
        have : (x.setRepl (roundStep x.lastLogIndex (cfg.get id).nextAction st).1).canChangeConfig = x.canChangeConfig := rfl
        rw [this] at h3
        simpa using h3
      · rename_i h3
        have hcan : x.canChangeConfig = true := by
          have : (x.setRepl (roundStep x.lastLogIndex (cfg.get id).nextAction st).1).canChangeConfig = x.canChangeConfig := rfl
          rw [this] at h3
          simpa using h3
        split
        · rename_i c hc
          exact Or.inr (Or.inr ⟨_, c, hrs, hcan, ha, hc, rfl⟩)
        · rename_i hc
          have hc' : actionConfig x.configs.latest.index cfg (cfg.get id) (cfg.get id).nextAction
              (roundStep x.lastLogIndex (cfg.get id).nextAction st).1 = none := hc
          obtain ⟨h5, h6⟩ := actionConfig_none ha hc'
          exact Or.inr (Or.inl ⟨_, hrs, rfl, Or.inl (Or.inr (Or.inl ⟨h5, h6⟩))⟩)

theorem roundStep_notPromote (L a : Nat) (st : Repl) (ha : a ≠ actPromote) : (roundStep L a st).2 = false := by
  cases h : (roundStep L a st).2 with
  | false => rfl
  | true => exact absurd (roundStep_early L a st h).1 ha

/-- `leader.checkConfigAction` for a settled replication: round bookkeeping that leaves it settled -/
theorem ca_settled (n : Nat) (x : Node) (task : Nat) (cfg : Config) (id : Nat) (st : Repl)
    (hf : x.findRepl? id = some st) (hs : Settled x.configs.latest.index (cfg.get id) st) :
    checkConfigAction (n + 1) x task cfg id = x ∨
    ∃ r, RSame r st ∧ checkConfigAction (n + 1) x task cfg id = x.setRepl r ∧
      Settled x.configs.latest.index (cfg.get id) r := by
  rcases hs with hs | ⟨h1, h2⟩ | ⟨h1, h2⟩
  · left
    unfold checkConfigAction
    rw [hf]
    dsimp only
    rw [if_pos hs]
  · right
    have hrs := rsame_roundStep x.lastLogIndex actRemove st
    refine ⟨(roundStep x.lastLogIndex actRemove st).1, hrs, ?_, Or.inr (Or.inl ⟨h1, by rw [hrs.2.1]; exact h2⟩)⟩
    unfold checkConfigAction
    rw [hf]
    dsimp only
    rw [h1, if_neg (by decide), roundStep_notPromote _ _ _ (by decide)]
    simp only [Bool.false_eq_true, if_false]
    split
    · rfl
    · have : actionConfig x.configs.latest.index cfg (cfg.get id) actRemove (roundStep x.lastLogIndex actRemove st).1 = none := by
        unfold actionConfig
        rw [if_neg (by decide), if_pos rfl, if_neg (by rw [hrs.2.1]; omega)]
      show (match actionConfig x.configs.latest.index cfg (cfg.get id) actRemove (roundStep x.lastLogIndex actRemove st).1 with
        | some c => doChangeConfig n (x.setRepl (roundStep x.lastLogIndex actRemove st).1) task c
        | none => x.setRepl (roundStep x.lastLogIndex actRemove st).1) = _
      rw [this]
  · right
    refine ⟨st, RSame.refl st, ?_, Or.inr (Or.inr ⟨h1, h2⟩)⟩
    unfold checkConfigAction
    rw [hf]
    dsimp only
    rw [h1, if_neg (by decide), roundStep_waiting _ _ h2]
    simp only [if_true]

/-! ### calls that cannot store anything -/

/-- no configuration change can be stored: changes are not allowed now, or the leader's own entry has no vote
(`leader.storeEntry` answers "demotion / removal in progress") -/
def Inert (x : Node) : Prop := x.canChangeConfig = false ∨ x.ldr.node.voter = false

theorem Inert.k0 {x y : Node} (h : Inert x) (e : k0 y = k0 x) : Inert y := by
  unfold Inert
  rw [canChange_k0 e, (k0_eq e).2.2.2.2.2.2.1]
  exact h

theorem storeItems_nil (fuel : Nat) (s : Node) : storeItems fuel s [] = s := by
  unfold storeItems; rfl

/-- `doChangeConfig` by a leader whose own entry has no vote (or during a transfer): an answer, nothing else -/
theorem dc_dormant (n : Nat) (x : Node) (task : Nat) (c : Config)
    (h : x.ldr.transfer.active = true ∨ x.ldr.node.voter = false) : k1 (doChangeConfig n x task c) = k1 x := by
  cases n with
  | zero => unfold doChangeConfig; exact k1_panic x _
  | succ n =>
    unfold doChangeConfig
    cases n with
    | zero => unfold storeEntry; exact k1_panic x _
    | succ n =>
      unfold storeEntry
      extract_lets lastIndex s1 s2 s3 s4
      have h1 : k1 s1 = k1 x := by
        unfold s1
        cases n with
        | zero => unfold storeItems; exact k1_panic x _
        | succ n =>
          unfold storeItems
          dsimp only
          rw [storeItems_nil]
          rcases h with h | h
          · rw [if_pos h]; exact k1_reply x _ _
          · split
            · exact k1_reply x _ _
            · rw [if_pos (by rw [h]; rfl)]
              split <;> exact k1_reply x _ _
      have h2 : k1 s2 = k1 x := by
        unfold s2
        split
        · split
          · rw [k1_applyCommittedL]; exact h1
          · exact h1
        · exact h1
      have hl : s2.lastLogIndex = x.lastLogIndex := (k0_eq (k0_of_k1 h2)).2.2.2.2.1
      rw [if_neg (by rw [hl]; exact Nat.lt_irrefl _)]
      exact h2

/-- `checkConfigAction` when nothing can be stored: round bookkeeping (and answers) only -/
theorem ca_inert (n : Nat) (x : Node) (task : Nat) (cfg : Config) (id : Nat) (h : Inert x) :
    k0 (checkConfigAction n x task cfg id) = k0 x := by
  cases n with
  | zero => unfold checkConfigAction; exact k0_of_k1 (k1_panic x _)
  | succ n =>
    cases hf : x.findRepl? id with
    | none => unfold checkConfigAction; rw [hf]
    | some st =>
      rcases ca_cases n x task cfg id st hf with h1 | ⟨r, _, h2, _⟩ | ⟨r, c, _, h2, _, _, h5⟩
      · rw [h1.1]
      · rw [h2]; rfl
      · rw [h5]
        rcases h with h | h
        · rw [h] at h2; cases h2
        · rw [k0_of_k1 (dc_dormant n (x.setRepl r) task c (Or.inr h))]; rfl

/-- … and `checkConfigActions` -/
theorem cas_inert (n : Nat) (x : Node) (task : Nat) (cfg : Config) (h : Inert x) :
    k0 (checkConfigActions n x task cfg) = k0 x := by
  cases n with
  | zero => unfold checkConfigActions; exact k0_of_k1 (k1_panic x _)
  | succ n =>
    unfold checkConfigActions
    extract_lets nd c1 c2 r
    have hr : k0 r.1 = k0 x := by
      unfold r
      split
      · rename_i hc
        have hv : x.ldr.node.voter = false := by
          rcases h with h | h
          · rw [h] at hc; exact absurd hc.1 (by decide)
          · exact h
        split
        · exact k0_of_k1 (dc_dormant n x task c1 (Or.inr hv))
        · split
          · exact k0_of_k1 (dc_dormant n x task c2 (Or.inr hv))
          · exact k0_of_k1 (k1_panic x _)
      · rfl
    have hloop : ∀ (ids : List Nat) (y : Node), Inert y →
        k0 (ids.foldl (fun s id => match s.findRepl? id with
          | some _ => checkConfigAction n s task r.2 id
          | none => s) y) = k0 y := by
      intro ids
      induction ids with
      | nil => intro y _; rfl
      | cons a as ih =>
        intro y hy
        rw [List.foldl_cons]
        have h1 : k0 (match y.findRepl? a with
            | some _ => checkConfigAction n y task r.2 a
            | none => y) = k0 y := by
          split
          · exact ca_inert n y task r.2 a hy
          · rfl
        rw [ih _ (hy.k0 h1), h1]
    exact (hloop _ _ ((h.k0 hr).k0 (k0_of_k1 (k1_popOrder r.1)))).trans ((k0_of_k1 (k1_popOrder r.1)).trans hr)

/-! ### `leader.changeConfig` -/

theorem k0_changeConfigR (x : Node) (c : Config) :
    k0 (x.changeConfigR c) = (⟨x.configs.latest, c⟩, x.ldr.transfer.active, x.commitIndex, x.ldr.startIndex,
      x.lastLogIndex, x.ldr.numVoters, x.ldr.node, x.log.entries, x.nid) := by
  unfold Node.changeConfigR
  dsimp only
  split <;> rfl

/-- what `leader.changeConfig` does to the fields read here, for a configuration with a new index: the latest
configuration is `c`, not committed; the cached own entry and voter count are those of `c` -/
theorem cl_effect (n : Nat) (s : Node) (c : Config) (hidx : c.index ≠ s.configs.latest.index) :
    k0 (changeConfigL (n + 1) s c) = (⟨s.configs.latest, c⟩, s.ldr.transfer.active, s.commitIndex, s.ldr.startIndex,
      s.lastLogIndex, c.numVoters, c.get s.nid, s.log.entries, s.nid) := by
  unfold changeConfigL
  extract_lets src1 s1 s2 src2 s3 s4
  have h2 : k0 s2 = (⟨s.configs.latest, c⟩, s.ldr.transfer.active, s.commitIndex, s.ldr.startIndex,
      s.lastLogIndex, c.numVoters, c.get s.nid, s.log.entries, s.nid) := k0_changeConfigR s1 c
  have h3 : k0 s3 = k0 s2 := rfl
  have h4 : k0 s4 = k0 s3 := by
    refine k0_foldl _ ?_ _ _
    intro y nd
    split
    · rfl
    · split
      · exact k0_addReplication _ _
      · rfl
  have h4' : k0 s4 = (⟨s.configs.latest, c⟩, s.ldr.transfer.active, s.commitIndex, s.ldr.startIndex,
      s.lastLogIndex, c.numVoters, c.get s.nid, s.log.entries, s.nid) := h4.trans (h3.trans h2)
  have hb : Blocked s4 := by
    unfold Blocked Configs.isCommitted
    have : s4.configs = ⟨s.configs.latest, c⟩ := by
      have := congrArg Prod.fst h4'
      exact this
    rw [this]
    simpa using hidx
  rw [cas_inert n s4 0 _ (Or.inl hb.cannot)]
  exact h4'

/-! ### the configuration entries a step appends -/

/-- the configuration `c'` was stored when the latest configuration was `c`: the voting rights differ at one node at
most and `c'` has a voter (`CfgRel.Adjacent`), `c'` keeps a voter without pending action, and the guards of
`leader.canChangeConfig` held at that moment — `y` is the state of the node right then: `c` (its latest configuration) was
committed, no transfer was in progress, an entry of the leader's own term was committed; the leader's own entry is a
voter; `c'` is the next log entry, of the leader's term -/
structure Link (c c' : Config) : Prop where
  adj : CfgRel.Adjacent c c'
  anchor : CfgRel.HasAnchor c'
  /-- sorted member ids are kept -/
  srt : Srt c → Srt c'
  guard : ∃ y : Node, y.configs.latest = c ∧ y.canChangeConfig = true ∧ y.ldr.node.voter = true ∧
    c'.index = y.lastLogIndex + 1 ∧ c'.term = y.term

/-- `Chain1 c₀ es c`: the log entries `es`, appended in this order when the latest configuration was `c₀`, leave `c`
as the latest configuration: every configuration entry among them is `Link`ed to the configuration before it -/
inductive Chain1 : Config → List Entry → Config → Prop
  | nil (c : Config) : Chain1 c [] c
  | plain {c₀ c : Config} {es : List Entry} (e : Entry) : Chain1 c₀ es c → e.typ ≠ etConfig → Chain1 c₀ (es ++ [e]) c
  | cfg {c₀ c : Config} {es : List Entry} (e : Entry) (c' : Config) : Chain1 c₀ es c → e.config? = some c' →
      Link c c' → Chain1 c₀ (es ++ [e]) c'

/-- `ext` are the entries appended to the log since the state `s₀`, in this order: the log of `x` is (a suffix — the
log may have been compacted meanwhile — of) the log of `s₀` followed by `ext`, and `ext` forms a `Chain1` from the latest
configuration of `s₀` to the latest configuration of `x` -/
def LogChain (s₀ x : Node) : Prop :=
  ∃ k ext, k ≤ (s₀.log.entries ++ ext).length ∧ x.log.entries = (s₀.log.entries ++ ext).drop k ∧
    Chain1 s₀.configs.latest ext x.configs.latest

theorem LogChain.refl (s : Node) : LogChain s s := ⟨0, [], Nat.zero_le _, by simp, .nil _⟩

/-- appending an entry -/
theorem drop_snoc {α : Type} {l m : List α} {k : Nat} (a : α) (hk : k ≤ l.length) (h : m = l.drop k) :
    k ≤ (l ++ [a]).length ∧ m ++ [a] = (l ++ [a]).drop k := by
  refine ⟨by rw [List.length_append]; omega, ?_⟩
  rw [h, List.drop_append_of_le_length hk]

theorem LogChain.k0 {s₀ x y : Node} (h : LogChain s₀ x) (e : k0 y = k0 x) : LogChain s₀ y := by
  obtain ⟨a, _, _, _, _, _, _, b, _⟩ := k0_eq e
  unfold LogChain
  rw [a, b]
  exact h

/-- the state invariant carried through the leader's handlers (relative to the state `s₀` the step started from) -/
structure V (s₀ x : Node) : Prop where
  cache : LC.Cache x
  li : x.configs.latest.index ≤ x.lastLogIndex
  anch : CfgRel.AnchC x.configs.latest
  nid : x.nid = s₀.nid
  chain : x.panicked = none → LogChain s₀ x

theorem V.k1 {s₀ x y : Node} (h : V s₀ x) (e : k1 y = k1 x) (hp : y.panicked = none → x.panicked = none) : V s₀ y := by
  have e0 := k0_of_k1 e
  obtain ⟨a, _, _, _, b, _, _, _, c⟩ := k0_eq e0
  exact ⟨h.cache.congr (view_k1 e), by rw [a, b]; exact h.li, by rw [a]; exact h.anch, by rw [c]; exact h.nid,
    fun hy => (h.chain (hp hy)).k0 e0⟩

theorem pan_of_failed {x y : Node} (h : Failed x → Failed y) : y.panicked = none → x.panicked = none := by
  intro hy
  cases hx : x.panicked with
  | none => rfl
  | some v => exact absurd hy (h (by unfold Failed; rw [hx]; simp))

theorem V.panic {s₀ x : Node} (h : V s₀ x) (site : String) : V s₀ (x.panic site) :=
  h.k1 (k1_panic x site) (fun hp => absurd hp (failed_panic x site))

theorem V.reply {s₀ x : Node} (h : V s₀ x) (t : Nat) (r : String) : V s₀ (x.reply t r) :=
  h.k1 (k1_reply x t r) (fun hp => by rw [← (reply_fields x t r).2.2.2.2.2.1]; exact hp)

/-- replacing a replication by one that differs in the round bookkeeping only -/
theorem V.setRepl {s₀ x : Node} (h : V s₀ x) {id : Nat} {r st : Repl} (hf : x.findRepl? id = some st) (hr : RSame r st) :
    V s₀ (x.setRepl r) :=
  ⟨LC.csetRepl r st id h.cache hf (by unfold LC.key; rw [hr.1, hr.2.2]), h.li, h.anch, h.nid, h.chain⟩

theorem failed_mono_applyCommittedL (x : Node) : Failed x → Failed x.applyCommittedL :=
  fun h => CfgRel.pnClosed.applyCommittedL_inv x h

theorem failed_mono_notifyFlr (x : Node) : Failed x → Failed x.notifyFlr := (CfgRel.q_notifyFlr x).pan

theorem V.applyCommittedL {s₀ x : Node} (h : V s₀ x) : V s₀ x.applyCommittedL :=
  h.k1 (k1_applyCommittedL x) (pan_of_failed (failed_mono_applyCommittedL x))

theorem V.notifyFlr {s₀ x : Node} (h : V s₀ x) : V s₀ x.notifyFlr :=
  h.k1 (k1_notifyFlr x) (pan_of_failed (failed_mono_notifyFlr x))

theorem V.commitLog {s₀ x : Node} (h : V s₀ x) (n : Nat) : V s₀ (x.commitLog n) :=
  h.k1 (k1_commitLog x n) id

theorem V.popOrder {s₀ x : Node} (h : V s₀ x) : V s₀ x.popOrder := h.k1 (k1_popOrder x) id

theorem V.beginFinishedRounds {s₀ x : Node} (h : V s₀ x) : V s₀ x.beginFinishedRounds :=
  ⟨LC.cbegin h.cache, h.li, h.anch, h.nid, h.chain⟩

/-! ### storing a configuration entry -/

/-- `y` is `x` after a configuration entry with the nodes of `c` was stored and adopted (`leader.storeEntry` +
`leader.changeConfig`) -/
structure Stored (x : Node) (c : Config) (y : Node) : Prop where
  nodes : y.configs.latest.nodes = c.nodes
  committed : y.configs.committed = x.configs.latest
  idx : y.configs.latest.index = x.lastLogIndex + 1
  lli : y.lastLogIndex = x.lastLogIndex + 1
  ci : y.commitIndex = x.commitIndex
  act : y.ldr.transfer.active = x.ldr.transfer.active
  start : y.ldr.startIndex = x.ldr.startIndex
  nv : y.ldr.numVoters = c.numVoters
  node : y.ldr.node = c.get x.nid
  nid : y.nid = x.nid

theorem numVoters_congr {c c' : Config} (h : c'.nodes = c.nodes) : c'.numVoters = c.numVoters := by
  unfold Config.numVoters; rw [h]

theorem get_congr {c c' : Config} (h : c'.nodes = c.nodes) (id : Nat) : c'.get id = c.get id :=
  get_congr_find (find?_congr h id)

theorem Stored.blocked {x y : Node} {c : Config} (h : Stored x c y) (hli : x.configs.latest.index ≤ x.lastLogIndex) :
    Blocked y := by
  unfold Blocked Configs.isCommitted
  rw [h.idx, h.committed]
  simp only [beq_eq_false_iff_ne, ne_eq]
  omega

theorem canChange_facts' {x : Node} (h : x.canChangeConfig = true) :
    x.configs.isCommitted = true ∧ x.ldr.transfer.active = false ∧ x.ldr.startIndex ≤ x.commitIndex :=
  canChange_facts h

theorem k0_tuple {y : Node} {cf : Configs} {a : Bool} {ci st l nv : Nat} {nd : CNode} {es : List Entry} {ni : Nat}
    (h : k0 y = (cf, a, ci, st, l, nv, nd, es, ni)) :
    y.configs = cf ∧ y.ldr.transfer.active = a ∧ y.commitIndex = ci ∧ y.ldr.startIndex = st ∧ y.lastLogIndex = l ∧
    y.ldr.numVoters = nv ∧ y.ldr.node = nd ∧ y.log.entries = es ∧ y.nid = ni := by
  unfold k0 at h
  simp only [Prod.mk.injEq] at h
  exact h

theorem store_cfg (s₀ : Node) (m : Nat) (x : Node) (q : QItem) (b c : Config) (hV : V s₀ x)
    (hcan : x.canChangeConfig = true) (hv : x.ldr.node.voter = true) (hq : q.typ = etConfig) (hc : q.cfg = some c)
    (hd : Deriv b c) (hsv : SameVoters b x.configs.latest) (hs : Srt x.configs.latest → Srt c) (ha : HasAnchor c) :
    V s₀ (storeItem m x q) ∧ (Failed (storeItem m x q) ∨ Stored x c (storeItem m x q)) := by
  obtain ⟨_, hact, _⟩ := canChange_facts hcan
  unfold storeItem
  rw [if_neg (by rw [hact]; exact Bool.false_ne_true), if_neg (by rw [hv]; decide)]
  extract_lets q' l0 x0 x1
  have hty : q'.typ = etConfig := hq
  rw [if_pos (by rw [hty]; rfl), if_pos hty]
  have hcfg : q'.toEntry.config? = some { c.payload with index := x.lastLogIndex + 1, term := x.term } := by
    unfold Entry.config? QItem.toEntry
    dsimp only
    rw [if_pos hty]
    show Option.map _ (q.cfg.map Config.payload) = _
    rw [hc]; rfl
  rw [hcfg]
  dsimp only
  generalize hc' : ({ c.payload with index := x.lastLogIndex + 1, term := x.term } : Config) = c'
  have hn : c'.nodes = c.nodes := by rw [← hc']; rfl
  have hi : c'.index = x.lastLogIndex + 1 := by rw [← hc']
  have ht : c'.term = x.term := by rw [← hc']
  -- the state right after the entry was appended
  have hk : k0 x1 = (x.configs, x.ldr.transfer.active, x.commitIndex, x.ldr.startIndex, x.lastLogIndex + 1,
      x.ldr.numVoters, x.ldr.node, x.log.entries ++ [q'.toEntry], x.nid) := by
    obtain ⟨a1, a2, _, a4, _, a6, a7, _⟩ := appendEntry_key x0 q'.toEntry
    unfold k0
    rw [a1, a6, a4, a7, appendEntry_entries, a2]
    rfl
  have hC1 : LC.Cache x1 := LC.cappend _ (LC.cldr _ hV.cache rfl rfl rfl)
  have hidx : c'.index ≠ x1.configs.latest.index := by
    have : x1.configs = x.configs := congrArg Prod.fst hk
    rw [this, hi]
    have := hV.li
    omega
  have hx1 : x1.configs = x.configs := congrArg Prod.fst hk
  cases m with
  | zero =>
    unfold changeConfigL
    refine ⟨?_, Or.inl (failed_panic _ _)⟩
    refine ⟨LC.cpanic _ hC1, ?_, ?_, ?_, fun hp => absurd hp (failed_panic _ _)⟩
    · rw [(panic_fields x1 _).2.2.2.2.2.2.2, (panic_fields x1 _).2.1, hx1]
      have : x1.lastLogIndex = x.lastLogIndex + 1 := (k0_tuple hk).2.2.2.2.1
      have := hV.li
      omega
    · rw [(panic_fields x1 _).2.2.2.2.2.2.2, hx1]; exact hV.anch
    · rw [(k0_eq (k0_of_k1 (k1_panic x1 _))).2.2.2.2.2.2.2.2, (k0_tuple hk).2.2.2.2.2.2.2.2]; exact hV.nid
  | succ m =>
    have he := cl_effect m x1 c' hidx
    have hst : Stored x c (changeConfigL (m + 1) x1 c') := by
      obtain ⟨b1, b2, b3, b4, b5, b6, b7, _, b9⟩ := k0_tuple hk
      obtain ⟨a1, a2, a3, a4, a5, a6, a7, _, a9⟩ := k0_tuple he
      refine ⟨?_, ?_, ?_, ?_, ?_, ?_, ?_, ?_, ?_, ?_⟩
      · rw [a1]; exact hn
      · rw [a1, b1]
      · rw [a1]; exact hi
      · rw [a5]; exact b5
      · rw [a3]; exact b3
      · rw [a2]; exact b2
      · rw [a4]; exact b4
      · rw [a6]; exact numVoters_congr hn
      · rw [a7, b9]; exact get_congr hn _
      · rw [a9]; exact b9
    refine ⟨⟨(LC.block (m + 1)).2.2.1 x1 c' hC1, ?_, ?_, ?_, ?_⟩, Or.inr hst⟩
    · rw [hst.idx, hst.lli]; exact Nat.le_refl _
    · exact Or.inr (ha.congr hst.nodes)
    · rw [hst.nid]; exact hV.nid
    · intro hp
      have hp1 : x1.panicked = none :=
        pan_of_failed (fun h => (pnClosed.block (m + 1)).2.2.1 x1 c' h) hp
      have hpx : x.panicked = none := appendEntry_pan' x0 _ hp1
      obtain ⟨k, ext, e0, e1, e2⟩ := hV.chain hpx
      have hent : (changeConfigL (m + 1) x1 c').log.entries = x.log.entries ++ [q'.toEntry] :=
        (k0_tuple he).2.2.2.2.2.2.2.1.trans (k0_tuple hk).2.2.2.2.2.2.2.1
      have hlat : (changeConfigL (m + 1) x1 c').configs.latest = c' := by
        have := (k0_tuple he).1
        rw [this]
      obtain ⟨d1, d2⟩ := drop_snoc q'.toEntry e0 e1
      refine ⟨k, ext ++ [q'.toEntry], by rw [← List.append_assoc]; exact d1, by rw [hent, ← List.append_assoc]; exact d2, ?_⟩
      rw [hlat]
      refine .cfg _ c' e2 (by rw [hcfg, hc']) ⟨⟨?_, ?_⟩, ha.congr hn, fun h => (hs h).congr hn, x, rfl, hcan, hv, hi, ht⟩
      · exact (hd.congr hn).adjacent hsv
      · exact (ha.congr hn).voter

/-! ### client entries -/

theorem V.withQueue {s₀ x : Node} (h : V s₀ x) (qs : List QItem) : V s₀ (x.withLdr { x.ldr with queue := qs }) :=
  h.k1 rfl id

theorem V.appendPlain {s₀ x : Node} (h : V s₀ x) (e : Entry) (hi : e.index = x.lastLogIndex + 1) (ht : e.typ ≠ etConfig) :
    V s₀ (x.appendEntry e) := by
  obtain ⟨a1, a2, _, _, _, _, a7, _⟩ := appendEntry_key x e
  refine ⟨LC.cappend _ h.cache, by rw [a1, a7, hi]; have := h.li; omega, by rw [a1]; exact h.anch,
    by rw [a2]; exact h.nid, fun hp => ?_⟩
  obtain ⟨k, ext, e0, e1, e2⟩ := h.chain (appendEntry_pan' x e hp)
  obtain ⟨d1, d2⟩ := drop_snoc e e0 e1
  exact ⟨k, ext ++ [e], by rw [← List.append_assoc]; exact d1,
    by rw [appendEntry_entries, ← List.append_assoc]; exact d2, by rw [a1]; exact .plain e e2 ht⟩

/-- what a batch of client entries leaves alone -/
def kp (x : Node) :=
  (x.configs, x.ldr.transfer.active, x.commitIndex, x.ldr.startIndex, x.ldr.numVoters, x.ldr.node, x.ldr.repls, x.nid)

theorem kp_reply (x : Node) (t : Nat) (r : String) : kp (x.reply t r) = kp x := by
  unfold Node.reply; split <;> rfl

theorem kp_panic (x : Node) (site : String) : kp (x.panic site) = kp x := by
  unfold Node.panic; split <;> rfl

theorem kp_appendEntry (x : Node) (e : Entry) : kp (x.appendEntry e) = kp x := by
  obtain ⟨a1, a2, _, a4, _, a6, _, _⟩ := appendEntry_key x e
  unfold kp
  rw [a1, a2, a4, a6]

theorem storeItem_plain (s₀ : Node) (m : Nat) (x : Node) (q : QItem) (hV : V s₀ x) (hq : q.typ ≠ etConfig) :
    V s₀ (storeItem m x q) ∧ kp (storeItem m x q) = kp x ∧ x.lastLogIndex ≤ (storeItem m x q).lastLogIndex ∧
    (Failed x → Failed (storeItem m x q)) := by
  unfold storeItem
  split
  · exact ⟨hV.reply _ _, kp_reply _ _ _, Nat.le_of_eq (reply_fields x _ _).2.1.symm, (q_reply x _ _).pan⟩
  · split
    · split
      · exact ⟨hV.reply _ _, kp_reply _ _ _, Nat.le_of_eq (reply_fields x _ _).2.1.symm, (q_reply x _ _).pan⟩
      · exact ⟨hV.reply _ _, kp_reply _ _ _, Nat.le_of_eq (reply_fields x _ _).2.1.symm, (q_reply x _ _).pan⟩
    · extract_lets q' l0 x0 x1
      have hV0 : V s₀ x0 := hV.withQueue _
      have hty : q'.typ ≠ etConfig := hq
      split
      · have e1 : (if q'.typ = etConfig then
            match q'.toEntry.config? with
            | some c => changeConfigL m x1 c
            | none => x1.panic "bug.configDecode"
          else x1) = x1 := if_neg hty
        first | rw [e1] | skip
        refine ⟨hV0.appendPlain _ rfl hty, (kp_appendEntry x0 _).trans rfl, ?_, (appendEntry_key x0 _).2.2.2.2.2.2.2⟩
        rw [(appendEntry_key x0 _).2.2.2.2.2.2.1]
        show x.lastLogIndex ≤ x.lastLogIndex + 1
        omega
      · exact ⟨hV0, rfl, Nat.le_refl _, id⟩

theorem storeItems_plain (s₀ : Node) (m : Nat) (b : List QItem) : ∀ (x : Node), V s₀ x → (∀ q ∈ b, q.typ ≠ etConfig) →
    V s₀ (storeItems m x b) ∧ kp (storeItems m x b) = kp x ∧ x.lastLogIndex ≤ (storeItems m x b).lastLogIndex ∧
    (Failed x → Failed (storeItems m x b)) := by
  induction b generalizing m with
  | nil => intro x hV _; rw [storeItems_nil]; exact ⟨hV, rfl, Nat.le_refl _, id⟩
  | cons q qs ih =>
    intro x hV hb
    cases m with
    | zero =>
      have e : storeItems 0 x (q :: qs) = x.panic "fuel" := by unfold storeItems; rfl
      rw [e]
      exact ⟨hV.panic _, kp_panic x _, Nat.le_of_eq (panic_fields x _).2.1.symm, (q_panic x _).pan⟩
    | succ m =>
      rw [storeItems_cons]
      obtain ⟨a1, a2, a3, a4⟩ := storeItem_plain s₀ m x q hV (hb q List.mem_cons_self)
      obtain ⟨b1, b2, b3, b4⟩ := ih m _ a1 (fun q' hq' => hb q' (List.mem_cons_of_mem _ hq'))
      exact ⟨b1, b2.trans a2, Nat.le_trans a3 b3, fun h => b4 (a4 h)⟩

end One
end Raft
