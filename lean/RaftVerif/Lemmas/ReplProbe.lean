/-
Helper definitions and lemmas about the probe loop of `replicate` (Model/ReplProbe.lean, tied to the real
`replication.replicate` by the engine probelive). Quoted by Props/C17Probe.lean.
-/
import RaftVerif.Model.ReplProbe
import RaftVerif.Lemmas.ReplSteps

namespace Raft
namespace Repl

/-- the leader's term at index `i` as a replication can learn it: 0 at index 0, the snapshot's term at the
snapshot index, otherwise the term of the log entry (none: compacted away / not there) -/
def leaderTerm (env : Env) (i : Nat) : Option Nat :=
  if i = 0 then some 0 else if i = env.snapIndex then some env.snapTerm else (env.log.get? i).map (·.term)

/-- the follower holds the leader's entry at `i` (or its snapshot covers `i`) -/
def AgreeAt (env : Env) (f : Follower) (i : Nat) : Prop :=
  ∃ t, leaderTerm env i = some t ∧ (i ≤ f.snapIndex ∨ f.termAt i = some t)

/-- the weaker form that is enough for termination: IF the leader can still read its term at `i`, the
follower agrees with it there -/
def AgreeIfKnown (env : Env) (f : Follower) (i : Nat) : Prop :=
  ∀ t, leaderTerm env i = some t → (i ≤ f.snapIndex ∨ f.termAt i = some t)

/-- the follower answers by the consistency check in every exchange still to come (no injected fault) -/
def Loop.Honest (s : Loop) : Prop := ∀ t ∈ s.ticks, t.fault = 0

/-- shape of an exchange the probe loop adds to the trace: a non-pipelined appendEntries request without
entries -/
def ProbeShape (x : Exch) : Prop :=
  x.kind = "append" ∧ x.pipelined = false ∧ ∃ q, x.append = some q ∧ q.entries = []

/-! ### the two agreement predicates -/

theorem AgreeAt.ifKnown {env : Env} {f : Follower} {i : Nat} (h : AgreeAt env f i) : AgreeIfKnown env f i := by
  obtain ⟨t, ht, h⟩ := h
  intro t' ht'
  rw [ht] at ht'
  injection ht' with ht'
  subst ht'
  exact h

/-- `termAt` only looks at the snapshot index and the terms of the entries -/
theorem termAt_congr {f g : Follower} (h1 : g.snapIndex = f.snapIndex) (h2 : g.terms = f.terms) (i : Nat) :
    g.termAt i = f.termAt i := by
  unfold Follower.termAt
  rw [h1, h2]

theorem AgreeAt.congr {env : Env} {f g : Follower} {i : Nat} (h1 : g.snapIndex = f.snapIndex)
    (h2 : g.terms = f.terms) (h : AgreeAt env f i) : AgreeAt env g i := by
  obtain ⟨t, ht, h⟩ := h
  exact ⟨t, ht, by rw [termAt_congr h1 h2, h1]; exact h⟩

theorem AgreeIfKnown.congr {env : Env} {f g : Follower} {i : Nat} (h1 : g.snapIndex = f.snapIndex)
    (h2 : g.terms = f.terms) (h : AgreeIfKnown env f i) : AgreeIfKnown env g i := by
  intro t ht
  rw [termAt_congr h1 h2, h1]
  exact h t ht

/-! ### the request of one probe round -/

/-- a request without entries (`sendEntries = false`) never moves the replication's state -/
theorem writeAppend_false_st (st : State) (env : Env) : (writeAppend st env false).st = st := by
  unfold writeAppend
  extract_lets prev pt n es
  have hn0 : n = 0 := by unfold n; simp
  generalize pt = ptv
  match ptv with
  | .error p => rfl
  | .ok none => rfl
  | .ok (some prevTerm) =>
    dsimp only
    split
    · rfl
    · split
      · rfl
      · dsimp only
        rw [hn0]
        rfl

/-- KEY LEMMA 1: the `prevLogTerm` of a request is the leader's term at `prevLogIndex` -/
theorem writeAppend_leaderTerm (st : State) (env : Env) (b : Bool) (q : Node.AppendReq)
    (h : (writeAppend st env b).append = some q) :
    leaderTerm env q.prevLogIndex = some q.prevLogTerm := by
  obtain ⟨_, _, _, _, h0, hs, hl, _⟩ := repl_request_from_log st env b q h
  unfold leaderTerm
  split
  · rename_i hz
    rw [h0 hz]
  · rename_i hz
    split
    · rename_i hsn
      rw [hs hz hsn]
    · rename_i hsn
      obtain ⟨e, hg, he⟩ := hl hz hsn
      rw [hg]
      simp [he]

/-! ### the follower's answer -/

/-- with a tick without fault the follower answers by the consistency check -/
theorem exchange_honest (s : Loop) (hh : s.Honest) (q : Node.AppendReq) :
    s.flr.exchange s.tick q = s.flr.answer q := by
  have hf : s.tick.fault = 0 := by
    unfold Loop.tick
    cases hs : s.ticks with
    | nil => rfl
    | cons t ts =>
      apply hh
      rw [hs]
      exact List.mem_cons_self
  unfold Follower.exchange
  simp [hf]

theorem termAt_none_of_gt (f : Follower) (i : Nat) (h : i > f.lastIndex) : f.termAt i = none := by
  unfold Follower.termAt
  unfold Follower.lastIndex at h
  split
  · rfl
  · apply List.getElem?_eq_none
    omega

/-- KEY LEMMA 2: the answer to a request without entries. It never touches the follower's log; it reports
the follower's last index; and it is a success exactly when the request is not stale and the follower's
snapshot covers `prevLogIndex` or it holds an entry of `prevLogTerm` there. -/
theorem answer_noentries (f : Follower) (q : Node.AppendReq) (he : q.entries = []) :
    (f.answer q).flr.snapIndex = f.snapIndex ∧ (f.answer q).flr.terms = f.terms ∧
    (f.answer q).resp.kind = "append" ∧ (f.answer q).resp.lastLogIndex = f.lastIndex ∧
    ((f.answer q).resp.result = rStaleTerm ∧ q.term < f.term ∨
     ((f.answer q).resp.result = rPrevEntryNotFound ∨ (f.answer q).resp.result = rPrevTermMismatch) ∧
        ¬ q.term < f.term ∧ q.prevLogIndex > f.snapIndex ∧ f.termAt q.prevLogIndex ≠ some q.prevLogTerm ∨
     (f.answer q).resp.result = rSuccess ∧ ¬ q.term < f.term ∧
        (q.prevLogIndex ≤ f.snapIndex ∨ f.termAt q.prevLogIndex = some q.prevLogTerm)) := by
  unfold Follower.answer
  rw [he]
  split
  · rename_i hst
    exact ⟨rfl, rfl, rfl, rfl, Or.inl ⟨rfl, hst⟩⟩
  · rename_i hst
    extract_lets f1 f2 c src f3
    have ht : ∀ i, f1.termAt i = f.termAt i := fun i => termAt_congr rfl rfl i
    have hl : f1.lastIndex = f.lastIndex := rfl
    split
    · rename_i h1
      refine ⟨rfl, rfl, rfl, rfl, Or.inr (Or.inl ⟨Or.inl rfl, hst, h1.1, ?_⟩)⟩
      rw [← ht, termAt_none_of_gt f1 _ h1.2]
      simp
    · split
      · rename_i h1 h2
        refine ⟨rfl, rfl, rfl, rfl, Or.inr (Or.inl ⟨Or.inr rfl, hst, h2.1, ?_⟩)⟩
        rw [← ht]
        exact h2.2
      · rename_i h1 h2
        have hf2 : f2.snapIndex = f.snapIndex ∧ f2.terms = f.terms := by
          unfold f2; split <;> exact ⟨rfl, rfl⟩
        have hc : c.flr = f2 := rfl
        have hf3 : f3.snapIndex = f.snapIndex ∧ f3.terms = f.terms := by
          unfold f3; split
          · exact ⟨by rw [← hf2.1, ← hc], by rw [← hf2.2, ← hc]⟩
          · rw [hc]; exact hf2
        refine ⟨hf3.1, hf3.2, rfl, ?_, Or.inr (Or.inr ⟨rfl, hst, ?_⟩)⟩
        · show f3.lastIndex = f.lastIndex
          unfold Follower.lastIndex
          rw [hf3.1, hf3.2]
        · rw [← ht]
          have hs : f1.snapIndex = f.snapIndex := rfl
          rw [← hs]
          by_cases hp : q.prevLogIndex > f1.snapIndex
          · right
            exact Classical.byContradiction fun hne => h2 ⟨hp, hne⟩
          · left; omega

/-! ### bookkeeping of the loop -/

theorem checkUpdate_fields (s : Loop) :
    s.checkUpdate.st.matchIndex = s.st.matchIndex ∧ s.checkUpdate.st.nextIndex = s.st.nextIndex ∧
    s.checkUpdate.flr = s.flr ∧ s.checkUpdate.ticks = s.ticks ∧ s.checkUpdate.trace = s.trace := by
  unfold Loop.checkUpdate
  split
  · exact ⟨rfl, rfl, rfl, rfl, rfl⟩
  · exact ⟨rfl, rfl, rfl, rfl, rfl⟩

theorem honest_of_tail {s r : Loop} (h : r.ticks = s.ticks.tail) (hh : s.Honest) : r.Honest := by
  intro t ht
  rw [h] at ht
  exact hh t (List.mem_of_mem_tail ht)

/-! ### the response handler inside the probe loop -/

/-- `onAppendEntriesResp` for the request `(prev = nextIndex - 1)` of a probe round -/
theorem onAppendResp_probe (st : State) (term result lli : Nat) (hm : st.matchIndex < st.nextIndex) :
    let o := onAppendResp st term result lli (st.nextIndex - 1)
    (result = rStaleTerm → o.err ≠ "") ∧
    (result = rSuccess → o.err = "" ∧ o.panic = "" ∧ o.st.nextIndex = st.nextIndex ∧
        o.st.matchIndex + 1 = st.nextIndex) ∧
    (result = rPrevEntryNotFound ∨ result = rPrevTermMismatch →
        (o.err ≠ "" ∧ o.st = st) ∨
        (o.err = "" ∧ o.panic = "" ∧ o.st.matchIndex = st.matchIndex ∧
          o.st.nextIndex = min (st.nextIndex - 1) (lli + 1) ∧ st.matchIndex ≤ lli)) ∧
    (o.st.matchIndex = st.matchIndex ∨ result = rSuccess ∧ o.st.matchIndex = st.nextIndex - 1) := by
  intro o
  unfold o onAppendResp
  refine ⟨?_, ?_, ?_, ?_⟩
  · intro h; simp [h]
  · intro h
    subst h
    simp only [show ¬ rSuccess = rStaleTerm by decide, if_false, if_true]
    split
    · exact ⟨rfl, rfl, rfl, by dsimp only; omega⟩
    · exact ⟨rfl, rfl, rfl, by dsimp only; omega⟩
  · intro h
    have h1 : result ≠ rStaleTerm := by rcases h with h | h <;> (rw [h]; decide)
    have h2 : result ≠ rSuccess := by rcases h with h | h <;> (rw [h]; decide)
    rw [if_neg h1, if_neg h2, if_pos h]
    split
    · left; exact ⟨by simp, rfl⟩
    · right; exact ⟨rfl, rfl, rfl, rfl, by omega⟩
  · repeat' split
    all_goals simp_all

/-! ### one round of the probe loop -/

/-- what one round of the probe loop guarantees (relative to the loop state `s` it started from) -/
structure RoundOK (env : Env) (s : Loop) (r : PR) : Prop where
  honest : r.loop.Honest
  snap : r.loop.flr.snapIndex = s.flr.snapIndex
  terms : r.loop.flr.terms = s.flr.terms
  mono : s.st.matchIndex ≤ r.loop.st.matchIndex
  trace : r.loop.trace = s.trace ∨ ∃ x, r.loop.trace = s.trace ++ [x] ∧ ProbeShape x
  known : AgreeIfKnown env r.loop.flr r.loop.st.matchIndex
  agree : AgreeAt env s.flr s.st.matchIndex → AgreeAt env r.loop.flr r.loop.st.matchIndex
  ending : r.ending = "failed" ∨ (r.ending = "needInstall" ∧ r.loop = s) ∨
    (r.ending = "matched" ∧ r.loop.st.matchIndex + 1 = r.loop.st.nextIndex) ∨
    (r.ending = "continue" ∧ r.loop.st.matchIndex = s.st.matchIndex ∧
      s.st.matchIndex < r.loop.st.nextIndex ∧ r.loop.st.nextIndex < s.st.nextIndex)

theorem RoundOK.same {env : Env} {s : Loop} (hh : s.Honest) (ha : AgreeIfKnown env s.flr s.st.matchIndex)
    (r : PR) (hl : r.loop = s) (he : r.ending = "failed" ∨ r.ending = "needInstall") : RoundOK env s r := by
  refine ⟨?_, ?_, ?_, ?_, ?_, ?_, ?_, ?_⟩
  all_goals rw [hl]
  · exact hh
  · exact Nat.le_refl _
  · exact Or.inl rfl
  · exact ha
  · exact fun h => h
  · rcases he with he | he
    · exact Or.inl he
    · exact Or.inr (Or.inl ⟨he, rfl⟩)

/-- assembling `RoundOK` for a round that made its exchange: the follower's log and the remaining ticks
are those after the exchange, and `matchIndex` either stayed or the follower agrees there -/
theorem RoundOK.after {env : Env} {s : Loop} (r : PR) (x : Exch)
    (hsn : r.loop.flr.snapIndex = s.flr.snapIndex) (htm : r.loop.flr.terms = s.flr.terms)
    (hticks : r.loop.ticks = s.ticks.tail) (htrace : r.loop.trace = s.trace ++ [x]) (hx : ProbeShape x)
    (hh : s.Honest) (ha : AgreeIfKnown env s.flr s.st.matchIndex)
    (hag : r.loop.st.matchIndex = s.st.matchIndex ∨ AgreeAt env r.loop.flr r.loop.st.matchIndex)
    (hmono : s.st.matchIndex ≤ r.loop.st.matchIndex)
    (hend : r.ending = "failed" ∨
      (r.ending = "matched" ∧ r.loop.st.matchIndex + 1 = r.loop.st.nextIndex) ∨
      (r.ending = "continue" ∧ r.loop.st.matchIndex = s.st.matchIndex ∧
        s.st.matchIndex < r.loop.st.nextIndex ∧ r.loop.st.nextIndex < s.st.nextIndex)) :
    RoundOK env s r := by
  refine ⟨honest_of_tail hticks hh, hsn, htm, hmono, Or.inr ⟨x, htrace, hx⟩, ?_, ?_, ?_⟩
  · rcases hag with h | h
    · rw [h]; exact ha.congr hsn htm
    · exact h.ifKnown
  · intro h0
    rcases hag with h | h
    · rw [h]; exact h0.congr hsn htm
    · exact h
  · rcases hend with h | h | h
    · exact Or.inl h
    · exact Or.inr (Or.inr (Or.inl h))
    · exact Or.inr (Or.inr (Or.inr h))

theorem probeRound_spec (env : Env) (s : Loop)
    (hm : s.st.matchIndex < s.st.nextIndex) (ha : AgreeIfKnown env s.flr s.st.matchIndex) (hh : s.Honest) :
    RoundOK env s (probeRound env s) := by
  unfold probeRound
  extract_lets w
  split
  · exact RoundOK.same hh ha _ rfl (Or.inl rfl)
  split
  · exact RoundOK.same hh ha _ rfl (Or.inr rfl)
  split
  · exact RoundOK.same hh ha _ rfl (Or.inl rfl)
  split
  · exact RoundOK.same hh ha _ rfl (Or.inl rfl)
  rename_i q hq
  extract_lets a s1 o s2 s3
  have hwst : w.st = s.st := writeAppend_false_st s.st env
  have hqe : q.entries = [] := (heartbeat_no_entries s.st env q hq).1
  have hqp : q.prevLogIndex = s.st.nextIndex - 1 := (repl_request_from_log s.st env false q hq).1
  have hlt : leaderTerm env q.prevLogIndex = some q.prevLogTerm := writeAppend_leaderTerm _ _ _ _ hq
  have hax : a = s.flr.answer q := exchange_honest s hh q
  obtain ⟨hsn, htm, hkind, hlli, hres⟩ := answer_noentries s.flr q hqe
  rw [← hax] at hsn htm hkind hlli hres
  have hs1st : s1.st = s.st := hwst
  have hx : ProbeShape { kind := "append", st := w.st, append := some q, resp := a.resp } :=
    ⟨rfl, rfl, q, rfl, hqe⟩
  have hoeq : o = onAppendResp s.st a.resp.term a.resp.result a.resp.lastLogIndex (s.st.nextIndex - 1) := by
    show onAppendResp s1.st _ _ _ (s1.st.nextIndex - 1) = _
    rw [hs1st]
  have ho := onAppendResp_probe s.st a.resp.term a.resp.result a.resp.lastLogIndex hm
  dsimp only at ho
  rw [← hoeq] at ho
  obtain ⟨hostale, hosucc, homis, homatch⟩ := ho
  -- the follower agrees at whatever `matchIndex` is after the response
  have hag : o.st.matchIndex = s.st.matchIndex ∨ AgreeAt env a.flr o.st.matchIndex := by
    rcases homatch with h | ⟨hr, h⟩
    · exact Or.inl h
    · right
      rw [h, ← hqp]
      refine ⟨q.prevLogTerm, hlt, ?_⟩
      rw [termAt_congr hsn htm, hsn]
      rcases hres with ⟨h3, _⟩ | ⟨h3, _⟩ | ⟨_, _, h3⟩
      · rw [hr] at h3; exact absurd h3 (by decide)
      · rw [hr] at h3; rcases h3 with h3 | h3 <;> exact absurd h3 (by decide)
      · exact h3
  have hmono : s.st.matchIndex ≤ o.st.matchIndex := by
    have := (match_index_sound s.st a.resp.term a.resp.result a.resp.lastLogIndex (s.st.nextIndex - 1)).1
    rw [← hoeq] at this
    exact this
  have hcu := checkUpdate_fields s2
  split
  · rename_i heof
    rw [hkind] at heof
    exact absurd heof (by decide)
  split
  · exact RoundOK.after _ _ hsn htm rfl rfl hx hh ha hag hmono (Or.inl rfl)
  split
  · exact RoundOK.after _ _ hsn htm rfl rfl hx hh ha hag hmono (Or.inl rfl)
  rename_i hpanic herr
  have hs3m : s3.st.matchIndex = o.st.matchIndex := hcu.1
  have hs3n : s3.st.nextIndex = o.st.nextIndex := hcu.2.1
  have hs3f : s3.flr = a.flr := hcu.2.2.1
  have hs3t : s3.ticks = s.ticks.tail := hcu.2.2.2.1
  have hs3r : s3.trace = s.trace ++ [_] := hcu.2.2.2.2
  split
  · rename_i hmatched
    refine RoundOK.after _ _ (by rw [hs3f]; exact hsn) (by rw [hs3f]; exact htm) hs3t hs3r hx hh ha ?_ ?_
      (Or.inr (Or.inl ⟨rfl, hmatched⟩))
    · show s3.st.matchIndex = _ ∨ AgreeAt env s3.flr s3.st.matchIndex
      rw [hs3m, hs3f]; exact hag
    · show _ ≤ s3.st.matchIndex
      rw [hs3m]; exact hmono
  · rename_i hnot
    refine RoundOK.after _ _ (by rw [hs3f]; exact hsn) (by rw [hs3f]; exact htm) hs3t hs3r hx hh ha ?_ ?_
      (Or.inr (Or.inr ?_))
    · show s3.st.matchIndex = _ ∨ AgreeAt env s3.flr s3.st.matchIndex
      rw [hs3m, hs3f]; exact hag
    · show _ ≤ s3.st.matchIndex
      rw [hs3m]; exact hmono
    · show "continue" = "continue" ∧ s3.st.matchIndex = _ ∧ _ < s3.st.nextIndex ∧ s3.st.nextIndex < _
      rw [hs3m, hs3n] at hnot ⊢
      have herr' : o.err = "" := Classical.byContradiction fun h => herr h
      rcases hres with ⟨h3, _⟩ | ⟨h3, hns, hgt, hne⟩ | ⟨h3, _⟩
      · exact absurd herr' (hostale h3)
      · rcases homis h3 with ⟨h4, _⟩ | ⟨_, _, h5, h6, h7⟩
        · exact absurd herr' h4
        · -- a mismatch at `prev = matchIndex` is impossible
          have hpm : q.prevLogIndex ≠ s.st.matchIndex := by
            intro heq
            rcases ha q.prevLogTerm (by rw [← heq]; exact hlt) with h8 | h8
            · omega
            · rw [← heq] at h8; exact hne h8
          refine ⟨rfl, h5, ?_, ?_⟩
          · rw [h6]
            apply Nat.lt_min.mpr
            omega
          · rw [h6]
            have := Nat.min_le_left (s.st.nextIndex - 1) (a.resp.lastLogIndex + 1)
            omega
      · obtain ⟨_, _, h5, h6⟩ := hosucc h3
        rw [h5] at hnot
        exact absurd h6 hnot

/-! ### the whole probe loop -/

/-- what `probe env fuel s` guarantees -/
structure ProbeOK (env : Env) (s : Loop) (fuel : Nat) (r : PR) : Prop where
  ending : r.ending = "matched" ∨ r.ending = "needInstall" ∨ r.ending = "failed" ∨
    (r.ending = "fuel" ∧ fuel < s.st.nextIndex - s.st.matchIndex)
  matched : r.ending = "matched" → r.loop.st.matchIndex + 1 = r.loop.st.nextIndex
  agree : AgreeAt env s.flr s.st.matchIndex → AgreeAt env r.loop.flr r.loop.st.matchIndex
  mono : s.st.matchIndex ≤ r.loop.st.matchIndex
  snap : r.loop.flr.snapIndex = s.flr.snapIndex
  terms : r.loop.flr.terms = s.flr.terms
  trace : ∃ xs, r.loop.trace = s.trace ++ xs ∧ xs.length ≤ s.st.nextIndex - s.st.matchIndex ∧
    xs.length ≤ fuel ∧ ∀ x ∈ xs, ProbeShape x

theorem probe_spec (env : Env) (fuel : Nat) : ∀ (s : Loop),
    s.st.matchIndex < s.st.nextIndex → AgreeIfKnown env s.flr s.st.matchIndex → s.Honest →
    ProbeOK env s fuel (probe env fuel s) := by
  induction fuel with
  | zero =>
    intro s hm ha hh
    unfold probe
    refine ⟨Or.inr (Or.inr (Or.inr ⟨rfl, by omega⟩)), ?_, fun h => h, Nat.le_refl _, rfl, rfl,
      ⟨[], by simp, by simp, by simp, by simp⟩⟩
    intro h
    exact absurd (show "fuel" = "matched" from h) (by decide)
  | succ n ih =>
    intro s hm ha hh
    have hr := probeRound_spec env s hm ha hh
    unfold probe
    extract_lets r
    change RoundOK env s r at hr
    by_cases hc : r.ending = "continue"
    · rw [if_pos hc]
      have hcont : r.loop.st.matchIndex = s.st.matchIndex ∧
          s.st.matchIndex < r.loop.st.nextIndex ∧ r.loop.st.nextIndex < s.st.nextIndex := by
        rcases hr.ending with h | ⟨h, _⟩ | ⟨h, _⟩ | ⟨_, h⟩
        · rw [hc] at h; exact absurd h (by decide)
        · rw [hc] at h; exact absurd h (by decide)
        · rw [hc] at h; exact absurd h (by decide)
        · exact h
      obtain ⟨h1, h2, h3⟩ := hcont
      have hi := ih r.loop (by rw [h1]; exact h2) hr.known hr.honest
      refine ⟨?_, hi.matched, fun h => hi.agree (hr.agree h), Nat.le_trans hr.mono hi.mono,
        hi.snap.trans hr.snap, hi.terms.trans hr.terms, ?_⟩
      · rcases hi.ending with h | h | h | ⟨h, hf⟩
        · exact Or.inl h
        · exact Or.inr (Or.inl h)
        · exact Or.inr (Or.inr (Or.inl h))
        · exact Or.inr (Or.inr (Or.inr ⟨h, by omega⟩))
      · obtain ⟨xs, hx1, hx2, hx3, hx4⟩ := hi.trace
        rcases hr.trace with ht | ⟨x, ht, hx⟩
        · exact ⟨xs, by rw [hx1, ht], by omega, by omega, hx4⟩
        · refine ⟨x :: xs, by rw [hx1, ht]; simp, by simp only [List.length_cons]; omega,
            by simp only [List.length_cons]; omega, ?_⟩
          intro y hy
          rcases List.mem_cons.mp hy with hy | hy
          · rw [hy]; exact hx
          · exact hx4 y hy
    · rw [if_neg hc]
      refine ⟨?_, ?_, hr.agree, hr.mono, hr.snap, hr.terms, ?_⟩
      · rcases hr.ending with h | ⟨h, _⟩ | ⟨h, _⟩ | ⟨h, _⟩
        · exact Or.inr (Or.inr (Or.inl h))
        · exact Or.inr (Or.inl h)
        · exact Or.inl h
        · exact absurd h hc
      · intro hmt
        rcases hr.ending with h | ⟨h, _⟩ | ⟨_, h⟩ | ⟨h, _⟩
        · rw [hmt] at h; exact absurd h (by decide)
        · rw [hmt] at h; exact absurd h (by decide)
        · exact h
        · exact absurd h hc
      · rcases hr.trace with ht | ⟨x, ht, hx⟩
        · exact ⟨[], by rw [ht]; simp, by simp, by simp, by simp⟩
        · refine ⟨[x], ht, by simp only [List.length_singleton]; omega, by simp, ?_⟩
          intro y hy
          rw [List.mem_singleton.mp hy]; exact hx

/-! ### facts that need no hypothesis (they hold with a faulty follower too) -/

/-- one round never lowers `matchIndex`, whatever the follower answers -/
theorem probeRound_match_mono (env : Env) (s : Loop) :
    s.st.matchIndex ≤ (probeRound env s).loop.st.matchIndex := by
  unfold probeRound
  extract_lets w
  split
  · exact Nat.le_refl _
  split
  · exact Nat.le_refl _
  split
  · exact Nat.le_refl _
  split
  · exact Nat.le_refl _
  extract_lets a s1 o s2 s3
  have hs1 : s1.st.matchIndex = s.st.matchIndex := by
    show w.st.matchIndex = _
    rw [show w.st = s.st from writeAppend_false_st s.st env]
  have ho : s1.st.matchIndex ≤ o.st.matchIndex :=
    (match_index_sound s1.st a.resp.term a.resp.result a.resp.lastLogIndex (s1.st.nextIndex - 1)).1
  have hs3 : s3.st.matchIndex = o.st.matchIndex := (checkUpdate_fields s2).1
  split
  · exact Nat.le_of_eq hs1.symm
  split
  · show _ ≤ o.st.matchIndex; omega
  split
  · show _ ≤ o.st.matchIndex; omega
  split
  · show _ ≤ s3.st.matchIndex; omega
  · show _ ≤ s3.st.matchIndex; omega

/-- the probe loop never lowers `matchIndex`: no hypothesis on the follower, the ticks or the fuel -/
theorem probe_match_mono (env : Env) (fuel : Nat) : ∀ (s : Loop),
    s.st.matchIndex ≤ (probe env fuel s).loop.st.matchIndex := by
  induction fuel with
  | zero => intro s; exact Nat.le_refl _
  | succ n ih =>
    intro s
    unfold probe
    extract_lets r
    have hr : s.st.matchIndex ≤ r.loop.st.matchIndex := probeRound_match_mono env s
    split
    · exact Nat.le_trans hr (ih r.loop)
    · exact hr

/-- a round that ends with `needInstall` sent nothing and changed nothing: `writeAppendEntriesReq`
returned ErrNotFound before anything was written -/
theorem probeRound_needInstall (env : Env) (s : Loop) (h : (probeRound env s).ending = "needInstall") :
    (probeRound env s).loop = s ∧ (writeAppend s.st env false).err = "notFound" := by
  unfold probeRound at h ⊢
  extract_lets at h ⊢
  split at h
  · exact absurd (show "failed" = "needInstall" from h) (by decide)
  rename_i hp
  rw [if_neg hp]
  split at h
  · rename_i hn
    rw [if_pos hn]
    exact ⟨rfl, hn⟩
  split at h
  · exact absurd (show "failed" = "needInstall" from h) (by decide)
  split at h
  · exact absurd (show "failed" = "needInstall" from h) (by decide)
  extract_lets at h
  split at h
  · exact absurd (show "failed" = "needInstall" from h) (by decide)
  split at h
  · exact absurd (show "failed" = "needInstall" from h) (by decide)
  split at h
  · exact absurd (show "failed" = "needInstall" from h) (by decide)
  split at h
  · exact absurd (show "matched" = "needInstall" from h) (by decide)
  · exact absurd (show "continue" = "needInstall" from h) (by decide)

end Repl
end Raft
