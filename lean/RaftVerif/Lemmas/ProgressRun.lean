/-
The election run of the possibility proof (Props/C17Sys.lean): phases A–D of Lemmas/ProgressElect.lean put together.
-/
import RaftVerif.Lemmas.ProgressElect

namespace Raft
namespace Progress
open Node LogRel CommitRel Commit C02Sys NoPanic SysInv
open Election (FixedV setNode setNode_same setNode_other)

/-! ### choosing the candidate -/

/-- a list with two different members has at least two elements -/
theorem two_le_length {a b : Nat} : ∀ {l : List Nat}, a ∈ l → b ∈ l → a ≠ b → 2 ≤ l.length
  | [], h, _, _ => absurd h List.not_mem_nil
  | [c], ha, hb, hne => by
    rw [List.mem_singleton] at ha hb
    exact absurd (ha.trans hb.symm) hne
  | _ :: _ :: _, _, _, _ => by simp

/-- the configuration of a good node with voters has at least two voters -/
theorem two_voters {V : List Nat} {x : Commit.Sys} {i : Nat} (f : Facts V x i) (hne : V ≠ []) : 2 ≤ V.length := by
  have hn : (x.node i).configs.latest.nodes ≠ [] := by
    intro e
    have := f.voters
    unfold Config.voters at this
    rw [e] at this
    exact hne this.symm
  obtain ⟨a, ha, b, hb, hab, ⟨hav, _, _⟩, ⟨hbv, _, _⟩⟩ := (f.good.glob.cfgL.2 hn).2 rfl
  have hmem : ∀ n ∈ (x.node i).configs.latest.nodes, n.voter = true → n.id ∈ V := by
    intro n hn' hv
    rw [← f.voters]
    unfold Config.voters
    exact List.mem_map.mpr ⟨n, List.mem_filter.mpr ⟨hn', hv⟩, rfl⟩
  exact two_le_length (hmem a ha hav) (hmem b hb hbv) hab

/-- a non-empty list has a member whose pair `(f, g)` is maximal in the lexicographic order -/
theorem exists_uptodate (f g : Nat → Nat) : ∀ (l : List Nat), l ≠ [] →
    ∃ w ∈ l, ∀ j ∈ l, ¬ (f j > f w ∨ (f j = f w ∧ g j > g w))
  | [], h => absurd rfl h
  | [a], _ => ⟨a, List.mem_singleton.mpr rfl, fun j hj => by rw [List.mem_singleton.mp hj]; omega⟩
  | a :: b :: l, _ => by
    obtain ⟨w, hw, hall⟩ := exists_uptodate f g (b :: l) (by simp)
    by_cases h : f a > f w ∨ (f a = f w ∧ g a > g w)
    · refine ⟨a, List.mem_cons_self .., fun j hj => ?_⟩
      rcases List.mem_cons.mp hj with e | e
      · rw [e]; omega
      · have := hall j e
        omega
    · refine ⟨w, List.mem_cons_of_mem _ hw, fun j hj => ?_⟩
      rcases List.mem_cons.mp hj with e | e
      · rw [e]; exact h
      · exact hall j e

/-- the maximum of a function over a non-empty list -/
theorem exists_max (f : Nat → Nat) : ∀ (l : List Nat), l ≠ [] → ∃ T, (∀ j ∈ l, f j ≤ T) ∧ ∃ j ∈ l, f j = T
  | [], h => absurd rfl h
  | [a], _ => ⟨f a, fun j hj => by rw [List.mem_singleton.mp hj]; exact Nat.le_refl _, a, List.mem_singleton.mpr rfl, rfl⟩
  | a :: b :: l, _ => by
    obtain ⟨T, h1, j, hj, hjT⟩ := exists_max f (b :: l) (by simp)
    by_cases h : f a ≤ T
    · refine ⟨T, fun i hi => ?_, j, List.mem_cons_of_mem _ hj, hjT⟩
      rcases List.mem_cons.mp hi with e | e
      · rw [e]; exact h
      · exact h1 i e
    · refine ⟨f a, fun i hi => ?_, a, List.mem_cons_self .., rfl⟩
      rcases List.mem_cons.mp hi with e | e
      · rw [e]; exact Nat.le_refl _
      · have := h1 i e; omega

/-- the other members of a duplicate-free list -/
theorem others_facts {M : List Nat} (hM : M.Nodup) {w : Nat} (hw : w ∈ M) :
    (M.filter (· != w)).Nodup ∧ (M.filter (· != w)).length + 1 = M.length ∧
    (∀ j, j ∈ M.filter (· != w) ↔ j ∈ M ∧ j ≠ w) := by
  refine ⟨?_, ?_, fun j => by rw [List.mem_filter]; simp⟩
  · rw [← List.Nodup.erase_eq_filter hM]; exact hM.erase w
  · rw [← List.Nodup.erase_eq_filter hM, List.length_erase_of_mem hw]
    have := List.length_pos_of_mem hw
    omega

/-- a candidate that has counted nothing in its term still needs a majority minus its own vote -/
theorem votesNeeded_fresh {V : List Nat} (hV : V.Nodup) {u : Commit.Sys} (hu : ReachableG V u) {w : Nat}
    (hr : (u.node w).role = .candidate) (hc : ∀ v, (w, (u.node w).term, v) ∉ u.rp.el.counted) :
    (u.node w).votesNeeded = ((V.length / 2 : Nat) : Int) := by
  obtain ⟨hI, _⟩ := inv_reachable hV (reachableG_V hu)
  have hcand := hI.rp.el.cand w hr
  have hcount := hcand.count
  have hnil : Election.votersCounted u.rp.el.counted w (u.rp.el.node w).term = [] := by
    unfold Election.votersCounted
    rw [List.map_eq_nil_iff, List.filter_eq_nil_iff]
    intro e he hm
    have h1 : e.1 = w ∧ e.2.1 = (u.rp.el.node w).term := by simpa using hm
    apply hc e.2.2
    have : e = (w, (u.node w).term, e.2.2) := by
      obtain ⟨a, b, c⟩ := e
      simp only at h1
      rw [h1.1, h1.2]
    rw [← this]; exact he
  rw [hnil] at hcount
  have e : u.rp.el.node w = u.node w := rfl
  rw [e] at hcount
  simp only [List.length_nil] at hcount
  omega

/-! ### the election run -/

/-- the state `z` reached by the election run from `x`: `w ∈ M` is leader of the term `T`, above every term the
nodes of `M` had; it has appended entries of term `T` (the no-op of `leader.init`) to the log it had in `x` and
nothing else moved on it; every other node of `M` is a follower of term `T` whose log, commit index, state machine,
configurations are those of `x`. -/
structure ElectedSys (M : List Nat) (x z : Commit.Sys) (w T : Nat) : Prop where
  wM : w ∈ M
  termGt : ∀ i ∈ M, (x.node i).term < T
  role : (z.node w).role = .leader
  term : (z.node w).term = T
  closed : (z.node w).closed = ""
  cfg : (z.node w).configs.latest = (x.node w).configs.latest
  commitIndex : (z.node w).commitIndex = (x.node w).commitIndex
  ext : ∃ es, es ≠ [] ∧ (z.node w).log.entries = (x.node w).log.entries ++ es ∧ ∀ e ∈ es, e.term = T
  others : ∀ j ∈ M, j ≠ w → Keep (x.node j) (z.node j) ∧ (z.node j).role = .follower ∧ (z.node j).term = T
  outside : ∀ i, i ∉ M → z.node i = x.node i

/-- **the election run** (phases A–D): see `ElectedSys`; at most `4 * |M|` labels, all of nodes of `M`, at most two
election timeouts per node. -/
theorem election_run {V : List Nat} (hV : V.Nodup) {x : Commit.Sys} (hx : ReachableG V x) (M : List Nat)
    (hM : M.Nodup) (hMV : ∀ i ∈ M, i ∈ V) (hmaj : 2 * M.length > V.length) (h0 : ∀ i ∈ M, i ≠ 0)
    (hopen : ∀ i ∈ M, (x.node i).closed = "") (hids : ∀ i ∈ M, (x.node i).configs.latest.ids.Nodup) :
    ∃ ls z w T, Exec V x ls z ∧ RunOK M ls (4 * M.length) (fun j => if j ∈ M then 2 else 0) ∧
      ElectedSys M x z w T := by
  have hMne : M ≠ [] := by intro e; rw [e] at hmaj; simp at hmaj
  obtain ⟨i0, hi0⟩ := List.exists_mem_of_ne_nil M hMne
  have hVne : V ≠ [] := List.ne_nil_of_mem (hMV i0 hi0)
  have h2 : 2 ≤ V.length := two_voters (facts hV hx i0) hVne
  have hvot : ∀ i ∈ M, ∀ j ∈ M, (x.node i).configs.latest.isVoter j = true :=
    fun i hi j hj => isVoter_of_mem (facts hV hx i) (hids i hi) (hMV j hj)
  -- phase A
  obtain ⟨lsA, z1, exA, okA, othA, rdA⟩ := phaseA hV h2 hx M M hM
    (fun i hi => ⟨hi, h0 i hi, hMV i hi, hopen i hi, hvot i hi i hi⟩)
  have hz1 := Exec.reachable hV hx exA
  -- the candidate and the highest term
  obtain ⟨w, hwM, hup⟩ := exists_uptodate (fun j => (x.node j).lastLogTerm) (fun j => (x.node j).lastLogIndex) M hMne
  obtain ⟨T0, hT0, _⟩ := exists_max (fun j => (z1.node j).term) M hMne
  -- phase B
  have rw1 := rdA w hwM
  obtain ⟨lsB, z2, exB, lenB, actB, tmoB, onB, rB, lB, tB, vB, campB, cmB, cntB⟩ := phaseB hV h2 hz1 w T0 (h0 w hwM)
    (by rw [rw1.keep.closed]; exact hopen w hwM) rw1.role rw1.leader
    (by rw [rw1.keep.configs]; exact hvot w hwM w hwM) (hT0 w hwM)
  have hz2 := Exec.reachable hV hz1 exB
  -- phase C
  obtain ⟨jsN, jsL, jsM⟩ := others_facts hM hwM
  have hjs : ∀ j ∈ M.filter (· != w), j ≠ 0 ∧ (z2.node j).closed = "" ∧ (z2.node j).leader = 0 ∧
      (z2.node j).term < T0 + 1 ∧
      ¬ ((z2.node j).lastLogTerm > (z1.node w).lastLogTerm ∨
        ((z2.node j).lastLogTerm = (z1.node w).lastLogTerm ∧ (z2.node j).lastLogIndex > (z1.node w).lastLogIndex)) := by
    intro j hj
    obtain ⟨hjM, hjw⟩ := (jsM j).mp hj
    have rj := rdA j hjM
    rw [onB.others j hjw]
    refine ⟨h0 j hjM, by rw [rj.keep.closed]; exact hopen j hjM, rj.leader, Nat.lt_succ_of_le (hT0 j hjM), ?_⟩
    rw [rj.keep.lastLogTerm, rj.keep.lastLogIndex, rw1.keep.lastLogTerm, rw1.keep.lastLogIndex]
    exact hup j hjM
  obtain ⟨lsC, z3, exC, lenC, actC, tmoC, othC, vtC, _, cntC, _⟩ := phaseC hV hz2 w (T0 + 1)
    (z1.node w).lastLogIndex (z1.node w).lastLogTerm (h0 w hwM) campB (M.filter (· != w)) jsN hjs
  have hz3 := Exec.reachable hV hz2 exC
  have hw3 : z3.node w = z2.node w := othC w (fun h => ((jsM w).mp h).2 rfl)
  -- phase D
  have hk2 : Keep (x.node w) (z2.node w) := rw1.keep.trans onB.keep
  have hcnt3 : ∀ v, (w, (z3.node w).term, v) ∉ z3.rp.el.counted := by
    intro v; rw [hw3, tB, cntC]; exact cntB v
  have hvn := votesNeeded_fresh hV hz3 (by rw [hw3]; exact rB) hcnt3
  have hkk : V.length / 2 - 1 + 1 = V.length / 2 := by omega
  obtain ⟨lsD, z4, exD, lenD, actD, tmoD, othD, elD⟩ := phaseD hV h2 w (T0 + 1) (h0 w hwM) (V.length / 2 - 1) z3
    (M.filter (· != w)) hz3 (by rw [hw3]; exact rB) (by rw [hw3]; exact tB)
    (by rw [hw3, hk2.closed]; exact hopen w hwM) (by rw [hvn, hkk]) jsN (by omega)
    (fun j hj => by
      obtain ⟨hjM, hjw⟩ := (jsM j).mp hj
      refine ⟨hjw, by rw [hw3, hk2.configs]; exact hvot w hwM j hjM, (vtC j hj).grant, ?_⟩
      rw [cntC]; exact cntB j)
  -- together
  refine ⟨(lsA ++ lsB) ++ (lsC ++ lsD), z4, w, T0 + 1, (exA.trans exB).trans (exC.trans exD), ?_, ?_⟩
  · have okB : RunOK M lsB 2 (fun j => if j = w then 1 else 0) := RunOK.single hwM lenB actB tmoB
    have okC : RunOK M lsC (M.filter (· != w)).length (fun _ => 0) :=
      ⟨lenC, fun l hl => ((jsM _).mp (actC l hl)).1, fun i => by
        apply Nat.le_of_eq
        rw [List.length_eq_zero_iff, List.filter_eq_nil_iff]
        intro l hl ht
        have : l ∈ lsC.filter Lbl.isTimeout := List.mem_filter.mpr ⟨hl, by
          cases l with
          | step a op _ _ _ => cases op <;> first | rfl | cases ht
          | send _ _ => cases ht⟩
        rw [tmoC] at this; exact absurd this List.not_mem_nil⟩
    have okD : RunOK M lsD (V.length / 2) (fun _ => 0) :=
      ⟨by rw [lenD, hkk]; exact Nat.le_refl _, fun l hl => by rw [actD l hl]; exact hwM, fun i => by
        apply Nat.le_of_eq
        rw [List.length_eq_zero_iff, List.filter_eq_nil_iff]
        intro l hl ht
        have : l ∈ lsD.filter Lbl.isTimeout := List.mem_filter.mpr ⟨hl, by
          cases l with
          | step a op _ _ _ => cases op <;> first | rfl | cases ht
          | send _ _ => cases ht⟩
        rw [tmoD] at this; exact absurd this List.not_mem_nil⟩
    refine ((okA.append okB).append (okC.append okD)).mono (by omega) (fun j => ?_)
    show (if j ∈ M then 1 else 0) + (if j = w then 1 else 0) + (0 + 0) ≤ (if j ∈ M then 2 else 0)
    by_cases hj : j = w
    · rw [if_pos hj, hj, if_pos hwM, if_pos hwM]; omega
    · rw [if_neg hj]
      split <;> omega
  · have hterm : ∀ i ∈ M, (x.node i).term < T0 + 1 := fun i hi =>
      Nat.lt_succ_of_le (Nat.le_trans (Nat.le_of_lt (rdA i hi).term) (hT0 i hi))
    rw [hw3] at elD
    refine ⟨hwM, hterm, elD.role, elD.term.trans tB, elD.closed, by rw [elD.cfg, hk2.configs],
      elD.commitIndex.trans hk2.commitIndex, ?_, ?_, ?_⟩
    · obtain ⟨es, h1, h2', h3⟩ := elD.ext
      exact ⟨es, h1, by rw [h2', hk2.log], fun e he => by rw [h3 e he, tB]⟩
    · intro j hjM hjw
      have hj : j ∈ M.filter (· != w) := (jsM j).mpr ⟨hjM, hjw⟩
      have v := vtC j hj
      rw [othD j hjw]
      have k : Keep (x.node j) (z3.node j) := by
        have := v.keep
        rw [onB.others j hjw] at this
        exact (rdA j hjM).keep.trans this
      exact ⟨k, v.role, v.term⟩
    · intro i hi
      have hiw : i ≠ w := fun e => hi (by rw [e]; exact hwM)
      rw [othD i hiw, othC i (fun h => hi ((jsM i).mp h).1), onB.others i hiw, othA i hi]

end Progress
end Raft
