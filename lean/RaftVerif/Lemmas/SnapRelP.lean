/-
Panic persistence.

`P π s` is the state `s` with a failure recorded (`panicked := some π`). `Node.panic` records only the FIRST failure
site and nothing else reads the field, so every handler commutes with `P π`: `f (P π s) = P π (f s)`. Hence a
failure recorded before a handler runs is still recorded afterwards, and — read backwards — a result without a
recorded failure comes from an argument without one (`npk`). (`Node.begin` clears the field: it is the only
exception.)
-/
import RaftVerif.Model.Step
import RaftVerif.Lemmas.SnapAttr

namespace Raft
namespace SnapRelP
open Node

/-- the state with a failure recorded -/
def P (π : String) (s : Node) : Node := { s with panicked := some π }

variable {π : String}

/-! ### projections -/

@[pproj] theorem P_cid (s : Node) : (P π s).cid = s.cid := rfl
@[pproj] theorem P_nid (s : Node) : (P π s).nid = s.nid := rfl
@[pproj] theorem P_retain (s : Node) : (P π s).retain = s.retain := rfl
@[pproj] theorem P_shutdownOnRemove (s : Node) : (P π s).shutdownOnRemove = s.shutdownOnRemove := rfl
@[pproj] theorem P_term (s : Node) : (P π s).term = s.term := rfl
@[pproj] theorem P_votedFor (s : Node) : (P π s).votedFor = s.votedFor := rfl
@[pproj] theorem P_durTerm (s : Node) : (P π s).durTerm = s.durTerm := rfl
@[pproj] theorem P_durVote (s : Node) : (P π s).durVote = s.durVote := rfl
@[pproj] theorem P_log (s : Node) : (P π s).log = s.log := rfl
@[pproj] theorem P_lastLogIndex (s : Node) : (P π s).lastLogIndex = s.lastLogIndex := rfl
@[pproj] theorem P_lastLogTerm (s : Node) : (P π s).lastLogTerm = s.lastLogTerm := rfl
@[pproj] theorem P_configs (s : Node) : (P π s).configs = s.configs := rfl
@[pproj] theorem P_role (s : Node) : (P π s).role = s.role := rfl
@[pproj] theorem P_leader (s : Node) : (P π s).leader = s.leader := rfl
@[pproj] theorem P_commitIndex (s : Node) : (P π s).commitIndex = s.commitIndex := rfl
@[pproj] theorem P_fsm (s : Node) : (P π s).fsm = s.fsm := rfl
@[pproj] theorem P_votesNeeded (s : Node) : (P π s).votesNeeded = s.votesNeeded := rfl
@[pproj] theorem P_candTransfer (s : Node) : (P π s).candTransfer = s.candTransfer := rfl
@[pproj] theorem P_ldr (s : Node) : (P π s).ldr = s.ldr := rfl
@[pproj] theorem P_snapPending (s : Node) : (P π s).snapPending = s.snapPending := rfl
@[pproj] theorem P_snapResult (s : Node) : (P π s).snapResult = s.snapResult := rfl
@[pproj] theorem P_closed (s : Node) : (P π s).closed = s.closed := rfl
@[pproj] theorem P_rollAt (s : Node) : (P π s).rollAt = s.rollAt := rfl
@[pproj] theorem P_orders (s : Node) : (P π s).orders = s.orders := rfl
@[pproj] theorem P_replies (s : Node) : (P π s).replies = s.replies := rfl
@[pproj] theorem P_rpcReply (s : Node) : (P π s).rpcReply = s.rpcReply := rfl
@[pproj] theorem P_result (s : Node) : (P π s).result = s.result := rfl

@[pproj] theorem P_trace (s : Node) : (P π s).trace = s.trace := rfl
@[pproj] theorem P_snapIndex (s : Node) : (P π s).snapIndex = s.snapIndex := rfl
@[pproj] theorem P_snapTerm (s : Node) : (P π s).snapTerm = s.snapTerm := rfl
@[pproj] theorem P_snapsDisk (s : Node) : (P π s).snapsDisk = s.snapsDisk := rfl
@[pproj] theorem P_panicked (s : Node) : (P π s).panicked = some π := rfl

@[pproj] theorem P_durable (s : Node) : (P π s).durable = s.durable := rfl

/-! ### observations (functions of the state that do not return a state) -/

@[pproj] theorem P_findRepl? (s : Node) (id : Nat) : (P π s).findRepl? id = s.findRepl? id := rfl
@[pproj] theorem P_replOrder (s : Node) : (P π s).replOrder = s.replOrder := rfl
@[pproj] theorem P_voterMatches (s : Node) : (P π s).voterMatches = s.voterMatches := rfl
@[pproj] theorem P_majorityMatchIndex (s : Node) : (P π s).majorityMatchIndex = s.majorityMatchIndex := rfl
@[pproj] theorem P_canChangeConfig (s : Node) : (P π s).canChangeConfig = s.canChangeConfig := rfl
@[pproj] theorem P_transferReady (s : Node) (id : Nat) : (P π s).transferReady id = s.transferReady id := rfl
@[pproj] theorem P_tryTransferTarget (s : Node) : (P π s).tryTransferTarget = s.tryTransferTarget := rfl
@[pproj] theorem P_validateTransfer (s : Node) (t : Nat) : (P π s).validateTransfer t = s.validateTransfer t := rfl
@[pproj] theorem P_releaseResult (s : Node) : (P π s).releaseResult = s.releaseResult := rfl
@[pproj] theorem P_notLeader (s : Node) (b : Bool) : (P π s).notLeader b = s.notLeader b := rfl
@[pproj] theorem P_canStartElection (s : Node) : (P π s).canStartElection = s.canStartElection := rfl
@[pproj] theorem P_isClosed (s : Node) : (P π s).isClosed = s.isClosed := rfl
@[pproj] theorem P_entryTerm? (s : Node) (i : Nat) : (P π s).entryTerm? i = s.entryTerm? i := rfl
@[pproj] theorem P_mkReply (s : Node) (a b : Bool) : (P π s).mkReply a b = s.mkReply a b := rfl
@[pproj] theorem P_canCommit (s : Node) (q : AppendReq) (i t : Nat) : (P π s).canCommit q i t = s.canCommit q i t := rfl

/-! ### primitive state updates -/

@[psimp] theorem P_point (s : Node) (n : String) : (P π s).point n = P π (s.point n) := rfl

@[psimp] theorem P_panic (s : Node) (site : String) : (P π s).panic site = P π (s.panic site) := by
  unfold Node.panic
  show (if (some π).isNone = true then _ else _) = _
  rw [if_neg (by simp)]
  split <;> rfl

@[psimp] theorem P_assert (s : Node) (b : Bool) (site : String) : (P π s).assert b site = P π (s.assert b site) := by
  unfold Node.assert; split
  · rfl
  · exact P_panic s site

@[psimp] theorem P_reply (s : Node) (t : Nat) (r : String) : (P π s).reply t r = P π (s.reply t r) := by
  unfold Node.reply; split <;> rfl

@[psimp] theorem P_setRole (s : Node) (r : Role) : (P π s).setRole r = P π (s.setRole r) := rfl
@[psimp] theorem P_popOrder (s : Node) : (P π s).popOrder = P π s.popOrder := rfl
@[psimp] theorem P_withLdr (s : Node) (l : Leader) : (P π s).withLdr l = P π (s.withLdr l) := rfl
@[psimp] theorem P_withFsm (s : Node) (f : Fsm) : (P π s).withFsm f = P π (s.withFsm f) := rfl
@[psimp] theorem P_withVotesNeeded (s : Node) (v : Int) : (P π s).withVotesNeeded v = P π (s.withVotesNeeded v) := rfl
@[psimp] theorem P_withCandTransfer (s : Node) (v : Bool) : (P π s).withCandTransfer v = P π (s.withCandTransfer v) := rfl
@[psimp] theorem P_withSnapPending (s : Node) (v : Option SnapReq) : (P π s).withSnapPending v = P π (s.withSnapPending v) := rfl
@[psimp] theorem P_withSnapResult (s : Node) (v : Option SnapRes) : (P π s).withSnapResult v = P π (s.withSnapResult v) := rfl
@[psimp] theorem P_withRpcReply (s : Node) (v : Option RpcReply) : (P π s).withRpcReply v = P π (s.withRpcReply v) := rfl
@[psimp] theorem P_withCommitIndex (s : Node) (i : Nat) : (P π s).withCommitIndex i = P π (s.withCommitIndex i) := rfl
@[psimp] theorem P_withLast (s : Node) (i t : Nat) : (P π s).withLast i t = P π (s.withLast i t) := rfl
@[psimp] theorem P_ret (s : Node) (r : Nat) : (P π s).ret r = P π (s.ret r) := rfl
@[psimp] theorem P_setLeader (s : Node) (l : Nat) : (P π s).setLeader l = P π (s.setLeader l) := rfl


/-- pull `E` out of a conditional -/
@[psimp] theorem ite_P (c : Prop) {inst : Decidable c} (a b : Node) :
    @ite Node c inst (P π a) (P π b) = P π (@ite Node c inst a b) := by
  split <;> rfl

/-- normalise a goal `f (P π s) = P π (f s)` after unfolding `f`: rewrite fields / observations of erased states
(`pproj`, definitional, instances included), push `E` outward through the primitives (`psimp`), split what is
left and close by reflexivity -/
syntax "pnorm" ("[" Lean.Parser.Tactic.simpLemma,* "]")? : tactic
macro_rules
  | `(tactic| pnorm) => `(tactic| repeat (first | dsimp +instances only [pproj] | simp only [psimp]))
  | `(tactic| pnorm [$ls,*]) => `(tactic| repeat (first | dsimp +instances only [pproj] | simp only [psimp, $ls,*]))

syntax "pcomm" ("[" Lean.Parser.Tactic.simpLemma,* "]")? : tactic
macro_rules
  | `(tactic| pcomm) =>
    `(tactic| (pnorm <;> repeat' (first | rfl | contradiction | (exfalso; simp_all; done) | (split <;> (try simp only [*, ↓reduceIte]) <;> (try pnorm)))))
  | `(tactic| pcomm [$ls,*]) =>
    `(tactic| (pnorm [$ls,*] <;>
        repeat' (first | rfl | contradiction | (exfalso; simp_all; done) | (split <;> (try simp only [*, ↓reduceIte]) <;> (try pnorm [$ls,*])))))

theorem P_storeTermVote_aux (s : Node) (t c : Nat) :
    s.storeTermVote t c =
      { (if t = s.durTerm ∧ c = s.durVote then s else ({ s with durTerm := t, durVote := c } : Node).point "value.set")
        with term := t, votedFor := c } := rfl

@[psimp] theorem P_storeTermVote (s : Node) (t c : Nat) : (P π s).storeTermVote t c = P π (s.storeTermVote t c) := by
  rw [P_storeTermVote_aux, P_storeTermVote_aux]
  by_cases h : t = s.durTerm ∧ c = s.durVote
  · rw [if_pos h, if_pos (show t = (P π s).durTerm ∧ c = (P π s).durVote from h)]; rfl
  · rw [if_neg h, if_neg (show ¬ (t = (P π s).durTerm ∧ c = (P π s).durVote) from h)]
    show ({ (P π { s with durTerm := t, durVote := c }).point "value.set" with term := t, votedFor := c } : Node) = _
    rw [P_point]; rfl

@[psimp] theorem P_setTerm (s : Node) (t : Nat) : (P π s).setTerm t = P π (s.setTerm t) := by
  unfold Node.setTerm
  pcomm

@[psimp] theorem P_setVotedFor (s : Node) (t c : Nat) : (P π s).setVotedFor t c = P π (s.setVotedFor t c) := by
  unfold Node.setVotedFor
  pcomm

@[psimp] theorem P_appendEntry (s : Node) (e : Entry) : (P π s).appendEntry e = P π (s.appendEntry e) := by
  unfold Node.appendEntry
  pcomm

@[psimp] theorem P_commitLog (s : Node) (n : Nat) : (P π s).commitLog n = P π (s.commitLog n) := by
  unfold Node.commitLog
  show (P π { s with log := s.log.commitN n }).point _ = _
  rw [P_point]

@[psimp] theorem P_removeGTE (s : Node) (i pt : Nat) : (P π s).removeGTE i pt = P π (s.removeGTE i pt) := by
  unfold Node.removeGTE
  show (P π { s with log := s.log.removeGTE i, lastLogIndex := i - 1, lastLogTerm := pt }).point _ = _
  rw [P_point]

@[psimp] theorem P_doClose (s : Node) (r : String) : (P π s).doClose r = P π (s.doClose r) := by
  unfold Node.doClose
  pcomm

/-! ### configuration bookkeeping -/

@[psimp] theorem P_changeConfigR (s : Node) (c : Config) : (P π s).changeConfigR c = P π (s.changeConfigR c) := by
  unfold Node.changeConfigR
  pcomm

@[psimp] theorem P_commitConfig (s : Node) : (P π s).commitConfig = P π s.commitConfig := by
  unfold Node.commitConfig
  pcomm

@[psimp] theorem P_revertConfig (s : Node) : (P π s).revertConfig = P π s.revertConfig := rfl

@[psimp] theorem P_stepDownIfNotVoter (s : Node) : (P π s).stepDownIfNotVoter = P π s.stepDownIfNotVoter := by
  unfold Node.stepDownIfNotVoter
  pcomm

@[psimp] theorem P_closeIfRemoved (s : Node) : (P π s).closeIfRemoved = P π s.closeIfRemoved := by
  unfold Node.closeIfRemoved
  pcomm

@[psimp] theorem P_afterConfigCommit (s : Node) : (P π s).afterConfigCommit = P π s.afterConfigCommit := by
  unfold Node.afterConfigCommit
  pcomm

@[psimp] theorem P_setCommitIndexR_1 (s : Node) (i : Nat) : ((P π s).setCommitIndexR i).1 = P π (s.setCommitIndexR i).1 := by
  unfold Node.setCommitIndexR
  pcomm

@[psimp] theorem P_setCommitIndexR_2 (s : Node) (i : Nat) : ((P π s).setCommitIndexR i).2 = (s.setCommitIndexR i).2 := by
  unfold Node.setCommitIndexR
  dsimp +instances only [pproj]
  split <;> rfl


/-! ### the FSM goroutine -/

@[psimp] theorem P_fsmApplyLogTo (s : Node) (n : Nat) : (P π s).fsmApplyLogTo n = P π (s.fsmApplyLogTo n) := by
  unfold Node.fsmApplyLogTo
  pcomm

@[psimp] theorem P_fsmApplyItems (s : Node) (qs : List QItem) : (P π s).fsmApplyItems qs = P π (s.fsmApplyItems qs) := by
  induction qs generalizing s with
  | nil => rfl
  | cons q qs ih =>
    unfold Node.fsmApplyItems
    pcomm [ih]

@[psimp] theorem P_fsmApply (s : Node) (qs : List QItem) : (P π s).fsmApply qs = P π (s.fsmApply qs) := by
  unfold Node.fsmApply
  pcomm

@[psimp] theorem P_applyCommitted (s : Node) : (P π s).applyCommitted = P π s.applyCommitted := by
  unfold Node.applyCommitted
  pcomm

/-! ### leader -/

@[psimp] theorem P_setRepl (s : Node) (r : Repl) : (P π s).setRepl r = P π (s.setRepl r) := rfl

@[psimp] theorem P_addReplication (s : Node) (n : CNode) : (P π s).addReplication n = P π (s.addReplication n) := by
  unfold Node.addReplication
  pcomm

@[psimp] theorem P_notifyFlr (s : Node) : (P π s).notifyFlr = P π s.notifyFlr := by
  unfold Node.notifyFlr
  pcomm

@[psimp] theorem P_beginFinishedRounds (s : Node) : (P π s).beginFinishedRounds = P π s.beginFinishedRounds := rfl

@[psimp] theorem P_applyCommittedL (s : Node) : (P π s).applyCommittedL = P π s.applyCommittedL := by
  unfold Node.applyCommittedL
  pcomm

/-! ### the mutually recursive leader block -/

theorem foldl_P {β : Type} (f : Node → β → Node) (hf : ∀ s x, f (P π s) x = P π (f s x)) (xs : List β) (s : Node) :
    xs.foldl f (P π s) = P π (xs.foldl f s) := by
  induction xs generalizing s with
  | nil => rfl
  | cons x xs ih => simp only [List.foldl_cons, hf, ih]

theorem block_P : ∀ fuel : Nat,
    (∀ s b, storeEntry fuel (P π s) b = P π (storeEntry fuel s b)) ∧
    (∀ s b, storeItems fuel (P π s) b = P π (storeItems fuel s b)) ∧
    (∀ s c, changeConfigL fuel (P π s) c = P π (changeConfigL fuel s c)) ∧
    (∀ s t c, doChangeConfig fuel (P π s) t c = P π (doChangeConfig fuel s t c)) ∧
    (∀ s t c, checkConfigActions fuel (P π s) t c = P π (checkConfigActions fuel s t c)) ∧
    (∀ s t c id, checkConfigAction fuel (P π s) t c id = P π (checkConfigAction fuel s t c id)) ∧
    (∀ s i, setCommitIndexL fuel (P π s) i = P π (setCommitIndexL fuel s i)) ∧
    (∀ s, onMajorityCommit fuel (P π s) = P π (onMajorityCommit fuel s)) := by
  intro fuel
  induction fuel with
  | zero =>
    refine ⟨?_, ?_, ?_, ?_, ?_, ?_, ?_, ?_⟩
    · intro s b; unfold storeEntry; pcomm
    · intro s b; cases b with
      | nil => unfold storeItems; rfl
      | cons q qs => unfold storeItems; pcomm
    · intro s c; unfold changeConfigL; pcomm
    · intro s t c; unfold doChangeConfig; pcomm
    · intro s t c; unfold checkConfigActions; pcomm
    · intro s t c id; unfold checkConfigAction; pcomm
    · intro s i; unfold setCommitIndexL; pcomm
    · intro s; unfold onMajorityCommit; pcomm
  | succ n ih =>
    obtain ⟨ihSE, ihSI, ihCL, ihDC, ihCAs, ihCA, ihSC, ihMC⟩ := ih
    refine ⟨?_, ?_, ?_, ?_, ?_, ?_, ?_, ?_⟩
    · intro s b
      unfold storeEntry
      pcomm [ihSI, ihMC]
    · intro s b
      cases b with
      | nil => unfold storeItems; rfl
      | cons q qs =>
        unfold storeItems
        pcomm [ihSI, ihCL]
    · intro s c
      unfold changeConfigL
      pnorm
      rw [foldl_P _ (fun s n => by pcomm)]
      pnorm [ihCAs]
    · intro s t c; unfold doChangeConfig; pcomm [ihSE]
    · intro s t c
      unfold checkConfigActions
      pcomm [ihDC]
      all_goals (rw [foldl_P _ (fun s id => by pcomm [ihCA])])
    · intro s t c id
      unfold checkConfigAction
      pcomm [ihDC]
    · intro s i
      unfold setCommitIndexL
      pcomm [ihCAs]
      all_goals (rw [foldl_P _ (fun s t => by pnorm)]; rfl)
    · intro s
      unfold onMajorityCommit
      pcomm [ihSC]

@[psimp] theorem P_storeEntry (f : Nat) (s : Node) (b : List QItem) : storeEntry f (P π s) b = P π (storeEntry f s b) :=
  (block_P f).1 s b
@[psimp] theorem P_storeItems (f : Nat) (s : Node) (b : List QItem) : storeItems f (P π s) b = P π (storeItems f s b) :=
  (block_P f).2.1 s b
@[psimp] theorem P_changeConfigL (f : Nat) (s : Node) (c : Config) : changeConfigL f (P π s) c = P π (changeConfigL f s c) :=
  (block_P f).2.2.1 s c
@[psimp] theorem P_setCommitIndexL (f : Nat) (s : Node) (i : Nat) : setCommitIndexL f (P π s) i = P π (setCommitIndexL f s i) :=
  (block_P f).2.2.2.2.2.2.1 s i
@[psimp] theorem P_doChangeConfig (f : Nat) (s : Node) (t : Nat) (c : Config) :
    doChangeConfig f (P π s) t c = P π (doChangeConfig f s t c) := (block_P f).2.2.2.1 s t c
@[psimp] theorem P_checkConfigActions (f : Nat) (s : Node) (t : Nat) (c : Config) :
    checkConfigActions f (P π s) t c = P π (checkConfigActions f s t c) := (block_P f).2.2.2.2.1 s t c
@[psimp] theorem P_checkConfigAction (f : Nat) (s : Node) (t : Nat) (c : Config) (id : Nat) :
    checkConfigAction f (P π s) t c id = P π (checkConfigAction f s t c id) := (block_P f).2.2.2.2.2.1 s t c id
@[psimp] theorem P_onMajorityCommit (f : Nat) (s : Node) : onMajorityCommit f (P π s) = P π (onMajorityCommit f s) :=
  (block_P f).2.2.2.2.2.2.2 s

/-! ### the other leader handlers -/

@[psimp] theorem P_checkQuorum (s : Node) : (P π s).checkQuorum = P π s.checkQuorum := by
  unfold Node.checkQuorum
  pcomm

@[psimp] theorem P_transferReply (s : Node) (r : String) : (P π s).transferReply r = P π (s.transferReply r) := by
  unfold Node.transferReply
  pcomm

@[psimp] theorem P_tryTransfer (s : Node) : (P π s).tryTransfer = P π s.tryTransfer := by
  unfold Node.tryTransfer
  pcomm

@[psimp] theorem P_onTransfer (s : Node) (t g : Nat) : (P π s).onTransfer t g = P π (s.onTransfer t g) := by
  unfold Node.onTransfer
  pcomm

@[psimp] theorem P_replyTransfer (s : Node) (r : String) : (P π s).replyTransfer r = P π (s.replyTransfer r) := by
  unfold Node.replyTransfer
  pcomm

@[psimp] theorem P_onTimeoutNowResult (s : Node) (src : Nat) (e : Bool) (r : Nat) :
    (P π s).onTimeoutNowResult src e r = P π (s.onTimeoutNowResult src e r) := by
  unfold Node.onTimeoutNowResult
  pcomm

@[psimp] theorem P_leaderInit (s : Node) : (P π s).leaderInit = P π s.leaderInit := by
  unfold Node.leaderInit
  pnorm
  rw [foldl_P _ (fun s n => by pcomm)]
  pnorm

@[psimp] theorem foldl_reply_P {β : Type} (g : β → Nat) (r : String) (xs : List β) (s : Node) :
    xs.foldl (fun s x => s.reply (g x) r) (P π s) = P π (xs.foldl (fun s x => s.reply (g x) r) s) :=
  foldl_P _ (fun s x => P_reply s (g x) r) xs s

@[psimp] theorem P_leaderReleaseRest (s : Node) : (P π s).leaderReleaseRest = P π s.leaderReleaseRest := by
  unfold Node.leaderReleaseRest
  pcomm

@[psimp] theorem P_leaderRelease (s : Node) : (P π s).leaderRelease = P π s.leaderRelease := by
  unfold Node.leaderRelease
  pcomm


/-! ### candidate, follower, role transitions -/

@[psimp] theorem P_startElection (s : Node) : (P π s).startElection = P π s.startElection := by
  unfold Node.startElection
  pcomm

@[psimp] theorem P_onVoteResult (s : Node) (e : Bool) (t r : Nat) : (P π s).onVoteResult e t r = P π (s.onVoteResult e t r) := by
  unfold Node.onVoteResult
  pcomm

@[psimp] theorem P_followerTimeout (s : Node) : (P π s).followerTimeout = P π s.followerTimeout := by
  unfold Node.followerTimeout
  pcomm

@[psimp] theorem P_releaseRole (s : Node) (r : Role) : (P π s).releaseRole r = P π (s.releaseRole r) := by
  unfold Node.releaseRole
  pcomm

@[psimp] theorem P_initRole (s : Node) : (P π s).initRole = P π s.initRole := by
  unfold Node.initRole
  pcomm

@[psimp] theorem P_settle (f : Nat) (s : Node) (c : Role) : settle f (P π s) c = P π (settle f s c) := by
  induction f generalizing s c with
  | zero => rfl
  | succ n ih =>
    unfold settle
    pcomm [ih]

/-! ### RPC handlers and tasks that do not read the snapshot fields -/

@[psimp] theorem P_onVoteRequest (s : Node) (q : VoteReq) : (P π s).onVoteRequest q = P π (s.onVoteRequest q) := by
  unfold Node.onVoteRequest
  pcomm

@[psimp] theorem P_onTimeoutNow (s : Node) : (P π s).onTimeoutNow = P π s.onTimeoutNow := by
  unfold Node.onTimeoutNow
  pcomm

@[psimp] theorem P_rpcDone (s : Node) (a b : Bool) : (P π s).rpcDone a b = P π (s.rpcDone a b) := by
  unfold Node.rpcDone
  pcomm

@[psimp] theorem P_onTakeSnapshot (s : Node) (t th : Nat) : (P π s).onTakeSnapshot t th = P π (s.onTakeSnapshot t th) := by
  unfold Node.onTakeSnapshot
  pcomm

@[psimp] theorem P_compactLog (s : Node) (i : Nat) : (P π s).compactLog i = P π (s.compactLog i) := by
  unfold Node.compactLog
  show (P π { s with log := s.log.removeLTE i }).point _ = _
  rw [P_point]

@[psimp] theorem P_onSnapshotTaken (s : Node) : (P π s).onSnapshotTaken = P π s.onSnapshotTaken := by
  unfold Node.onSnapshotTaken
  pcomm

@[psimp] theorem P_onChangeConfig (s : Node) (t : Nat) (c : Config) : (P π s).onChangeConfig t c = P π (s.onChangeConfig t c) := by
  unfold Node.onChangeConfig
  pcomm

@[psimp] theorem P_bootstrap (s : Node) (t : Nat) (c : Config) : (P π s).bootstrap t c = P π (s.bootstrap t c) := by
  unfold Node.bootstrap
  pcomm

/-- `E` on the state component of the result of `replUpdLoop` -/
def Pp (π : String) (p : Node × UpdFlags) : Node × UpdFlags := (P π p.1, p.2)

theorem P_replUpdLoop (us : List ReplUpdate) : ∀ (s : Node) (f : UpdFlags),
    replUpdLoop (P π s) f us = Pp π (replUpdLoop s f us) := by
  induction us with
  | nil => intro s f; rfl
  | cons u us ih =>
    intro s f
    unfold replUpdLoop
    pcomm [ih]

@[psimp] theorem P_checkLogCompact (s : Node) : (P π s).checkLogCompact = P π s.checkLogCompact := by
  unfold Node.checkLogCompact
  pcomm

@[psimp] theorem P_checkReplUpdates (s : Node) (us : List ReplUpdate) :
    (P π s).checkReplUpdates us = P π (s.checkReplUpdates us) := by
  unfold Node.checkReplUpdates
  rw [P_replUpdLoop]
  unfold Pp
  pcomm

@[psimp] theorem P_rejectEntries (s : Node) (b : List QItem) : (P π s).rejectEntries b = P π (s.rejectEntries b) := by
  induction b generalizing s with
  | nil => rfl
  | cons q qs ih =>
    unfold Node.rejectEntries
    pcomm [ih]

@[psimp] theorem P_onWaitForStable (s : Node) (t : Nat) : (P π s).onWaitForStable t = P π (s.onWaitForStable t) := by
  unfold Node.onWaitForStable
  pcomm


/-! ### append requests -/

@[psimp] theorem P_resolveConflict (s : Node) (ne : Entry) (pt : Nat) :
    (P π s).resolveConflict ne pt = P π (s.resolveConflict ne pt) := by
  unfold Node.resolveConflict
  pcomm

/-- `P` on the state of the entry-consuming loop -/
def Pl (π : String) (st : AppLoop) : AppLoop := { st with s := P π st.s }

theorem P_appendLoop (es : List Entry) : ∀ (st : AppLoop), appendLoop (Pl π st) es = Pl π (appendLoop st es) := by
  induction es with
  | nil => intro st; rfl
  | cons ne rest ih =>
    intro st
    unfold appendLoop
    by_cases herr : st.err = true
    · rw [if_pos herr, if_pos (show (Pl π st).err = true from herr)]
    · rw [if_neg herr, if_neg (show ¬ (Pl π st).err = true from herr)]
      dsimp only
      show (if ne.index ≤ st.s.snapIndex then _ else _) = _
      split
      · exact ih { st with index := ne.index, term := ne.term }
      · show (if (decide (ne.index ≤ st.s.lastLogIndex) && st.s.entryTerm? ne.index == some ne.term) = true then _ else _) = _
        split
        · exact ih { st with index := ne.index, term := ne.term }
        · have e1 : ((Pl π st).s.resolveConflict ne (Pl π st).term).appendEntry ne =
              P π ((st.s.resolveConflict ne st.term).appendEntry ne) := by
            show ((P π st.s).resolveConflict ne st.term).appendEntry ne = _
            rw [P_resolveConflict, P_appendEntry]
          show (if ne.typ = etConfig then _ else _) = _
          rw [e1]
          split
          · split
            · rename_i c hc
              rw [P_changeConfigR]
              exact ih { st with index := ne.index, term := ne.term,
                                 s := ((st.s.resolveConflict ne st.term).appendEntry ne).changeConfigR c, syncLog := true }
            · rfl
          · exact ih { st with index := ne.index, term := ne.term,
                               s := (st.s.resolveConflict ne st.term).appendEntry ne, syncLog := true }

@[psimp] theorem P_appendCheck (s : Node) (q : AppendReq) : (P π s).appendCheck q = P π (s.appendCheck q) := by
  unfold Node.appendCheck
  pcomm

@[psimp] theorem P_onAppendEntries (s : Node) (q : AppendReq) : (P π s).onAppendEntries q = P π (s.onAppendEntries q) := by
  unfold Node.onAppendEntries
  by_cases hst : q.term < s.term
  · rw [if_pos hst, if_pos (show q.term < (P π s).term from hst)]; rfl
  · rw [if_neg hst, if_neg (show ¬ q.term < (P π s).term from hst)]
    dsimp only
    have h1 : ((if q.term > (P π s).term then ((P π s).setTerm q.term).setRole .follower else P π s).setRole .follower).setLeader q.src =
        P π (((if q.term > s.term then (s.setTerm q.term).setRole .follower else s).setRole .follower).setLeader q.src) := by
      pcomm
    rw [h1, P_appendCheck]
    generalize (((if q.term > s.term then (s.setTerm q.term).setRole .follower else s).setRole .follower).setLeader q.src).appendCheck q = s3
    by_cases hr : s3.result ≠ 0
    · rw [if_pos hr, if_pos (show (P π s3).result ≠ 0 from hr)]
    · rw [if_neg hr, if_neg (show ¬ (P π s3).result ≠ 0 from hr)]
      have hl := P_appendLoop (π := π) q.entries { s := s3, index := q.prevLogIndex, term := q.prevLogTerm }
      have hl' : appendLoop { s := P π s3, index := q.prevLogIndex, term := q.prevLogTerm } q.entries =
          Pl π (appendLoop { s := s3, index := q.prevLogIndex, term := q.prevLogTerm } q.entries) := hl
      rw [hl']
      generalize appendLoop { s := s3, index := q.prevLogIndex, term := q.prevLogTerm } q.entries = st
      show (let s := P π st.s
            let s := if (!q.entries.isEmpty) = true ∧ st.syncLog = true then
                let s := s.commitLog s.lastLogIndex
                if s.canCommit q st.index st.term = true then (s.setCommitIndexR st.index).1.applyCommitted else s
              else s
            s.ret (if st.err = true then rUnexpectedErr else rSuccess)) = _
      pcomm

/-! ### the handler of every operation that can occur in the system with snapshots and compaction -/

/-- operations other than installing a snapshot and `shutdown` -/
def Handled : Op → Prop
  | .install _ => False
  | .shutdown => False
  | _ => True

@[psimp] theorem P_publishSnapshot (s : Node) (f : SnapFile) : (P π s).publishSnapshot f = P π (s.publishSnapshot f) := rfl

@[psimp] theorem P_snapRun (s : Node) : (P π s).snapRun = P π s.snapRun := by
  unfold Node.snapRun
  pcomm

theorem handle_P (s : Node) (op : Op) (h : Handled op) : (P π s).handle op = P π (s.handle op) := by
  cases op <;> unfold Node.handle <;> first | exact h.elim | skip
  case vote q => pcomm
  case append q => pcomm
  case timeoutNow => pcomm
  case identity a b c => pcomm
  case disconnected n => pcomm
  case timeout => pcomm
  case newEntries b => pcomm
  case changeConfig t c => pcomm
  case takeSnapshot t th => pcomm
  case snapRun => pcomm
  case snapTaken => pcomm
  case waitStable t => pcomm
  case transfer t g => pcomm
  case voteResult e t r => pcomm
  case replUpdates us => pcomm
  case transferTimeout => pcomm
  case timeoutNowResult a b c => pcomm
  case newTermTimeout => pcomm

/-- **a recorded failure persists**: a handler's result without a recorded failure comes from an argument without
one. `k` is any function that commutes with `P`. -/
theorem npk {k : Node → Node} (hk : ∀ π s, k (P π s) = P π (k s)) {x : Node} (h : (k x).panicked = none) :
    x.panicked = none := by
  cases hx : x.panicked with
  | none => rfl
  | some site =>
    have e : x = P site x := by
      cases x
      simp only [P] at hx ⊢
      simp only [hx]
    rw [e, hk] at h
    cases h

end SnapRelP
end Raft
