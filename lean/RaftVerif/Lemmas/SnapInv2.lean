/-
The invariant of the cluster system with snapshots and log compaction (Sys/Snap2.lean).

The cluster of the VIRTUAL nodes (`Snap2.view`: every log with its compacted-away prefix put back) is a state of the
system of stage 1 (Sys/Snap.lean), and
* a completed step of an operation other than `.snapTaken` is the same step of the virtual node (Lemmas/SnapRelU*.lean)
  — a step of stage 1;
* `.snapTaken` — with or without compaction — is, for the virtual node, a step that changes nothing the invariants
  read except that the log is flushed further (`SnapInv.sinv_quiet`);
* a crash is a crash of the virtual node (for `.snapTaken`: after the log was flushed and its segments regrouped).
So the invariant `SnapInv.SInv` of stage 1 holds for the view in every reachable state. On the real nodes the
invariant adds `PrevOK`: the log starts at or below the snapshot index.
-/
import RaftVerif.Sys.Snap2
import RaftVerif.Lemmas.SnapInv
import RaftVerif.Lemmas.SnapFrame
namespace Raft
namespace SnapInv2
open Node Election LogRel Replication CommitRel Commit C02Sys C03Sys SnapRel SnapRelU SnapSim Snap Snap2 SnapInv SnapFrame

/-! ### the compacted-away prefix -/

theorem pad_pad (β : List Entry) (p : Nat) : pad (pad β p) p = pad β p := by
  have := pad_eq (pad β p)
  rw [pad_length] at this
  exact this

theorem uncLog_pad (β : List Entry) (l : NLog) : uncLog (pad β l.prev) l = uncLog β l := by
  unfold uncLog
  rw [pad_pad]

theorem uncD_pad (β : List Entry) (d : Durable) : uncD (pad β d.log.prev) d = uncD β d := by
  unfold uncD
  rw [pad_pad]

/-- only the first `log.prev` entries of the prefix matter -/
theorem U_pad (β : List Entry) (s : Node) (p : Nat) (h1 : s.log.prev = p) (h2 : ∀ pt ∈ s.trace, pt.2.log.prev = p) :
    U (pad β p) s = U β s := by
  unfold U
  have e1 : uncLog (pad β p) s.log = uncLog β s.log := by rw [← h1]; exact uncLog_pad β s.log
  have e2 : s.trace.map (uncP (pad β p)) = s.trace.map (uncP β) := by
    apply List.map_congr_left
    intro pt hpt
    unfold uncP
    rw [← h2 pt hpt, uncD_pad]
  rw [e1, e2]

theorem take_vlog (β : List Entry) (l : NLog) : (uncLog β l).entries.take l.prev = pad β l.prev := by
  show (pad β l.prev ++ l.entries).take l.prev = _
  rw [List.take_append_of_le_length (by rw [pad_length]; exact Nat.le_refl _), List.take_of_length_le (by rw [pad_length]; exact Nat.le_refl _)]

/-! ### the view -/

theorem withNodes_withNodes (z : Commit.Sys) (N M : Nat → Node) : withNodes (withNodes z N) M = withNodes z M := rfl

theorem view_stepS_node (x : Snap2.Sys) (i : Nat) (op : Op) (ra : List Nat) (ord : List (List Nat)) (src : Nat) (j : Nat) :
    (stepS x i op ra ord src).vnode j =
      if j = i then U (newBase x i ((x.node i).step op ra ord).log.prev) ((x.node i).step op ra ord) else x.vnode j := by
  unfold Sys.vnode stepS setBase
  show U (if j = i then _ else x.base j) (setNode x.cs.rp.el.node i _ j) = _
  unfold setNode
  split <;> rfl

theorem sideS_view {V : List Nat} {x : Snap2.Sys} (h : Side2 V x) : SideS V (view x) :=
  ⟨h.sideV, fun _ => rfl, h.dec⟩

theorem sys_ext {a b : Snap.Sys} (h1 : a.cs = b.cs) (h2 : a.snaps = b.snaps) : a = b := by
  cases a; cases b
  simp only at h1 h2
  rw [h1, h2]

theorem withNodes_stepL (z : Commit.Sys) (i : Nat) (op : Op) (src : Nat) (P : Node) (M : Nat → Node)
    (h : ∀ j, M j = if j = i then P else z.node j) : withNodes (stepL z i op src P) M = stepL z i op src P := by
  have : M = setNode z.rp.el.node i P := funext (fun j => by rw [h j]; rfl)
  rw [this]; rfl

/-- **a completed step that does not compact**: the view makes the same step -/
theorem view_step_nc (x : Snap2.Sys) (i : Nat) (op : Op) (ra : List Nat) (ord : List (List Nat)) (src : Nat)
    (hU : (x.vnode i).step op ra ord = U (x.base i) ((x.node i).step op ra ord))
    (h1 : ((x.node i).step op ra ord).log.prev = (x.node i).log.prev)
    (h2 : ∀ pt ∈ ((x.node i).step op ra ord).trace, pt.2.log.prev = (x.node i).log.prev) :
    view (stepS x i op ra ord src) =
      { cs := stepC (view x).cs i op ra ord src
        snaps := newSnaps i (x.vnode i).snapsDisk ((x.vnode i).step op ra ord).snapsDisk ++ (view x).snaps } := by
  have hb : newBase x i ((x.node i).step op ra ord).log.prev = pad (x.base i) (x.node i).log.prev := by
    unfold newBase Sys.vlog Sys.vnode
    rw [h1]
    exact take_vlog (x.base i) (x.node i).log
  have hP : U (newBase x i ((x.node i).step op ra ord).log.prev) ((x.node i).step op ra ord) =
      (x.vnode i).step op ra ord := by
    rw [hb, U_pad _ _ _ h1 h2, hU]
  have hcs : (view (stepS x i op ra ord src)).cs = stepC (view x).cs i op ra ord src := by
    rw [stepC_eq]
    show withNodes (withNodes (stepL (view x).cs i op src _) _) (stepS x i op ra ord src).vnode = _
    rw [withNodes_withNodes, hP]
    exact withNodes_stepL _ _ _ _ _ _ (fun j => by rw [view_stepS_node, hP]; rfl)
  have hsn : (view (stepS x i op ra ord src)).snaps =
      newSnaps i (x.vnode i).snapsDisk ((x.vnode i).step op ra ord).snapsDisk ++ (view x).snaps := by
    rw [hU]; rfl
  exact sys_ext hcs hsn

/-! ### what the invariant of stage 2 adds on the real nodes -/

/-- the log starts at or below the snapshot index, and so does what a pending result of the snapshot goroutine will
let `onSnapshotTaken` compact -/
structure PrevOK (s : Node) : Prop where
  le : s.log.prev ≤ s.snapIndex
  res : ∀ rs, s.snapResult = some rs → rs.index ≤ s.snapIndex

theorem enabled_view {x : Snap2.Sys} {i : Nat} {op : Op} {src : Nat} (h : Snap.Enabled x.cs i op src) :
    Snap.Enabled (view x).cs i op src :=
  ⟨h.id, h.voteSrc, h.real, h.ok2, h.append, h.vote, h.appendSrc, h.upd⟩

theorem getLast_ge_head : ∀ (l : List Nat) (p : Nat), l.Pairwise (· < ·) → l.head? = some p → p ≤ l.getLast?.getD p
  | [], _, _, h => by cases h
  | [a], p, _, h => by simp at h; simp [h]
  | a :: b :: t, p, hs, h => by
    have ha : a = p := by simpa using h
    have hab : a < b := (List.pairwise_cons.mp hs).1 b (List.mem_cons_self ..)
    have := getLast_ge_head (b :: t) b (List.pairwise_cons.mp hs).2 rfl
    rw [List.getLast?_cons_cons]
    cases hl : (b :: t).getLast? with
    | none => simp at hl
    | some z => rw [hl] at this; simp at this ⊢; omega

theorem prev_le_flushed {l : NLog} (β : List Entry) (hs : C09.SegsOK l) (hw : C06.LogWF (uncLog β l)) : l.prev ≤ l.flushed := by
  have h1 : l.prev ≤ l.lastSegPrev := getLast_ge_head l.segs l.prev hs.sorted hs.head
  have h2 : l.lastSegPrev ≤ l.flushed := by
    have := hw.1
    rw [uncLog_lastSegPrev] at this
    exact this
  omega

theorem aok_of {s : Node} (hp : PrevOK s) (hs : C09.SegsOK s.log) (hg : s.log.prev = 0 ∨ s.log.prev ≠ s.snapIndex) :
    AOK s := by
  rcases hg with h | h
  · exact Or.inl h
  · refine Or.inr ⟨by have := hp.le; omega, ?_⟩
    have := hs.head
    cases hseg : s.log.segs with
    | nil => rw [hseg] at this; cases this
    | cons a t =>
      rw [hseg] at this
      have ha : a = s.log.prev := by simpa using this
      rw [ha]; exact List.mem_cons_self ..

theorem snapRun_res (s : Node) (h : ∀ rs, s.snapResult = some rs → rs.index ≤ s.snapIndex) :
    ∀ rs, s.snapRun.snapResult = some rs → rs.index ≤ s.snapRun.snapIndex := by
  unfold Node.snapRun
  split
  · exact h
  · dsimp only
    split
    · intro rs hrs
      have := Option.some.inj hrs
      rw [← this]; exact Nat.zero_le _
    · split
      · intro rs hrs
        have := Option.some.inj hrs
        rw [← this]; exact Nat.zero_le _
      · intro rs hrs
        have := Option.some.inj hrs
        rw [← this]
        exact Nat.le_refl _

theorem snapRun_frame (s : Node) : s.snapRun.log = s.log ∧ (∀ pt ∈ s.snapRun.trace, pt ∈ s.trace ∨ pt.2.log = s.durable.log) := by
  rcases snapRun_tobs s with h | ⟨rq, _, _, _, h⟩
  · unfold tobs at h
    simp only [Prod.mk.injEq] at h
    exact ⟨h.2.1, fun pt hpt => Or.inl (by rw [h.1] at hpt; exact hpt)⟩
  · unfold tobs at h
    simp only [Prod.mk.injEq] at h
    refine ⟨h.2.1, fun pt hpt => ?_⟩
    rw [h.1] at hpt
    rcases List.mem_append.mp hpt with a | a
    · exact Or.inl a
    · right
      simp only [List.mem_cons, List.mem_nil_iff, or_false] at a
      rcases a with rfl | rfl <;> rfl

theorem vnode_lwf {V : List Nat} {x : Snap2.Sys} (hI : SInv V (view x)) (i : Nat) :
    C06.LogWF (uncLog (x.base i) (x.node i).log) := hI.cinv.node.lwf i

/-- **a completed step of an operation other than `.snapTaken`** -/
theorem step_nc {V : List Nat} (hV : V.Nodup) {x : Snap2.Sys} (hI : SInv V (view x)) (hP : ∀ i, PrevOK (x.node i))
    (hS : Side2 V x) {i : Nat} {op : Op} {ra : List Nat} {ord : List (List Nat)} {src : Nat}
    (en : Snap.Enabled x.cs i op src) (hp : ((x.node i).step op ra ord).panicked = none) (hne : op ≠ .snapTaken)
    (hS' : Side2 V (stepS x i op ra ord src)) :
    SInv V (view (stepS x i op ra ord src)) ∧ PrevOK ((x.node i).step op ra ord) := by
  have ha : AOK (x.node i) := aok_of (hP i) (hS.segs i) (hS.gap i)
  have hfl : (x.node i).log.prev ≤ (x.node i).log.flushed := prev_le_flushed (x.base i) (hS.segs i) (vnode_lwf hI i)
  -- the virtual node makes the same step
  have hU : (x.vnode i).step op ra ord = U (x.base i) ((x.node i).step op ra ord) := by
    by_cases happ : ∃ q, op = .append q
    · obtain ⟨q, rfl⟩ := happ
      exact append_step_U _ q ra ord ha hp
    · refine step_U _ op ra ord ?_ hp
      have h1 := en.ok2.1
      have h2 := en.ok2.2.2
      cases op <;> first | trivial | exact h1.elim | exact absurd rfl hne | exact absurd ⟨_, rfl⟩ happ | exact absurd rfl (h2 _ _) | exact h1
  -- frame
  have hfr : ((x.node i).step op ra ord).log.prev = (x.node i).log.prev ∧
      (∀ pt ∈ ((x.node i).step op ra ord).trace, pt.2.log.prev = (x.node i).log.prev) ∧
      (∀ rs, ((x.node i).step op ra ord).snapResult = some rs → rs.index ≤ ((x.node i).step op ra ord).snapIndex) ∧
      (x.node i).snapIndex ≤ ((x.node i).step op ra ord).snapIndex := by
    by_cases hr : op = .snapRun
    · subst hr
      rw [snapRun_step_eq]
      obtain ⟨f1, f2⟩ := snapRun_frame ((x.node i).begin ra ord)
      refine ⟨by rw [f1]; rfl, fun pt hpt => ?_, snapRun_res _ (hP i).res, ?_⟩
      · rcases f2 pt hpt with a | a
        · cases a
        · rw [a]; rfl
      · -- the snapshot index does not decrease (stage 1, on the virtual node)
        have fbi : FB (E σ0 (x.vnode i)) := hI.fsm i
        have hf : FsmOK 0 (x.vnode i) := ⟨fbi.fsm.le, fbi.fsm.len, fbi.fsm.applied, fbi.fsm.mono⟩
        have ss := snapStep (x.vnode i) .snapRun ra ord (hI.snap i) hf (Or.inl rfl)
        have := ss.mono
        rw [hU, snapRun_step_eq] at this
        exact this
    · have hnc : StepClosedNC.NCOp op := by
        have h1 := en.ok2.1
        cases op <;> first | trivial | exact h1.elim | exact absurd rfl hne | exact absurd rfl hr | exact h1
      have fr := step_frame (x.node i) op ra ord hnc (hP i).le hfl
      refine ⟨fr.1, fun pt hpt => (fr.2.2.2.2 pt hpt).1, fun rs hrs => ?_, by rw [fr.2.2.1]; exact Nat.le_refl _⟩
      rw [fr.2.2.1]
      exact (hP i).res rs (by rw [← fr.2.2.2.1]; exact hrs)
  obtain ⟨f1, f2, f3, f4⟩ := hfr
  have hview := view_step_nc x i op ra ord src hU f1 f2
  refine ⟨?_, ⟨by rw [f1]; exact Nat.le_trans (hP i).le f4, f3⟩⟩
  have ht : Snap.Trans (view x) (view (stepS x i op ra ord src)) := by
    rw [hview]
    refine Snap.Trans.step i op ra ord src (enabled_view en) ?_ (fun h => absurd h hne)
    show ((x.vnode i).step op ra ord).panicked = none
    rw [hU]; exact hp
  exact inv_trans hV hI (sideS_view hS) ht (sideS_view hS')

/-! ### `onSnapshotTaken`, with or without compaction -/

/-- compaction does not change the virtual log: what it removes goes to the compacted-away prefix -/
theorem vlog_keep (β : List Entry) (L L' : NLog) (hp : L.prev ≤ L'.prev) (hl : L'.prev ≤ L.last)
    (he : L'.entries = L.entries.drop (L'.prev - L.prev)) :
    (uncLog ((uncLog β L).entries.take L'.prev) L').entries = (uncLog β L).entries := by
  show pad ((pad β L.prev ++ L.entries).take L'.prev) L'.prev ++ L'.entries = pad β L.prev ++ L.entries
  have hlen : ((pad β L.prev ++ L.entries).take L'.prev).length = L'.prev := by
    rw [List.length_take, List.length_append, pad_length]
    unfold NLog.last at hl
    omega
  have e1 : pad ((pad β L.prev ++ L.entries).take L'.prev) L'.prev = (pad β L.prev ++ L.entries).take L'.prev := by
    have := pad_eq ((pad β L.prev ++ L.entries).take L'.prev)
    rw [hlen] at this
    exact this
  have e2 : L'.entries = (pad β L.prev ++ L.entries).drop L'.prev := by
    rw [he, drop_pad _ _ _ (by rw [pad_length]; exact hp), pad_length]
  rw [e1, e2, List.take_append_drop]

/-- what `onSnapshotTaken` does to the log -/
theorem compact_cases (s : Node) (hok : C09.SegsOK s.log) :
    s.log.prev ≤ s.onSnapshotTaken.log.prev ∧ s.onSnapshotTaken.log.prev ≤ s.log.last ∧
    s.onSnapshotTaken.log.entries = s.log.entries.drop (s.onSnapshotTaken.log.prev - s.log.prev) ∧
    (s.onSnapshotTaken.log = s.log ∨ s.onSnapshotTaken.log.flushed = s.log.last) ∧
    s.onSnapshotTaken.log.last = s.log.last ∧ C09.SegsOK s.onSnapshotTaken.log ∧
    (∀ rs, s.snapResult = some rs → s.onSnapshotTaken.log.prev ≤ max s.log.prev rs.index) ∧
    s.onSnapshotTaken.snapResult = none := by
  have hres : s.onSnapshotTaken.snapResult = none := by
    unfold Node.onSnapshotTaken
    split
    · assumption
    · dsimp only
      have hr : ∀ (x : Node) (t : Nat) (r : String), (x.reply t r).snapResult = x.snapResult := fun x t r => by
        unfold Node.reply; split <;> rfl
      have hn : ∀ (x : Node), x.notifyFlr.snapResult = x.snapResult := fun x => by
        unfold Node.notifyFlr Node.panic; repeat' split
        all_goals rfl
      split
      · rw [hr]; rfl
      · rw [hr]
        repeat' split
        all_goals first | rfl | (rw [hn]; rfl)
  have hself : s.log.prev ≤ s.log.last := by unfold NLog.last; omega
  cases hr : s.snapResult with
  | none =>
    have e : s.onSnapshotTaken = s := by
      unfold Node.onSnapshotTaken
      rw [hr]
    rw [e]
    exact ⟨Nat.le_refl _, hself, by rw [Nat.sub_self]; rfl, Or.inl rfl, rfl, hok, fun rs h => (by cases h), hr⟩
  | some rs =>
    rcases C09.compaction_never_beyond_snapshot s rs hr hok with e | ⟨n, _, hn1, hn2, e⟩
    · rw [e]
      exact ⟨Nat.le_refl _, hself, by rw [Nat.sub_self]; rfl, Or.inl rfl, rfl, hok,
        fun rs' _ => Nat.le_max_left _ _, hres⟩
    · have h := C09.removeLTE_whole_segments s.log n hok
      refine ⟨?_, ?_, ?_, ?_, ?_, ?_, fun rs' h' => ?_, hres⟩
      · rw [e]; exact h.2.2.1
      · rw [e]; exact hok.le_last _ h.2.1
      · rw [e]; exact C09.removeLTE_entries s.log n
      · rw [e]; exact Or.inr rfl
      · rw [e]; exact h.2.2.2.2.1
      · rw [e]; exact h.2.2.2.2.2.2
      · rw [e]
        have h4 := h.2.2.2.1
        cases h'
        rcases h4 with h4 | h4 <;> omega

theorem lobs_U (β : List Entry) (s : Node) :
    SnapSim.lobs (U β s) = (s.commitIndex, s.fsm, s.configs, s.ldr.numVoters, s.ldr.startIndex, s.ldr.repls.map zrr, s.ldr.queue) :=
  rfl

theorem lobs_U_congr {β β' : List Entry} {s s' : Node} (h : SnapSim.lobs s' = SnapSim.lobs s) :
    SnapSim.lobs (U β' s') = SnapSim.lobs (U β s) := by
  rw [lobs_U, lobs_U]
  unfold SnapSim.lobs at h
  simp only [Prod.mk.injEq] at h
  obtain ⟨h1, h2, h3, h4, h5, h6, h7⟩ := h
  rw [h1, h2, h3, h4, h5, h6, h7]

theorem lastSegPrev_le_last {l : NLog} (h : C09.SegsOK l) : l.lastSegPrev ≤ l.last := by
  unfold NLog.lastSegPrev
  cases hl : l.segs.getLast? with
  | none =>
    have := List.getLast?_eq_none_iff.mp hl
    have hh := h.head
    rw [this] at hh; cases hh
  | some z => exact h.le_last z (List.mem_of_getLast? hl)

/-- **`onSnapshotTaken` on the virtual node**: with the removed entries added to the compacted-away prefix, nothing the
invariants read changes, except that the log may be flushed completely -/
theorem snapTaken_snapStep (β : List Entry) (pre : Node) (ra : List Nat) (ord : List (List Nat))
    (hok : C09.SegsOK pre.log) (hso : SnapOK (U β pre)) (hwf : C06.LogWF (uncLog β pre.log)) :
    SnapStep (U β pre)
      (U ((uncLog β pre.log).entries.take (pre.begin ra ord).onSnapshotTaken.log.prev)
        (pre.begin ra ord).onSnapshotTaken) := by
  have hq := onSnapshotTaken_qobs (pre.begin ra ord)
  have hret := step_retain pre .snapTaken ra ord
  rw [snapTaken_step_eq] at hret
  obtain ⟨c1, c2, c3, c4, c5, c6, _, _⟩ := compact_cases (pre.begin ra ord) hok
  generalize (pre.begin ra ord).onSnapshotTaken = post at *
  have c1' : pre.log.prev ≤ post.log.prev := c1
  have c2' : post.log.prev ≤ pre.log.last := c2
  have c3' : post.log.entries = pre.log.entries.drop (post.log.prev - pre.log.prev) := c3
  have hent := vlog_keep β pre.log post.log c1' c2' c3'
  generalize (uncLog β pre.log).entries.take post.log.prev = β' at *
  have c4' : post.log = pre.log ∨ post.log.flushed = pre.log.last := c4
  have c5' : post.log.last = pre.log.last := c5
  unfold qobs at hq
  simp only [Prod.mk.injEq] at hq
  obtain ⟨⟨q1, q2, q3, q4, q5, q6, q7, q8, q9⟩, ql, ⟨s1, s2, s3⟩, _⟩ := hq
  have ql' : SnapSim.lobs (U β' post) = SnapSim.lobs (U β pre) := lobs_U_congr ql
  have hl2 := lfieldEq_of_lobs ql
  refine ⟨⟨q1, q2, q3, q4, q5, hent, rfl, ?_, fun _ => ?_, q6, q7, q8, q9, rfl, rfl⟩, ql', ?_, ?_, ?_⟩
  · show pre.log.flushed ≤ post.log.flushed
    rcases c4' with h | h
    · rw [h]; exact Nat.le_refl _
    · rw [h]; have := hwf.2; rw [uncLog_last] at this; exact this
  · show C06.LogWF (uncLog β' post.log)
    refine ⟨?_, ?_⟩
    · rw [uncLog_lastSegPrev]
      show post.log.lastSegPrev ≤ post.log.flushed
      rcases c4' with h | h
      · rw [h]; have := hwf.1; rw [uncLog_lastSegPrev] at this; exact this
      · rw [h, ← c5']; exact lastSegPrev_le_last c6
    · rw [uncLog_last]
      show post.log.flushed ≤ post.log.last
      rcases c4' with h | h
      · rw [h]; have := hwf.2; rw [uncLog_last] at this; exact this
      · rw [h, c5']; exact Nat.le_refl _
  · refine ⟨by show 1 ≤ post.retain; rw [hret]; exact hso.retain, ?_, ?_, ?_⟩
    · show FilesOK (uncLog β' post.log).entries post.commitIndex post.snapsDisk
      rw [hent, hl2.commitIndex, s3]
      exact hso.files
    · show post.snapIndex = (headOf post.snapsDisk).index
      rw [s1, s3]; exact hso.head
    · show post.snapIndex ≤ post.fsm.index
      rw [s1, hl2.fsm]; exact hso.le
  · show pre.snapIndex ≤ post.snapIndex
    rw [s1]; exact Nat.le_refl _
  · intro g hg
    left
    have : g ∈ post.snapsDisk := hg
    rw [s3] at this
    exact this

theorem stepL_quiet (z : Commit.Sys) (i : Nat) (op : Op) (src : Nat) (P : Node)
    (hop : QuietOp op) (ht : P.term = (z.node i).term) (hl : P.log.entries = (z.node i).log.entries)
    (hc : P.commitIndex = (z.node i).commitIndex) : stepL z i op src P = quietC z i P := by
  have e1 : voteGrant i op P = [] := by cases op <;> first | rfl | exact hop.elim
  have e2 : selfGrant i (z.node i) P = [] := by
    unfold selfGrant; rw [if_neg (by rw [ht]; omega)]
  have e3 : countedBy i (z.node i) op src = [] := by cases op <;> first | rfl | exact hop.elim
  have e4 : newCreated i (z.node i).log.entries P.log.entries op = [] := by
    rw [hl]
    cases op <;> first | exact hop.elim | (show chainOf i _ (List.drop _ _) = []; rw [List.drop_length]; rfl)
  have e5 : ackOf i op P = [] := by cases op <;> first | rfl | exact hop.elim
  have hlc : ¬ LeaderCommit op (z.node i) P := by
    intro h; have := h.2; rw [hc] at this; omega
  have e6 : selfAck i op (z.node i) P = [] := by unfold selfAck; rw [if_neg hlc]
  have e7 : campOf i (z.node i) P = [] := by
    unfold campOf; rw [if_neg (by rw [ht]; omega)]
  have e8 : newCommit op (z.node i) P = [] := by unfold newCommit; rw [if_neg hlc]
  unfold stepL quietC
  simp only [Commit.Sys.node] at *
  rw [e1, e2, e3, e4, e5, e6, e7, e8]
  rfl

/-- **a completed `.snapTaken`** — the result of the snapshot goroutine is handed over; the log may be compacted -/
theorem step_snapTaken {V : List Nat} (hV : V.Nodup) {x : Snap2.Sys} (hI : SInv V (view x)) (hP : ∀ i, PrevOK (x.node i))
    (hS : Side2 V x) {i : Nat} {ra : List Nat} {ord : List (List Nat)} {src : Nat} (hi : i ≠ 0) :
    SInv V (view (stepS x i .snapTaken ra ord src)) ∧ PrevOK ((x.node i).step .snapTaken ra ord) := by
  have hpost : (x.node i).step .snapTaken ra ord = ((x.node i).begin ra ord).onSnapshotTaken := snapTaken_step_eq _ ra ord
  have ss := snapTaken_snapStep (x.base i) (x.node i) ra ord (hS.segs i) (hI.snap i) (vnode_lwf hI i)
  have hb : newBase x i ((x.node i).step .snapTaken ra ord).log.prev =
      (uncLog (x.base i) (x.node i).log).entries.take ((x.node i).begin ra ord).onSnapshotTaken.log.prev := by
    rw [hpost]; rfl
  constructor
  · have hP' : U (newBase x i ((x.node i).step .snapTaken ra ord).log.prev) ((x.node i).step .snapTaken ra ord) =
        U ((uncLog (x.base i) (x.node i).log).entries.take ((x.node i).begin ra ord).onSnapshotTaken.log.prev)
          ((x.node i).begin ra ord).onSnapshotTaken := by rw [hb, hpost]
    generalize U ((uncLog (x.base i) (x.node i).log).entries.take ((x.node i).begin ra ord).onSnapshotTaken.log.prev)
          ((x.node i).begin ra ord).onSnapshotTaken = P at ss hP'
    have pe := ss.feq
    have le := lfieldEq_of_lobs ss.lobs
    have hq := stepL_quiet (view x).cs i .snapTaken src P trivial pe.term pe.entries le.commitIndex
    have hcs : (view (stepS x i .snapTaken ra ord src)).cs = quietC (view x).cs i P := by
      rw [← hq]
      show withNodes (withNodes (stepL (view x).cs i .snapTaken src _) _) (stepS x i .snapTaken ra ord src).vnode = _
      rw [withNodes_withNodes, hP']
      exact withNodes_stepL _ _ _ _ _ _ (fun j => by rw [view_stepS_node, hP']; rfl)
    have hsd : P.snapsDisk = ((x.node i).step .snapTaken ra ord).snapsDisk := by rw [← hP']; rfl
    have hsn : (view (stepS x i .snapTaken ra ord src)).snaps =
        newSnaps i ((view x).node i).snapsDisk P.snapsDisk ++ (view x).snaps := by
      rw [hsd]; rfl
    have key := sinv_quiet hV hI (sideS_view hS) hi ss
    have hv : view (stepS x i .snapTaken ra ord src) =
        { cs := quietC (view x).cs i P, snaps := newSnaps i ((view x).node i).snapsDisk P.snapsDisk ++ (view x).snaps } :=
      sys_ext hcs hsn
    rw [hv]
    exact key
  · obtain ⟨_, _, _, _, _, _, c7, c8⟩ := compact_cases ((x.node i).begin ra ord) (hS.segs i)
    have hq := onSnapshotTaken_qobs ((x.node i).begin ra ord)
    unfold qobs at hq
    simp only [Prod.mk.injEq] at hq
    obtain ⟨_, _, ⟨s1, _, _⟩, _⟩ := hq
    rw [hpost]
    refine ⟨?_, fun rs hrs => ?_⟩
    · rw [s1]
      show ((x.node i).begin ra ord).onSnapshotTaken.log.prev ≤ (x.node i).snapIndex
      cases hr : (x.node i).snapResult with
      | none =>
        have e : ((x.node i).begin ra ord).onSnapshotTaken = (x.node i).begin ra ord := by
          unfold Node.onSnapshotTaken
          rw [show ((x.node i).begin ra ord).snapResult = none from hr]
        rw [e]; exact (hP i).le
      | some rs =>
        have := c7 rs hr
        have h1 := (hP i).le
        have h2 := (hP i).res rs hr
        have h3 : ((x.node i).begin ra ord).log.prev = (x.node i).log.prev := rfl
        rw [h3] at this
        omega
    · rw [c8] at hrs; cases hrs

/-! ### crash and restart -/

theorem fsmRestore_keeps (x : Node) : x.fsmRestore.log = x.log ∧ x.fsmRestore.snapIndex = x.snapIndex ∧
    x.fsmRestore.snapResult = x.snapResult ∧ x.fsmRestore.trace = x.trace := by
  unfold Node.fsmRestore Node.panic Node.withFsm
  repeat' split
  all_goals exact ⟨rfl, rfl, rfl, rfl⟩

/-- the shape of a restarted node -/
theorem restart_shape (d : Durable) (retain : Nat) (sor : Bool) (n : Node) (h : Node.restart d retain sor = some n) :
    n.snapIndex = (headSnap d).index ∧ n.snapResult = none ∧ n.trace = [] ∧
    n.log.prev = (if staleLog d then (headSnap d).index else d.log.prev) := by
  unfold Node.restart at h
  split at h
  · cases h
  · split at h
    · cases h
    · injection h with h
      have r1 : (restartNode d retain sor).snapIndex = (headSnap d).index := rfl
      have r2 : (restartNode d retain sor).snapResult = none := rfl
      have r3 : (restartNode d retain sor).trace = [] := rfl
      have r4 : (restartNode d retain sor).log.prev =
          (if staleLog d then NLog.reset (headSnap d).index else d.log).prev := rfl
      have r5 : (if staleLog d then NLog.reset (headSnap d).index else d.log).prev =
          (if staleLog d then (headSnap d).index else d.log.prev) := by split <;> rfl
      rw [r5] at r4
      rw [← h]
      split
      · obtain ⟨f1, f2, f3, f4⟩ := fsmRestore_keeps (restartNode d retain sor)
        refine ⟨?_, ?_, ?_, ?_⟩
        · show (restartNode d retain sor).fsmRestore.snapIndex = _; rw [f2, r1]
        · show (restartNode d retain sor).fsmRestore.snapResult = _; rw [f3, r2]
        · show (restartNode d retain sor).fsmRestore.trace = _; rw [f4, r3]
        · show (restartNode d retain sor).fsmRestore.log.prev = _; rw [f1, r4]
      · exact ⟨r1, r2, r3, r4⟩

/-- **the restart of the virtual node**: from the un-compacted disk the node restarts as the un-compacted restarted
node — when the restarted node's log is not compacted exactly up to its snapshot index -/
theorem restart_view (β : List Entry) (d : Durable) (retain : Nat) (sor : Bool) (n : Node)
    (hn : Node.restart d retain sor = some n) (hps : d.log.prev ≤ (headSnap d).index)
    (hlen : d.log.prev + d.log.entries.length ≤ d.log.flushed)
    (hgap : n.log.prev = 0 ∨ n.log.prev ≠ n.snapIndex) :
    Node.restart (uncD β d) retain sor = some (U β n) ∧ n.log.prev = d.log.prev ∧
    n.snapIndex = (headSnap d).index ∧ n.snapResult = none ∧ n.trace = [] := by
  obtain ⟨s1, s2, s3, s4⟩ := restart_shape d retain sor n hn
  have hst : staleLog d = false := by
    cases hst : staleLog d with
    | false => rfl
    | true =>
      rw [if_pos hst] at s4
      have := stale_pos d hst
      rcases hgap with h | h
      · rw [s4] at h; omega
      · exact absurd (by rw [s4, s1]) h
  have hnr : ¬ d.log.last < (headSnap d).index := Nat.not_lt.mpr (notstale_reaches d hst)
  rw [hst] at s4
  have s4 : n.log.prev = d.log.prev := s4
  have hne : d.log.entries ≠ [] ∨ d.log.prev = 0 := by
    by_cases h0 : d.log.prev = 0
    · exact Or.inr h0
    · left
      intro he
      have hl : d.log.last = d.log.prev := by unfold NLog.last; rw [he]; rfl
      rw [hl] at hnr
      rcases hgap with h | h
      · rw [s4] at h; exact h0 h
      · apply h; rw [s4, s1]; omega
  have hnu : staleLog { d with log := uncLog β d.log } = false := by
    rw [staleLog_U d ?_, hst]
    rcases hgap with h | h
    · left; rw [← s4]; exact h
    · right; rw [s4, s1] at h; omega
  rw [uncD_eq d hlen, restart_U d retain sor hne hst hnu hps, hn]
  exact ⟨rfl, s4, s1, s2, s3⟩

theorem withNodes_crashC (z : Commit.Sys) (i : Nat) (op : Op) (P : Node) (M : Nat → Node)
    (h : ∀ j, M j = if j = i then P else z.node j) : withNodes (crashC z i op P) M = crashC z i op P := by
  have : M = setNode z.rp.el.node i P := funext (fun j => by rw [h j]; rfl)
  rw [this]; rfl

theorem view_crashS_node (x : Snap2.Sys) (i : Nat) (op : Op) (n : Node) (j : Nat) :
    (crashS x i op n).vnode j = if j = i then U (newBase x i n.log.prev) n else x.vnode j := by
  unfold Sys.vnode crashS setBase
  show U (if j = i then _ else x.base j) (setNode x.cs.rp.el.node i _ j) = _
  unfold setNode
  split <;> rfl

/-- the view after a crash, when the restarted virtual node is `P` -/
theorem view_crashS (x : Snap2.Sys) (i : Nat) (op : Op) (n P : Node) (hP : U (newBase x i n.log.prev) n = P) :
    view (crashS x i op n) =
      { cs := crashC (view x).cs i op P, snaps := newSnaps i (x.vnode i).snapsDisk P.snapsDisk ++ (view x).snaps } := by
  have hcs : (view (crashS x i op n)).cs = crashC (view x).cs i op P := by
    show withNodes (withNodes (crashC (view x).cs i op _) _) (crashS x i op n).vnode = _
    rw [withNodes_withNodes, hP]
    exact withNodes_crashC _ _ _ _ _ (fun j => by rw [view_crashS_node, hP]; rfl)
  have hsn : (view (crashS x i op n)).snaps = newSnaps i (x.vnode i).snapsDisk P.snapsDisk ++ (view x).snaps := by
    rw [← hP]; rfl
  exact sys_ext hcs hsn

theorem crashS_node_i (x : Snap2.Sys) (i : Nat) (op : Op) (n : Node) : (crashS x i op n).node i = n := by
  show setNode x.cs.rp.el.node i n i = n
  exact setNode_same _ _ _

/-- **a crash at any storage point of an operation other than `.snapTaken`, and the restart** -/
theorem crash_nc {V : List Nat} (hV : V.Nodup) {x : Snap2.Sys} (hI : SInv V (view x)) (hP : ∀ i, PrevOK (x.node i))
    (hS : Side2 V x) {i : Nat} {op : Op} {ra : List Nat} {ord : List (List Nat)} {src k retain : Nat} {sor : Bool}
    {n : Node} (en : Snap.Enabled x.cs i op src) (hret : 1 ≤ retain)
    (hp : ((x.node i).step op ra ord).panicked = none) (hne : op ≠ .snapTaken)
    (hn : Node.restart (C05.crashDisk (x.node i) op ra ord k) retain sor = some n)
    (hS' : Side2 V (crashS x i op n)) :
    SInv V (view (crashS x i op n)) ∧ PrevOK n := by
  have ha : AOK (x.node i) := aok_of (hP i) (hS.segs i) (hS.gap i)
  have hfl : (x.node i).log.prev ≤ (x.node i).log.flushed := prev_le_flushed (x.base i) (hS.segs i) (vnode_lwf hI i)
  have hU : (x.vnode i).step op ra ord = U (x.base i) ((x.node i).step op ra ord) := by
    by_cases happ : ∃ q, op = .append q
    · obtain ⟨q, rfl⟩ := happ
      exact append_step_U _ q ra ord ha hp
    · refine step_U _ op ra ord ?_ hp
      have h1 := en.ok2.1
      have h2 := en.ok2.2.2
      cases op <;> first | trivial | exact h1.elim | exact absurd rfl hne | exact absurd ⟨_, rfl⟩ happ | exact absurd rfl (h2 _ _) | exact h1
  have hdisk : C05.crashDisk (x.vnode i) op ra ord k = uncD (x.base i) (C05.crashDisk (x.node i) op ra ord k) :=
    crashDisk_U _ op ra ord hU k
  -- what is on disk starts where the log started
  have hd : (C05.crashDisk (x.node i) op ra ord k).log.prev = (x.node i).log.prev ∧
      (C05.crashDisk (x.node i) op ra ord k).log.prev + (C05.crashDisk (x.node i) op ra ord k).log.entries.length ≤
        (C05.crashDisk (x.node i) op ra ord k).log.flushed := by
    have hpre : (x.node i).durable.log.prev = (x.node i).log.prev ∧
        (x.node i).durable.log.prev + (x.node i).durable.log.entries.length ≤ (x.node i).durable.log.flushed :=
      ⟨rfl, durable_len _ hfl⟩
    by_cases hr : op = .snapRun
    · subst hr
      have hc := C04Sys.crashDisk_cases (x.node i) .snapRun ra ord k
      rw [snapRun_step_eq] at hc
      obtain ⟨f1, f2⟩ := snapRun_frame ((x.node i).begin ra ord)
      rcases hc with e | ⟨p, hpt, e⟩ | e
      · rw [e]; exact hpre
      · rw [e]
        rcases f2 p hpt with a | a
        · cases a
        · rw [a]; exact hpre
      · rw [e]
        have : ((x.node i).begin ra ord).snapRun.durable.log = (x.node i).durable.log := by
          show ((x.node i).begin ra ord).snapRun.log.durable = _
          rw [f1]; rfl
        rw [this]; exact hpre
    · have hnc : StepClosedNC.NCOp op := by
        have h1 := en.ok2.1
        cases op <;> first | trivial | exact h1.elim | exact absurd rfl hne | exact absurd rfl hr | exact h1
      have fr := step_frame (x.node i) op ra ord hnc (hP i).le hfl
      rcases C04Sys.crashDisk_cases (x.node i) op ra ord k with e | ⟨p, hpt, e⟩ | e
      · rw [e]; exact hpre
      · rw [e]
        have := fr.2.2.2.2 p hpt
        exact ⟨this.1, this.2.2⟩
      · rw [e]
        exact ⟨fr.1, durable_len _ (by rw [fr.1]; exact fr.2.1)⟩
  -- the newest snapshot on disk is not older than the node's
  have hsn : (x.node i).snapIndex ≤ (headSnap (C05.crashDisk (x.node i) op ra ord k)).index := by
    have fbi : FB (E σ0 (x.vnode i)) := hI.fsm i
    have hf : FsmOK 0 (x.vnode i) := ⟨fbi.fsm.le, fbi.fsm.len, fbi.fsm.applied, fbi.fsm.mono⟩
    have := (crash_snaps (x.vnode i) op ra ord k en.ok2.1 (hI.snap i) hf).2
    rw [hdisk] at this
    exact this
  generalize C05.crashDisk (x.node i) op ra ord k = d at hn hdisk hd hsn
  have hgap : n.log.prev = 0 ∨ n.log.prev ≠ n.snapIndex := by
    have := hS'.gap i
    rw [crashS_node_i] at this
    exact this
  obtain ⟨r1, r2, r3, r4, r5⟩ := restart_view (x.base i) d retain sor n hn
    (by rw [hd.1]; exact Nat.le_trans (hP i).le hsn) hd.2 hgap
  have hPn : U (newBase x i n.log.prev) n = U (x.base i) n := by
    have hb : newBase x i n.log.prev = pad (x.base i) (x.node i).log.prev := by
      unfold newBase Sys.vlog Sys.vnode
      rw [r2, hd.1]
      exact take_vlog (x.base i) (x.node i).log
    rw [hb, U_pad _ _ _ (by rw [r2, hd.1]) (by rw [r5]; intro pt hpt; cases hpt)]
  refine ⟨?_, ⟨by rw [r2, r3, hd.1]; exact Nat.le_trans (hP i).le hsn, fun rs hrs => by rw [r4] at hrs; cases hrs⟩⟩
  have hview := view_crashS x i op n _ hPn
  have ht : Snap.Trans (view x) (view (crashS x i op n)) := by
    rw [hview]
    refine Snap.Trans.crash i op ra ord src k retain sor (U (x.base i) n) (enabled_view en) hret
      (fun h => absurd h hne) ?_
    show Node.restart (C05.crashDisk (x.vnode i) op ra ord k) retain sor = _
    rw [hdisk]; exact r1
  exact inv_trans hV hI (sideS_view hS) ht (sideS_view hS')

/-! ### a crash while the result of the snapshot goroutine is handed over -/

/-- what is on disk when the process dies in `onSnapshotTaken`: the old disk, or the old disk with the compacted log -/
theorem snapTaken_crashDisk (s : Node) (ra : List Nat) (ord : List (List Nat)) (k : Nat) :
    C05.crashDisk s .snapTaken ra ord k = s.durable ∨
    (C05.crashDisk s .snapTaken ra ord k = { s.durable with log := (s.begin ra ord).onSnapshotTaken.log.durable } ∧
      (s.begin ra ord).onSnapshotTaken.durable = { s.durable with log := (s.begin ra ord).onSnapshotTaken.log.durable }) := by
  have hc := C04Sys.crashDisk_cases s .snapTaken ra ord k
  rw [snapTaken_step_eq] at hc
  have hdur : ∀ (a b : Node), a.durTerm = b.durTerm → a.durVote = b.durVote → a.cid = b.cid → a.nid = b.nid →
      a.snapsDisk = b.snapsDisk → a.durable = { b.durable with log := a.log.durable } := by
    intro a b h1 h2 h3 h4 h5
    unfold Node.durable
    rw [h1, h2, h3, h4, h5]
  rcases onSnapshotTaken_tobs (s.begin ra ord) with h | h
  · unfold tobs at h
    simp only [Prod.mk.injEq] at h
    obtain ⟨t1, t2, t3, t4, t5, t6, t7⟩ := h
    have hd : (s.begin ra ord).onSnapshotTaken.durable = s.durable := by
      unfold Node.durable
      rw [t2, t3, t4, t5, t6, t7]; rfl
    left
    rcases hc with e | ⟨p, hp, e⟩ | e
    · exact e
    · rw [t1] at hp; cases hp
    · rw [e, hd]
  · unfold tobs at h
    simp only [Prod.mk.injEq] at h
    obtain ⟨t1, _, t3, t4, t5, t6, t7⟩ := h
    have hd := hdur (s.begin ra ord).onSnapshotTaken (s.begin ra ord) t3 t4 t5 t6 t7
    rcases hc with e | ⟨p, hp, e⟩ | e
    · exact Or.inl e
    · right
      rw [t1] at hp
      have : p = ("compactLog", { (s.begin ra ord).durable with log := (s.begin ra ord).onSnapshotTaken.log.durable }) := by
        rcases List.mem_append.mp hp with a | a
        · cases a
        · exact List.mem_singleton.mp a
      rw [e, this]
      exact ⟨rfl, hd⟩
    · right
      rw [e]
      exact ⟨hd, hd⟩

theorem enabled_disc0 (z : Commit.Sys) {i : Nat} (hi : i ≠ 0) (src : Nat) : Snap.Enabled z i (.disconnected 0) src := by
  refine ⟨hi, fun q hq => ?_, fun hc => ?_, ⟨trivial, fun b hb => ?_, fun t c hc => ?_⟩, fun q hq => ?_,
    fun q hq => ?_, fun q hq => ?_, fun us hus => ?_⟩
  · cases hq
  · obtain ⟨_, _, _, he⟩ := hc; cases he
  · cases hb
  · cases hc
  · cases hq
  · cases hq
  · cases hq
  · cases hus

theorem crashC_op (z : Commit.Sys) (i : Nat) (N : Node) : crashC z i .snapTaken N = crashC z i (.disconnected 0) N := rfl

/-- a crash after node `i` was regrouped to `A` is the crash before, if `A` agrees on what the ledgers record -/
theorem crashC_regroup (z : Commit.Sys) (i : Nat) (op : Op) (A N : Node)
    (he : A.log.entries = (z.node i).log.entries) (ht : A.term = (z.node i).term)
    (hli : A.lastLogIndex = (z.node i).lastLogIndex) (hlt : A.lastLogTerm = (z.node i).lastLogTerm) :
    crashC (withNodes z (setNode z.rp.el.node i A)) i op N = crashC z i op N := by
  have hn : (withNodes z (setNode z.rp.el.node i A)).node i = A := setNode_same _ _ _
  have hs : setNode (withNodes z (setNode z.rp.el.node i A)).rp.el.node i N = setNode z.rp.el.node i N := by
    funext j
    show setNode (setNode z.rp.el.node i A) i N j = _
    unfold setNode
    split <;> rfl
  unfold crashC crashRp campOf
  rw [hn, he, ht, hli, hlt, hs]
  rfl

/-- **a crash at any storage point of `.snapTaken` (before or after the compaction), and the restart** -/
theorem crash_snapTaken {V : List Nat} (hV : V.Nodup) {x : Snap2.Sys} (hI : SInv V (view x))
    (hP : ∀ i, PrevOK (x.node i)) (hS : Side2 V x) {i : Nat} {ra : List Nat} {ord : List (List Nat)}
    {src k retain : Nat} {sor : Bool} {n : Node} (hi : i ≠ 0) (hret : 1 ≤ retain)
    (hn : Node.restart (C05.crashDisk (x.node i) .snapTaken ra ord k) retain sor = some n)
    (hS' : Side2 V (crashS x i .snapTaken n)) :
    SInv V (view (crashS x i .snapTaken n)) ∧ PrevOK n := by
  have hfl : (x.node i).log.prev ≤ (x.node i).log.flushed := prev_le_flushed (x.base i) (hS.segs i) (vnode_lwf hI i)
  have hgap : n.log.prev = 0 ∨ n.log.prev ≠ n.snapIndex := by
    have := hS'.gap i
    rw [crashS_node_i] at this
    exact this
  have hhead : (x.node i).snapIndex = (headOf (x.node i).snapsDisk).index := (hI.snap i).head
  rcases snapTaken_crashDisk (x.node i) ra ord k with e | ⟨e, hdur⟩
  · -- nothing was compacted yet
    rw [e] at hn
    obtain ⟨r1, r2, r3, r4, r5⟩ := restart_view (x.base i) (x.node i).durable retain sor n hn
      (by show (x.node i).log.prev ≤ (headOf (x.node i).snapsDisk).index; rw [← hhead]; exact (hP i).le)
      (durable_len _ hfl) hgap
    have r2' : n.log.prev = (x.node i).log.prev := r2
    have hPn : U (newBase x i n.log.prev) n = U (x.base i) n := by
      have hb : newBase x i n.log.prev = pad (x.base i) (x.node i).log.prev := by
        unfold newBase Sys.vlog Sys.vnode
        rw [r2']
        exact take_vlog (x.base i) (x.node i).log
      rw [hb, U_pad _ _ _ r2' (by rw [r5]; intro pt hpt; cases hpt)]
    refine ⟨?_, ⟨by rw [r2', r3]; show _ ≤ (headOf (x.node i).snapsDisk).index; rw [← hhead]; exact (hP i).le,
      fun rs hrs => by rw [r4] at hrs; cases hrs⟩⟩
    have hview := view_crashS x i .snapTaken n _ hPn
    rw [crashC_op] at hview
    have ht : Snap.Trans (view x) (view (crashS x i .snapTaken n)) := by
      rw [hview]
      refine Snap.Trans.crash i (.disconnected 0) [] [] src 0 retain sor (U (x.base i) n)
        (enabled_disc0 _ hi src) hret (fun h => nomatch h) ?_
      show Node.restart (x.vnode i).durable retain sor = _
      rw [show (x.vnode i).durable = uncD (x.base i) (x.node i).durable from U_durable _]
      exact r1
    exact inv_trans hV hI (sideS_view hS) ht (sideS_view hS')
  · -- the compacted log is on disk
    have hpost : (x.node i).step .snapTaken ra ord = ((x.node i).begin ra ord).onSnapshotTaken := snapTaken_step_eq _ ra ord
    have hPpost : PrevOK ((x.node i).begin ra ord).onSnapshotTaken := by
      have := (step_snapTaken hV hI hP hS (ra := ra) (ord := ord) (src := src) hi).2
      rw [hpost] at this
      exact this
    have ss := snapTaken_snapStep (x.base i) (x.node i) ra ord (hS.segs i) (hI.snap i) (vnode_lwf hI i)
    obtain ⟨_, _, _, _, _, c6, _, _⟩ := compact_cases ((x.node i).begin ra ord) (hS.segs i)
    have hq := onSnapshotTaken_qobs ((x.node i).begin ra ord)
    unfold qobs at hq
    simp only [Prod.mk.injEq] at hq
    obtain ⟨_, _, ⟨s1, _, s3⟩, _⟩ := hq
    rw [e] at hn
    generalize hpo : ((x.node i).begin ra ord).onSnapshotTaken = post at *
    have s1' : post.snapIndex = (x.node i).snapIndex := s1
    have s3' : post.snapsDisk = (x.node i).snapsDisk := s3
    generalize hb' : (uncLog (x.base i) (x.node i).log).entries.take post.log.prev = β' at ss
    have hlwf : C06.LogWF (uncLog β' post.log) := ss.feq.lwf (vnode_lwf hI i)
    have hflp : post.log.prev ≤ post.log.flushed := prev_le_flushed β' c6 hlwf
    obtain ⟨r1, r2, r3, r4, r5⟩ := restart_view β' { (x.node i).durable with log := post.log.durable } retain sor n hn
      (by show post.log.prev ≤ (headOf (x.node i).snapsDisk).index; rw [← hhead, ← s1']; exact hPpost.le)
      (durable_len post hflp) hgap
    have r2' : n.log.prev = post.log.prev := r2
    have hPn : U (newBase x i n.log.prev) n = U β' n := by
      unfold newBase Sys.vlog Sys.vnode
      rw [r2']
      show U ((uncLog (x.base i) (x.node i).log).entries.take post.log.prev) n = _
      rw [hb']
    refine ⟨?_, ⟨by rw [r2', r3]; show _ ≤ (headOf (x.node i).snapsDisk).index; rw [← hhead, ← s1']; exact hPpost.le,
      fun rs hrs => by rw [r4] at hrs; cases hrs⟩⟩
    have hview := view_crashS x i .snapTaken n _ hPn
    -- the regrouped view
    have hI' := sinv_regroup hI ss
    have pe := ss.feq
    have le := lfieldEq_of_lobs ss.lobs
    have hni : ∀ j, (withNodes (view x).cs (setNode (view x).cs.rp.el.node i (U β' post))).node j =
        if j = i then U β' post else x.vnode j := fun j => rfl
    have hSr : SideS V { cs := withNodes (view x).cs (setNode (view x).cs.rp.el.node i (U β' post))
                         snaps := newSnaps i ((view x).node i).snapsDisk (U β' post).snapsDisk ++ (view x).snaps } := by
      refine ⟨⟨fun j => ?_, fun j => ?_⟩, fun j => ?_, fun j => ?_⟩
      · show ((withNodes (view x).cs (setNode (view x).cs.rp.el.node i (U β' post))).node j).configs.isBootstrapped = true ∧
          ((withNodes (view x).cs (setNode (view x).cs.rp.el.node i (U β' post))).node j).configs.latest.voters = V
        rw [hni]
        split
        · rename_i hj; rw [le.configs]; have := hS.sideV.1 i; exact this
        · exact hS.sideV.1 j
      · show ((withNodes (view x).cs (setNode (view x).cs.rp.el.node i (U β' post))).node j).configs.latest.isStable = true
        rw [hni]
        split
        · rw [le.configs]; exact hS.sideV.2 i
        · exact hS.sideV.2 j
      · show ((withNodes (view x).cs (setNode (view x).cs.rp.el.node i (U β' post))).node j).log.prev = 0
        rw [hni]
        split <;> rfl
      · show ∀ e ∈ ((withNodes (view x).cs (setNode (view x).cs.rp.el.node i (U β' post))).node j).log.entries,
          e.typ = etConfig → e.cfg.isSome = true
        rw [hni]
        split
        · rw [show (U β' post).log.entries = (x.vnode i).log.entries from pe.entries]
          exact hS.dec i
        · exact hS.dec j
    have ht : Snap.Trans
        { cs := withNodes (view x).cs (setNode (view x).cs.rp.el.node i (U β' post))
          snaps := newSnaps i ((view x).node i).snapsDisk (U β' post).snapsDisk ++ (view x).snaps }
        (view (crashS x i .snapTaken n)) := by
      have hcs : crashC (withNodes (view x).cs (setNode (view x).cs.rp.el.node i (U β' post))) i (.disconnected 0) (U β' n) =
          crashC (view x).cs i .snapTaken (U β' n) := by
        rw [crashC_op]
        exact crashC_regroup (view x).cs i (.disconnected 0) (U β' post) (U β' n) pe.entries pe.term pe.lastLogIndex
          pe.lastLogTerm
      have hsn : newSnaps i (x.vnode i).snapsDisk (U β' n).snapsDisk ++ (view x).snaps =
          newSnaps i (U β' post).snapsDisk (U β' n).snapsDisk ++
            (newSnaps i ((view x).node i).snapsDisk (U β' post).snapsDisk ++ (view x).snaps) := by
        show newSnaps i (x.node i).snapsDisk n.snapsDisk ++ x.snaps =
          newSnaps i post.snapsDisk n.snapsDisk ++ (newSnaps i (x.node i).snapsDisk post.snapsDisk ++ x.snaps)
        rw [s3', newSnaps_same, List.nil_append]
      rw [hview, ← hcs, hsn]
      have hXi : Snap.Sys.node
          { cs := withNodes (view x).cs (setNode (view x).cs.rp.el.node i (U β' post))
            snaps := newSnaps i ((view x).node i).snapsDisk (U β' post).snapsDisk ++ (view x).snaps } i = U β' post :=
        setNode_same _ _ _
      have key := Snap.Trans.crash
        (x := { cs := withNodes (view x).cs (setNode (view x).cs.rp.el.node i (U β' post))
                snaps := newSnaps i ((view x).node i).snapsDisk (U β' post).snapsDisk ++ (view x).snaps })
        i (.disconnected 0) [] [] src 0 retain sor (U β' n) (enabled_disc0 _ hi src) hret (fun h => nomatch h) (by
          rw [hXi]
          show Node.restart (U β' post).durable retain sor = _
          rw [show (U β' post).durable = uncD β' post.durable from U_durable _]
          rw [show post.durable = { (x.node i).durable with log := post.log.durable } from hdur]
          exact r1)
      rw [hXi] at key
      exact key
    exact inv_trans hV hI' hSr ht (sideS_view hS')

/-! ### every reachable state -/

/-- **the invariant of stage 2**: the invariant of stage 1 for the cluster of the virtual nodes; every log starts at
or below the node's snapshot index -/
structure Inv2 (V : List Nat) (x : Snap2.Sys) : Prop where
  sinv : SInv V (view x)
  prev : ∀ i, PrevOK (x.node i)

theorem stepS_node_i (x : Snap2.Sys) (i : Nat) (op : Op) (ra : List Nat) (ord : List (List Nat)) (src : Nat) :
    (stepS x i op ra ord src).node i = (x.node i).step op ra ord := by
  show setNode x.cs.rp.el.node i _ i = _
  exact setNode_same _ _ _

theorem stepS_node_j (x : Snap2.Sys) (i : Nat) (op : Op) (ra : List Nat) (ord : List (List Nat)) (src : Nat) {j : Nat}
    (hj : j ≠ i) : (stepS x i op ra ord src).node j = x.node j := by
  show setNode x.cs.rp.el.node i _ j = _
  exact setNode_other _ _ _ _ hj

theorem crashS_node_j (x : Snap2.Sys) (i : Nat) (op : Op) (n : Node) {j : Nat} (hj : j ≠ i) :
    (crashS x i op n).node j = x.node j := by
  show setNode x.cs.rp.el.node i n j = _
  exact setNode_other _ _ _ _ hj

theorem inv2_trans {V : List Nat} (hV : V.Nodup) {x y : Snap2.Sys} (hI : Inv2 V x) (hS : Side2 V x)
    (ht : Snap2.Trans x y) (hS' : Side2 V y) : Inv2 V y := by
  cases ht with
  | step i op ra ord src en hp =>
    have key : SInv V (view (stepS x i op ra ord src)) ∧ PrevOK ((x.node i).step op ra ord) := by
      by_cases hsn : op = .snapTaken
      · subst hsn; exact step_snapTaken hV hI.sinv hI.prev hS en.id
      · exact step_nc hV hI.sinv hI.prev hS en hp hsn hS'
    refine ⟨key.1, fun j => ?_⟩
    by_cases hj : j = i
    · subst hj; rw [stepS_node_i]; exact key.2
    · rw [stepS_node_j _ _ _ _ _ _ hj]; exact hI.prev j
  | crash i op ra ord src k retain sor n en hret hp hn =>
    have key : SInv V (view (crashS x i op n)) ∧ PrevOK n := by
      by_cases hsn : op = .snapTaken
      · subst hsn; exact crash_snapTaken (src := src) hV hI.sinv hI.prev hS en.id hret hn hS'
      · exact crash_nc hV hI.sinv hI.prev hS en hret hp hsn hn hS'
    refine ⟨key.1, fun j => ?_⟩
    by_cases hj : j = i
    · subst hj; rw [crashS_node_i]; exact key.2
    · rw [crashS_node_j _ _ _ _ hj]; exact hI.prev j
  | send i q hi hl hr hc =>
    refine ⟨?_, hI.prev⟩
    have ht : Snap.Trans (view x) (view { x with cs := sendC x.cs q }) :=
      Snap.Trans.send (x := view x) i q hi hl hr.read hc
    exact inv_trans hV hI.sinv (sideS_view hS) ht (sideS_view hS')

/-- **the invariant holds in every reachable state** -/
theorem inv2_reachable {V : List Nat} (hV : V.Nodup) {x : Snap2.Sys} (h : Reachable2 V x) : Inv2 V x ∧ Side2 V x := by
  induction h with
  | init x hi hs =>
    exact ⟨⟨sinv_init hi.init, fun i => ⟨by rw [hi.prev i]; exact Nat.zero_le _,
      fun rs hrs => by rw [hi.result i] at hrs; cases hrs⟩⟩, hs⟩
  | next x y _ ht hs ih => exact ⟨inv2_trans hV ih.1 ih.2 ht hs, hs⟩

end SnapInv2
end Raft
