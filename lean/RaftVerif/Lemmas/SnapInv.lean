/-
The invariant of the cluster system with local snapshots (Sys/Snap.lean, stage 1) and its preservation.

`SInv V x`:
* `cinv`, `fsm` — the invariants of `Raft.Commit` (`CInv`: election safety, log matching, leader completeness, commit
  safety; `FsmInv`: state-machine content) hold for the cluster SEEN WITHOUT SNAPSHOT DATA (`eview`: every node `E σ0`);
* `snap` — on every node: every snapshot file on disk has a positive index not above the commit index and holds the
  update payloads of the log prefix up to that index; the files are listed newest first, `snapIndex` is the index of
  the newest one and is not above the applied index; `retain ≥ 1`.

How a transition of `Snap.Trans` is analysed (`inv_trans`): an operation that does not read the snapshot data commutes
with the erasure `E` (Lemmas/SnapRel.lean), so the view makes a `Commit.Trans` step; an append request does too,
because the request agrees with the log on what the node's snapshot covers (commit safety of the view: `C02Sys.reqok`);
a snapshot operation is, in the view, a step that only clears the outputs of the previous step (`bump`); a crash is a
crash of the view followed by the replacement of the restarted follower's commit index / state machine /
configurations (`bump`, `restart_rel`).
-/
import RaftVerif.Sys.Snap
import RaftVerif.Lemmas.SnapBump

namespace Raft
namespace SnapInv
open Node Election LogRel Replication CommitRel Commit C02Sys C03Sys SnapRel SnapSim Snap

/-- the cluster seen without snapshot data: every node `E σ0` -/
def eview (x : Commit.Sys) : Commit.Sys := withNodes x (fun i => E σ0 (x.node i))

theorem eview_node (x : Commit.Sys) (i : Nat) : (eview x).node i = E σ0 (x.node i) := rfl

theorem setNode_E (f : Nat → Node) (i : Nat) (n : Node) :
    (fun j => E σ0 (setNode f i n j)) = setNode (fun j => E σ0 (f j)) i (E σ0 n) := by
  funext j
  unfold setNode
  split <;> rfl

theorem ackOf_E (i : Nat) (op : Op) (s post : Node) : ackOf i (eraseOp σ0 s op) (E σ0 post) = ackOf i op post := by
  cases op <;> rfl
theorem selfAck_E (i : Nat) (op : Op) (s pre post : Node) :
    selfAck i (eraseOp σ0 s op) (E σ0 pre) (E σ0 post) = selfAck i op pre post := by
  cases op <;> rfl
theorem newCommit_E (op : Op) (s pre post : Node) :
    newCommit (eraseOp σ0 s op) (E σ0 pre) (E σ0 post) = newCommit op pre post := by
  cases op <;> rfl
theorem newCreated_E (i : Nat) (op : Op) (s : Node) (a b : List Entry) :
    newCreated i a b (eraseOp σ0 s op) = newCreated i a b op := by
  cases op <;> rfl
theorem voteGrant_E (i : Nat) (op : Op) (s post : Node) :
    voteGrant i (eraseOp σ0 s op) (E σ0 post) = voteGrant i op post := by
  cases op <;> rfl
theorem countedBy_E (i : Nat) (op : Op) (s pre : Node) (src : Nat) :
    countedBy i (E σ0 pre) (eraseOp σ0 s op) src = countedBy i pre op src := by
  cases op <;> rfl

/-- a completed step whose handler commutes with the erasure is a step of the view -/
theorem eview_stepC (x : Commit.Sys) (i : Nat) (op : Op) (ra : List Nat) (ord : List (List Nat)) (src : Nat)
    (h : (E σ0 (x.node i)).step (eraseOp σ0 (x.node i) op) ra ord = E σ0 ((x.node i).step op ra ord)) :
    eview (stepC x i op ra ord src) = stepC (eview x) i (eraseOp σ0 (x.node i) op) ra ord src := by
  unfold stepC stepRp stepSys
  simp only [eview_node, h]
  unfold eview withNodes
  simp only [ackOf_E, selfAck_E, newCommit_E, newCreated_E, voteGrant_E, countedBy_E, Commit.Sys.node, setNode_E]
  rfl

theorem eview_sendC (x : Commit.Sys) (q : AppendReq) : eview (sendC x q) = sendC (eview x) q := rfl


/-! ### enabling conditions, in the view -/

theorem eraseOp_eq (σ : SnapData) (s : Node) (op : Op) (h : ∀ t th, op ≠ .takeSnapshot t th) : eraseOp σ s op = op := by
  cases op <;> first | rfl | exact absurd rfl (h _ _)

theorem opOK_old {op : Op} (h : OpOKS op) (h1 : op ≠ .snapRun) (h2 : op ≠ .snapTaken) (σ : SnapData) (s : Node) :
    OpOK (eraseOp σ s op) := by
  cases op <;> first | exact h | trivial | exact absurd rfl h1 | exact absurd rfl h2

theorem counts_erase (σ : SnapData) (s s' : Node) (op : Op) (h : Counts (E σ0 s) (eraseOp σ s' op)) : Counts s op := by
  obtain ⟨hr, tm, hle, he⟩ := h
  refine ⟨hr, tm, hle, ?_⟩
  cases op <;> first | exact he | cases he

/-- what is enabled in the cluster (and is an operation of `Raft.Commit`) is enabled in its view -/
theorem enabled_eview {x : Commit.Sys} {i : Nat} {op : Op} {src : Nat} (h : Snap.Enabled x i op src)
    (h1 : op ≠ .snapRun) (h2 : op ≠ .snapTaken) :
    Commit.Enabled (eview x) i (eraseOp σ0 (x.node i) op) src := by
  refine ⟨⟨h.id, fun q hq => ?_, fun hc => ?_, opOK_old h.ok2.1 h1 h2 _ _, fun q hq => ?_⟩,
    ⟨opOK_old h.ok2.1 h1 h2 _ _, fun b hb => ?_, fun t c hc => ?_⟩, fun q hq => ?_, fun q hq => ?_,
    fun us hus u hu v hv => ?_⟩
  · cases op <;> first | cases hq | skip
    exact h.voteSrc _ rfl
  · exact h.real (counts_erase σ0 _ _ op hc)
  · cases op <;> first | cases hq | skip
    exact h.append _ rfl
  · cases op <;> first | cases hb | skip
    exact h.ok2.2.1 _ rfl
  · cases op <;> first | cases hc | skip
    exact h.ok2.2.2 _ _ rfl
  · cases op <;> first | cases hq | skip
    exact h.vote _ rfl
  · cases op <;> first | cases hq | skip
    exact h.appendSrc _ rfl
  · cases op <;> first | cases hus | skip
    exact h.upd _ rfl u hu v hv


/-! ### `retain` is an option: no handler changes it -/

theorem retain_closed (c : Nat) : StepClosed (fun s : Node => s.retain = c) where
  panic := fun s site h => by unfold Node.panic; split <;> exact h
  reply := fun s t r h => by unfold Node.reply; split <;> exact h
  point := fun s name h => h
  ldr := fun s l h => h
  append := fun s e r h => h
  commitN := fun s k h => h
  fsm := fun s f h => h
  changeConfigR := fun s c h => by unfold Node.changeConfigR; dsimp only; split <;> exact h
  setCommitIndexR := fun s i h _ => by
    unfold Node.setCommitIndexR Node.afterConfigCommit Node.closeIfRemoved Node.stepDownIfNotVoter Node.commitConfig
      Node.doClose
    dsimp only
    repeat' split
    all_goals exact h
  popOrder := fun s h => h
  begin := fun s ra ord h => h
  rpcReply := fun s r h => h
  ret := fun s r h => h
  setRole := fun s r h => h
  setLeader := fun s l h => h
  doClose := fun s r h => by unfold Node.doClose; split <;> exact h
  setTerm := fun s t h => by
    unfold Node.setTerm Node.storeTermVote Node.panic
    dsimp only
    repeat' split
    all_goals exact h
  voteNewTerm := fun s t c h _ => by
    unfold Node.setVotedFor Node.storeTermVote Node.panic
    dsimp only
    repeat' split
    all_goals exact h
  voteGrant := fun s c h _ => by
    unfold Node.setVotedFor Node.storeTermVote Node.panic
    dsimp only
    repeat' split
    all_goals exact h
  votesNeeded := fun s v h => h
  candTransfer := fun s v h => h
  removeGTE := fun s i pt h => h
  removeLTE := fun s i h => h
  clearLog := fun s h => h
  revertConfig := fun s h => h
  commitConfig := fun s h => by unfold Node.commitConfig; dsimp only; split <;> exact h
  publishSnapshot := fun s f h => h
  installCommit := fun s h _ => h
  snapPending := fun s v h => h
  snapResult := fun s v h => h
  bootstrapLast := fun s i t h => h

theorem step_retain (s : Node) (op : Op) (ra : List Nat) (ord : List (List Nat)) :
    (s.step op ra ord).retain = s.retain :=
  (retain_closed s.retain).step_inv s op ra ord rfl

/-! ### snapshot files -/

/-- the newest file of a list (the zero file if none) -/
def headOf (l : List SnapFile) : SnapFile := (l.head?).getD {}

/-- A list of snapshot files fits the log `es` with commit index `ci`: every file has a positive index not above
`ci` and holds the update payloads of `es` up to its index; the files are listed newest first. -/
structure FilesOK (es : List Entry) (ci : Nat) (l : List SnapFile) : Prop where
  files : ∀ f ∈ l, 1 ≤ f.index ∧ f.index ≤ ci ∧ f.data = ups (es.take f.index)
  sorted : l.Pairwise (fun a b => a.index > b.index)

theorem FilesOK.nil (es : List Entry) (ci : Nat) : FilesOK es ci [] :=
  ⟨fun f hf => (by cases hf), List.Pairwise.nil⟩

theorem FilesOK.le_head {es : List Entry} {ci : Nat} {l : List SnapFile} (h : FilesOK es ci l) :
    ∀ g ∈ l, g.index ≤ (headOf l).index := by
  cases l with
  | nil => intro g hg; cases hg
  | cons a as =>
    intro g hg
    show g.index ≤ a.index
    rcases List.mem_cons.mp hg with rfl | hg
    · exact Nat.le_refl _
    · exact Nat.le_of_lt ((List.pairwise_cons.mp h.sorted).1 g hg)

theorem FilesOK.head_le {es : List Entry} {ci : Nat} {l : List SnapFile} (h : FilesOK es ci l) :
    (headOf l).index ≤ ci := by
  cases l with
  | nil => exact Nat.zero_le _
  | cons a as => exact (h.files a (List.mem_cons_self ..)).2.1

/-- the same files fit a log that agrees up to `ci` and a commit index that is not smaller -/
theorem FilesOK.mono {es es' : List Entry} {ci ci' : Nat} {l : List SnapFile} (h : FilesOK es ci l)
    (hc : ci ≤ ci') (he : es'.take ci = es.take ci) : FilesOK es' ci' l := by
  refine ⟨fun f hf => ?_, h.sorted⟩
  obtain ⟨a, b, c⟩ := h.files f hf
  refine ⟨a, Nat.le_trans b hc, ?_⟩
  rw [c]
  have : es'.take f.index = es.take f.index := by
    have := congrArg (List.take f.index) he
    rw [List.take_take, List.take_take, Nat.min_eq_left b] at this
    exact this
  rw [this]

theorem FilesOK.sub {es : List Entry} {ci : Nat} {l l' : List SnapFile} (h : FilesOK es ci l)
    (hs : l'.Sublist l) : FilesOK es ci l' :=
  ⟨fun f hf => h.files f (hs.subset hf), h.sorted.sublist hs⟩

theorem insertSnap_front (f : SnapFile) (l : List SnapFile) (h : ∀ g ∈ l, g.index < f.index) :
    insertSnap f l = f :: l := by
  cases l with
  | nil => rfl
  | cons g gs =>
    unfold insertSnap
    rw [if_pos (h g (List.mem_cons_self ..))]

/-- a newer file that fits is put in front -/
theorem FilesOK.cons {es : List Entry} {ci : Nat} {l : List SnapFile} (h : FilesOK es ci l) (f : SnapFile)
    (h1 : 1 ≤ f.index) (h2 : f.index ≤ ci) (h3 : f.data = ups (es.take f.index)) (h4 : (headOf l).index < f.index) :
    insertSnap f l = f :: l ∧ FilesOK es ci (f :: l) := by
  have hlt : ∀ g ∈ l, g.index < f.index := fun g hg => Nat.lt_of_le_of_lt (h.le_head g hg) h4
  refine ⟨insertSnap_front f l hlt, fun g hg => ?_, List.pairwise_cons.mpr ⟨fun g hg => hlt g hg, h.sorted⟩⟩
  rcases List.mem_cons.mp hg with rfl | hg
  · exact ⟨h1, h2, h3⟩
  · exact h.files g hg

/-- **the snapshot data of a node**: `retain ≥ 1`; the files on disk fit the log and the commit index; `snapIndex`
is the index of the newest file and is not above the applied index -/
structure SnapOK (s : Node) : Prop where
  retain : 1 ≤ s.retain
  files : FilesOK s.log.entries s.commitIndex s.snapsDisk
  head : s.snapIndex = (headOf s.snapsDisk).index
  le : s.snapIndex ≤ s.fsm.index

/-- **the invariant** of the cluster with local snapshots -/
structure SInv (V : List Nat) (x : Snap.Sys) : Prop where
  cinv : CInv V (eview x.cs)
  fsm : FsmInv (eview x.cs)
  snap : ∀ i, SnapOK (x.node i)
  /-- every recorded snapshot file fits the log of the node that stored it and is not beyond its snapshot index -/
  ledger : ∀ p ∈ x.snaps, 1 ≤ p.2.index ∧ p.2.index ≤ (x.node p.1).snapIndex ∧
    p.2.data = ups ((x.node p.1).log.entries.take p.2.index)


/-! ### an append request agrees with what the node's snapshot covers -/

/-- a key on the path to the anchor of a request on the wire, at an index the node's commit index covers, is the key
the node's log holds there (the argument of `C02Sys.reqok`, for any key of the request's path) -/
theorem reqok_key {V : List Nat} {x : Commit.Sys} (hI : CInv V x) {i : Nat} {q : AppendReq} (_hq : q ∈ x.rp.sent)
    (_hns : ¬ q.term < (x.node i).term) {c : CEntry} (hc : c ∈ x.T) (c1 : c.e.term = q.term) {k τ : Nat}
    (hec : Anc x.T (k, τ) (key c)) (h1 : 1 ≤ k) (hle : k ≤ (x.node i).commitIndex) :
    termAt (x.node i).log.entries k = τ := by
  obtain ⟨hlen, m, hm, m1, m2⟩ := hI.cmt.cc i k h1 hle
  have fin : ∀ z : Nat × Nat, Anc x.T (k, termAt (x.node i).log.entries k) z →
      Anc x.T (k, τ) z → termAt (x.node i).log.entries k = τ := by
    intro z h1 h2
    have := (h1.comparable (uniq hI) h2 (Nat.le_refl _)).eq_of_index rfl
    exact congrArg Prod.snd this
  by_cases hlt : m.2 < q.term
  · have hmc := hI.cmt.lc m hm c hc (by rw [c1]; exact hlt)
    exact fin (key c) (m2.trans (uniq hI) hmc) hec
  · have hmt : m.2 = c.e.term := by rw [c1]; omega
    obtain ⟨⟨cm, hcm, hcmk, _⟩, _⟩ := hI.cmt.quorum m hm
    have e1 : cm.e.term = c.e.term := by
      have : cm.e.term = m.2 := by unfold key at hcmk; rw [← hcmk]
      rw [this, hmt]
    by_cases hidx' : cm.e.index ≤ c.e.index
    · have := hI.tree.ok.tblock cm hcm c hc e1 hidx'
      rw [hcmk] at this
      exact fin (key c) (m2.trans (uniq hI) this) hec
    · have := hI.tree.ok.tblock c hc cm hcm e1.symm (by omega)
      rw [hcmk] at this
      exact fin m m2 (hec.trans (uniq hI) this)

theorem pairwise_of_idx (p : Nat) : ∀ (es : List Entry),
    (∀ k (h : k < es.length), es[k].index = p + k + 1) → es.Pairwise (fun a b => a.index < b.index) := by
  intro es
  induction es generalizing p with
  | nil => intro _; exact List.Pairwise.nil
  | cons e es ih =>
    intro h
    refine List.pairwise_cons.mpr ⟨fun b hb => ?_, ih (p + 1) (fun k hk => ?_)⟩
    · obtain ⟨j, hj, rfl⟩ := List.getElem_of_mem hb
      have h0 := h 0 (by simp)
      have hj' := h (j + 1) (by simp; omega)
      simp only [List.getElem_cons_zero] at h0
      simp only [List.getElem_cons_succ] at hj'
      omega
    · have := h (k + 1) (by simp; omega)
      simp only [List.getElem_cons_succ] at this
      omega

/-- **commit safety of the view gives `AppAgree`**: a request on the wire that is not stale agrees with the node's
log on everything the node's snapshot covers -/
theorem appAgree {V : List Nat} {x : Commit.Sys} (hI : CInv V (eview x)) {i : Nat} {q : AppendReq}
    (hq : q ∈ x.rp.sent) (hns : ¬ q.term < (x.node i).term) (hsc : (x.node i).snapIndex ≤ (x.node i).commitIndex) :
    AppAgree (x.node i) q := by
  have hn : NWF (E σ0 (x.node i)) := nwf hI i
  have hlast : (x.node i).lastLogIndex = (x.node i).log.entries.length := hn.last
  have hidx := (hI.rp.sent q hq).idx
  obtain ⟨c, hc, c1, c2, c3⟩ := hI.sent.anc q hq
  have hci : ∀ k, 1 ≤ k → k ≤ (x.node i).commitIndex → k ≤ (x.node i).log.entries.length :=
    fun k h1 h2 => (hI.cmt.cc i k h1 h2).1
  have het : ∀ k, 1 ≤ k → k ≤ (x.node i).log.entries.length →
      (x.node i).entryTerm? k = some (termAt (x.node i).log.entries k) := fun k h1 h2 => hn.entryTerm k h1 h2
  refine ⟨fun h0 hs => ?_, fun ne hne hs => ?_, pairwise_of_idx q.prevLogIndex q.entries hidx⟩
  · have hk : q.prevLogIndex ≤ (x.node i).commitIndex := Nat.le_trans hs hsc
    have hlen := hci _ h0 hk
    have ht : termAt (x.node i).log.entries q.prevLogIndex = q.prevLogTerm :=
      reqok_key hI (i := i) hq hns hc c1 (c3 h0) h0 hk
    refine ⟨by rw [hlast]; exact hlen, hk, fun he => ?_, fun _ => ?_⟩
    · have : (x.node i).lastLogTerm = lastTerm (x.node i).log.entries := hn.lastT
      rw [this, ← termAt_length, ← hlast, ← he]; exact ht
    · rw [het _ h0 hlen, ht]
  · have h1 : 1 ≤ ne.index := by
      obtain ⟨j, hj, rfl⟩ := List.getElem_of_mem hne
      rw [hidx j hj]; omega
    have hk : ne.index ≤ (x.node i).commitIndex := Nat.le_trans hs hsc
    have hlen := hci _ h1 hk
    have ht : termAt (x.node i).log.entries ne.index = ne.term :=
      reqok_key hI (i := i) hq hns hc c1 (c2 ne hne) h1 hk
    exact ⟨by rw [hlast]; exact hlen, by rw [het _ h1 hlen, ht]⟩


/-! ### a completed step of an operation of `Raft.Commit` -/

theorem sideV_eview {V : List Nat} {x : Commit.Sys} (h : SideV V x) : SideV V (eview x) := h

/-- the step commutes with the erasure: for an operation that does not read the snapshot data, and for an append
request by commit safety of the view -/
theorem step_comm {V : List Nat} {x : Snap.Sys} (hI : SInv V x) {i : Nat} {op : Op} {src : Nat}
    (en : Snap.Enabled x.cs i op src) (h1 : op ≠ .snapRun) (ra : List Nat) (ord : List (List Nat)) :
    (E σ0 (x.node i)).step (eraseOp σ0 (x.node i) op) ra ord = E σ0 ((x.node i).step op ra ord) := by
  by_cases happ : ∃ q, op = .append q
  · obtain ⟨q, rfl⟩ := happ
    show (E σ0 (x.node i)).step (.append q) ra ord = _
    by_cases hst : q.term < (x.node i).term
    · exact append_step_E_stale _ q ra ord hst
    · have hq : q ∈ x.cs.rp.sent := (en.append q rfl).resolve_left hst
      have so := hI.snap i
      have hsc : (x.node i).snapIndex ≤ (x.node i).commitIndex := by rw [so.head]; exact so.files.head_le
      exact append_step_E _ q ra ord (Or.inr ⟨rfl, appAgree hI.cinv hq hst hsc⟩)
  · refine step_E _ op ra ord ?_ ?_
    · cases op <;> first | trivial | exact absurd rfl h1 | exact en.ok2.1 | exact absurd ⟨_, rfl⟩ happ
    · cases op <;> first | trivial | exact Nat.zero_le _

/-- the snapshot data of the node, and `retain`, after a step that is not `snapRun` -/
theorem step_keeps_snap (s : Node) (op : Op) (ra : List Nat) (ord : List (List Nat)) (hok : OpOKS op)
    (h1 : op ≠ .snapRun) :
    (s.step op ra ord).snapIndex = s.snapIndex ∧ (s.step op ra ord).snapsDisk = s.snapsDisk ∧
    (s.step op ra ord).retain = s.retain := by
  refine ⟨?_, ?_, step_retain s op ra ord⟩
  · by_cases happ : ∃ q, op = .append q
    · obtain ⟨q, rfl⟩ := happ; exact (append_snap_frame s q ra ord).1
    · exact (step_snap_frame s op ra ord (by
        cases op <;> first | trivial | exact absurd rfl h1 | exact hok | exact absurd ⟨_, rfl⟩ happ)).1
  · by_cases happ : ∃ q, op = .append q
    · obtain ⟨q, rfl⟩ := happ; exact (append_snap_frame s q ra ord).2.2.1
    · exact (step_snap_frame s op ra ord (by
        cases op <;> first | trivial | exact absurd rfl h1 | exact hok | exact absurd ⟨_, rfl⟩ happ)).2.2.1


/-- a completed step of `Raft.Commit`: the commit index does not decrease and the log keeps what it covered
(the argument of `C02Sys.committed_never_replaced_sys_partial`, part 2) -/
theorem step_keep {V : List Nat} {x : Commit.Sys} {i : Nat} {op : Op} {ra : List Nat} {ord : List (List Nat)}
    {src : Nat} (sc : SC V x i op ra ord src) :
    (x.node i).commitIndex ≤ ((x.node i).step op ra ord).commitIndex ∧
    ((x.node i).step op ra ord).log.entries.take (x.node i).commitIndex =
      (x.node i).log.entries.take (x.node i).commitIndex := by
  have hI := sc.inv
  by_cases h0 : (x.node i).commitIndex = 0
  · rw [h0]; exact ⟨Nat.zero_le _, rfl⟩
  · obtain ⟨c1, _⟩ := hI.cmt.cc i (x.node i).commitIndex (by omega) (Nat.le_refl _)
    rcases SC.op_cases op with happ | ⟨q, rfl⟩
    · obtain ⟨es, te, _, hl⟩ := sc.newE happ
      refine ⟨?_, by rw [hl, List.take_append_of_le_length c1]⟩
      rcases (sc.nst happ).ci with c | ⟨T, c⟩
      · rw [c]; exact Nat.le_refl _
      · exact Nat.le_of_lt c.adv
    · by_cases hst : q.term < (x.node i).term
      · obtain ⟨s1, _, _, s4, _⟩ := append_stale _ q ra ord hst
        rw [s1, s4]; exact ⟨Nat.le_refl _, rfl⟩
      · obtain ⟨hq, fs⟩ := sc.fst hst
        have hnc := reqok hI (i := i) hq hst
        refine ⟨?_, (fs.keep _ c1 hnc).1⟩
        rcases fs.ci with c | ⟨c, _⟩
        · rw [c]; exact Nat.le_refl _
        · exact Nat.le_of_lt c

/-- the state machine after a completed step of `Raft.Commit` that did not fail an assertion (the step case of
`C03Sys.fsmInv_trans`, for the node that made the step) -/
theorem step_fb {V : List Nat} {x : Commit.Sys} {i : Nat} {op : Op} {ra : List Nat} {ord : List (List Nat)}
    {src : Nat} (sc : SC V x i op ra ord src) (hF : FB (x.node i))
    (hp : ((x.node i).step op ra ord).panicked = none) :
    FB ((x.node i).step op ra ord) ∧ (x.node i).fsm.index ≤ ((x.node i).step op ra ord).fsm.index := by
  have hI := sc.inv
  have he := sc.en
  have := fsm_step (x.node i) op ra ord (nwf hI i) (hI.node.lwf i) (hI.rp.el.ids i).2 he.ok2 hF
    (fun q hq hst => by
      subst hq
      have hq : q ∈ x.rp.sent := (he.rp.append q rfl).resolve_left hst
      refine ⟨(hI.rp.sent q hq).idx, reqok hI hq hst, ?_⟩
      by_cases h0 : (x.node i).commitIndex = 0
      · rw [h0]; exact Nat.zero_le _
      · exact (hI.cmt.cc i _ (by omega) (Nat.le_refl _)).1)
  obtain ⟨f, _, qk⟩ := this hp
  exact ⟨⟨f.weaken (Nat.zero_le _), qk⟩, f.mono⟩


theorem stepC_node_i (x : Commit.Sys) (i : Nat) (op : Op) (ra : List Nat) (ord : List (List Nat)) (src : Nat) :
    (stepC x i op ra ord src).node i = (x.node i).step op ra ord := by
  show setNode x.rp.el.node i _ i = _
  rw [setNode_same]

theorem stepC_node_j (x : Commit.Sys) (i : Nat) (op : Op) (ra : List Nat) (ord : List (List Nat)) (src : Nat)
    {j : Nat} (hj : j ≠ i) : (stepC x i op ra ord src).node j = x.node j := by
  show setNode x.rp.el.node i _ j = _
  rw [setNode_other _ _ _ _ hj]

theorem newSnaps_same (i : Nat) (l : List SnapFile) : newSnaps i l l = [] := by
  unfold newSnaps
  have : l.filter (fun f => !l.contains f) = [] := by
    apply List.filter_eq_nil_iff.mpr
    intro f hf
    simp [hf]
  rw [this]; rfl

/-- the snapshot data stays right when the node's files and snapshot index stay, the commit index and the applied
index do not decrease and the log keeps what the commit index covered -/
theorem SnapOK.keep {s s' : Node} (h : SnapOK s) (e1 : s'.snapIndex = s.snapIndex) (e2 : s'.snapsDisk = s.snapsDisk)
    (e3 : s'.retain = s.retain) (hc : s.commitIndex ≤ s'.commitIndex)
    (hl : s'.log.entries.take s.commitIndex = s.log.entries.take s.commitIndex) (hf : s.fsm.index ≤ s'.fsm.index) :
    SnapOK s' :=
  ⟨by rw [e3]; exact h.retain, by rw [e2]; exact h.files.mono hc hl, by rw [e1, e2]; exact h.head,
    by rw [e1]; exact Nat.le_trans h.le hf⟩

/-- **a completed step of an operation of `Raft.Commit`** (anything but `.snapRun` / `.snapTaken`) -/
theorem sinv_step_old {V : List Nat} (hV : V.Nodup) {x : Snap.Sys} (hI : SInv V x) (hS : SideS V x) {i : Nat}
    {op : Op} {ra : List Nat} {ord : List (List Nat)} {src : Nat} (en : Snap.Enabled x.cs i op src)
    (hp : ((x.node i).step op ra ord).panicked = none) (h1 : op ≠ .snapRun) (h2 : op ≠ .snapTaken) :
    SInv V { cs := stepC x.cs i op ra ord src
             snaps := newSnaps i (x.node i).snapsDisk ((x.node i).step op ra ord).snapsDisk ++ x.snaps } := by
  have hcomm := step_comm hI en h1 ra ord
  have sc : SC V (eview x.cs) i (eraseOp σ0 (x.node i) op) ra ord src :=
    ⟨hV, hI.cinv, sideV_eview hS.sideV, enabled_eview en h1 h2⟩
  have hpost : ((eview x.cs).node i).step (eraseOp σ0 (x.node i) op) ra ord = E σ0 ((x.node i).step op ra ord) := hcomm
  have hkeep := step_keep sc
  have hfb := step_fb sc (hI.fsm i) (by rw [hpost]; exact hp)
  rw [hpost] at hkeep hfb
  have hkeep : (x.node i).commitIndex ≤ ((x.node i).step op ra ord).commitIndex ∧
      ((x.node i).step op ra ord).log.entries.take (x.node i).commitIndex =
        (x.node i).log.entries.take (x.node i).commitIndex := hkeep
  have hfb : FB (E σ0 ((x.node i).step op ra ord)) ∧ (x.node i).fsm.index ≤ ((x.node i).step op ra ord).fsm.index := hfb
  obtain ⟨k1, k2, k3⟩ := step_keeps_snap (x.node i) op ra ord en.ok2.1 h1
  have hso : SnapOK ((x.node i).step op ra ord) := (hI.snap i).keep k1 k2 k3 hkeep.1 hkeep.2 hfb.2
  refine ⟨?_, fun j => ?_, fun j => ?_, fun p hp' => ?_⟩
  · show CInv V (eview (stepC x.cs i op ra ord src))
    rw [eview_stepC _ _ _ _ _ _ hcomm]
    exact sc.cinv
  · show FB ((eview (stepC x.cs i op ra ord src)).node j)
    rw [eview_stepC _ _ _ _ _ _ hcomm]
    by_cases hj : j = i
    · subst hj
      rw [stepC_node_i, hpost]
      exact hfb.1
    · rw [stepC_node_j _ _ _ _ _ _ hj]
      exact hI.fsm j
  · show SnapOK ((stepC x.cs i op ra ord src).node j)
    by_cases hj : j = i
    · subst hj; rw [stepC_node_i]; exact hso
    · rw [stepC_node_j _ _ _ _ _ _ hj]; exact hI.snap j
  · rw [k2, newSnaps_same, List.nil_append] at hp'
    obtain ⟨a, b, c⟩ := hI.ledger p hp'
    show 1 ≤ p.2.index ∧ p.2.index ≤ ((stepC x.cs i op ra ord src).node p.1).snapIndex ∧
      p.2.data = ups (((stepC x.cs i op ra ord src).node p.1).log.entries.take p.2.index)
    by_cases hj : p.1 = i
    · rw [hj, stepC_node_i, k1]
      rw [hj] at b c
      refine ⟨a, b, ?_⟩
      have hle : p.2.index ≤ (x.node i).commitIndex := by
        have so := hI.snap i
        have := so.files.head_le
        rw [← so.head] at this
        exact Nat.le_trans b this
      have := congrArg (List.take p.2.index) hkeep.2
      rw [List.take_take, List.take_take, Nat.min_eq_left hle] at this
      rw [this]; exact c
    · rw [stepC_node_j _ _ _ _ _ _ hj]; exact ⟨a, b, c⟩


/-! ### a step that touches nothing the ledgers record -/

/-- the state after node `i` made a step to `post` that acknowledged nothing, created nothing, committed nothing -/
def quietC (x : Commit.Sys) (i : Nat) (post : Node) : Commit.Sys :=
  { rp := { el := { node := setNode x.rp.el.node i post
                    grants := x.rp.el.grants
                    counted := x.rp.el.counted
                    won := (if post.role = .leader then [(i, post.term)] else []) ++ x.rp.el.won }
            sent := x.rp.sent
            created := x.rp.created }
    acks := x.acks
    camps := x.camps
    committed := x.committed }

/-- the operation is not a request or response the ledgers look at -/
def QuietOp : Op → Prop
  | .vote _ => False
  | .append _ => False
  | .voteResult _ _ _ => False
  | _ => True

theorem stepC_quiet (x : Commit.Sys) (i : Nat) (op : Op) (ra : List Nat) (ord : List (List Nat)) (src : Nat)
    (hop : QuietOp op) (ht : ((x.node i).step op ra ord).term = (x.node i).term)
    (hl : ((x.node i).step op ra ord).log.entries = (x.node i).log.entries)
    (hc : ((x.node i).step op ra ord).commitIndex = (x.node i).commitIndex) :
    stepC x i op ra ord src = quietC x i ((x.node i).step op ra ord) := by
  have e1 : voteGrant i op ((x.node i).step op ra ord) = [] := by cases op <;> first | rfl | exact hop.elim
  have e2 : selfGrant i (x.node i) ((x.node i).step op ra ord) = [] := by
    unfold selfGrant; rw [if_neg (by rw [ht]; omega)]
  have e3 : countedBy i (x.node i) op src = [] := by cases op <;> first | rfl | exact hop.elim
  have e4 : newCreated i (x.node i).log.entries ((x.node i).step op ra ord).log.entries op = [] := by
    rw [hl]
    cases op <;> first | exact hop.elim | (show chainOf i _ (List.drop _ _) = []; rw [List.drop_length]; rfl)
  have e5 : ackOf i op ((x.node i).step op ra ord) = [] := by cases op <;> first | rfl | exact hop.elim
  have hlc : ¬ LeaderCommit op (x.node i) ((x.node i).step op ra ord) := by
    intro h; have := h.2; rw [hc] at this; omega
  have e6 : selfAck i op (x.node i) ((x.node i).step op ra ord) = [] := by unfold selfAck; rw [if_neg hlc]
  have e7 : campOf i (x.node i) ((x.node i).step op ra ord) = [] := by
    unfold campOf; rw [if_neg (by rw [ht]; omega)]
  have e8 : newCommit op (x.node i) ((x.node i).step op ra ord) = [] := by unfold newCommit; rw [if_neg hlc]
  unfold stepC stepRp stepSys quietC
  simp only [Commit.Sys.node] at *
  rw [e1, e2, e3, e4, e5, e6, e7, e8]
  rfl


/-! ### the snapshot goroutine -/

/-- `snapRun` keeps the snapshot data right: a new file is the state machine's `(index, applied)`, which fits the
log because the state machine holds the payloads of the applied prefix (`FsmOK`) -/
theorem snapRun_snapOK (s : Node) (h : SnapOK s) (hf : FsmOK 0 s) :
    SnapOK s.snapRun ∧ s.snapIndex ≤ s.snapRun.snapIndex ∧
    ∀ g ∈ s.snapRun.snapsDisk, g ∈ s.snapsDisk ∨
      (1 ≤ g.index ∧ g.index ≤ s.snapRun.snapIndex ∧ g.data = ups (s.log.entries.take g.index)) := by
  obtain ⟨o1, o2, _⟩ := snapRun_obs s
  have hlog : s.snapRun.log = s.log := congrArg (fun p => p.2.2.2.2.2.1) o1
  have hci : s.snapRun.commitIndex = s.commitIndex := congrArg (fun p => p.1) o2
  have hfsm : s.snapRun.fsm = s.fsm := congrArg (fun p => p.2.1) o2
  have hret : s.snapRun.retain = s.retain := by
    unfold Node.snapRun
    split
    · rfl
    · dsimp only
      repeat' split
      all_goals rfl
  have same : s.snapRun.snapsDisk = s.snapsDisk → s.snapRun.snapIndex = s.snapIndex →
      SnapOK s.snapRun ∧ s.snapIndex ≤ s.snapRun.snapIndex ∧
      ∀ g ∈ s.snapRun.snapsDisk, g ∈ s.snapsDisk ∨
        (1 ≤ g.index ∧ g.index ≤ s.snapRun.snapIndex ∧ g.data = ups (s.log.entries.take g.index)) := by
    intro e1 e2
    refine ⟨⟨by rw [hret]; exact h.retain, by rw [hlog, hci, e1]; exact h.files, by rw [e1, e2]; exact h.head,
      by rw [e2, hfsm]; exact h.le⟩, by rw [e2]; exact Nat.le_refl _, fun g hg => Or.inl (by rw [← e1]; exact hg)⟩
  cases hp : s.snapPending with
  | none => rw [C09.snapRun_idle s hp]; rw [C09.snapRun_idle s hp] at same; exact same rfl rfl
  | some rq =>
    by_cases hr : s.fsm.index = s.snapIndex ∨ s.fsm.index < rq.minIndex
    · obtain ⟨e1, e2, _⟩ := (C09.snapRun_refusal s rq hp).2 hr
      exact same e1 e2
    · have hne : s.fsm.index ≠ s.snapIndex := fun e => hr (Or.inl e)
      have hge : rq.minIndex ≤ s.fsm.index := Nat.le_of_not_lt (fun e => hr (Or.inr e))
      have hle := h.le
      obtain ⟨e1, e2, _⟩ := C09.snapshot_at_applied_index s rq hp hne hge
      have hlt : (headOf s.snapsDisk).index < (C09.snapFileOf s rq).index := by
        show _ < s.fsm.index
        rw [← h.head]
        have := h.le
        omega
      have hpos : 1 ≤ (C09.snapFileOf s rq).index := by show 1 ≤ s.fsm.index; omega
      obtain ⟨c1, c2⟩ := h.files.cons (C09.snapFileOf s rq) hpos hf.le hf.applied hlt
      obtain ⟨r, hr'⟩ : ∃ r, s.retain = r + 1 := ⟨s.retain - 1, by have := h.retain; omega⟩
      have htake : s.snapRun.snapsDisk = C09.snapFileOf s rq :: s.snapsDisk.take r := by
        rw [e1, c1, hr']; rfl
      have hsub : (C09.snapFileOf s rq :: s.snapsDisk.take r).Sublist (C09.snapFileOf s rq :: s.snapsDisk) :=
        (List.take_sublist r s.snapsDisk).cons_cons _
      refine ⟨⟨by rw [hret]; exact h.retain, ?_, ?_, by rw [e2, hfsm]; exact Nat.le_refl _⟩,
        by rw [e2]; exact h.le, fun g hg => ?_⟩
      · rw [hlog, hci, htake]; exact c2.sub hsub
      · rw [e2, htake]; rfl
      · rw [htake] at hg
        rcases List.mem_cons.mp hg with rfl | hg
        · exact Or.inr ⟨hpos, by rw [e2]; exact Nat.le_refl _, hf.applied⟩
        · exact Or.inl (List.mem_of_mem_take hg)


/-- what a snapshot operation (`.snapRun`, or `.snapTaken` without compaction) does to a node -/
theorem robs_E (s : Node) : robs (E σ0 s) = (pobs s, 0, []) := rfl

/-- what a step that only concerns the snapshots (or only flushes / regroups the log) does to a node: the fields the
cluster invariants read are untouched — the log may be flushed further —, the snapshot files on disk stay consistent
with the log, new files are snapshots of a prefix of the log -/
structure SnapStep (pre post : Node) : Prop where
  feq : FieldEq (E σ0 post) (E σ0 pre)
  lobs : SnapSim.lobs post = SnapSim.lobs pre
  ok : SnapOK post
  mono : pre.snapIndex ≤ post.snapIndex
  files : ∀ g ∈ post.snapsDisk, g ∈ pre.snapsDisk ∨
    (1 ≤ g.index ∧ g.index ≤ post.snapIndex ∧ g.data = ups (pre.log.entries.take g.index))

theorem snapStep (s : Node) (op : Op) (ra : List Nat) (ord : List (List Nat)) (h : SnapOK s) (hf : FsmOK 0 s)
    (hop : op = .snapRun ∨ (op = .snapTaken ∧ (s.step op ra ord).log = s.log)) :
    SnapStep s (s.step op ra ord) := by
  rcases hop with rfl | ⟨rfl, hlog⟩
  · rw [snapRun_step_eq]
    have hb : SnapOK (s.begin ra ord) := ⟨h.retain, h.files, h.head, h.le⟩
    have hfb : FsmOK 0 (s.begin ra ord) := ⟨hf.le, hf.len, hf.applied, hf.mono⟩
    obtain ⟨a, b, c⟩ := snapRun_snapOK (s.begin ra ord) hb hfb
    obtain ⟨o1, o2, _⟩ := snapRun_obs (s.begin ra ord)
    exact ⟨fieldEq_of_robs (by rw [robs_E, robs_E, o1]; rfl), o2, a, b, c⟩
  · rw [snapTaken_step_eq] at hlog ⊢
    have hq := onSnapshotTaken_qobs (s.begin ra ord)
    obtain ⟨o1, o2⟩ := pobs_of_qobs hq hlog
    unfold qobs at hq
    simp only [Prod.mk.injEq] at hq
    obtain ⟨_, _, ⟨q1, _, q3⟩, _⟩ := hq
    have hret : (s.begin ra ord).onSnapshotTaken.retain = s.retain :=
      (snapTaken_step_eq s ra ord) ▸ step_retain s .snapTaken ra ord
    have hl2 := lfieldEq_of_lobs o2
    refine ⟨fieldEq_of_robs (by rw [robs_E, robs_E, o1]; rfl), o2, ?_, by rw [q1]; exact Nat.le_refl _,
      fun g hg => Or.inl (by rw [q3] at hg; exact hg)⟩
    refine ⟨by rw [hret]; exact h.retain, ?_, by rw [q1, q3]; exact h.head, by rw [q1, hl2.fsm]; exact h.le⟩
    rw [hlog, hl2.commitIndex, q3]
    exact h.files


theorem quietC_node_i (x : Commit.Sys) (i : Nat) (post : Node) : (quietC x i post).node i = post := by
  show setNode x.rp.el.node i post i = _
  rw [setNode_same]

theorem quietC_node_j (x : Commit.Sys) (i : Nat) (post : Node) {j : Nat} (hj : j ≠ i) :
    (quietC x i post).node j = x.node j := by
  show setNode x.rp.el.node i post j = _
  rw [setNode_other _ _ _ _ hj]

/-- in the view, a quiet step of the cluster is the quiet step of the view to any node with the same role and term,
up to the nodes -/
theorem eview_quietC (x : Commit.Sys) (i : Nat) (post post0 : Node) (hr : post0.role = post.role)
    (ht : post0.term = post.term) :
    eview (quietC x i post) = withNodes (quietC (eview x) i post0) (fun j => E σ0 ((quietC x i post).node j)) := by
  unfold eview withNodes quietC
  simp only [hr, ht]

/-- **node `i` moves to `post` by a step that only concerns the snapshots, or only flushes / regroups its log**
(`SnapStep`); nothing is acknowledged, created or committed -/
theorem sinv_quiet {V : List Nat} (hV : V.Nodup) {x : Snap.Sys} (hI : SInv V x) (hS : SideS V x) {i : Nat}
    (hi : i ≠ 0) {post : Node} (ss : SnapStep (x.node i) post) :
    SInv V { cs := quietC x.cs i post
             snaps := newSnaps i (x.node i).snapsDisk post.snapsDisk ++ x.snaps } := by
  have pe := ss.feq
  have le := lfieldEq_of_lobs ss.lobs
  have hlogeq : post.log.entries = (x.node i).log.entries := pe.entries
  -- the view makes a step that only clears the outputs of the previous step
  have h0 : ((eview x.cs).node i).step (.disconnected 0) [] [] = (E σ0 (x.node i)).begin [] [] :=
    step_disconnected0 _ [] []
  have en0 : Commit.Enabled (eview x.cs) i (.disconnected 0) 0 := by
    refine ⟨⟨hi, fun q hq => ?_, fun hc => ?_, trivial, fun q hq => ?_⟩, ⟨trivial, fun b hb => ?_, fun t c hc => ?_⟩,
      fun q hq => ?_, fun q hq => ?_, fun us hus => ?_⟩
    · cases hq
    · obtain ⟨_, _, _, he⟩ := hc; cases he
    · cases hq
    · cases hb
    · cases hc
    · cases hq
    · cases hq
    · cases hus
  have sc0 : SC V (eview x.cs) i (.disconnected 0) [] [] 0 := ⟨hV, hI.cinv, sideV_eview hS.sideV, en0⟩
  have hz : stepC (eview x.cs) i (.disconnected 0) [] [] 0 = quietC (eview x.cs) i ((E σ0 (x.node i)).begin [] []) := by
    rw [stepC_quiet (eview x.cs) i (.disconnected 0) [] [] 0 trivial (by rw [h0]; rfl) (by rw [h0]; rfl)
      (by rw [h0]; rfl), h0]
  have cz : CInv V (quietC (eview x.cs) i ((E σ0 (x.node i)).begin [] [])) := hz ▸ sc0.cinv
  have fz : FsmInv (quietC (eview x.cs) i ((E σ0 (x.node i)).begin [] [])) := by
    intro j
    by_cases hj : j = i
    · subst hj
      rw [quietC_node_i]
      have := (step_fb sc0 (hI.fsm j) (by rw [h0]; rfl)).1
      rw [h0] at this
      exact this
    · rw [quietC_node_j _ _ _ hj]; exact hI.fsm j
  have hview : eview (quietC x.cs i post) =
      withNodes (quietC (eview x.cs) i ((E σ0 (x.node i)).begin [] []))
        (fun j => E σ0 ((quietC x.cs i post).node j)) :=
    eview_quietC x.cs i _ _ pe.role.symm pe.term.symm
  have hb := bump_fe cz fz (N := fun j => E σ0 ((quietC x.cs i post).node j))
    (fun j => by
      by_cases hj : j = i
      · subst hj
        rw [quietC_node_i, quietC_node_i]
        exact ⟨pe.nid, pe.term, pe.votedFor, pe.durTerm, pe.durVote, pe.entries, pe.prev, pe.flushed, pe.lwf,
          pe.lastLogIndex, pe.lastLogTerm, pe.role, pe.votesNeeded, pe.snapIndex, pe.snapsDisk⟩
      · rw [quietC_node_j _ _ _ hj, quietC_node_j _ _ _ hj]
        exact fieldEq_of_robs rfl)
    (fun j => by
      left
      by_cases hj : j = i
      · subst hj
        rw [quietC_node_i, quietC_node_i]
        exact ⟨le.commitIndex, le.fsm, le.configs, le.numVoters, le.startIndex, le.repls, le.queue⟩
      · rw [quietC_node_j _ _ _ hj, quietC_node_j _ _ _ hj]
        exact lfieldEq_of_lobs rfl)
  refine ⟨by rw [hview]; exact hb.1, by rw [hview]; exact hb.2, fun j => ?_, fun p hp' => ?_⟩
  · show SnapOK ((quietC x.cs i post).node j)
    by_cases hj : j = i
    · subst hj; rw [quietC_node_i]; exact ss.ok
    · rw [quietC_node_j _ _ _ hj]; exact hI.snap j
  · show 1 ≤ p.2.index ∧ p.2.index ≤ ((quietC x.cs i post).node p.1).snapIndex ∧
      p.2.data = ups (((quietC x.cs i post).node p.1).log.entries.take p.2.index)
    rcases List.mem_append.mp hp' with hn | ho
    · unfold newSnaps at hn
      obtain ⟨g, hg, rfl⟩ := List.mem_map.mp hn
      obtain ⟨hg1, hg2⟩ := List.mem_filter.mp hg
      rw [quietC_node_i]
      rcases ss.files g hg1 with hin | ⟨a, b, c⟩
      · simp [hin] at hg2
      · exact ⟨a, b, by rw [hlogeq]; exact c⟩
    · obtain ⟨a, b, c⟩ := hI.ledger p ho
      by_cases hj : p.1 = i
      · rw [hj, quietC_node_i]
        rw [hj] at b c
        exact ⟨a, Nat.le_trans b ss.mono, by rw [hlogeq]; exact c⟩
      · rw [quietC_node_j _ _ _ hj]; exact ⟨a, b, c⟩

/-- **node `i` is replaced by `post`, which differs from it as after a step that only concerns the snapshots or only
flushes / regroups its log** (`SnapStep`); the ledgers stay as they are -/
theorem sinv_regroup {V : List Nat} {x : Snap.Sys} (hI : SInv V x) {i : Nat} {post : Node}
    (ss : SnapStep (x.node i) post) :
    SInv V { cs := withNodes x.cs (setNode x.cs.rp.el.node i post)
             snaps := newSnaps i (x.node i).snapsDisk post.snapsDisk ++ x.snaps } := by
  have pe := ss.feq
  have le := lfieldEq_of_lobs ss.lobs
  have hlogeq : post.log.entries = (x.node i).log.entries := pe.entries
  have hni : (withNodes x.cs (setNode x.cs.rp.el.node i post)).node i = post := setNode_same _ _ _
  have hnj : ∀ j, j ≠ i → (withNodes x.cs (setNode x.cs.rp.el.node i post)).node j = x.node j :=
    fun j hj => setNode_other _ _ _ _ hj
  have hview : eview (withNodes x.cs (setNode x.cs.rp.el.node i post)) =
      withNodes (eview x.cs) (fun j => E σ0 ((withNodes x.cs (setNode x.cs.rp.el.node i post)).node j)) := rfl
  have hb := bump_fe hI.cinv hI.fsm (N := fun j => E σ0 ((withNodes x.cs (setNode x.cs.rp.el.node i post)).node j))
    (fun j => by
      by_cases hj : j = i
      · subst hj
        rw [hni]
        exact pe
      · rw [hnj j hj]
        exact fieldEq_of_robs rfl)
    (fun j => by
      left
      by_cases hj : j = i
      · subst hj
        rw [hni]
        exact ⟨le.commitIndex, le.fsm, le.configs, le.numVoters, le.startIndex, le.repls, le.queue⟩
      · rw [hnj j hj]
        exact lfieldEq_of_lobs rfl)
  refine ⟨by rw [hview]; exact hb.1, by rw [hview]; exact hb.2, fun j => ?_, fun p hp' => ?_⟩
  · show SnapOK ((withNodes x.cs (setNode x.cs.rp.el.node i post)).node j)
    by_cases hj : j = i
    · subst hj; rw [hni]; exact ss.ok
    · rw [hnj j hj]; exact hI.snap j
  · show 1 ≤ p.2.index ∧ p.2.index ≤ ((withNodes x.cs (setNode x.cs.rp.el.node i post)).node p.1).snapIndex ∧
      p.2.data = ups (((withNodes x.cs (setNode x.cs.rp.el.node i post)).node p.1).log.entries.take p.2.index)
    rcases List.mem_append.mp hp' with hn | ho
    · unfold newSnaps at hn
      obtain ⟨g, hg, rfl⟩ := List.mem_map.mp hn
      obtain ⟨hg1, hg2⟩ := List.mem_filter.mp hg
      rw [hni]
      rcases ss.files g hg1 with hin | ⟨a, b, c⟩
      · simp [hin] at hg2
      · exact ⟨a, b, by rw [hlogeq]; exact c⟩
    · obtain ⟨a, b, c⟩ := hI.ledger p ho
      by_cases hj : p.1 = i
      · rw [hj, hni]
        rw [hj] at b c
        exact ⟨a, Nat.le_trans b ss.mono, by rw [hlogeq]; exact c⟩
      · rw [hnj _ hj]; exact ⟨a, b, c⟩

/-- **a completed snapshot operation** (`.snapRun`, or `.snapTaken` that does not compact) -/
theorem sinv_step_snap {V : List Nat} (hV : V.Nodup) {x : Snap.Sys} (hI : SInv V x) (hS : SideS V x) {i : Nat}
    {op : Op} {ra : List Nat} {ord : List (List Nat)} {src : Nat} (hi : i ≠ 0)
    (hop : op = .snapRun ∨ (op = .snapTaken ∧ ((x.node i).step op ra ord).log = (x.node i).log)) :
    SInv V { cs := stepC x.cs i op ra ord src
             snaps := newSnaps i (x.node i).snapsDisk ((x.node i).step op ra ord).snapsDisk ++ x.snaps } := by
  have fbi : FB (E σ0 (x.node i)) := hI.fsm i
  have hf : FsmOK 0 (x.node i) := ⟨fbi.fsm.le, fbi.fsm.len, fbi.fsm.applied, fbi.fsm.mono⟩
  have ss := snapStep (x.node i) op ra ord (hI.snap i) hf hop
  have le := lfieldEq_of_lobs ss.lobs
  have hq : QuietOp op := by rcases hop with rfl | ⟨rfl, _⟩ <;> trivial
  have hstep : stepC x.cs i op ra ord src = quietC x.cs i ((x.node i).step op ra ord) :=
    stepC_quiet x.cs i op ra ord src hq ss.feq.term ss.feq.entries le.commitIndex
  rw [hstep]
  exact sinv_quiet hV hI hS hi ss


/-! ### a crash: what the disk keeps of the committed prefix -/

theorem take_of_prefix_append {d pre es : List Entry} (hp : d <+: pre ++ es) {K : Nat} (h1 : K ≤ d.length)
    (h2 : K ≤ pre.length) : d.take K = pre.take K := by
  have hd : d = (pre ++ es).take d.length := (List.prefix_iff_eq_take.mp hp)
  rw [hd, List.take_take, Nat.min_eq_left h1, List.take_append_of_le_length h2]

/-- two paths of the tree that hold entries with the same term at index `K` agree up to `K` -/
theorem take_of_paths {T : List CEntry} (hU : Uniq T) {a b : List Entry} (pa : Path T a) (pb : Path T b) {K : Nat}
    (h1 : K ≤ a.length) (h2 : K ≤ b.length) (ht : termAt a K = termAt b K) : a.take K = b.take K := by
  by_cases h0 : K = 0
  · rw [h0]; rfl
  · apply List.ext_getElem?
    intro n
    rw [List.getElem?_take, List.getElem?_take]
    split
    · have := path_agree hU pa pb (k := K) (τ := termAt b K) ⟨by omega, h1, ht⟩ ⟨by omega, h2, rfl⟩ (n + 1) (by omega)
        (by omega)
      rw [Nat.add_sub_cancel] at this
      exact this
    · rfl

/-- **whatever the disk holds when the process dies** (`Raft.Commit`): up to the commit index, and as far as the
log on disk reaches, it holds the entries the log held before the step -/
theorem crash_keep {V : List Nat} {x : Commit.Sys} {i : Nat} {op : Op} {ra : List Nat} {ord : List (List Nat)}
    {src : Nat} (sc : SC V x i op ra ord src) (k K : Nat) (hK : K ≤ (x.node i).commitIndex)
    (hd : K ≤ (C05.crashDisk (x.node i) op ra ord k).log.entries.length) :
    (C05.crashDisk (x.node i) op ra ord k).log.entries.take K = (x.node i).log.entries.take K := by
  have hI := sc.inv
  have hn := nwf hI i
  by_cases h0 : K = 0
  · rw [h0]; rfl
  have hlen : K ≤ (x.node i).log.entries.length := (hI.cmt.cc i K (by omega) hK).1
  rcases SC.op_cases op with happ | ⟨q, rfl⟩
  · obtain ⟨es, te, _, hl⟩ := sc.newE happ
    rcases (sc.img k).within happ with w | w
    · exact take_of_prefix_append (es := []) (by rw [List.append_nil]; exact w) hd hlen
    · rw [hl] at w
      exact take_of_prefix_append w hd hlen
  · have hcases := C04Sys.crashDisk_cases (x.node i) (.append q) ra ord k
    generalize C05.crashDisk (x.node i) (.append q) ra ord k = d at hcases hd ⊢
    have hpre : (x.node i).durable.log.entries <+: (x.node i).log.entries := by
      rw [show (x.node i).durable.log = (x.node i).log.durable from rfl, durable_entries hn]
      exact List.take_prefix _ _
    by_cases hst : q.term < (x.node i).term
    · obtain ⟨s1, _, _, _, s5, _⟩ := append_stale (x.node i) q ra ord hst
      rcases hcases with e | ⟨p, hp, _⟩ | e
      · rw [e] at hd ⊢
        exact take_of_prefix_append (es := []) (by rw [List.append_nil]; exact hpre) hd hlen
      · rw [s5] at hp; cases hp
      · rw [e] at hd ⊢
        have : ((x.node i).step (.append q) ra ord).durable.log.entries <+: (x.node i).log.entries := by
          show ((x.node i).step (.append q) ra ord).log.durable.entries <+: _
          rw [s1]; exact hpre
        exact take_of_prefix_append (es := []) (by rw [List.append_nil]; exact this) hd hlen
    · obtain ⟨hq, fs⟩ := sc.fst hst
      have hnc := reqok hI (i := i) hq hst
      have hpath : Path x.T (x.node i).log.entries := log_path hI i
      have fi := follower_step (T := x.T) (x.node i) q ra ord hn (hI.rp.nodes i).2 (Or.inr (hI.rp.sent q hq))
      -- the disk: a path of the tree whose entries come from the old log or from the request
      have key : Path x.T d.log.entries ∧ ∀ e ∈ d.log.entries, e ∈ (x.node i).log.entries ∨ e ∈ q.entries := by
        rcases hcases with e | ⟨p, hp, e⟩ | e
        · rw [e]
          exact ⟨hpath.prefix hpre, fun e he => Or.inl (hpre.subset he)⟩
        · rw [e]
          have dk := fi.tr p hp
          exact ⟨⟨dk.2.2.1, dk.2.2.2⟩, (fs.tr p hp).src⟩
        · rw [e]
          have hpp : ((x.node i).step (.append q) ra ord).durable.log.entries <+:
              ((x.node i).step (.append q) ra ord).log.entries := by
            rw [show ((x.node i).step (.append q) ra ord).durable.log =
              ((x.node i).step (.append q) ra ord).log.durable from rfl, durable_entries fi.nwf]
            exact List.take_prefix _ _
          exact ⟨(Path.prefix ⟨fi.chain, fi.nwf.contig⟩ hpp), fun e he => fs.src e (hpp.subset he)⟩
      obtain ⟨pd, hsrc⟩ := key
      refine take_of_paths (uniq hI) pd hpath hd hlen ?_
      -- the entry at index `K` on disk
      have hKd : K - 1 < d.log.entries.length := by omega
      have hmem : d.log.entries[K - 1] ∈ d.log.entries := List.getElem_mem hKd
      have hidx : d.log.entries[K - 1].index = K := by rw [pd.2 (K - 1) hKd]; omega
      have hterm : termAt d.log.entries K = d.log.entries[K - 1].term := by
        unfold termAt
        rw [if_neg h0, List.getElem?_eq_getElem hKd]; rfl
      rw [hterm]
      rcases hsrc _ hmem with m | m
      · have := holds_of_mem hn.contig m
        rw [hidx] at this
        exact this.2.2.symm
      · have := hnc _ m (by rw [hidx]; exact hK)
        rw [hidx] at this
        exact this.symm


/-- the snapshot files on disk whenever the process dies fit the log and the commit index of the state the step
started from, and the newest is not older than the node's snapshot index -/
theorem crash_snaps (s : Node) (op : Op) (ra : List Nat) (ord : List (List Nat)) (k : Nat) (hok : OpOKS op)
    (h : SnapOK s) (hf : FsmOK 0 s) :
    FilesOK s.log.entries s.commitIndex (C05.crashDisk s op ra ord k).snaps ∧
    s.snapIndex ≤ (headOf (C05.crashDisk s op ra ord k).snaps).index := by
  have same : (C05.crashDisk s op ra ord k).snaps = s.snapsDisk →
      FilesOK s.log.entries s.commitIndex (C05.crashDisk s op ra ord k).snaps ∧
      s.snapIndex ≤ (headOf (C05.crashDisk s op ra ord k).snaps).index := by
    intro e; rw [e]; exact ⟨h.files, by rw [h.head]; exact Nat.le_refl _⟩
  by_cases hr : op = .snapRun
  · subst hr
    rcases (snap_crashDisk s .snapRun ra ord k (Or.inl rfl)).2 with e | ⟨rq, _, hp, hne, hge, e⟩
    · exact same e
    · have hlt : (headOf s.snapsDisk).index < (C09.snapFileOf s rq).index := by
        show _ < s.fsm.index
        rw [← h.head]
        have := h.le
        omega
      have hpos : 1 ≤ (C09.snapFileOf s rq).index := by have := h.le; show 1 ≤ s.fsm.index; omega
      obtain ⟨c1, c2⟩ := h.files.cons (C09.snapFileOf s rq) hpos hf.le hf.applied hlt
      have hle : s.snapIndex ≤ (C09.snapFileOf s rq).index := h.le
      rcases e with e | e
      · rw [e, c1]; exact ⟨c2, hle⟩
      · obtain ⟨r, hr'⟩ : ∃ r, s.retain = r + 1 := ⟨s.retain - 1, by have := h.retain; omega⟩
        rw [e, c1, hr']
        exact ⟨c2.sub ((List.take_sublist r s.snapsDisk).cons_cons _), hle⟩
  · apply same
    have hfr : ((s.step op ra ord).snapsDisk = s.snapsDisk) ∧ ∀ p ∈ (s.step op ra ord).trace, p.2.snaps = s.snapsDisk := by
      by_cases happ : ∃ q, op = .append q
      · obtain ⟨q, rfl⟩ := happ
        exact ⟨(append_snap_frame s q ra ord).2.2.1, (append_snap_frame s q ra ord).2.2.2⟩
      · have hpl : Plain op := by
          cases op <;> first | trivial | exact absurd rfl hr | exact hok | exact absurd ⟨_, rfl⟩ happ
        exact ⟨(step_snap_frame s op ra ord hpl).2.2.1, (step_snap_frame s op ra ord hpl).2.2.2⟩
    rcases C04Sys.crashDisk_cases s op ra ord k with e | ⟨p, hp, e⟩ | e
    · rw [e]; rfl
    · rw [e]; exact hfr.2 p hp
    · rw [e]; exact hfr.1

theorem crashC_node_i (x : Commit.Sys) (i : Nat) (op : Op) (n : Node) : (crashC x i op n).node i = n := by
  show setNode x.rp.el.node i n i = _
  rw [setNode_same]

theorem crashC_node_j (x : Commit.Sys) (i : Nat) (op : Op) (n : Node) {j : Nat} (hj : j ≠ i) :
    (crashC x i op n).node j = x.node j := by
  show setNode x.rp.el.node i n j = _
  rw [setNode_other _ _ _ _ hj]

/-- in the view, the state after a crash is the state after the view's crash, up to the nodes -/
theorem eview_crashC (x : Commit.Sys) (i : Nat) (op op' : Op) (n n0 : Node)
    (hnc : ∀ a b, newCreated i a b op' = newCreated i a b op) (hl : n0.log = n.log) (ht : n0.term = n.term)
    (hv : n0.votedFor = n.votedFor) :
    eview (crashC x i op n) = withNodes (crashC (eview x) i op' n0) (fun j => E σ0 ((crashC x i op n).node j)) := by
  unfold eview withNodes crashC crashRp campOf
  simp only [Commit.Sys.node, hnc, hl, ht, hv]
  rfl


theorem ups_nil : ups [] = [] := rfl

/-- **a crash at any storage point of any enabled operation, and the restart from disk (log, term, vote, snapshot
files)** -/
theorem sinv_crash {V : List Nat} (hV : V.Nodup) {x : Snap.Sys} (hI : SInv V x) (hS : SideS V x) {i : Nat}
    {op : Op} {ra : List Nat} {ord : List (List Nat)} {src k retain : Nat} {sor : Bool} {n : Node}
    (en : Snap.Enabled x.cs i op src) (hret : 1 ≤ retain)
    (hlog : op = .snapTaken → ((x.node i).step op ra ord).log = (x.node i).log)
    (hn : Node.restart (C05.crashDisk (x.node i) op ra ord k) retain sor = some n)
    (hprev : n.log.prev = 0) (hdec : ∀ e ∈ n.log.entries, e.typ = etConfig → e.cfg.isSome = true) :
    SInv V { cs := crashC x.cs i op n
             snaps := newSnaps i (x.node i).snapsDisk n.snapsDisk ++ x.snaps } := by
  have fbi : FB (E σ0 (x.node i)) := hI.fsm i
  have hf : FsmOK 0 (x.node i) := ⟨fbi.fsm.le, fbi.fsm.len, fbi.fsm.applied, fbi.fsm.mono⟩
  have so := hI.snap i
  obtain ⟨hfiles, hsn⟩ := crash_snaps (x.node i) op ra ord k en.ok2.1 so hf
  -- the crash of the view
  have hview : ∃ op' k', Commit.Enabled (eview x.cs) i op' src ∧
      C05.crashDisk (E σ0 (x.node i)) op' ra ord k' = eraseD σ0 (C05.crashDisk (x.node i) op ra ord k) ∧
      ∀ a b, newCreated i a b op' = newCreated i a b op := by
    by_cases hsnap : op = .snapRun ∨ op = .snapTaken
    · refine ⟨.disconnected 0, 0, ?_, ?_, ?_⟩
      · refine ⟨⟨en.id, fun q hq => ?_, fun hc => ?_, trivial, fun q hq => ?_⟩,
          ⟨trivial, fun b hb => ?_, fun t c hc => ?_⟩, fun q hq => ?_, fun q hq => ?_, fun us hus => ?_⟩
        · cases hq
        · obtain ⟨_, _, _, he⟩ := hc; cases he
        · cases hq
        · cases hb
        · cases hc
        · cases hq
        · cases hq
        · cases hus
      · have := (snap_crashDisk (x.node i) op ra ord k
          (hsnap.imp id (fun h => ⟨h, hlog h⟩))).1
        rw [this]; rfl
      · intro a b
        rcases hsnap with rfl | rfl <;> rfl
    · have h1 : op ≠ .snapRun := fun h => hsnap (Or.inl h)
      have h2 : op ≠ .snapTaken := fun h => hsnap (Or.inr h)
      exact ⟨eraseOp σ0 (x.node i) op, k, enabled_eview en h1 h2,
        crashDisk_E _ op _ ra ord (step_comm hI en h1 ra ord) k, fun a b => newCreated_E i op _ a b⟩
  obtain ⟨op', k', en', hdisk, hnc⟩ := hview
  generalize hd : C05.crashDisk (x.node i) op ra ord k = d at hn hfiles hsn hdisk
  have sc : SC V (eview x.cs) i op' ra ord src := ⟨hV, hI.cinv, sideV_eview hS.sideV, en'⟩
  -- the log on disk reaches the newest snapshot, and agrees with the old log up to there
  obtain ⟨hreach, hdp⟩ := restart_noreset d retain sor n hn hprev
  have hKci : (headOf d.snaps).index ≤ (x.node i).commitIndex := hfiles.head_le
  have hagree : ∀ K, K ≤ (headOf d.snaps).index → d.log.entries.take K = (x.node i).log.entries.take K := by
    intro K hK
    have hdisk' : C05.crashDisk ((eview x.cs).node i) op' ra ord k' = eraseD σ0 d := hdisk
    have := crash_keep sc k' K (Nat.le_trans hK hKci) (by rw [hdisk']; exact Nat.le_trans hK hreach)
    rw [hdisk'] at this
    exact this
  -- the restart without the snapshot files
  have hidx : ∀ f ∈ d.snaps, 1 ≤ f.index := fun f hf' => (hfiles.files f hf').1
  obtain ⟨n0, hn0, hp0, hrole, hretn, hsnaps, hsi, hci, hldr, htr, hlogn, hfsm⟩ :=
    restart_rel d retain sor n hn hprev hidx (by
      intro j h1 h2
      have hj : j - 1 < d.log.entries.length := by
        have : (headSnap d).index ≤ d.log.entries.length := hreach
        omega
      refine ⟨d.log.entries[j - 1], ?_, fun ht => ?_⟩
      · unfold NLog.get?
        rw [hdp, if_pos (by omega), Nat.sub_zero, List.getElem?_eq_getElem hj]
      · have hm : d.log.entries[j - 1] ∈ n.log.entries := by
          have := (restart_noreset d retain sor n hn hprev)
          have hl : n.log.entries = d.log.entries := by
            -- the restarted log is the log on disk (no reset)
            have hn' := hn
            unfold Node.restart at hn
            split at hn
            · cases hn
            · split at hn
              · cases hn
              · injection hn with hn
                have e0 : (restartNode d retain sor).log.entries =
                    (if staleLog d then NLog.reset (headSnap d).index else d.log).entries := rfl
                have e1 : staleLog d = false := restart_notstale d retain sor n hn' hprev
                rw [e1] at e0
                rw [← hn]
                split
                · have := (obs_fsmRestore (restartNode d retain sor)).1
                  have := congrArg (fun p => p.2.2.2.2.2.1.entries) this
                  exact this.trans e0
                · exact e0
          rw [hl]; exact List.getElem_mem hj
        have := hdec _ hm ht
        unfold Entry.config?
        rw [if_pos ht]
        cases hc : d.log.entries[j - 1].cfg with
        | none => rw [hc] at this; cases this
        | some c => rfl)
  have pe := fieldEq_of_robs (a := E σ0 n) (b := E σ0 n0) (by rw [robs_E, robs_E, hp0])
  have cc : CC V (eview x.cs) i op' ra ord src k' retain sor n0 := ⟨sc, by
    show Node.restart (C05.crashDisk (E σ0 (x.node i)) op' ra ord k') retain sor = some n0
    rw [hdisk]; exact hn0⟩
  have cz := cc.cinv
  obtain ⟨f1, f2, f3, f4, f5, f6, f7, f8, f9⟩ := cc.facts
  have hnwf0 : NWF n0 := by
    have := (cc.ry.nodes i).1
    rw [show (crashC (eview x.cs) i op' n0).rp.el.node i = n0 from cc.node_i] at this
    exact this
  have fz : FsmInv (crashC (eview x.cs) i op' n0) := by
    intro j
    by_cases hj : j = i
    · subst hj
      rw [cc.node_i]
      exact ⟨⟨by rw [f6]; exact Nat.zero_le _, by rw [f6]; exact Nat.zero_le _, by rw [f6]; rfl, Nat.zero_le _⟩,
        fun hl => by rw [f4] at hl; cases hl⟩
    · rw [cc.node_j hj]; exact hI.fsm j
  have hviewy : eview (crashC x.cs i op n) =
      withNodes (crashC (eview x.cs) i op' n0) (fun j => E σ0 ((crashC x.cs i op n).node j)) :=
    eview_crashC x.cs i op op' n n0 hnc (congrArg (fun p => p.2.2.2.2.2.1) hp0) pe.term.symm pe.votedFor.symm
  -- the restarted node: commit index = snapshot index, state machine restored
  have hKn : n.commitIndex = (headOf d.snaps).index := by rw [hci, hsi]; rfl
  have hlen : (headOf d.snaps).index ≤ n.log.entries.length := by rw [hlogn]; exact hreach
  have hfsmn : FsmOK 0 n ∧ n.snapIndex ≤ n.fsm.index := by
    rcases hfsm with ⟨e1, e2⟩ | ⟨hpos, f, hf1, hf2⟩
    · have e2' : (headOf d.snaps).index = 0 := e2
      refine ⟨⟨by rw [e1]; exact Nat.zero_le _, by rw [e1]; exact Nat.zero_le _, by rw [e1]; rfl, Nat.zero_le _⟩, ?_⟩
      rw [hsi, e2]; exact Nat.zero_le _
    · have hfh : headOf d.snaps = f := by unfold headOf; rw [hf1]; rfl
      have hfm : f ∈ d.snaps := by
        cases hs : d.snaps with
        | nil => rw [hs] at hf1; cases hf1
        | cons g gs => rw [hs] at hf1; injection hf1 with hf1; rw [← hf1]; exact List.mem_cons_self ..
      obtain ⟨_, _, hdat⟩ := hfiles.files f hfm
      refine ⟨⟨by rw [hf2, hKn, hfh]; exact Nat.le_refl _, by rw [hf2]; rw [hfh] at hlen; exact hlen, ?_,
        Nat.zero_le _⟩, by rw [hsi, hf2]; show (headOf d.snaps).index ≤ f.index; rw [hfh]; exact Nat.le_refl _⟩
      rw [hf2]
      show f.data = ups (n.log.entries.take f.index)
      rw [hdat, hlogn, hagree f.index (by rw [hfh]; exact Nat.le_refl _)]
  have hb := bump cz fz (N := fun j => E σ0 ((crashC x.cs i op n).node j))
    (fun j => by
      by_cases hj : j = i
      · subst hj
        rw [crashC_node_i, cc.node_i, robs_E, ← hp0]
        show _ = (pobs n0, n0.snapIndex, n0.snapsDisk)
        rw [hnwf0.snapIndex, hnwf0.snaps]
      · rw [crashC_node_j _ _ _ _ hj, cc.node_j hj]; rfl)
    (fun j => by
      by_cases hj : j = i
      · subst hj
        right
        rw [crashC_node_i]
        refine ⟨hrole, fun K h1 h2 => ?_, ⟨hfsmn.1.le, hfsmn.1.len, hfsmn.1.applied, hfsmn.1.mono⟩⟩
        have h2' : K ≤ (headOf d.snaps).index := by rw [← hKn]; exact h2
        have hKc : K ≤ (x.node j).commitIndex := Nat.le_trans h2' hKci
        obtain ⟨c1, c2⟩ := hI.cinv.cmt.cc j K h1 hKc
        refine ⟨Nat.le_trans h2' hlen, ?_⟩
        have hta : termAt n.log.entries K = termAt (x.node j).log.entries K := by
          rw [hlogn]
          have := hagree K h2'
          unfold termAt
          rw [if_neg (by omega), if_neg (by omega)]
          have e1 := congrArg (fun l => l[K - 1]?) this
          simp only [List.getElem?_take] at e1
          rw [if_pos (by omega), if_pos (by omega)] at e1
          rw [e1]
        show Cmt _ (K, termAt n.log.entries K) n.term
        rw [hta]
        have hterm : ((eview x.cs).node j).term ≤ n.term := by
          have := cc.ext.term j
          rw [cc.node_i] at this
          have e : n.term = n0.term := pe.term
          rw [e]
          exact this
        exact cc.ext.cmt hterm c2
      · left
        rw [crashC_node_j _ _ _ _ hj, cc.node_j hj]; rfl)
  refine ⟨by rw [hviewy]; exact hb.1, by rw [hviewy]; exact hb.2, fun j => ?_, fun p hp' => ?_⟩
  · show SnapOK ((crashC x.cs i op n).node j)
    by_cases hj : j = i
    · subst hj
      rw [crashC_node_i]
      refine ⟨by rw [hretn]; exact hret, ?_, by rw [hsi, hsnaps]; rfl, hfsmn.2⟩
      rw [hsnaps, hKn]
      refine ⟨fun g hg => ?_, hfiles.sorted⟩
      obtain ⟨a, _, c⟩ := hfiles.files g hg
      have hgl := hfiles.le_head g hg
      exact ⟨a, hgl, by rw [c, hlogn, hagree g.index hgl]⟩
    · rw [crashC_node_j _ _ _ _ hj]; exact hI.snap j
  · show 1 ≤ p.2.index ∧ p.2.index ≤ ((crashC x.cs i op n).node p.1).snapIndex ∧
      p.2.data = ups (((crashC x.cs i op n).node p.1).log.entries.take p.2.index)
    rcases List.mem_append.mp hp' with hnw | ho
    · unfold newSnaps at hnw
      obtain ⟨g, hg, rfl⟩ := List.mem_map.mp hnw
      obtain ⟨hg1, _⟩ := List.mem_filter.mp hg
      rw [crashC_node_i]
      rw [hsnaps] at hg1
      obtain ⟨a, _, c⟩ := hfiles.files g hg1
      have hgl := hfiles.le_head g hg1
      exact ⟨a, by rw [hsi]; exact hgl, by rw [c, hlogn, hagree g.index hgl]⟩
    · obtain ⟨a, b, c⟩ := hI.ledger p ho
      by_cases hj : p.1 = i
      · rw [hj, crashC_node_i]
        rw [hj] at b c
        have hle : p.2.index ≤ (headOf d.snaps).index := Nat.le_trans b hsn
        exact ⟨a, by rw [hsi]; exact hle, by rw [c, hlogn, hagree p.2.index hle]⟩
      · rw [crashC_node_j _ _ _ _ hj]; exact ⟨a, b, c⟩


/-! ### sending, initial states, every reachable state -/

theorem sinv_send {V : List Nat} (hV : V.Nodup) {x : Snap.Sys} (hI : SInv V x) {i : Nat} {q : AppendReq}
    (hi : i ≠ 0) (hl : (x.node i).role = .leader) (hr : ReadFrom (x.node i) q)
    (hc : q.ldrCommitIndex ≤ (x.node i).commitIndex) : SInv V { x with cs := sendC x.cs q } := by
  refine ⟨?_, fun j => hI.fsm j, fun j => hI.snap j, hI.ledger⟩
  show CInv V (sendC (eview x.cs) q)
  exact cinv_send hV hI.cinv (i := i) hi hl ⟨hr.term, hr.src, hr.prev, hr.prevTerm, hr.entries⟩ hc

theorem sinv_init {V : List Nat} {x : Snap.Sys} (h : Snap.Init x) : SInv V x := by
  have hn : ∀ j, NWF (x.node j) := fun j => (h.cs.rp.nodes j).1
  have hb := bump (V := V) (Commit.inv_init V x.cs h.cs) (fsmInv_init h.cs) (N := fun j => E σ0 (x.node j))
    (fun j => by rw [robs_E]; show _ = (pobs (x.node j), (x.node j).snapIndex, (x.node j).snapsDisk)
                 rw [(hn j).snapIndex, (hn j).snaps])
    (fun j => Or.inl rfl)
  refine ⟨hb.1, hb.2, fun j => ?_, fun p hp => by rw [h.snaps] at hp; cases hp⟩
  refine ⟨h.retain j, by rw [(hn j).snaps]; exact FilesOK.nil _ _, by rw [(hn j).snapIndex, (hn j).snaps]; rfl,
    by rw [(hn j).snapIndex]; exact Nat.zero_le _⟩

/-- **a transition preserves the invariant** -/
theorem inv_trans {V : List Nat} (hV : V.Nodup) {x y : Snap.Sys} (hI : SInv V x) (hS : SideS V x)
    (ht : Snap.Trans x y) (hS' : SideS V y) : SInv V y := by
  cases ht with
  | step i op ra ord src en hp hlog =>
    by_cases hsnap : op = .snapRun ∨ op = .snapTaken
    · exact sinv_step_snap hV hI hS en.id (hsnap.imp id (fun h => ⟨h, hlog h⟩))
    · exact sinv_step_old hV hI hS en hp (fun h => hsnap (Or.inl h)) (fun h => hsnap (Or.inr h))
  | crash i op ra ord src k retain sor n en hret hlog hn =>
    have hp : n.log.prev = 0 := by
      have := hS'.prev i
      rw [show ({ cs := crashC x.cs i op n, snaps := _ } : Snap.Sys).node i = n from crashC_node_i x.cs i op n] at this
      exact this
    have hdec : ∀ e ∈ n.log.entries, e.typ = etConfig → e.cfg.isSome = true := by
      have := hS'.dec i
      rw [show (crashC x.cs i op n).node i = n from crashC_node_i x.cs i op n] at this
      exact this
    exact sinv_crash hV hI hS en hret hlog hn hp hdec
  | send i q hi hl hr hc => exact sinv_send hV hI hi hl hr hc

/-- **the invariant holds in every reachable state** -/
theorem inv_reachable {V : List Nat} (hV : V.Nodup) {x : Snap.Sys} (h : ReachableS V x) : SInv V x ∧ SideS V x := by
  induction h with
  | init x hi hs => exact ⟨sinv_init hi, hs⟩
  | next x y _ ht hs ih => exact ⟨inv_trans hV ih.1 ih.2 ht hs, hs⟩

end SnapInv
end Raft
