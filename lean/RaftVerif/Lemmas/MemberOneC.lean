/-
S36 — membership changes THROUGH single-voter configurations: the handlers around the leader block.
-/
import RaftVerif.Lemmas.MemberOneB

namespace Raft
namespace One
open Node CfgRel

/-- a failed outcome: any count -/
theorem rel_of_failed {t k k' : Nat} {x x' : Node} (h : TL.Rel t k x x') (hf : Failed x') : TL.Rel t k' x x' :=
  ⟨h.mono, fun e => absurd e hf, h.ok⟩

/-- **`leader.onChangeConfig`**, from a state satisfying the invariant `V`, for a submitted configuration with distinct
member ids: the invariant is kept (every configuration entry appended is `Link`ed to its predecessor), and — if a leader that
may change the configuration is a voter by its cached own entry (`Hs`) — the request's task is answered at once or attached
to EXACTLY ONE configuration entry: `Rel t (ind task t)`. -/
theorem onChangeConfig_one (s₀ : Node) (t : Nat) (ht : t ≠ 0) (x : Node) (task : Nat) (c : Config) (hV : V s₀ x)
    (hn : (c.nodes.map (·.id)).Nodup) (hs : Srt x.configs.latest → Srt c) :
    G s₀ x (x.onChangeConfig task c) ∧ (Hs x → TL.Rel t (TL.ind task t) x (x.onChangeConfig task c)) := by
  have rep : ∀ r, G s₀ x (x.reply task r) ∧ (Hs x → TL.Rel t (TL.ind task t) x (x.reply task r)) := fun r =>
    ⟨G.mk (hV.reply _ _) (Nat.le_of_eq (reply_fields x _ _).2.1.symm), fun _ => TL.rel_reply t ht x _ _⟩
  unfold Node.onChangeConfig
  split
  · exact rep _
  · rename_i hcm
    split
    · exact rep _
    · rename_i hst
      split
      · exact rep _
      · split
        · exact rep _
        · split
          · exact rep _
          · rename_i h1
            split
            · exact rep _
            · rename_i h2
              split
              · exact rep _
              · rename_i h3
                extract_lets lastIndex x1
                have hcm' : x.configs.isCommitted = true := by simpa using hcm
                have hst' : x.ldr.startIndex ≤ x.commitIndex := Nat.le_of_not_lt hst
                have hsv : SameVoters c x.configs.latest := validated_sameVoters h1 h2
                have hanch := validated_anchor hn h3
                obtain ⟨⟨gc, g⟩, o⟩ := (block s₀ t ht (fuelFor 0)).2.2.1 x task c hV (Or.inr hanch) (fun _ => ⟨hsv, hs⟩)
                obtain ⟨m, hrCA, _⟩ := (TL.block t ht (fuelFor 0)).2.2.2.2.1 x task c
                have hrDC := fun y => (TL.block t ht (fuelFor 1)).2.2.2.1 y task c
                have hfail : Failed x1 →
                    G s₀ x (if x1.lastLogIndex = lastIndex then doChangeConfig (fuelFor 1) x1 task c else x1) ∧
                    (Hs x → TL.Rel t (TL.ind task t) x
                      (if x1.lastLogIndex = lastIndex then doChangeConfig (fuelFor 1) x1 task c else x1)) := by
                  intro hf
                  split
                  · have hf' := (failed_block (fuelFor 1)).2.2.2.1 x1 task c hf
                    exact ⟨G.failed (LC.cdoChangeConfig _ _ _ gc) hf', fun _ => rel_of_failed (hrCA.trans (hrDC x1)) hf'⟩
                  · exact ⟨G.failed gc hf, fun _ => rel_of_failed hrCA hf⟩
                rcases o with o | ⟨o1, _, o3⟩ | ⟨o1, o2, o3, _⟩
                · exact hfail o
                · -- no action was started: the submitted configuration is stored as it is
                  rcases g with g | ⟨g1, _⟩
                  · exact hfail g
                  have hl : x1.lastLogIndex = lastIndex := (k0_eq o1).2.2.2.2.1
                  rw [if_pos hl]
                  have hcc : x1.canChangeConfig = x.canChangeConfig := canChange_k0 o1
                  by_cases hcan : Can x1
                  · obtain ⟨g2, _⟩ := (block s₀ t ht (fuelFor 1)).2.1 x1 task c c g1 hcan (Or.inl rfl)
                      (by rw [(k0_eq o1).1]; exact hsv) (by rw [(k0_eq o1).1]; exact hs) hanch
                    exact ⟨g2.of_le (Nat.le_of_eq hl.symm), fun hs => (o3 hs).then (hrDC x1)⟩
                  · have hd : x1.ldr.transfer.active = true ∨ x1.ldr.node.voter = false := by
                      cases ha : x1.ldr.transfer.active with
                      | true => exact Or.inl rfl
                      | false =>
                        right
                        cases hv : x1.ldr.node.voter with
                        | false => rfl
                        | true =>
                          exfalso
                          apply hcan
                          refine ⟨?_, hv⟩
                          unfold Node.canChangeConfig
                          rw [(k0_eq o1).1, ha, (k0_eq o1).2.2.1, (k0_eq o1).2.2.2.1, hcm']
                          simpa using hst'
                    have hk := dc_dormant (fuelFor 1) x1 task c hd
                    exact ⟨G.mk (g1.k1 hk (pan_of_failed ((failed_block (fuelFor 1)).2.2.2.1 x1 task c)))
                      (by rw [(k0_eq (k0_of_k1 hk)).2.2.2.2.1, hl]; exact Nat.le_refl _),
                      fun hs => (o3 hs).then (hrDC x1)⟩
                · have hl : ¬ x1.lastLogIndex = lastIndex := fun e => by
                    have : x.lastLogIndex < x1.lastLogIndex := o2
                    rw [e] at this
                    exact Nat.lt_irrefl _ this
                  rw [if_neg hl]
                  exact ⟨⟨gc, g⟩, fun _ => o3⟩

/-! ### the other leader handlers -/

/-- the invariant reads only: the cache view, the latest configuration, the log end, the log entries, the failure flag -/
theorem V.same {s₀ x y : Node} (h : V s₀ x) (hv : LC.view y = LC.view x) (h1 : y.configs.latest = x.configs.latest)
    (h2 : y.lastLogIndex = x.lastLogIndex) (h4 : y.log.entries = x.log.entries) (hp : Failed x → Failed y) : V s₀ y := by
  refine ⟨h.cache.congr hv, by rw [h1, h2]; exact h.li, by rw [h1]; exact h.anch, ?_, fun hy => ?_⟩
  · have : y.nid = x.nid := congrArg LC.CView.nid hv
    rw [this]; exact h.nid
  · obtain ⟨k, ext, e0, e1, e2⟩ := h.chain (pan_of_failed hp hy)
    exact ⟨k, ext, e0, by rw [h4]; exact e1, by rw [h1]; exact e2⟩

theorem G.refl {s₀ x : Node} (h : V s₀ x) : G s₀ x x := G.mk h (Nat.le_refl _)

theorem G.trans {s₀ x y z : Node} (h1 : G s₀ x y) (h2 : V s₀ y → G s₀ y z) (hc : LC.Cache z) (hf : Failed y → Failed z) :
    G s₀ x z := by
  rcases h1.2 with h | ⟨h, hl⟩
  · exact G.failed hc (hf h)
  · exact (h2 h).of_le hl

/-- a step that changes nothing the invariant reads -/
theorem G.same {s₀ x y z : Node} (h : G s₀ x y) (hv : LC.view z = LC.view y) (h1 : z.configs.latest = y.configs.latest)
    (h2 : z.lastLogIndex = y.lastLogIndex) (h4 : z.log.entries = y.log.entries) (hp : Failed y → Failed z) : G s₀ x z := by
  refine ⟨h.1.congr hv, ?_⟩
  rcases h.2 with hf | ⟨hV, hl⟩
  · exact Or.inl (hp hf)
  · exact Or.inr ⟨hV.same hv h1 h2 h4 hp, by rw [h2]; exact hl⟩

theorem ca_latest (s₀ : Node) (n : Nat) (x : Node) (task id : Nat) (hV : V s₀ x) :
    G s₀ x (checkConfigAction n x task x.configs.latest id) := by
  cases hf : x.findRepl? id with
  | none =>
    cases n with
    | zero => unfold checkConfigAction; exact G.failed (LC.cpanic _ hV.cache) (failed_panic x _)
    | succ n =>
      have : checkConfigAction (n + 1) x task x.configs.latest id = x := by unfold checkConfigAction; rw [hf]
      rw [this]; exact G.refl hV
  | some st => exact ((block s₀ 1 (by omega) n).2.2.2.1 x task _ id st hV hV.anch (J.refl x) hf).1

theorem setTerm_same (x : Node) (t : Nat) :
    (x.setTerm t).configs = x.configs ∧ (x.setTerm t).lastLogIndex = x.lastLogIndex ∧ (x.setTerm t).log = x.log ∧
    (Failed x → Failed (x.setTerm t)) := by
  unfold Node.setTerm
  split
  · split
    · obtain ⟨a, _, _, d, _, f, g⟩ := storeTermVote_fields x t 0
      exact ⟨a, d, f, fun h => by unfold Failed; rw [g]; exact h⟩
    · exact ⟨(panic_fields x _).2.2.2.2.2.2.2, (panic_fields x _).2.1, (panic_fields x _).1, (q_panic x _).pan⟩
  · exact ⟨rfl, rfl, rfl, id⟩

theorem failed_replUpdLoop (us : List ReplUpdate) (s : Node) (f : UpdFlags) (h : Failed s) : Failed (replUpdLoop s f us).1 :=
  (TL.replUpdLoop_rel 1 (by omega) s us s f (TL.Rel.refl 1 s)).mono h

theorem replUpdLoop_G (s₀ : Node) (us : List ReplUpdate) : ∀ (x : Node) (f : UpdFlags), V s₀ x →
    G s₀ x (replUpdLoop x f us).1 := by
  induction us with
  | nil => intro x f hV; exact G.refl hV
  | cons u us ih =>
    intro x f hV
    unfold replUpdLoop
    split
    · exact ih _ _ hV
    · split
      · exact ih _ _ hV
      · rename_i st hst
        have hset : ∀ r : Repl, LC.key r = LC.key st → V s₀ (x.setRepl r) := fun r hk =>
          hV.same (LC.view_setRepl x r st hV.cache.sortedRepls (LC.find_mem hst).1 hk) rfl rfl rfl id
        split
        · rename_i v _
          dsimp only
          have h1 := hset { st with matchIndex := v } rfl
          split
          · have g := ca_latest s₀ (fuelFor 0) _ 0 st.id h1
            exact G.trans (x := x) g (fun hv => ih _ _ hv) (LC.creplUpdLoop _ _ _ g.1) (failed_replUpdLoop _ _ _)
          · exact ih _ _ h1
        · exact ih _ _ (hset _ rfl)
        · exact ih _ _ (hset _ rfl)
        · dsimp only
          obtain ⟨a, b, c, d⟩ := setTerm_same ((x.setRole .follower).setLeader 0) ‹Nat›
          exact G.mk (hV.same (LC.view_setTerm _ _) (by rw [a]; rfl) (by rw [b]; rfl) (by rw [c]; rfl) d)
            (Nat.le_of_eq (by rw [b]; rfl))

theorem k1_checkQuorum (x : Node) : k1 x.checkQuorum = k1 x := by
  unfold Node.checkQuorum
  dsimp only
  split
  · split
    · exact k1_panic x _
    · rfl
  · split
    · exact k1_panic x _
    · rfl

theorem failed_checkQuorum (x : Node) (h : Failed x) : Failed x.checkQuorum := (TL.fk_checkQuorum x).mono h

theorem k1_tryTransfer (x : Node) : k1 x.tryTransfer = k1 x := by
  unfold Node.tryTransfer
  dsimp only
  repeat' split
  all_goals first
    | rfl
    | exact k1_panic _ _
    | exact (k1_panic _ _).trans rfl

theorem failed_tryTransfer (x : Node) (h : Failed x) : Failed x.tryTransfer := (TL.fk_tryTransfer x).mono h

theorem drop_drop_le {α : Type} (L : List α) (k d : Nat) : ∃ k', k' ≤ L.length ∧ (L.drop k).drop d = L.drop k' := by
  by_cases h : k + d ≤ L.length
  · exact ⟨k + d, h, by rw [List.drop_drop]⟩
  · refine ⟨L.length, Nat.le_refl _, ?_⟩
    rw [List.drop_drop, List.drop_length, List.drop_eq_nil_of_le (by omega)]

/-- compaction drops a prefix of the log -/
theorem V.compactLog {s₀ x : Node} (h : V s₀ x) (i : Nat) : V s₀ (x.compactLog i) := by
  refine ⟨LC.ccompactLog i h.cache, h.li, h.anch, h.nid, fun hp => ?_⟩
  obtain ⟨k, ext, _, e1, e2⟩ := h.chain hp
  have he : (x.compactLog i).log.entries = x.log.entries.drop (((NLog.dropLTE i x.log.segs).head?).getD x.log.prev - x.log.prev) := rfl
  obtain ⟨k', h1, h2⟩ := drop_drop_le (s₀.log.entries ++ ext) k (((NLog.dropLTE i x.log.segs).head?).getD x.log.prev - x.log.prev)
  exact ⟨k', ext, h1, by rw [he, e1]; exact h2, e2⟩

theorem V.checkLogCompact {s₀ x : Node} (h : V s₀ x) : V s₀ x.checkLogCompact := by
  unfold Node.checkLogCompact
  split
  · exact h
  · exact h.compactLog _

theorem checkReplUpdates_G (s₀ : Node) (x : Node) (us : List ReplUpdate) (hV : V s₀ x) : G s₀ x (x.checkReplUpdates us) := by
  unfold Node.checkReplUpdates
  extract_lets r s1 f s2 s3 s4
  have g1 : G s₀ x s1 := replUpdLoop_G s₀ us x {} hV
  have g2 : G s₀ x s2 := by
    unfold s2; split
    · exact G.trans g1 (fun hv => (block s₀ 1 (by omega) (fuelFor 0)).2.2.2.2.2.1 s1 hv) (LC.conMajorityCommit _ g1.1)
        ((failed_block (fuelFor 0)).2.2.2.2.2.2.2 s1)
    · exact g1
  have g3 : G s₀ x s3 := by
    unfold s3; split
    · have hk := k1_checkQuorum s2
      exact g2.same (view_k1 hk) (by rw [(k0_eq (k0_of_k1 hk)).1]) (k0_eq (k0_of_k1 hk)).2.2.2.2.1
        (k0_eq (k0_of_k1 hk)).2.2.2.2.2.2.2.1 (failed_checkQuorum s2)
    · exact g2
  have g4 : G s₀ x s4 := by
    unfold s4; split
    · refine ⟨LC.ccheckLogCompact g3.1, ?_⟩
      rcases g3.2 with h | ⟨h, hl⟩
      · exact Or.inl ((TL.fk_checkLogCompact s3).mono h)
      · refine Or.inr ⟨h.checkLogCompact, ?_⟩
        have : s3.checkLogCompact.lastLogIndex = s3.lastLogIndex := by
          unfold Node.checkLogCompact; split <;> rfl
        rw [this]; exact hl
    · exact g3
  split
  · exact g1
  · split
    · have hk := k1_tryTransfer s4
      exact g4.same (view_k1 hk) (by rw [(k0_eq (k0_of_k1 hk)).1]) (k0_eq (k0_of_k1 hk)).2.2.2.2.1
        (k0_eq (k0_of_k1 hk)).2.2.2.2.2.2.2.1 (failed_tryTransfer s4)
    · exact g4

/-- a change of the transfer record only -/
theorem V.withTransfer {s₀ x : Node} (h : V s₀ x) (tr : Transfer) : V s₀ (x.withLdr { x.ldr with transfer := tr }) :=
  h.same (LC.view_ldr _ _ rfl rfl rfl) rfl rfl rfl id

theorem V.transferReply {s₀ x : Node} (h : V s₀ x) (r : String) : V s₀ (x.transferReply r) := by
  unfold Node.transferReply
  exact (h.reply _ _).withTransfer _

theorem replyTransfer_G (s₀ : Node) (x : Node) (r : String) (hV : V s₀ x) : G s₀ x (x.replyTransfer r) := by
  unfold Node.replyTransfer
  have h1 := hV.transferReply r
  have hl : (x.transferReply r).lastLogIndex = x.lastLogIndex := by
    unfold Node.transferReply
    exact (reply_fields x _ _).2.1
  exact ((block s₀ 1 (by omega) (fuelFor 0)).2.2.1 _ 0 _ h1 h1.anch (J.refl _)).1.of_le (Nat.le_of_eq hl.symm)

theorem V.tryTransfer {s₀ x : Node} (h : V s₀ x) : V s₀ x.tryTransfer :=
  h.k1 (k1_tryTransfer x) (pan_of_failed (failed_tryTransfer x))

theorem lli_tryTransfer (x : Node) : x.tryTransfer.lastLogIndex = x.lastLogIndex :=
  (k0_eq (k0_of_k1 (k1_tryTransfer x))).2.2.2.2.1

theorem onTimeoutNowResult_G (s₀ : Node) (x : Node) (src : Nat) (err : Bool) (result : Nat) (hV : V s₀ x) :
    G s₀ x (x.onTimeoutNowResult src err result) := by
  unfold Node.onTimeoutNowResult
  extract_lets l0 t0 s1 s2 l1 t1
  have h1 : V s₀ s1 := hV.withTransfer _
  split
  · have h2 : V s₀ s2 ∧ s2.lastLogIndex = x.lastLogIndex := by
      unfold s2
      split
      · rename_i r hr
        split
        · exact ⟨h1.same (LC.view_setRepl s1 _ r h1.cache.sortedRepls (LC.find_mem hr).1 rfl) rfl rfl rfl id, rfl⟩
        · exact ⟨h1, rfl⟩
      · exact ⟨h1.panic _, (panic_fields s1 _).2.1⟩
    split
    · exact G.mk h2.1.tryTransfer (by rw [lli_tryTransfer, h2.2]; exact Nat.le_refl _)
    · exact G.mk h2.1 (Nat.le_of_eq h2.2.symm)
  · split
    · split
      · exact replyTransfer_G s₀ s1 _ h1
      · exact G.mk h1.tryTransfer (by rw [lli_tryTransfer]; exact Nat.le_refl _)
    · exact G.mk (h1.withTransfer _) (Nat.le_refl _)

/-! ### the role after a leader's handler is never `candidate` -/

abbrev NC (x : Node) : Prop := x.role ≠ .candidate

theorem nc_reply {x : Node} (h : NC x) (t : Nat) (r : String) : NC (x.reply t r) := by
  unfold NC; rw [LC.role_reply]; exact h

theorem nc_panic {x : Node} (h : NC x) (site : String) : NC (x.panic site) := by
  unfold NC; rw [LC.role_panic]; exact h

theorem nc_onChangeConfig {x : Node} (h : NC x) (task : Nat) (c : Config) : NC (x.onChangeConfig task c) := by
  unfold Node.onChangeConfig
  dsimp only
  repeat' split
  all_goals first
    | exact nc_reply h _ _
    | exact (LC.notCandidate_closed.block _).2.2.2.1 _ _ _ ((LC.notCandidate_closed.block _).2.2.2.2.1 _ _ _ h)
    | exact (LC.notCandidate_closed.block _).2.2.2.2.1 _ _ _ h

theorem nc_replUpdLoop (us : List ReplUpdate) : ∀ (s : Node) (f : UpdFlags), NC s → NC (replUpdLoop s f us).1 := by
  induction us with
  | nil => intro s f h; exact h
  | cons u us ih =>
    intro s f h
    unfold replUpdLoop
    split
    · exact ih s f h
    · split
      · exact ih s f h
      · split
        · dsimp only
          apply ih
          split
          · exact (LC.notCandidate_closed.block _).2.2.2.2.2.1 _ _ _ _ (LC.notCandidate_closed.setRepl_inv _ _ h)
          · exact LC.notCandidate_closed.setRepl_inv _ _ h
        · exact ih _ _ (LC.notCandidate_closed.setRepl_inv _ _ h)
        · exact ih _ _ (LC.notCandidate_closed.setRepl_inv _ _ h)
        · show (Node.setTerm _ _).role ≠ _
          rw [LC.role_setTerm]
          exact fun x => by cases x

theorem role_checkQuorum (s : Node) : s.checkQuorum.role = s.role ∨ s.checkQuorum.role = .follower := by
  unfold Node.checkQuorum
  dsimp only
  repeat' split
  all_goals first | exact Or.inl rfl | exact Or.inr rfl | exact Or.inl (LC.role_panic _ _)

theorem role_tryTransfer (s : Node) : s.tryTransfer.role = s.role := by
  unfold Node.tryTransfer
  dsimp only
  repeat' split
  all_goals first | rfl | exact LC.role_panic _ _

theorem role_checkLogCompact (s : Node) : s.checkLogCompact.role = s.role := by
  unfold Node.checkLogCompact; split <;> rfl

theorem nc_checkReplUpdates {x : Node} (h : NC x) (us : List ReplUpdate) : NC (x.checkReplUpdates us) := by
  unfold Node.checkReplUpdates
  extract_lets r s1 f s2 s3 s4
  have h1 : NC s1 := nc_replUpdLoop us x {} h
  have h2 : NC s2 := by
    unfold s2; split
    · exact (LC.notCandidate_closed.block _).2.2.2.2.2.2.2 _ h1
    · exact h1
  have h3 : NC s3 := by
    unfold s3; split
    · rcases role_checkQuorum s2 with e | e
      · unfold NC; rw [e]; exact h2
      · unfold NC; rw [e]; exact fun x => by cases x
    · exact h2
  have h4 : NC s4 := by
    unfold s4; split
    · unfold NC; rw [role_checkLogCompact]; exact h3
    · exact h3
  split
  · exact h1
  · split
    · unfold NC; rw [role_tryTransfer]; exact h4
    · exact h4

theorem nc_replyTransfer {x : Node} (h : NC x) (r : String) : NC (x.replyTransfer r) := by
  unfold Node.replyTransfer
  exact (LC.notCandidate_closed.block _).2.2.2.2.1 _ _ _ (by rw [LC.role_transferReply]; exact h)

theorem nc_onTimeoutNowResult {x : Node} (h : NC x) (src : Nat) (err : Bool) (result : Nat) :
    NC (x.onTimeoutNowResult src err result) := by
  unfold Node.onTimeoutNowResult
  extract_lets l0 t0 s1 s2 l1 t1
  have h1 : NC s1 := h
  split
  · have h2 : NC s2 := by
      unfold s2
      split
      · split
        · exact h1
        · exact h1
      · exact nc_panic h1 _
    split
    · unfold NC; rw [role_tryTransfer]; exact h2
    · exact h2
  · split
    · split
      · exact nc_replyTransfer h1 _
      · unfold NC; rw [role_tryTransfer]; exact h1
    · exact h1

/-! ### `leader.init` -/

theorem k0_initBody (x : Node) (n : CNode) : k0 (LC.initBody x n) = k0 x := by
  unfold LC.initBody
  split
  · rfl
  · exact k0_addReplication x n

theorem failed_addReplication (x : Node) (n : CNode) (h : Failed x) : Failed (x.addReplication n) :=
  (q_addReplication x n).pan h

/-- the part of the invariant that does not read the `Leader` record (it holds of a node in any role) -/
structure PW (s₀ x : Node) : Prop where
  li : x.configs.latest.index ≤ x.lastLogIndex
  anch : AnchC x.configs.latest
  nid : x.nid = s₀.nid
  chain : x.panicked = none → LogChain s₀ x

theorem V.pw {s₀ x : Node} (h : V s₀ x) : PW s₀ x := ⟨h.li, h.anch, h.nid, h.chain⟩

theorem PW.v {s₀ x : Node} (h : PW s₀ x) (hc : LC.Cache x) : V s₀ x := ⟨hc, h.li, h.anch, h.nid, h.chain⟩

theorem PW.refl (s : Node) (hli : s.configs.latest.index ≤ s.lastLogIndex) (hanch : AnchC s.configs.latest) : PW s s :=
  ⟨hli, hanch, rfl, fun _ => LogChain.refl s⟩

/-- **`leader.init`** (a node that has just won an election; nothing is assumed of its stale `Leader` record): the entries it
appends — the no-op entry of its term and, on the single-voter fast path, whatever configuration changes the commit of that
entry sets off — extend the chain. -/
theorem leaderInit_G (s₀ s : Node) (hP : PW s₀ s) : G s₀ s s.leaderInit := by
  have hy : ∀ y : Node, y = (LC.initPre s).configs.latest.nodes.foldl LC.initBody (LC.initPre s) →
      LC.Cache y → G s₀ s (storeEntry (fuelFor 1) (checkConfigActions (fuelFor 0) y 0 y.configs.latest) [{ typ := etNop }]) := by
    intro y hy hc
    have hk : k0 y = (s.configs, false, s.commitIndex, s.lastLogIndex + 1, s.lastLogIndex, s.configs.latest.numVoters,
        s.configs.latest.get s.nid, s.log.entries, s.nid) := by
      rw [hy, k0_foldl _ k0_initBody]
      unfold LC.initPre
      dsimp only
      have := k0_of_k1 (k1_assert s (s.leader == s.nid) "assert.leaderInit")
      obtain ⟨a, _, c, _, e, _, _, h, i⟩ := k0_eq this
      unfold k0
      simp only [Node.withLdr]
      rw [a, c, e, h, i]
    obtain ⟨a, _, _, _, e, _, _, h, i⟩ := k0_tuple hk
    have hpan : y.panicked = none → s.panicked = none := by
      intro hp
      rw [hy] at hp
      refine pan_of_failed (fun hf => ?_) hp
      have h1 : Failed (LC.initPre s) := by
        unfold LC.initPre; dsimp only
        exact (q_assert s _ _).pan hf
      have : ∀ (l : List CNode) (z : Node), Failed z → Failed (l.foldl LC.initBody z) := by
        intro l
        induction l with
        | nil => intro z hz; exact hz
        | cons b bs ih =>
          intro z hz
          refine ih _ ?_
          unfold LC.initBody
          split
          · exact hz
          · exact failed_addReplication z b hz
      exact this _ _ h1
    have hV : V s₀ y := ⟨hc, by rw [a, e]; exact hP.li, by rw [a]; exact hP.anch, i.trans hP.nid, fun hp => by
      obtain ⟨k, ext, e0, e1, e2⟩ := hP.chain (hpan hp)
      exact ⟨k, ext, e0, by rw [h]; exact e1, by rw [a]; exact e2⟩⟩
    have g1 := ((block s₀ 1 (by omega) (fuelFor 0)).2.2.1 y 0 _ hV hV.anch (J.refl y)).1
    have g1' : G s₀ s (checkConfigActions (fuelFor 0) y 0 y.configs.latest) := g1.of_le (Nat.le_of_eq e.symm)
    exact G.trans g1' (fun hv => (block s₀ 1 (by omega) (fuelFor 1)).1.1 _ _ hv (fun q hq => by
        rw [List.mem_singleton.mp hq]; decide))
      (LC.cstoreEntry _ _ g1.1) ((failed_block (fuelFor 1)).1 _ _)
  exact hy _ rfl (LC.cache_initSync s)

end One
end Raft
