/-
Delayed compaction (`leader.checkLogCompact`), part F — the report protocol (Sys/SnapView.lean) composed with the node
model, for the step that compacts.

The protocol invariant `SnapView.QInv.j3`, read on a node `s` with the ghost `view` (first index of the view of each
replication goroutine) and the reports `q` waiting in `replUpdateCh`:
  `Coupled s q view` — for every replication status of `s`, the newest waiting report for it (its `removeLTE` if none
  waits) is the first index of the goroutine's view.
* `compaction_keeps_views_at_decision` — whatever the batch: if this holds, with nothing waiting, in the state in which
  `checkReplUpdates` takes the decision (`SnapDelay.updPre`), a delayed compaction leaves `log.prev ≤ view` for every
  replication.
* `reports_only_keeps_views` — for a batch that consists of exactly the waiting reports (`rmBatch q`: the leader drains
  the channel, nothing else is waiting): from `Coupled s q view` at the beginning of the step, for every ordered leader
  state, either nothing is compacted or `log.prev ≤ view j` afterwards for every replication `j` of `s`.
What is MISSING for an arbitrary batch (and for "every reachable state of a leader with its goroutines"): a frame lemma
for the replication statuses — that the mutually recursive leader block (`checkConfigAction`, `onMajorityCommit`, reached
from `matchIndex` updates), `checkQuorum`, and every other handler keep `ldr.removeLTE` and the `removeLTE` of every
status they keep, and create statuses with `removeLTE = ldr.removeLTE` only (whose goroutine starts with a view at the
bound).  The frameworks `Closed` / `StepClosedNC` (Lemmas/Inv.lean, StepInvNC.lean) cannot express it: their primitive
`ldr` allows ANY new leader record.  A variant with a guarded `ldr` (as `Order.inv_ldr_same` has for `ldr.removeLTE`
alone) and its `block` induction would give it.
-/
import RaftVerif.Lemmas.SnapDelayD
import RaftVerif.Sys.SnapView

namespace Raft
namespace SnapDelay
open Node SnapView

/-- the protocol invariant `QInv.j3` on a node: the newest waiting report of every replication — its status if none
waits — is the first index of the view its goroutine holds -/
def Coupled (s : Node) (q : List (Nat × Nat)) (view : Nat → Nat) : Prop :=
  ∀ r ∈ s.ldr.repls, latest q r.id r.removeLTE = view r.id

/-- **at the decision**: if every status is the first index of its goroutine's view when `checkReplUpdates` decides
(every waiting report has been taken), a delayed compaction leaves the log starting at or below every view -/
theorem compaction_keeps_views_at_decision (s : Node) (us : List ReplUpdate) (ra : List Nat) (ord : List (List Nat))
    (view : Nat → Nat) (hd : DelayedCompaction s us ra ord)
    (hc : Coupled (updPre (s.begin ra ord) us) [] view) :
    ∀ r ∈ (updPre (s.begin ra ord) us).ldr.repls, (s.step (.replUpdates us) ra ord).log.prev ≤ view r.id := by
  intro r hr
  have h1 := hd.all r hr
  have h2 : r.removeLTE = view r.id := hc r hr
  rw [← h2]
  exact Nat.le_trans hd.prev_le h1

/-- the batch that consists of the waiting reports -/
def rmBatch (q : List (Nat × Nat)) : List ReplUpdate := q.map (fun e => { id := e.1, upd := .removeLTE e.2 })

theorem find_none_ne {l : List Repl} {id : Nat} (h : l.find? (·.id == id) = none) : ∀ r ∈ l, r.id ≠ id := by
  intro r hr e
  have := List.find?_eq_none.mp h r hr
  simp [e] at this

theorem replUpdLoop_rm_cons (s : Node) (f : UpdFlags) (e : Nat × Nat) (q : List (Nat × Nat)) :
    replUpdLoop s f (rmBatch (e :: q)) =
      match s.findRepl? e.1 with
      | none => replUpdLoop s f (rmBatch q)
      | some st => replUpdLoop (s.setRepl { st with removeLTE := e.2 }) { f with removeLTEU := true } (rmBatch q) := by
  show replUpdLoop s f ({ id := e.1, upd := .removeLTE e.2 } :: rmBatch q) = _
  conv => lhs; unfold replUpdLoop
  rw [if_neg (by show ¬ (false = true); decide)]
  dsimp only
  cases s.findRepl? e.1 <;> rfl

/-- the loop of `checkReplUpdates` over the waiting reports: the statuses become the first indexes of the views; nothing
else of the leader record that the compaction decision reads changes -/
theorem replUpdLoop_reports (view : Nat → Nat) (q : List (Nat × Nat)) : ∀ (s : Node) (f : UpdFlags),
    LC.Sorted s.ldr.repls → Coupled s q view →
    (replUpdLoop s f (rmBatch q)).2.matchU = f.matchU ∧ (replUpdLoop s f (rmBatch q)).2.noContactU = f.noContactU ∧
    (replUpdLoop s f (rmBatch q)).2.stop = f.stop ∧
    Coupled (replUpdLoop s f (rmBatch q)).1 [] view ∧
    (∀ r ∈ s.ldr.repls, ∃ r' ∈ (replUpdLoop s f (rmBatch q)).1.ldr.repls, r'.id = r.id) ∧
    (replUpdLoop s f (rmBatch q)).1.role = s.role ∧
    (∀ r' ∈ (replUpdLoop s f (rmBatch q)).1.ldr.repls, ∃ r ∈ s.ldr.repls, r.id = r'.id) := by
  induction q with
  | nil =>
    intro s f _ hc
    exact ⟨rfl, rfl, rfl, hc, fun r hr => ⟨r, hr, rfl⟩, rfl, fun r hr => ⟨r, hr, rfl⟩⟩
  | cons e q ih =>
    intro s f hs hc
    rw [replUpdLoop_rm_cons]
    cases hf : s.findRepl? e.1 with
    | none =>
      dsimp only
      have hne := find_none_ne hf
      have hc' : Coupled s q view := by
        intro r hr
        have := hc r hr
        show latest q r.id r.removeLTE = _
        have e1 : latest (e :: q) r.id r.removeLTE = latest q r.id (if e.1 = r.id then e.2 else r.removeLTE) := rfl
        rw [e1, if_neg (fun h => hne r hr h.symm)] at this
        exact this
      exact ih s f hs hc'
    | some st =>
      dsimp only
      obtain ⟨hmem, hid⟩ := LC.find_mem hf
      have hs' : LC.Sorted (s.setRepl { st with removeLTE := e.2 }).ldr.repls :=
        LC.sorted_insertRepl _ _ hs
      have hc' : Coupled (s.setRepl { st with removeLTE := e.2 }) q view := by
        intro r hr
        rcases LC.mem_insertRepl _ r _ hs hr with h | ⟨h1, h2⟩
        · rw [h]
          have := hc st hmem
          have e1 : latest (e :: q) st.id st.removeLTE = latest q st.id (if e.1 = st.id then e.2 else st.removeLTE) := rfl
          rw [e1, if_pos hid.symm] at this
          exact this
        · have := hc r h1
          have e1 : latest (e :: q) r.id r.removeLTE = latest q r.id (if e.1 = r.id then e.2 else r.removeLTE) := rfl
          have hne : ¬ e.1 = r.id := by
            intro h
            apply h2
            show r.id = st.id
            rw [hid, h]
          rw [e1, if_neg hne] at this
          exact this
      obtain ⟨i1, i2, i3, i4, i5, i6, i7⟩ :=
        ih (s.setRepl { st with removeLTE := e.2 }) { f with removeLTEU := true } hs' hc'
      refine ⟨i1, i2, i3, i4, fun r hr => ?_, i6, fun r' hr' => ?_⟩
      · by_cases hrid : r.id = st.id
        · obtain ⟨r', hr', e'⟩ := i5 { st with removeLTE := e.2 } (LC.mem_insertRepl_self _ _)
          exact ⟨r', hr', by rw [e', hrid]⟩
        · exact i5 r (LC.mem_insertRepl_of_mem _ r _ hr hrid)
      · obtain ⟨r, hr, er⟩ := i7 r' hr'
        rcases LC.mem_insertRepl _ r _ hs hr with h | ⟨h1, _⟩
        · exact ⟨st, hmem, by rw [← er, h]⟩
        · exact ⟨r, h1, er⟩

theorem updPre_reports (view : Nat → Nat) (q : List (Nat × Nat)) (s : Node)
    (hs : LC.Sorted s.ldr.repls) (hc : Coupled s q view) :
    updPre s (rmBatch q) = (replUpdLoop s {} (rmBatch q)).1 := by
  obtain ⟨h1, h2, _⟩ := replUpdLoop_reports view q s {} hs hc
  unfold updPre
  dsimp only
  rw [h1, h2]
  rfl

/-- **The delayed compaction never removes an entry of the view of a running replication — node level, for a batch
that consists of the waiting reports (partial).** Let `s` be an ordered state of a leader whose replication table is
sorted by id (`C06Cache.LeaderCache`), `view j` the first index of the view the goroutine of replication `j` holds and
`q` the `removeLTE` reports waiting in `replUpdateCh`, coupled as in every reachable state of the report protocol
(`Coupled`: `SnapView.QInv.j3`, proved for the repaired `onLeaderUpdate` by `SnapView.qinv_reach`). Let the leader take
exactly these reports (`.replUpdates (rmBatch q)`) without failing. Then either the step is the step without compaction,
or the log afterwards starts at or below the first index of the view of EVERY replication of `s`. -/
theorem reports_only_keeps_views (s : Node) (q : List (Nat × Nat)) (view : Nat → Nat) (ra : List Nat)
    (ord : List (List Nat)) (ho : Order.Ordered s) (hl : s.role = .leader) (hC : C06Cache.LeaderCache s)
    (hc : Coupled s q view) (hp : (s.step (.replUpdates (rmBatch q)) ra ord).panicked = none) :
    s.step (.replUpdates (rmBatch q)) ra ord = stepNC s (rmBatch q) ra ord ∨
    ∀ r ∈ s.ldr.repls, (s.step (.replUpdates (rmBatch q)) ra ord).log.prev ≤ view r.id := by
  rcases delayed_compaction_node s (rmBatch q) ra ord ho hp with e | hd
  · exact Or.inl e
  · right
    have hs : LC.Sorted (s.begin ra ord).ldr.repls := ((C06Cache.cacheOK_iff s).mp (hC hl)).sortedRepls
    have hcb : Coupled (s.begin ra ord) q view := hc
    obtain ⟨_, _, _, i4, i5, _, _⟩ := replUpdLoop_reports view q (s.begin ra ord) {} hs hcb
    have hpre := updPre_reports view q (s.begin ra ord) hs hcb
    have key := compaction_keeps_views_at_decision s (rmBatch q) ra ord view hd (by rw [hpre]; exact i4)
    intro r hr
    obtain ⟨r', hr', e'⟩ := i5 r hr
    have := key r' (by rw [hpre]; exact hr')
    rw [e'] at this
    exact this

end SnapDelay
end Raft
