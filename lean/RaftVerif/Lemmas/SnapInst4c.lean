/-
The per-node invariants `C12Track.Tracks` and `Order.Ordered` along the runs of the cluster system with installation of
snapshots (Sys/Snap4.lean), part 3: every run of `Raft.Snap4` is a run of `Raft.Snap3` — the premise `TermTracked` of the
latter holds because every node is tracking — on which every node is tracking and ordered (`reach4`).
-/
import RaftVerif.Lemmas.SnapInst4b

namespace Raft
namespace SnapInst4
open Node Election LogRel Replication CommitRel Commit C02Sys C03Sys SnapRel SnapRelU SnapSim Snap Snap2 SnapInv SnapInv2
open SnapInst SnapInstU Snap3 SnapInst3 Snap4

section
variable {V : List Nat}

/-- what the runs of `Raft.Snap4` carry in addition to the invariant of `Raft.Snap3` -/
structure Inv4 (x : Snap3.Sys) : Prop where
  tracks : ∀ i, C12Track.Tracks (x.node i)
  ord : ∀ i, Order.Ordered (x.node i)
  /-- the label of an install request on the wire is a configuration its snapshot covers -/
  mlab : ∀ m ∈ x.sentSnaps, m.q.lastConfig.index ≤ m.q.lastIndex

/-- a tracking node satisfies the premise of a `.snapRun` step -/
theorem termTracked_of (s : Node) (ht : C12Track.Tracks s) (op : Op) : TermTracked s op := by
  cases op <;> first | trivial | exact C12Track.tracks_term s ht

/-- a transition of `Raft.Snap4` from a state in which every node is tracking is a transition of `Raft.Snap3` -/
theorem trans4_trans3 {x y : Snap3.Sys} (ht : Snap4.Trans x y) (hT : ∀ i, C12Track.Tracks (x.node i)) :
    Snap3.Trans x y := by
  cases ht with
  | step i op ra ord src en hp => exact .step i op ra ord src en hp (termTracked_of _ (hT i) op)
  | crash i op ra ord src k retain sor n en hret hp hnc hst hn =>
    exact .crash i op ra ord src k retain sor n en hret hp hnc (termTracked_of _ (hT i) op) hst hn
  | send i q hi hl hr hc => exact .send i q hi hl hr hc
  | sendSnap i q hi hl hr => exact .sendSnap i q hi hl hr
  | install i m ra ord hi hm hp => exact .install i m ra ord hi hm hp
  | crashInstall i m ra ord k retain sor n hi hm hret hp hold hn =>
    exact .crashInstall i m ra ord k retain sor n hi hm hret hp hold hn

/-- **the per-node invariants are preserved by every transition** -/
theorem inv4_trans (hV : V.Nodup) {x y : Snap3.Sys} (h3 : Reachable3 V x) (hI4 : Inv4 x) (hS : Side4 V x)
    (ht : Snap4.Trans x y) (hS' : Side4 V y) : Inv4 y := by
  have hI := (inv3_reachable hV h3).1
  have h3y : Reachable3 V y := .next x y h3 (trans4_trans3 ht hI4.tracks) hS'.side
  have hIy := (inv3_reachable hV h3y).1
  cases ht with
  | step i op ra ord src en hp =>
    have hr := reqOk_old hI en (hS.cfg i)
    refine ⟨fun j => ?_, fun j => ?_, hI4.mlab⟩
    · by_cases hj : j = i
      · subst hj
        show C12Track.Tracks ((stepS x.s2 j op ra ord src).node j)
        rw [stepS_node_i]
        exact C12Track.tracks_step _ op ra ord (hI4.tracks j) (hI4.ord j) hr hp
      · show C12Track.Tracks ((stepS x.s2 i op ra ord src).node j)
        rw [stepS_node_j _ _ _ _ _ _ hj]; exact hI4.tracks j
    · by_cases hj : j = i
      · subst hj
        show Order.Ordered ((stepS x.s2 j op ra ord src).node j)
        rw [stepS_node_i]
        exact C19Order.ordered_step _ op ra ord (hI4.ord j) hr hp
      · show Order.Ordered ((stepS x.s2 i op ra ord src).node j)
        rw [stepS_node_j _ _ _ _ _ _ hj]; exact hI4.ord j
  | crash i op ra ord src k retain sor n en hret hp hnc hst hn =>
    have hr := reqOk_old hI en (hS.cfg i)
    refine ⟨fun j => ?_, fun j => ?_, hI4.mlab⟩
    · by_cases hj : j = i
      · subst hj
        show C12Track.Tracks ((crashS x.s2 j op n).node j)
        rw [crashS_node_i]
        exact crash_tracks hV hI hS.side en hret hp hnc (termTracked_of _ (hI4.tracks j) op) hst hn hIy hS'.side
          (hI4.tracks j) (hI4.ord j) hr
      · show C12Track.Tracks ((crashS x.s2 i op n).node j)
        rw [crashS_node_j _ _ _ _ hj]; exact hI4.tracks j
    · by_cases hj : j = i
      · subst hj
        refine ordered_assemble hIy hS' j ?_
        show ((crashS x.s2 j op n).node j).ldr.removeLTE ≤ _
        rw [crashS_node_i, restart_ldr _ retain sor n hn]
        exact Nat.zero_le _
      · show Order.Ordered ((crashS x.s2 i op n).node j)
        rw [crashS_node_j _ _ _ _ hj]; exact hI4.ord j
  | send i q hi hl hr hc => exact ⟨hI4.tracks, hI4.ord, hI4.mlab⟩
  | sendSnap i q hi hl hr =>
    refine ⟨hI4.tracks, hI4.ord, fun m hm => ?_⟩
    rcases List.mem_cons.mp hm with rfl | hm
    · show q.lastConfig.index ≤ q.lastIndex
      have hlab := hS.lab i
      have so : SnapOK (x.vnode i) := hI.sinv.snap i
      have h1 : Track.label (x.node i) = q.lastConfig := by
        unfold Track.label; rw [hr.file]; rfl
      have h2 : (x.node i).snapIndex = q.lastIndex := by
        have : (x.node i).snapIndex = (headOf (x.node i).snapsDisk).index := so.head
        rw [this]
        unfold headOf; rw [hr.file]; rfl
      rw [h1, h2] at hlab
      exact hlab
    · exact hI4.mlab m hm
  | install i m ra ord hi hm hp =>
    have hr : Order.ReqOk (x.node i) (.install m.q) := by
      show m.q.term < (x.node i).term ∨ m.q.lastIndex ≤ (x.node i).commitIndex ∨ Order.InstallOk m.q
      rcases hm with h | h
      · exact Or.inl h
      · exact Or.inr (Or.inr (hI4.mlab m h))
    refine ⟨fun j => ?_, fun j => ?_, hI4.mlab⟩
    · by_cases hj : j = i
      · subst hj
        show C12Track.Tracks ((installS x j m ra ord).node j)
        unfold installS; rw [replS_node_i]
        exact C12Track.tracks_step _ _ ra ord (hI4.tracks j) (hI4.ord j) hr hp
      · show C12Track.Tracks ((installS x i m ra ord).node j)
        unfold installS; rw [replS_node_j _ _ _ _ hj]; exact hI4.tracks j
    · by_cases hj : j = i
      · subst hj
        show Order.Ordered ((installS x j m ra ord).node j)
        unfold installS; rw [replS_node_i]
        exact C19Order.ordered_step _ _ ra ord (hI4.ord j) hr hp
      · show Order.Ordered ((installS x i m ra ord).node j)
        unfold installS; rw [replS_node_j _ _ _ _ hj]; exact hI4.ord j
  | crashInstall i m ra ord k retain sor n hi hm hret hp hold hn =>
    have hq : Installs (x.node i) m.q → Order.InstallOk m.q := fun hin => hI4.mlab m (hm.resolve_left hin.1)
    obtain ⟨t1, t2⟩ := install_crash_restart_tracks (x.node i) m.q ra ord k retain sor n (hI4.tracks i) (hI4.ord i)
      (lwf_real hI i) (hS.lab i) hq hret hn
    refine ⟨fun j => ?_, fun j => ?_, hI4.mlab⟩
    · by_cases hj : j = i
      · subst hj
        show C12Track.Tracks ((crashInstS x j m _ n).node j)
        unfold crashInstS; rw [replS_node_i]; exact t1
      · show C12Track.Tracks ((crashInstS x i m _ n).node j)
        unfold crashInstS; rw [replS_node_j _ _ _ _ hj]; exact hI4.tracks j
    · by_cases hj : j = i
      · subst hj
        show Order.Ordered ((crashInstS x j m _ n).node j)
        unfold crashInstS; rw [replS_node_i]; exact t2
      · show Order.Ordered ((crashInstS x i m _ n).node j)
        unfold crashInstS; rw [replS_node_j _ _ _ _ hj]; exact hI4.ord j

/-- **every run of `Raft.Snap4` is a run of `Raft.Snap3` on which every node is tracking and ordered** -/
theorem reach4 (hV : V.Nodup) {x : Snap3.Sys} (h : Reachable4 V x) : Reachable3 V x ∧ Inv4 x ∧ Side4 V x := by
  induction h with
  | init x hi hs =>
    exact ⟨.init x hi.init hs.side, ⟨hi.tracks, hi.ord, fun m hm => by rw [hi.init.sent] at hm; cases hm⟩, hs⟩
  | next x y _ ht hs ih =>
    obtain ⟨r3, i4, s4⟩ := ih
    exact ⟨.next x y r3 (trans4_trans3 ht i4.tracks) hs.side, inv4_trans hV r3 i4 s4 ht hs, hs⟩

end

end SnapInst4
end Raft
