/-
The invariant of the cluster system with installation of snapshots (Sys/Snap3.lean), part b: the transitions of stage 2
(completed steps, sending an append request), now also from states in which a log starts exactly at its snapshot index.
-/
import RaftVerif.Lemmas.SnapInst3a

namespace Raft
namespace SnapInst3
open Node Election LogRel Replication CommitRel Commit C02Sys C03Sys SnapRel SnapRelU SnapSim Snap Snap2 SnapInv SnapInv2
open SnapInst SnapInstU Snap3 SnapFrame

section
variable {V : List Nat}

theorem sideS_view3 {x : Snap3.Sys} (h : Side3 V x) : SideS V (view3 x) := ⟨h.sideV, fun _ => rfl, h.dec⟩

theorem aok2_of {s : Node} (hp : PrevOK s) (hs : C09.SegsOK s.log) : AOK2 s := by
  refine ⟨hp.le, ?_⟩
  have := hs.head
  cases hseg : s.log.segs with
  | nil => rw [hseg] at this; cases this
  | cons a t =>
    rw [hseg] at this
    have ha : a = s.log.prev := by simpa using this
    rw [ha]; exact List.mem_cons_self ..

/-- an append request on the wire has increasing indexes -/
theorem sent_sorted {x : Snap3.Sys} (hI : SInv V (view3 x)) {q : AppendReq} (hq : q ∈ x.s2.cs.rp.sent) :
    q.entries.Pairwise (fun a b => a.index < b.index) :=
  pairwise_of_idx q.prevLogIndex q.entries (hI.cinv.rp.sent q hq).idx

/-- **the virtual node makes the same step** — for every operation of stage 2 but `.snapTaken`, also when the log starts
exactly at the snapshot index -/
theorem vstep_comm {x : Snap3.Sys} (hI : SInv V (view3 x)) (hP : ∀ i, PrevOK (x.node i)) (hS : Side3 V x) {i : Nat}
    {op : Op} {ra : List Nat} {ord : List (List Nat)} {src : Nat} (en : Snap.Enabled x.s2.cs i op src)
    (hp : ((x.node i).step op ra ord).panicked = none) (hne : op ≠ .snapTaken) (hnc : NoCut (x.node i) op) :
    (x.vnode i).step op ra ord = U (x.s2.base i) ((x.node i).step op ra ord) := by
  by_cases happ : ∃ q, op = .append q
  · obtain ⟨q, rfl⟩ := happ
    have ha2 : AOK2 (x.node i) := aok2_of (hP i) (hS.segs i)
    by_cases ha : AOK (x.node i)
    · exact append_step_U _ q ra ord ha hp
    · refine append_step_U2 _ q ra ord ha2 (fun hst => ?_) hp
      have hq : q ∈ x.s2.cs.rp.sent := (en.append q rfl).resolve_left hst
      refine ⟨sent_sorted hI hq, fun ne hne' hidx => ?_⟩
      rcases hnc with h | h | h | h | h
      · exact absurd h hst
      · exact Or.inl h
      · exact absurd (Or.inr ⟨h, ha2.2⟩) ha
      · -- the entry directly behind the first index is committed: the request does not conflict with it
        right; right
        have hc := hI.cinv
        have hq' : q ∈ (eview (view3 x).cs).rp.sent := hq
        have hst' : ¬ q.term < ((eview (view3 x).cs).node i).term := hst
        have hnc' := reqok hc (i := i) hq' hst'
        have hn : NWF ((eview (view3 x).cs).node i) := nwf hc i
        have hidx' : ne.index = (x.node i).log.prev + 1 := hidx
        have h' : (x.node i).log.prev < (x.node i).commitIndex := h
        have hle : ne.index ≤ (x.node i).commitIndex := by omega
        have hlen := (hc.cmt.cc i ne.index (by omega) hle).1
        have het := hn.entryTerm ne.index (by omega) hlen
        have e : ((eview (view3 x).cs).node i).entryTerm? ne.index = (U (x.s2.base i) (x.node i)).entryTerm? ne.index := rfl
        rw [e, U_entryTerm? (x.node i) ne.index (by omega)] at het
        rw [het]
        exact congrArg some (hnc' ne hne' hle)
      · exact Or.inr (h ne hne' hidx)
  · refine step_U _ op ra ord ?_ hp
    have h1 := en.ok2.1
    have h2 := en.ok2.2.2
    cases op <;> first | trivial | exact h1.elim | exact absurd rfl hne | exact absurd ⟨_, rfl⟩ happ | exact absurd rfl (h2 _ _) | exact h1

theorem vnode_lwf3 {x : Snap3.Sys} (hI : SInv V (view3 x)) (i : Nat) :
    C06.LogWF (uncLog (x.s2.base i) (x.node i).log) := hI.cinv.node.lwf i

/-- **a completed step of an operation of stage 2 other than `.snapTaken`** -/
theorem step3_nc (hV : V.Nodup) {x : Snap3.Sys} (hI : SInv V (view3 x)) (hP : ∀ i, PrevOK (x.node i))
    (hS : Side3 V x) {i : Nat} {op : Op} {ra : List Nat} {ord : List (List Nat)} {src : Nat}
    (en : Snap.Enabled x.s2.cs i op src) (hp : ((x.node i).step op ra ord).panicked = none) (hne : op ≠ .snapTaken)
    (hnc : NoCut (x.node i) op) (hS' : SideS V (view (stepS x.s2 i op ra ord src))) :
    SInv V (view (stepS x.s2 i op ra ord src)) ∧ PrevOK ((x.node i).step op ra ord) ∧
    (stepS x.s2 i op ra ord src).vnode i = (x.vnode i).step op ra ord := by
  have hfl : (x.node i).log.prev ≤ (x.node i).log.flushed :=
    prev_le_flushed (x.s2.base i) (hS.segs i) (vnode_lwf3 hI i)
  have hU := vstep_comm hI hP hS en hp hne hnc
  -- frame
  have hfr : ((x.node i).step op ra ord).log.prev = (x.node i).log.prev ∧
      (∀ pt ∈ ((x.node i).step op ra ord).trace, pt.2.log.prev = (x.node i).log.prev) ∧
      (∀ rs, ((x.node i).step op ra ord).snapResult = some rs → rs.index ≤ ((x.node i).step op ra ord).snapIndex) ∧
      (x.node i).snapIndex ≤ ((x.node i).step op ra ord).snapIndex := by
    by_cases hr : op = .snapRun
    · subst hr
      rw [snapRun_step_eq]
      obtain ⟨f1, f2⟩ := snapRun_frame ((x.node i).begin ra ord)
      refine ⟨by rw [f1]; rfl, fun pt hpt => ?_, snapRun_res _ (hP i).res, ?_⟩
      · rcases f2 pt hpt with a | a
        · cases a
        · rw [a]; rfl
      · have fbi : FB (E σ0 (x.vnode i)) := hI.fsm i
        have hf : FsmOK 0 (x.vnode i) := ⟨fbi.fsm.le, fbi.fsm.len, fbi.fsm.applied, fbi.fsm.mono⟩
        have ss := snapStep (x.vnode i) .snapRun ra ord (hI.snap i) hf (Or.inl rfl)
        have := ss.mono
        rw [hU, snapRun_step_eq] at this
        exact this
    · have hnc' : StepClosedNC.NCOp op := by
        have h1 := en.ok2.1
        cases op <;> first | trivial | exact h1.elim | exact absurd rfl hne | exact absurd rfl hr | exact h1
      have fr := step_frame (x.node i) op ra ord hnc' (hP i).le hfl
      refine ⟨fr.1, fun pt hpt => (fr.2.2.2.2 pt hpt).1, fun rs hrs => ?_, by rw [fr.2.2.1]; exact Nat.le_refl _⟩
      rw [fr.2.2.1]
      exact (hP i).res rs (by rw [← fr.2.2.2.1]; exact hrs)
  obtain ⟨f1, f2, f3, f4⟩ := hfr
  have hview := view_step_nc x.s2 i op ra ord src hU f1 f2
  have hvn : (stepS x.s2 i op ra ord src).vnode i = (x.vnode i).step op ra ord := by
    rw [view_stepS_node, if_pos rfl]
    have hb : newBase x.s2 i ((x.node i).step op ra ord).log.prev = pad (x.s2.base i) (x.node i).log.prev := by
      unfold newBase Snap2.Sys.vlog Snap2.Sys.vnode
      rw [f1]
      exact take_vlog (x.s2.base i) (x.node i).log
    rw [hb, U_pad _ _ _ f1 f2, hU]
  refine ⟨?_, ⟨by rw [f1]; exact Nat.le_trans (hP i).le f4, f3⟩, hvn⟩
  have ht : Snap.Trans (view x.s2) (view (stepS x.s2 i op ra ord src)) := by
    rw [hview]
    refine Snap.Trans.step i op ra ord src (enabled_view en) ?_ (fun h => absurd h hne)
    show ((x.vnode i).step op ra ord).panicked = none
    rw [hU]; exact hp
  exact inv_trans hV hI (sideS_view3 hS) ht hS'

/-! ### the snapshot files keep agreeing with the log -/

/-- a completed step of an operation of `Raft.Commit` keeps what the commit index covered (stage 1) -/
theorem vstep_keep (hV : V.Nodup) {x : Snap.Sys} (hI : SInv V x) (hS : SideS V x) {i : Nat} {op : Op}
    {ra : List Nat} {ord : List (List Nat)} {src : Nat} (en : Snap.Enabled x.cs i op src) (h1 : op ≠ .snapRun)
    (h2 : op ≠ .snapTaken) :
    (x.node i).commitIndex ≤ ((x.node i).step op ra ord).commitIndex ∧
    ((x.node i).step op ra ord).log.entries.take (x.node i).commitIndex =
      (x.node i).log.entries.take (x.node i).commitIndex := by
  have hcomm := step_comm hI en h1 ra ord
  have sc : SC V (eview x.cs) i (eraseOp σ0 (x.node i) op) ra ord src :=
    ⟨hV, hI.cinv, sideV_eview hS.sideV, enabled_eview en h1 h2⟩
  have hpost : ((eview x.cs).node i).step (eraseOp σ0 (x.node i) op) ra ord = E σ0 ((x.node i).step op ra ord) := hcomm
  have hkeep := step_keep sc
  rw [hpost] at hkeep
  exact hkeep

/-- the snapshot files after the snapshot goroutine ran: the old ones, or a new one at the applied index labelled with
`fsm.term`; `snapTerm` stays the term of the newest file -/
theorem snapRun_files (s : Node) (hr : 1 ≤ s.retain) (hhead : ∀ g ∈ s.snapsDisk, g.index ≤ s.snapIndex)
    (hle : s.snapIndex ≤ s.fsm.index) (hst : s.snapTerm = (headOf s.snapsDisk).term) :
    (∀ g ∈ s.snapRun.snapsDisk, g ∈ s.snapsDisk ∨
      (g.index = s.fsm.index ∧ g.term = s.fsm.term ∧ s.fsm.index ≠ s.snapIndex)) ∧
    s.snapRun.snapTerm = (headOf s.snapRun.snapsDisk).term := by
  cases hp : s.snapPending with
  | none => rw [C09.snapRun_idle s hp]; exact ⟨fun g hg => Or.inl hg, hst⟩
  | some rq =>
    by_cases hrf : s.fsm.index = s.snapIndex ∨ s.fsm.index < rq.minIndex
    · obtain ⟨e1, e2, _⟩ := (C09.snapRun_refusal s rq hp).2 hrf
      have e3 : s.snapRun.snapTerm = s.snapTerm := by
        unfold Node.snapRun
        rw [hp]
        dsimp only
        split
        · rfl
        · split
          · rfl
          · rename_i h1 h2
            exfalso
            rcases hrf with h | h
            · exact h1 h
            · exact h2 h
      rw [e1, e3]
      exact ⟨fun g hg => Or.inl hg, hst⟩
    · have hne : s.fsm.index ≠ s.snapIndex := fun e => hrf (Or.inl e)
      have hge : rq.minIndex ≤ s.fsm.index := Nat.le_of_not_lt (fun e => hrf (Or.inr e))
      obtain ⟨e1, _, e3, _⟩ := C09.snapshot_at_applied_index s rq hp hne hge
      have hlt : ∀ g ∈ s.snapsDisk, g.index < (C09.snapFileOf s rq).index := by
        intro g hg
        have := hhead g hg
        show g.index < s.fsm.index
        omega
      have c1 := insertSnap_front (C09.snapFileOf s rq) s.snapsDisk hlt
      obtain ⟨r, hr'⟩ : ∃ r, s.retain = r + 1 := ⟨s.retain - 1, by omega⟩
      have htake : s.snapRun.snapsDisk = C09.snapFileOf s rq :: s.snapsDisk.take r := by
        rw [e1, c1, hr']; rfl
      refine ⟨fun g hg => ?_, by rw [e3, htake]; rfl⟩
      rw [htake] at hg
      rcases List.mem_cons.mp hg with rfl | hg
      · exact Or.inr ⟨rfl, rfl, hne⟩
      · exact Or.inl (List.mem_of_mem_take hg)

theorem termAt_take_eq {a b : List Entry} {c k : Nat} (h : a.take c = b.take c) (hk : k ≤ c) : termAt a k = termAt b k := by
  rw [← termAt_take a c k hk, ← termAt_take b c k hk, h]

/-- the term the real log answers for is the term of the virtual log -/
theorem termAt_vlog_of_real (x : Snap3.Sys) (i k t : Nat) (hk : (x.node i).log.prev < k)
    (h : (x.node i).entryTerm? k = some t) : termAt (x.vlog i) k = t := by
  unfold Node.entryTerm? at h
  have hv : (x.vnode i).log.get? k = (x.node i).log.get? k := U_get? (x.node i) k hk
  rw [← hv] at h
  unfold NLog.get? at h
  rw [if_pos (show (x.vnode i).log.prev < k from by show 0 < k; omega)] at h
  have hv0 : (x.vnode i).log.prev = 0 := rfl
  rw [hv0, Nat.sub_zero] at h
  unfold termAt
  rw [if_neg (by omega)]
  show (((x.vnode i).log.entries[k - 1]?).map (·.term)).getD 0 = t
  rw [h]; rfl

/-- **`VTerm` after a completed step of stage 2 (not `.snapTaken`)** -/
theorem vterm_step (hV : V.Nodup) {x : Snap3.Sys} (hI : Inv3 V x) (hS : Side3 V x) {i : Nat} {op : Op}
    {ra : List Nat} {ord : List (List Nat)} {src : Nat} (en : Snap.Enabled x.s2.cs i op src)
    (hne : op ≠ .snapTaken) (htt : TermTracked (x.node i) op)
    (hvn : (stepS x.s2 i op ra ord src).vnode i = (x.vnode i).step op ra ord)
    (hU : (x.vnode i).step op ra ord = U (x.s2.base i) ((x.node i).step op ra ord)) :
    ∀ j, VTerm { x with s2 := stepS x.s2 i op ra ord src } j := by
  intro j
  by_cases hj : j = i
  · subst hj
    have e1 : (stepS x.s2 j op ra ord src).cs.node j = (x.node j).step op ra ord := stepS_node_i _ _ _ _ _ _
    have hv := hI.vterm j
    have so : SnapOK (x.vnode j) := hI.sinv.snap j
    have hsc : (x.node j).snapIndex ≤ (x.node j).commitIndex := by
      show (x.vnode j).snapIndex ≤ (x.vnode j).commitIndex
      rw [so.head]; exact so.files.head_le
    suffices hh : (∀ f ∈ ((stepS x.s2 j op ra ord src).cs.node j).snapsDisk,
        termAt ((stepS x.s2 j op ra ord src).vnode j).log.entries f.index = f.term) ∧
      ((stepS x.s2 j op ra ord src).cs.node j).snapTerm =
        (headOf ((stepS x.s2 j op ra ord src).cs.node j).snapsDisk).term from ⟨hh.1, hh.2⟩
    rw [e1, hvn]
    by_cases hr : op = .snapRun
    · subst hr
      have hlog : ((x.vnode j).step .snapRun ra ord).log = (x.vnode j).log := by
        rw [snapRun_step_eq]
        exact congrArg (fun p => p.2.2.2.2.2.1) (snapRun_obs ((x.vnode j).begin ra ord)).1
      rw [hlog, snapRun_step_eq]
      have hfl : ∀ g ∈ (x.node j).snapsDisk, g.index ≤ (x.node j).snapIndex := by
        intro g hg
        have := so.files.le_head g hg
        rw [← so.head] at this
        exact this
      obtain ⟨a, b⟩ := snapRun_files ((x.node j).begin ra ord) so.retain hfl so.le hv.head
      refine ⟨fun f hf => ?_, b⟩
      rcases a f hf with h | ⟨h1, h2, h3⟩
      · exact hv.files f h
      · rw [h1, h2]
        have hlt : (x.node j).log.prev < (x.node j).fsm.index := by
          have p1 := (hI.prev j).le
          have p2 : (x.node j).snapIndex ≤ (x.node j).fsm.index := so.le
          have h3' : (x.node j).fsm.index ≠ (x.node j).snapIndex := h3
          omega
        exact termAt_vlog_of_real x j _ _ hlt (htt hlt)
    · obtain ⟨k1, k2, _⟩ := step_keeps_snap (x.node j) op ra ord en.ok2.1 hr
      have k3 : ((x.node j).step op ra ord).snapTerm = (x.node j).snapTerm := by
        by_cases happ : ∃ q, op = .append q
        · obtain ⟨q, rfl⟩ := happ; exact (append_snap_frame (x.node j) q ra ord).2.1
        · exact (step_snap_frame (x.node j) op ra ord (by
            have h1 := en.ok2.1
            cases op <;> first | trivial | exact absurd rfl hr | exact h1 | exact absurd ⟨_, rfl⟩ happ)).2.1
      obtain ⟨_, hk⟩ := vstep_keep hV hI.sinv (sideS_view3 hS) (enabled_view en) hr hne (ra := ra) (ord := ord)
      rw [k2, k3]
      refine ⟨fun f hf => ?_, hv.head⟩
      have hfi : f.index ≤ (x.node j).commitIndex := by
        have := so.files.le_head f hf
        rw [← so.head] at this
        exact Nat.le_trans this hsc
      have hk' : ((x.vnode j).step op ra ord).log.entries.take (x.node j).commitIndex =
          (x.vlog j).take (x.node j).commitIndex := hk
      rw [termAt_take_eq hk' hfi]
      exact hv.files f hf

  · have e1 : (stepS x.s2 i op ra ord src).cs.node j = x.node j := stepS_node_j _ _ _ _ _ _ hj
    have e2 : (stepS x.s2 i op ra ord src).vnode j = x.vnode j := by rw [view_stepS_node, if_neg hj]
    have hv := hI.vterm j
    refine ⟨?_, ?_⟩
    · show ∀ f ∈ ((stepS x.s2 i op ra ord src).cs.node j).snapsDisk,
        termAt ((stepS x.s2 i op ra ord src).vnode j).log.entries f.index = f.term
      rw [e1, e2]; exact hv.files
    · show ((stepS x.s2 i op ra ord src).cs.node j).snapTerm = (headOf ((stepS x.s2 i op ra ord src).cs.node j).snapsDisk).term
      rw [e1]; exact hv.head

/-! ### the ledgers only grow -/

theorem stepS_T (y : Snap2.Sys) (i : Nat) (op : Op) (ra : List Nat) (ord : List (List Nat)) (src : Nat) :
    (∀ c ∈ (view y).cs.T, c ∈ (view (stepS y i op ra ord src)).cs.T) ∧
    (∀ c ∈ (view y).cs.committed, c ∈ (view (stepS y i op ra ord src)).cs.committed) :=
  ⟨fun _ hc => List.mem_append_right _ hc, fun _ hc => List.mem_append_right _ hc⟩

theorem crashS_T (y : Snap2.Sys) (i : Nat) (op : Op) (n : Node) :
    (∀ c ∈ (view y).cs.T, c ∈ (view (crashS y i op n)).cs.T) ∧
    (∀ c ∈ (view y).cs.committed, c ∈ (view (crashS y i op n)).cs.committed) :=
  ⟨fun _ hc => List.mem_append_right _ hc, fun _ hc => hc⟩

/-! ### `onSnapshotTaken` -/

/-- **a completed `.snapTaken`** (port of `SnapInv2.step_snapTaken` without the side condition `Side2.gap`) -/
theorem step3_snapTaken (hV : V.Nodup) {x : Snap3.Sys} (hI : SInv V (view3 x)) (hP : ∀ i, PrevOK (x.node i))
    (hS : Side3 V x) {i : Nat} {ra : List Nat} {ord : List (List Nat)} {src : Nat} (hi : i ≠ 0) :
    SInv V (view (stepS x.s2 i .snapTaken ra ord src)) ∧ PrevOK ((x.node i).step .snapTaken ra ord) ∧
    ((stepS x.s2 i .snapTaken ra ord src).vnode i).log.entries = (x.vlog i) ∧
    ((x.node i).step .snapTaken ra ord).snapsDisk = (x.node i).snapsDisk ∧
    ((x.node i).step .snapTaken ra ord).snapTerm = (x.node i).snapTerm := by
  have hpost : (x.node i).step .snapTaken ra ord = ((x.node i).begin ra ord).onSnapshotTaken := snapTaken_step_eq _ ra ord
  have ss := snapTaken_snapStep (x.s2.base i) (x.node i) ra ord (hS.segs i) (hI.snap i) (vnode_lwf3 hI i)
  have hb : newBase x.s2 i ((x.node i).step .snapTaken ra ord).log.prev =
      (uncLog (x.s2.base i) (x.node i).log).entries.take ((x.node i).begin ra ord).onSnapshotTaken.log.prev := by
    rw [hpost]; rfl
  have hq := onSnapshotTaken_qobs ((x.node i).begin ra ord)
  unfold qobs at hq
  simp only [Prod.mk.injEq] at hq
  obtain ⟨_, _, ⟨s1, s2, s3⟩, _⟩ := hq
  have hP' : U (newBase x.s2 i ((x.node i).step .snapTaken ra ord).log.prev) ((x.node i).step .snapTaken ra ord) =
      U ((uncLog (x.s2.base i) (x.node i).log).entries.take ((x.node i).begin ra ord).onSnapshotTaken.log.prev)
        ((x.node i).begin ra ord).onSnapshotTaken := by rw [hb, hpost]
  refine ⟨?_, ?_, ?_, by rw [hpost]; exact s3, by rw [hpost]; exact s2⟩
  · generalize U ((uncLog (x.s2.base i) (x.node i).log).entries.take ((x.node i).begin ra ord).onSnapshotTaken.log.prev)
          ((x.node i).begin ra ord).onSnapshotTaken = P at ss hP'
    have pe := ss.feq
    have le := lfieldEq_of_lobs ss.lobs
    have hq' := stepL_quiet (view x.s2).cs i .snapTaken src P trivial pe.term pe.entries le.commitIndex
    have hcs : (view (stepS x.s2 i .snapTaken ra ord src)).cs = quietC (view x.s2).cs i P := by
      rw [← hq']
      show withNodes (withNodes (stepL (view x.s2).cs i .snapTaken src _) _) (stepS x.s2 i .snapTaken ra ord src).vnode = _
      rw [withNodes_withNodes, hP']
      exact withNodes_stepL _ _ _ _ _ _ (fun j => by rw [view_stepS_node, hP']; rfl)
    have hsd : P.snapsDisk = ((x.node i).step .snapTaken ra ord).snapsDisk := by rw [← hP']; rfl
    have hsn : (view (stepS x.s2 i .snapTaken ra ord src)).snaps =
        newSnaps i ((view x.s2).node i).snapsDisk P.snapsDisk ++ (view x.s2).snaps := by
      rw [hsd]; rfl
    have key := sinv_quiet hV hI (sideS_view3 hS) hi ss
    have hv : view (stepS x.s2 i .snapTaken ra ord src) =
        { cs := quietC (view x.s2).cs i P, snaps := newSnaps i ((view x.s2).node i).snapsDisk P.snapsDisk ++ (view x.s2).snaps } :=
      sys_ext hcs hsn
    rw [hv]
    exact key
  · obtain ⟨_, _, _, _, _, _, c7, c8⟩ := compact_cases ((x.node i).begin ra ord) (hS.segs i)
    rw [hpost]
    refine ⟨?_, fun rs hrs => ?_⟩
    · rw [s1]
      show ((x.node i).begin ra ord).onSnapshotTaken.log.prev ≤ (x.node i).snapIndex
      cases hr : (x.node i).snapResult with
      | none =>
        have e : ((x.node i).begin ra ord).onSnapshotTaken = (x.node i).begin ra ord := by
          unfold Node.onSnapshotTaken
          rw [show ((x.node i).begin ra ord).snapResult = none from hr]
        rw [e]; exact (hP i).le
      | some rs =>
        have := c7 rs hr
        have h1 := (hP i).le
        have h2 := (hP i).res rs hr
        have h3 : ((x.node i).begin ra ord).log.prev = (x.node i).log.prev := rfl
        rw [h3] at this
        omega
    · rw [c8] at hrs; cases hrs
  · rw [view_stepS_node, if_pos rfl, hP']
    exact ss.feq.entries

end

end SnapInst3
end Raft
