/-
Snapshot erasure, part 2: append requests, crash points, restart.

An append request reads `snapIndex`: the consistency check is skipped when `prevLogIndex ≤ snapIndex` and entries
at or below `snapIndex` are not looked at. The erased node (`snapIndex = 0`) performs the check and the comparison —
with the same outcome when the request agrees with the log on what the snapshot covers (`AppAgree`; in the cluster
this is commit safety: `C02Sys.reqok`). Under `AppAgree` the step commutes with `E` (`append_step_E`).
-/
import RaftVerif.Lemmas.SnapRel
import RaftVerif.Lemmas.CommitRel

namespace Raft
namespace SnapRel
open Node LogRel CommitRel

@[esimp] theorem E_resolveConflict (s : Node) (ne : Entry) (pt : Nat) :
    (E σ s).resolveConflict ne pt = E σ (s.resolveConflict ne pt) := by
  unfold Node.resolveConflict
  ecomm

/-- the consistency-check branch of `appendCheck` (taken when `prevLogIndex > snapIndex`) -/
def checkBody (s : Node) (q : AppendReq) : Node :=
  if q.prevLogIndex > s.lastLogIndex then s.ret rPrevEntryNotFound
  else
    let s := if q.prevLogIndex = s.lastLogIndex then s
             else match s.entryTerm? q.prevLogIndex with
               | some _ => s
               | none => s.panic "bug.mustGetEntry"
    let prevLogTerm := if q.prevLogIndex = s.lastLogIndex then s.lastLogTerm
                       else (s.entryTerm? q.prevLogIndex).getD 0
    if q.prevLogTerm ≠ prevLogTerm then s.ret rPrevTermMismatch
    else if s.canCommit q q.prevLogIndex q.prevLogTerm then
      ((s.setCommitIndexR q.prevLogIndex).1.applyCommitted).ret 0
    else s.ret 0

theorem appendCheck_eq (s : Node) (q : AppendReq) :
    s.appendCheck q = if q.prevLogIndex > s.snapIndex then checkBody s q else s.ret 0 := rfl

theorem E_checkBody (s : Node) (q : AppendReq) : checkBody (E σ s) q = E σ (checkBody s q) := by
  unfold checkBody
  ecomm


/-- `E` on the state of the entry-consuming loop -/
def El (σ : SnapData) (st : AppLoop) : AppLoop := { st with s := E σ st.s }

/-- the log holds an entry with the index and term of `ne` -/
def Present (s : Node) (ne : Entry) : Prop := ne.index ≤ s.lastLogIndex ∧ s.entryTerm? ne.index = some ne.term

theorem snapIndex_panic (s : Node) (site : String) : (s.panic site).snapIndex = s.snapIndex := by
  unfold Node.panic; split <;> rfl

theorem snapIndex_resolveConflict (s : Node) (ne : Entry) (pt : Nat) :
    (s.resolveConflict ne pt).snapIndex = s.snapIndex := by
  unfold Node.resolveConflict
  split
  · split
    · exact snapIndex_panic _ _
    · dsimp only; split <;> rfl
  · rfl

theorem snapIndex_appendEntry (s : Node) (e : Entry) : (s.appendEntry e).snapIndex = s.snapIndex := by
  unfold Node.appendEntry Node.assert
  dsimp only
  split
  · rfl
  · exact snapIndex_panic _ _

theorem snapIndex_changeConfigR (s : Node) (c : Config) : (s.changeConfigR c).snapIndex = s.snapIndex := by
  unfold Node.changeConfigR; dsimp only; split <;> rfl

theorem appendLoop_E (h0 : σ.1 = 0) (es : List Entry) : ∀ (st : AppLoop),
    es.Pairwise (fun a b => a.index < b.index) →
    (∀ ne ∈ es, ne.index ≤ st.s.snapIndex → Present st.s ne) →
    appendLoop (El σ st) es = El σ (appendLoop st es) := by
  induction es with
  | nil => intro st _ _; rfl
  | cons ne rest ih =>
    intro st hpw hpr
    have hpw' := (List.pairwise_cons.mp hpw).2
    have hlt := (List.pairwise_cons.mp hpw).1
    unfold appendLoop
    by_cases herr : st.err = true
    · rw [if_pos herr, if_pos (show (El σ st).err = true from herr)]
    · rw [if_neg herr, if_neg (show ¬ (El σ st).err = true from herr)]
      dsimp only
      by_cases hsn : ne.index ≤ st.s.snapIndex
      · rw [if_pos hsn]
        have hp := hpr ne (List.mem_cons_self ..) hsn
        have key := ih { st with index := ne.index, term := ne.term } hpw'
          (fun ne' h' hle => hpr ne' (List.mem_cons_of_mem _ h') hle)
        split
        · exact key
        · rw [show ((decide (ne.index ≤ (El σ st).s.lastLogIndex) && (El σ st).s.entryTerm? ne.index == some ne.term)) = true from by
            show (decide (ne.index ≤ st.s.lastLogIndex) && st.s.entryTerm? ne.index == some ne.term) = true
            rw [hp.2]; simp [hp.1]]
          simp only [if_true]
          exact key
      · rw [if_neg hsn, if_neg (show ¬ ne.index ≤ (El σ st).s.snapIndex from by show ¬ ne.index ≤ σ.1; omega)]
        show (if (decide (ne.index ≤ st.s.lastLogIndex) && st.s.entryTerm? ne.index == some ne.term) = true then _ else _) = _
        split
        · exact ih { st with index := ne.index, term := ne.term } hpw'
            (fun ne' h' hle => hpr ne' (List.mem_cons_of_mem _ h') hle)
        · have hvac : ∀ (x : Node), x.snapIndex = st.s.snapIndex →
              ∀ ne' ∈ rest, ne'.index ≤ x.snapIndex → Present x ne' := by
            intro x hx ne' h' hle
            have := hlt ne' h'
            rw [hx] at hle; omega
          have e1 : ((El σ st).s.resolveConflict ne (El σ st).term).appendEntry ne =
              E σ ((st.s.resolveConflict ne st.term).appendEntry ne) := by
            show ((E σ st.s).resolveConflict ne st.term).appendEntry ne = _
            rw [E_resolveConflict, E_appendEntry]
          show (if ne.typ = etConfig then _ else _) = _
          rw [e1]
          have hs2 : ((st.s.resolveConflict ne st.term).appendEntry ne).snapIndex = st.s.snapIndex := by
            rw [snapIndex_appendEntry, snapIndex_resolveConflict]
          split
          · split
            · rename_i c hc
              rw [E_changeConfigR]
              exact ih { st with index := ne.index, term := ne.term,
                                 s := ((st.s.resolveConflict ne st.term).appendEntry ne).changeConfigR c, syncLog := true } hpw'
                (hvac _ (by rw [snapIndex_changeConfigR, hs2]))
            · rfl
          · exact ih { st with index := ne.index, term := ne.term,
                               s := (st.s.resolveConflict ne st.term).appendEntry ne, syncLog := true } hpw'
              (hvac _ hs2)


/-- the fields `AppAgree` reads -/
def aobs (s : Node) : NLog × Nat × Nat × Nat × Nat := (s.log, s.lastLogIndex, s.lastLogTerm, s.commitIndex, s.snapIndex)

/-- **what an append request has to agree on with a node that holds a snapshot**: if its `prevLogIndex` is covered
by the snapshot (and not 0), the log holds that entry with the term `prevLogTerm` and it is not above the commit
index; every entry of the request covered by the snapshot is in the log with the same term; indexes increase. -/
structure AppAgree (s : Node) (q : AppendReq) : Prop where
  prev : 0 < q.prevLogIndex → q.prevLogIndex ≤ s.snapIndex →
    q.prevLogIndex ≤ s.lastLogIndex ∧ q.prevLogIndex ≤ s.commitIndex ∧
    (q.prevLogIndex = s.lastLogIndex → s.lastLogTerm = q.prevLogTerm) ∧
    (q.prevLogIndex ≠ s.lastLogIndex → s.entryTerm? q.prevLogIndex = some q.prevLogTerm)
  ents : ∀ ne ∈ q.entries, ne.index ≤ s.snapIndex → Present s ne
  sorted : q.entries.Pairwise (fun a b => a.index < b.index)

theorem AppAgree.congr {s s' : Node} {q : AppendReq} (h : AppAgree s q) (e : aobs s' = aobs s) : AppAgree s' q := by
  unfold aobs at e
  simp only [Prod.mk.injEq] at e
  obtain ⟨e1, e2, e3, e4, e5⟩ := e
  refine ⟨?_, ?_, h.sorted⟩
  · unfold Node.entryTerm?
    rw [e1, e2, e3, e4, e5]
    exact h.prev
  · unfold Present Node.entryTerm?
    rw [e1, e2, e5]
    exact h.ents

/-- the check passes without effect when the request agrees with what the snapshot covers -/
theorem checkBody_skip (s : Node) (q : AppendReq) (h : AppAgree s q) (h0 : 0 < q.prevLogIndex)
    (hs : q.prevLogIndex ≤ s.snapIndex) : checkBody s q = s.ret 0 := by
  obtain ⟨a, b, c, d⟩ := h.prev h0 hs
  unfold checkBody
  rw [if_neg (by omega)]
  have hcc : s.canCommit q q.prevLogIndex q.prevLogTerm = false := by
    unfold Node.canCommit
    have : decide (q.prevLogIndex > s.commitIndex) = false := by simp; omega
    rw [this]; simp
  by_cases hl : q.prevLogIndex = s.lastLogIndex
  · simp only [if_pos hl]
    rw [if_neg (by rw [c hl]; exact fun h => h rfl), hcc]
    rfl
  · simp only [if_neg hl]
    rw [d hl]
    dsimp only
    rw [if_neg (by rw [if_neg hl, d hl]; simp), hcc]
    rfl

/-- when the replaced snapshot index is the node's own, nothing is asked of the request; when it is 0, `AppAgree` -/
def Fits (σ : SnapData) (s : Node) (q : AppendReq) : Prop := σ.1 = s.snapIndex ∨ (σ.1 = 0 ∧ AppAgree s q)

theorem appendCheck_E (s : Node) (q : AppendReq) (h : Fits σ s q) : (E σ s).appendCheck q = E σ (s.appendCheck q) := by
  rw [appendCheck_eq, appendCheck_eq]
  rcases h with h | ⟨hz, h⟩
  · show (if q.prevLogIndex > σ.1 then _ else _) = _
    rw [h]
    by_cases hs : q.prevLogIndex > s.snapIndex
    · rw [if_pos hs, if_pos hs]; exact E_checkBody s q
    · rw [if_neg hs, if_neg hs]; rfl
  · by_cases hs : q.prevLogIndex > s.snapIndex
    · rw [if_pos hs, if_pos (show q.prevLogIndex > (E σ s).snapIndex from by show q.prevLogIndex > σ.1; omega)]
      exact E_checkBody s q
    · rw [if_neg hs]
      by_cases h0 : 0 < q.prevLogIndex
      · rw [if_pos (show q.prevLogIndex > (E σ s).snapIndex from by show q.prevLogIndex > σ.1; omega), E_checkBody,
          checkBody_skip s q h h0 (by omega)]
      · rw [if_neg (show ¬ q.prevLogIndex > (E σ s).snapIndex from by show ¬ q.prevLogIndex > σ.1; omega)]
        rfl

/-- the loop, when the replaced snapshot index is the node's own -/
theorem appendLoop_Es (es : List Entry) : ∀ (st : AppLoop), σ.1 = st.s.snapIndex →
    appendLoop (El σ st) es = El σ (appendLoop st es) := by
  induction es with
  | nil => intro st _; rfl
  | cons ne rest ih =>
    intro st hσ
    unfold appendLoop
    by_cases herr : st.err = true
    · rw [if_pos herr, if_pos (show (El σ st).err = true from herr)]
    · rw [if_neg herr, if_neg (show ¬ (El σ st).err = true from herr)]
      dsimp only
      show (if ne.index ≤ σ.1 then _ else _) = _
      rw [hσ]
      by_cases hsn : ne.index ≤ st.s.snapIndex
      · rw [if_pos hsn, if_pos hsn]
        exact ih { st with index := ne.index, term := ne.term } hσ
      · rw [if_neg hsn, if_neg hsn]
        show (if (decide (ne.index ≤ st.s.lastLogIndex) && st.s.entryTerm? ne.index == some ne.term) = true then _ else _) = _
        split
        · exact ih { st with index := ne.index, term := ne.term } hσ
        · have e1 : ((El σ st).s.resolveConflict ne (El σ st).term).appendEntry ne =
              E σ ((st.s.resolveConflict ne st.term).appendEntry ne) := by
            show ((E σ st.s).resolveConflict ne st.term).appendEntry ne = _
            rw [E_resolveConflict, E_appendEntry]
          show (if ne.typ = etConfig then _ else _) = _
          rw [e1]
          have hs2 : ((st.s.resolveConflict ne st.term).appendEntry ne).snapIndex = st.s.snapIndex := by
            rw [snapIndex_appendEntry, snapIndex_resolveConflict]
          split
          · split
            · rename_i c hc
              rw [E_changeConfigR]
              exact ih { st with index := ne.index, term := ne.term,
                                 s := ((st.s.resolveConflict ne st.term).appendEntry ne).changeConfigR c, syncLog := true }
                (by rw [snapIndex_changeConfigR, hs2]; exact hσ)
            · rfl
          · exact ih { st with index := ne.index, term := ne.term,
                               s := (st.s.resolveConflict ne st.term).appendEntry ne, syncLog := true }
              (by rw [hs2]; exact hσ)

theorem aobs_of_fobs {s s' : Node} (e : fobs s' = fobs s) (ec : s'.commitIndex = s.commitIndex) : aobs s' = aobs s := by
  unfold fobs Core at e
  simp only [Prod.mk.injEq] at e
  unfold aobs
  rw [e.1.1, e.1.2.1, e.1.2.2.1, e.1.2.2.2.1, ec]


/-- what `onAppendEntries` does after the consistency check -/
def appendTail (q : AppendReq) (s : Node) : Node :=
  if s.result ≠ 0 then s
  else
    let st := appendLoop { s := s, index := q.prevLogIndex, term := q.prevLogTerm } q.entries
    let s := st.s
    let s :=
      if !q.entries.isEmpty ∧ st.syncLog then
        let s := s.commitLog s.lastLogIndex
        if s.canCommit q st.index st.term then (s.setCommitIndexR st.index).1.applyCommitted else s
      else s
    s.ret (if st.err then rUnexpectedErr else rSuccess)

/-- the state in which the consistency check runs -/
def appendHead (q : AppendReq) (s : Node) : Node :=
  ((if q.term > s.term then (s.setTerm q.term).setRole .follower else s).setRole .follower).setLeader q.src

theorem onAppendEntries_eq (s : Node) (q : AppendReq) :
    s.onAppendEntries q = if q.term < s.term then s.ret rStaleTerm else appendTail q ((appendHead q s).appendCheck q) := rfl

theorem E_appendHead (s : Node) (q : AppendReq) : appendHead q (E σ s) = E σ (appendHead q s) := by
  unfold appendHead
  ecomm

theorem aobs_storeTermVote (s : Node) (t c : Nat) : aobs (s.storeTermVote t c) = aobs s := by
  unfold Node.storeTermVote; dsimp only; split <;> rfl

theorem aobs_setTerm (s : Node) (t : Nat) : aobs (s.setTerm t) = aobs s := by
  unfold Node.setTerm
  split
  · split
    · exact aobs_storeTermVote _ _ _
    · unfold Node.panic; split <;> rfl
  · rfl

theorem aobs_appendHead (s : Node) (q : AppendReq) : aobs (appendHead q s) = aobs s := by
  unfold appendHead
  have e : ∀ x : Node, aobs ((x.setRole .follower).setLeader q.src) = aobs x := fun _ => rfl
  rw [e]
  split
  · rw [show aobs ((s.setTerm q.term).setRole .follower) = aobs (s.setTerm q.term) from rfl]
    exact aobs_setTerm s q.term
  · rfl

theorem appendTail_E (q : AppendReq) (s : Node)
    (h : σ.1 = s.snapIndex ∨ (σ.1 = 0 ∧ q.entries.Pairwise (fun a b => a.index < b.index) ∧
      ∀ ne ∈ q.entries, ne.index ≤ s.snapIndex → Present s ne)) :
    appendTail q (E σ s) = E σ (appendTail q s) := by
  unfold appendTail
  by_cases hr : s.result ≠ 0
  · rw [if_pos hr, if_pos (show (E σ s).result ≠ 0 from hr)]
  · rw [if_neg hr, if_neg (show ¬ (E σ s).result ≠ 0 from hr)]
    have hl : appendLoop (El σ { s := s, index := q.prevLogIndex, term := q.prevLogTerm }) q.entries =
        El σ (appendLoop { s := s, index := q.prevLogIndex, term := q.prevLogTerm } q.entries) := by
      rcases h with h | ⟨h0, hs, hp⟩
      · exact appendLoop_Es q.entries _ h
      · exact appendLoop_E h0 q.entries _ hs hp
    have hl' : appendLoop { s := E σ s, index := q.prevLogIndex, term := q.prevLogTerm } q.entries =
        El σ (appendLoop { s := s, index := q.prevLogIndex, term := q.prevLogTerm } q.entries) := hl
    rw [hl']
    generalize appendLoop { s := s, index := q.prevLogIndex, term := q.prevLogTerm } q.entries = st
    show (let s := E σ st.s
          let s := if (!q.entries.isEmpty) = true ∧ st.syncLog = true then
              let s := s.commitLog s.lastLogIndex
              if s.canCommit q st.index st.term = true then (s.setCommitIndexR st.index).1.applyCommitted else s
            else s
          s.ret (if st.err = true then rUnexpectedErr else rSuccess)) = _
    ecomm

/-- **an append request whose content agrees with what the snapshot covers is handled alike by the erased node** -/
theorem onAppendEntries_E (s : Node) (q : AppendReq) (h : Fits σ s q) :
    (E σ s).onAppendEntries q = E σ (s.onAppendEntries q) := by
  rw [onAppendEntries_eq, onAppendEntries_eq]
  by_cases hst : q.term < s.term
  · rw [if_pos hst, if_pos (show q.term < (E σ s).term from hst)]; rfl
  · rw [if_neg hst, if_neg (show ¬ q.term < (E σ s).term from hst)]
    have ea := aobs_appendHead s q
    have esn : (appendHead q s).snapIndex = s.snapIndex := by
      have := congrArg (fun p => p.2.2.2.2) ea
      exact this
    have h2 : Fits σ (appendHead q s) q := by
      rcases h with h | ⟨h0, h⟩
      · exact Or.inl (by rw [esn]; exact h)
      · exact Or.inr ⟨h0, h.congr ea⟩
    rw [E_appendHead, appendCheck_E _ q h2]
    obtain ⟨e, _⟩ := appendCheck_fobs (appendHead q s) q
    unfold fobs Core at e
    simp only [Prod.mk.injEq] at e
    apply appendTail_E
    rcases h2 with h2 | ⟨h0, h2⟩
    · exact Or.inl (by rw [e.1.2.2.2.1]; exact h2)
    · refine Or.inr ⟨h0, h2.sorted, ?_⟩
      intro ne hne hle
      have := h2.ents ne hne (by rw [← e.1.2.2.2.1]; exact hle)
      unfold Present Node.entryTerm? at this ⊢
      rw [e.1.1, e.1.2.1]
      exact this

theorem append_step_E (s : Node) (q : AppendReq) (ra : List Nat) (ord : List (List Nat)) (h : Fits σ s q) :
    (E σ s).step (.append q) ra ord = E σ (s.step (.append q) ra ord) := by
  have hb : Fits σ (s.begin ra ord) q := h.imp id (fun h => ⟨h.1, h.2.congr rfl⟩)
  show settle 6 ((((E σ s).begin ra ord).onAppendEntries q).rpcDone false true) ((E σ s).begin ra ord).role =
    E σ (settle 6 (((s.begin ra ord).onAppendEntries q).rpcDone false true) (s.begin ra ord).role)
  rw [E_begin, onAppendEntries_E _ q hb, E_rpcDone, E_role, E_settle]


/-- a stale append request is refused by both -/
theorem append_step_E_stale (s : Node) (q : AppendReq) (ra : List Nat) (ord : List (List Nat)) (h : q.term < s.term) :
    (E σ s).step (.append q) ra ord = E σ (s.step (.append q) ra ord) := by
  show settle 6 ((((E σ s).begin ra ord).onAppendEntries q).rpcDone false true) ((E σ s).begin ra ord).role =
    E σ (settle 6 (((s.begin ra ord).onAppendEntries q).rpcDone false true) (s.begin ra ord).role)
  have e : ((E σ s).begin ra ord).onAppendEntries q = E σ ((s.begin ra ord).onAppendEntries q) := by
    rw [onAppendEntries_eq, onAppendEntries_eq, E_begin]
    rw [if_pos (show q.term < (s.begin ra ord).term from h), if_pos (show q.term < (E σ (s.begin ra ord)).term from h)]
    rfl
  rw [e, E_begin, E_rpcDone, E_role, E_settle]

/-! ### crash points -/

/-- what is on disk when the process dies: the disk of the erased node is the erased disk -/
theorem crashDisk_E (s : Node) (op op' : Op) (ra : List Nat) (ord : List (List Nat))
    (h : (E σ s).step op' ra ord = E σ (s.step op ra ord)) (k : Nat) :
    C05.crashDisk (E σ s) op' ra ord k = eraseD σ (C05.crashDisk s op ra ord k) := by
  cases k with
  | zero => rfl
  | succ k =>
    simp only [C05.crashDisk]
    rw [h]
    show (match ((s.step op ra ord).trace.map (eraseP σ))[k]? with | some p => p.2 | none => _) = _
    rw [List.getElem?_map]
    cases (s.step op ra ord).trace[k]? with
    | none => rfl
    | some p => rfl

/-! ### the snapshot data is not touched by the operations that do not read it -/

/-- the node's own snapshot data -/
def own (s : Node) : SnapData := (s.snapIndex, s.snapTerm, s.snapsDisk)

theorem step_congr_begin {s s' : Node} {ra : List Nat} {ord : List (List Nat)} (h : s.begin ra ord = s'.begin ra ord)
    (op : Op) : s.step op ra ord = s'.step op ra ord := by
  unfold Node.step
  dsimp only
  rw [h]

theorem begin_E_own (s : Node) (ra : List Nat) (ord : List (List Nat)) :
    (E (own s) s).begin ra ord = s.begin ra ord := rfl

/-- a state that is its own `E`-image carries the snapshot data `σ`, in the state and at every crash point -/
theorem fix_E {s : Node} (h : s = E σ s) :
    s.snapIndex = σ.1 ∧ s.snapTerm = σ.2.1 ∧ s.snapsDisk = σ.2.2 ∧ ∀ p ∈ s.trace, p.2.snaps = σ.2.2 := by
  refine ⟨by rw [h]; rfl, by rw [h]; rfl, by rw [h]; rfl, ?_⟩
  have ht : s.trace = s.trace.map (eraseP σ) := by
    have := congrArg Node.trace h
    exact this
  intro p hp
  rw [ht] at hp
  obtain ⟨p', _, rfl⟩ := List.mem_map.mp hp
  rfl

/-- **frame**: an operation that does not read the snapshot data leaves it alone — in the state after the step and
on disk at every crash point of the step -/
theorem step_snap_frame (s : Node) (op : Op) (ra : List Nat) (ord : List (List Nat)) (h : Plain op) :
    (s.step op ra ord).snapIndex = s.snapIndex ∧ (s.step op ra ord).snapTerm = s.snapTerm ∧
    (s.step op ra ord).snapsDisk = s.snapsDisk ∧ ∀ p ∈ (s.step op ra ord).trace, p.2.snaps = s.snapsDisk := by
  have hf : OpFits (own s) s op := by cases op <;> first | trivial | exact Nat.le_add_right _ _
  have he : eraseOp (own s) s op = op := by
    cases op <;> first | rfl | (unfold eraseOp own; dsimp only; rw [Nat.add_sub_cancel_left])
  have h1 := step_E (σ := own s) s op ra ord h hf
  rw [he, step_congr_begin (begin_E_own s ra ord) op] at h1
  exact fix_E h1

/-- the same for an append request -/
theorem append_snap_frame (s : Node) (q : AppendReq) (ra : List Nat) (ord : List (List Nat)) :
    (s.step (.append q) ra ord).snapIndex = s.snapIndex ∧ (s.step (.append q) ra ord).snapTerm = s.snapTerm ∧
    (s.step (.append q) ra ord).snapsDisk = s.snapsDisk ∧
    ∀ p ∈ (s.step (.append q) ra ord).trace, p.2.snaps = s.snapsDisk := by
  have h1 := append_step_E (σ := own s) s q ra ord (Or.inl rfl)
  rw [step_congr_begin (begin_E_own s ra ord) (.append q)] at h1
  exact fix_E h1

end SnapRel
end Raft
