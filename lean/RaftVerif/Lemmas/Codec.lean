/-
Helper lemmas for the codec model: the decoder monad, the primitives' round trips, the
`Framed` discipline (a decoder is a well-behaved streaming parser) from which truncation
safety follows generically, list decoders, canonical maps, decimal digits.
Core Lean only.
-/
import RaftVerif.Model.Codec

namespace RaftVerif.Codec

/-! ## the decoder monad -/

theorem pure_run {α : Type} (a : α) (s : Bytes) : (pure a : Decoder α) s = .ok (a, s) := rfl

theorem bind_run {α β : Type} (d : Decoder α) (f : α → Decoder β) (s : Bytes) :
    (d >>= f) s = match d s with
      | .error e => .error e
      | .ok r => f r.1 r.2 := rfl

theorem bind_ok {α β : Type} {d : Decoder α} {f : α → Decoder β} {s r : Bytes} {a : α}
    (h : d s = .ok (a, r)) : (d >>= f) s = f a r := by
  rw [bind_run, h]

theorem bind_err {α β : Type} {d : Decoder α} {f : α → Decoder β} {s : Bytes} {e : DecErr}
    (h : d s = .error e) : (d >>= f) s = .error e := by
  rw [bind_run, h]

@[simp] theorem fail_run {α : Type} (e : DecErr) (s : Bytes) :
    (Decoder.fail e : Decoder α) s = .error e := rfl

@[simp] theorem lift_ok_run {α : Type} (a : α) (s : Bytes) :
    (Decoder.lift (.ok a) : Decoder α) s = .ok (a, s) := rfl

@[simp] theorem lift_err_run {α : Type} (e : DecErr) (s : Bytes) :
    (Decoder.lift (.error e) : Decoder α) s = .error e := rfl

/-! ## little-endian integers -/

@[simp] theorem length_bytesLE (k n : Nat) : (bytesLE k n).length = k := by
  induction k generalizing n with
  | zero => rfl
  | succ k ih => simp [bytesLE, ih]

theorem natLE_bytesLE (k n : Nat) : natLE (bytesLE k n) = n % 256 ^ k := by
  induction k generalizing n with
  | zero => simp [bytesLE, natLE, Nat.mod_one]
  | succ k ih =>
    simp only [bytesLE, natLE, ih]
    have h1 : (UInt8.ofNat (n % 256)).toNat = n % 256 := by
      simp [UInt8.toNat_ofNat']
    rw [h1, Nat.pow_succ, Nat.mul_comm (256 ^ k) 256, Nat.mod_mul]

theorem natLE_lt (b : Bytes) : natLE b < 256 ^ b.length := by
  induction b with
  | nil => simp [natLE]
  | cons x xs ih =>
    simp only [natLE, List.length_cons, Nat.pow_succ]
    have := x.toNat_lt
    have h256 : (2:Nat) ^ 8 = 256 := by decide
    omega

/-! ## readN / copyN -/

theorem readN_append (b t : Bytes) : readN b.length (b ++ t) = .ok (b, t) := by
  simp [readN]

theorem readN_append' {n : Nat} (b t : Bytes) (h : b.length = n) :
    readN n (b ++ t) = .ok (b, t) := by
  subst h; exact readN_append b t

theorem copyN_append' {n : Nat} (b t : Bytes) (h : b.length = n) :
    copyN n (b ++ t) = .ok (b, t) := by
  subst h; simp [copyN]

theorem readN_ok {n : Nat} {s a r : Bytes} (h : readN n s = .ok (a, r)) :
    s = a ++ r ∧ a.length = n := by
  unfold readN at h
  split at h
  · simp only [Except.ok.injEq, Prod.mk.injEq] at h
    rw [← h.1, ← h.2]
    refine ⟨by simp, ?_⟩
    simp; omega
  · split at h <;> simp at h

theorem copyN_ok {n : Nat} {s a r : Bytes} (h : copyN n s = .ok (a, r)) :
    s = a ++ r ∧ a.length = n := by
  unfold copyN at h
  split at h
  · simp only [Except.ok.injEq, Prod.mk.injEq] at h
    rw [← h.1, ← h.2]
    refine ⟨by simp, ?_⟩
    simp; omega
  · simp at h

/-! ## primitive round trips (simp set) -/

@[simp] theorem decU8_enc (v : UInt8) (t : Bytes) : decU8 (encU8 v ++ t) = .ok (v, t) := by
  simp [decU8, encU8, bind_run, readN, pure_run]

@[simp] theorem decU32_enc (n : Nat) (t : Bytes) (h : n < 2 ^ 32) :
    decU32 (encU32 n ++ t) = .ok (n, t) := by
  unfold decU32 encU32
  rw [bind_ok (readN_append' _ _ (length_bytesLE 4 n)), pure_run, natLE_bytesLE]
  have : n % 256 ^ 4 = n := Nat.mod_eq_of_lt (by
    have : (256:Nat) ^ 4 = 2 ^ 32 := by decide
    omega)
  rw [this]

@[simp] theorem decU64_enc (v : UInt64) (t : Bytes) : decU64 (encU64 v ++ t) = .ok (v, t) := by
  unfold decU64 encU64
  rw [bind_ok (readN_append' _ _ (length_bytesLE 8 _)), pure_run, natLE_bytesLE]
  have h : v.toNat % 256 ^ 8 = v.toNat := Nat.mod_eq_of_lt (by
    have : (256:Nat) ^ 8 = 2 ^ 64 := by decide
    have := v.toNat_lt
    omega)
  rw [h, UInt64.ofNat_toNat]

@[simp] theorem decBool_enc (b : Bool) (t : Bytes) : decBool (encBool b ++ t) = .ok (b, t) := by
  cases b <;> simp [decBool, encBool, bind_run, decU8, readN, pure_run]

@[simp] theorem decBytes_enc (b t : Bytes) (h : b.length < 2 ^ 32) :
    decBytes (encBytes b ++ t) = .ok (b, t) := by
  unfold decBytes encBytes
  rw [List.append_assoc, bind_ok (decU32_enc _ _ h), readN_append]

@[simp] theorem length_encU8 (v : UInt8) : (encU8 v).length = 1 := rfl
@[simp] theorem length_encU32 (n : Nat) : (encU32 n).length = 4 := by simp [encU32]
@[simp] theorem length_encU64 (v : UInt64) : (encU64 v).length = 8 := by simp [encU64]
@[simp] theorem length_encBool (b : Bool) : (encBool b).length = 1 := rfl
@[simp] theorem length_encBytes (b : Bytes) : (encBytes b).length = 4 + b.length := by
  simp [encBytes]

/-! ## Framed: the decoder is a well-behaved streaming parser -/

/-- `ok`: a successful run consumed a prefix `c`, never looked past it, and gives the same
value whatever follows.  `err`: an error that is not an end-of-input error was determined
by the bytes seen so far (more input cannot repair it). -/
class Framed {α : Type} (d : Decoder α) : Prop where
  ok : ∀ s a r, d s = .ok (a, r) → ∃ c, s = c ++ r ∧ ∀ t, d (c ++ t) = .ok (a, t)
  err : ∀ s e, d s = .error e → e.isEof = false → ∀ t, d (s ++ t) = .error e

instance framed_pure {α : Type} (a : α) : Framed (pure a : Decoder α) where
  ok := by
    intro s a' r h
    simp only [pure_run, Except.ok.injEq, Prod.mk.injEq] at h
    exact ⟨[], by simp [h.2], by intro t; simp [pure_run, h.1]⟩
  err := by intro s e h; simp [pure_run] at h

instance framed_fail {α : Type} (e : DecErr) : Framed (Decoder.fail e : Decoder α) where
  ok := by intro s a r h; simp at h
  err := by intro s e' h _ t; simp at h ⊢; exact h

instance framed_lift {α : Type} (x : Except DecErr α) : Framed (Decoder.lift x) where
  ok := by
    intro s a r h
    cases x with
    | error e => simp at h
    | ok v =>
      simp only [lift_ok_run, Except.ok.injEq, Prod.mk.injEq] at h
      exact ⟨[], by simp [h.2], by intro t; simp [h.1]⟩
  err := by
    intro s e h _ t
    cases x with
    | error e' => simpa using h
    | ok v => simp at h

instance framed_readN (n : Nat) : Framed (readN n) where
  ok := by
    intro s a r h
    obtain ⟨hs, hl⟩ := readN_ok h
    exact ⟨a, hs, fun t => readN_append' a t hl⟩
  err := by
    intro s e h he
    unfold readN at h
    split at h
    · simp at h
    · split at h <;> simp at h <;> subst h <;> simp [DecErr.isEof] at he

instance framed_copyN (n : Nat) : Framed (copyN n) where
  ok := by
    intro s a r h
    obtain ⟨hs, hl⟩ := copyN_ok h
    exact ⟨a, hs, fun t => copyN_append' a t hl⟩
  err := by
    intro s e h he
    unfold copyN at h
    split at h
    · simp at h
    · simp at h; subst h; simp [DecErr.isEof] at he

instance framed_bind {α β : Type} (d : Decoder α) (f : α → Decoder β)
    [Framed d] [∀ a, Framed (f a)] : Framed (d >>= f) where
  ok := by
    intro s b r h
    rw [bind_run] at h
    split at h
    · simp at h
    · rename_i r1 h1
      obtain ⟨c1, hs, hc1⟩ := Framed.ok s r1.1 r1.2 h1
      obtain ⟨c2, hs2, hc2⟩ := Framed.ok (d := f r1.1) r1.2 b r h
      refine ⟨c1 ++ c2, by rw [hs, hs2]; simp, ?_⟩
      intro t
      rw [bind_run, List.append_assoc, hc1]
      simp [hc2]
  err := by
    intro s e h he t
    rw [bind_run] at h ⊢
    split at h
    · rename_i e1 h1
      simp only [Except.error.injEq] at h
      subst h
      rw [Framed.err s e1 h1 he]
    · rename_i r1 h1
      obtain ⟨c1, hs, hc1⟩ := Framed.ok s r1.1 r1.2 h1
      rw [hs, List.append_assoc, hc1]
      exact Framed.err _ _ h he t

instance framed_ite {α : Type} (c : Prop) [Decidable c] (d1 d2 : Decoder α)
    [Framed d1] [Framed d2] : Framed (if c then d1 else d2) := by
  split <;> infer_instance

instance framed_decList {α : Type} (d : Decoder α) [Framed d] (n : Nat) :
    Framed (decList d n) := by
  induction n with
  | zero => unfold decList; infer_instance
  | succ n ih => unfold decList; infer_instance

instance : Framed decU8 := by unfold decU8; infer_instance
instance : Framed decU32 := by unfold decU32; infer_instance
instance : Framed decU64 := by unfold decU64; infer_instance
instance : Framed decBool := by unfold decBool; infer_instance
instance : Framed decBytes := by unfold decBytes; infer_instance
instance : Framed decEntry := by unfold decEntry; infer_instance
instance : Framed decNode := by unfold decNode; infer_instance
instance : Framed decConfigData := by unfold decConfigData; infer_instance
instance : Framed decConfig := by unfold decConfig; infer_instance
instance : Framed decReq := by unfold decReq; infer_instance
instance : Framed decIdentityReq := by unfold decIdentityReq; infer_instance
instance : Framed decVoteReq := by unfold decVoteReq; infer_instance
instance : Framed decAppendReq := by unfold decAppendReq; infer_instance
instance : Framed decInstallSnapReq := by unfold decInstallSnapReq; infer_instance
instance : Framed decTimeoutNowReq := by unfold decTimeoutNowReq; infer_instance
instance : Framed decResp := by unfold decResp; infer_instance
instance : Framed decAppendResp := by unfold decAppendResp; infer_instance
instance : Framed decSnapshotMeta := by unfold decSnapshotMeta; infer_instance
instance : Framed decReplication := by unfold decReplication; infer_instance
instance : Framed decInfo := by unfold decInfo; infer_instance
instance (typ : UInt8) : Framed (decTaskResp typ) := by unfold decTaskResp; infer_instance
instance (typ : UInt8) : Framed (decAdminBody typ) := by unfold decAdminBody; infer_instance
instance : Framed decAdminReq := by unfold decAdminReq; infer_instance
instance : Framed decMsg := by unfold decMsg; infer_instance

/-- The rest returned by a framed decoder is a suffix, and the result is tail-independent. -/
theorem Framed.tail_indep {α : Type} {d : Decoder α} [Framed d] {enc : Bytes} {v : α}
    (h : d enc = .ok (v, [])) (t : Bytes) : d (enc ++ t) = .ok (v, t) := by
  obtain ⟨c, hs, hc⟩ := Framed.ok enc v [] h
  simp only [List.append_nil] at hs
  subst hs
  exact hc t

/-- Generic truncation safety: if `enc` decodes completely (rest `[]`) under a framed
decoder, every proper prefix of `enc` decodes to an end-of-input error. -/
theorem truncated_of_roundtrip {α : Type} {d : Decoder α} [Framed d] {enc : Bytes} {v : α}
    (hrt : d enc = .ok (v, [])) {p : Bytes} (hp : p <+: enc) (hne : p ≠ enc) :
    ∃ e, d p = .error e ∧ e.isEof = true := by
  obtain ⟨q, hq⟩ := hp
  have hq0 : q ≠ [] := by
    intro h; subst h; simp at hq; exact hne hq
  cases h : d p with
  | error e =>
    refine ⟨e, rfl, ?_⟩
    cases he : e.isEof with
    | true => rfl
    | false =>
      have := Framed.err p e h he q
      rw [hq, hrt] at this
      cases this
  | ok r =>
    obtain ⟨a, r⟩ := r
    obtain ⟨c, hs, hc⟩ := Framed.ok p a r h
    have h2 := hc (r ++ q)
    rw [← List.append_assoc, ← hs, hq, hrt] at h2
    simp only [Except.ok.injEq, Prod.mk.injEq] at h2
    have : r ++ q = [] := h2.2.symm
    simp at this
    exact absurd this.2 hq0

/-- The form used by the `truncated_<T>` theorems. -/
theorem truncated_of_roundtrip' {α : Type} {d : Decoder α} [Framed d] {enc : Bytes} {v : α}
    (hrt : ∀ t, d (enc ++ t) = .ok (v, t)) {p : Bytes} (hp : p <+: enc) (hne : p ≠ enc) :
    ∃ e, d p = .error e ∧ e.isEof = true :=
  truncated_of_roundtrip (by simpa using hrt []) hp hne

/-! ## list decoders -/

theorem decList_enc {α : Type} (d : Decoder α) (enc : α → Bytes) (canon : α → α)
    (xs : List α) (t : Bytes)
    (h : ∀ x ∈ xs, ∀ t, d (enc x ++ t) = .ok (canon x, t)) :
    decList d xs.length (encList enc xs ++ t) = .ok (xs.map canon, t) := by
  induction xs with
  | nil => simp [decList, encList, pure_run]
  | cons x xs ih =>
    simp only [List.length_cons, decList, encList, List.append_assoc, List.map_cons]
    rw [bind_ok (h x (by simp) _), bind_ok (ih (fun y hy => h y (by simp [hy]))), pure_run]

theorem encList_append {α : Type} (enc : α → Bytes) (xs ys : List α) :
    encList enc (xs ++ ys) = encList enc xs ++ encList enc ys := by
  induction xs with
  | nil => simp [encList]
  | cons x xs ih => simp [encList, ih]

/-! ## canonical form of a map: key-sorted association list -/

def SortedBy {α : Type} (key : α → UInt64) (l : List α) : Prop :=
  l.Pairwise (fun a b => key a < key b)

theorem mem_insertKeyed {α : Type} (key : α → UInt64) (n x : α) (l : List α)
    (h : x ∈ insertKeyed key n l) : x = n ∨ x ∈ l := by
  induction l with
  | nil => simp [insertKeyed] at h; exact Or.inl h
  | cons m ms ih =>
    unfold insertKeyed at h
    split at h
    · simp at h; rcases h with h | h | h <;> simp [h]
    · split at h
      · simp at h; rcases h with h | h <;> simp [h]
      · simp at h; rcases h with h | h
        · simp [h]
        · rcases ih h with h | h <;> simp [h]

theorem sorted_insertKeyed {α : Type} (key : α → UInt64) (n : α) (l : List α)
    (h : SortedBy key l) : SortedBy key (insertKeyed key n l) := by
  induction l with
  | nil => simp [insertKeyed, SortedBy]
  | cons m ms ih =>
    unfold SortedBy at h ih ⊢
    rw [List.pairwise_cons] at h
    unfold insertKeyed
    split
    · rename_i hlt
      rw [List.pairwise_cons, List.pairwise_cons]
      refine ⟨?_, h⟩
      intro x hx
      simp at hx
      rcases hx with hx | hx
      · subst hx; exact hlt
      · have := h.1 x hx
        simp only [UInt64.lt_iff_toNat_lt] at *; omega
    · split
      · rename_i hnlt heq
        rw [List.pairwise_cons]
        refine ⟨?_, h.2⟩
        intro x hx
        rw [heq]; exact h.1 x hx
      · rename_i hnlt hne
        rw [List.pairwise_cons]
        refine ⟨?_, ih h.2⟩
        intro x hx
        rcases mem_insertKeyed key n x ms hx with hx | hx
        · subst hx
          simp only [UInt64.lt_iff_toNat_lt, ← UInt64.toNat_inj] at *; omega
        · exact h.1 x hx

theorem sorted_foldl_insertKeyed {α : Type} (key : α → UInt64) (xs acc : List α)
    (h : SortedBy key acc) :
    SortedBy key (xs.foldl (fun acc n => insertKeyed key n acc) acc) := by
  induction xs generalizing acc with
  | nil => exact h
  | cons x xs ih => exact ih _ (sorted_insertKeyed key x acc h)

/-- the canonical form is strictly id-sorted (so duplicate free). -/
theorem canonKeyed_sorted {α : Type} (key : α → UInt64) (xs : List α) :
    SortedBy key (canonKeyed key xs) :=
  sorted_foldl_insertKeyed key xs [] List.Pairwise.nil

theorem insertKeyed_last {α : Type} (key : α → UInt64) (n : α) (l : List α)
    (h : ∀ x ∈ l, key x < key n) : insertKeyed key n l = l ++ [n] := by
  induction l with
  | nil => rfl
  | cons m ms ih =>
    have hm := h m (by simp)
    have h1 : ¬ key n < key m := by simp only [UInt64.lt_iff_toNat_lt] at *; omega
    have h2 : ¬ key n = key m := by
      simp only [UInt64.lt_iff_toNat_lt, ← UInt64.toNat_inj] at *; omega
    simp [insertKeyed, h1, h2, ih (fun x hx => h x (by simp [hx]))]

theorem foldl_insertKeyed_sorted {α : Type} (key : α → UInt64) (xs acc : List α)
    (h : SortedBy key (acc ++ xs)) :
    xs.foldl (fun acc n => insertKeyed key n acc) acc = acc ++ xs := by
  induction xs generalizing acc with
  | nil => simp
  | cons x xs ih =>
    simp only [List.foldl_cons]
    have hx : ∀ y ∈ acc, key y < key x := by
      intro y hy
      unfold SortedBy at h
      rw [List.pairwise_append] at h
      exact h.2.2 y hy x (by simp)
    rw [insertKeyed_last key x acc hx, ih]
    · simp
    · simpa using h

/-- an id-sorted list is already canonical. -/
theorem canonKeyed_of_sorted {α : Type} (key : α → UInt64) (xs : List α)
    (h : SortedBy key xs) : canonKeyed key xs = xs := by
  have := foldl_insertKeyed_sorted key xs [] (by simpa using h)
  simpa [canonKeyed] using this

theorem canonKeyed_idem {α : Type} (key : α → UInt64) (xs : List α) :
    canonKeyed key (canonKeyed key xs) = canonKeyed key xs :=
  canonKeyed_of_sorted key _ (canonKeyed_sorted key xs)

theorem insertKeyed_comm {α : Type} (key : α → UInt64) (a b : α) (l : List α)
    (hab : key a ≠ key b) :
    insertKeyed key a (insertKeyed key b l) = insertKeyed key b (insertKeyed key a l) := by
  induction l with
  | nil =>
    simp only [insertKeyed]
    have : key a < key b ∨ key b < key a := by
      simp only [UInt64.lt_iff_toNat_lt, ne_eq, ← UInt64.toNat_inj] at *; omega
    rcases this with h | h
    · have h' : ¬ key b < key a := by simp only [UInt64.lt_iff_toNat_lt] at *; omega
      simp [h, h', hab.symm]
    · have h' : ¬ key a < key b := by simp only [UInt64.lt_iff_toNat_lt] at *; omega
      simp [h, h', hab]
  | cons m ms ih =>
    have key_tri : ∀ x y : UInt64, x < y ∨ x = y ∨ y < x := by
      intro x y
      simp only [UInt64.lt_iff_toNat_lt, ← UInt64.toNat_inj]; omega
    have lt_asymm : ∀ x y : UInt64, x < y → ¬ y < x := by
      intro x y; simp only [UInt64.lt_iff_toNat_lt]; omega
    have lt_ne : ∀ x y : UInt64, x < y → x ≠ y := by
      intro x y; simp only [UInt64.lt_iff_toNat_lt, ne_eq, ← UInt64.toNat_inj]; omega
    have lt_tr : ∀ x y z : UInt64, x < y → y < z → x < z := by
      intro x y z; simp only [UInt64.lt_iff_toNat_lt]; omega
    rcases key_tri (key a) (key m) with h1 | h1 | h1 <;>
    rcases key_tri (key b) (key m) with h2 | h2 | h2 <;>
    rcases key_tri (key a) (key b) with h3 | h3 | h3 <;>
    first
    | exact absurd h3 hab
    | grind [insertKeyed]


theorem distinct_mem {α : Type} (key : α → UInt64) (l : List α)
    (h : l.Pairwise (fun a b => key a ≠ key b)) :
    ∀ x ∈ l, ∀ y ∈ l, x = y ∨ key x ≠ key y := by
  induction l with
  | nil => intro x hx; simp at hx
  | cons m ms ih =>
    rw [List.pairwise_cons] at h
    intro x hx y hy
    simp only [List.mem_cons] at hx hy
    rcases hx with hx | hx <;> rcases hy with hy | hy
    · left; rw [hx, hy]
    · right; rw [hx]; exact h.1 y hy
    · right; rw [hy]; exact (h.1 x hx).symm
    · exact ih h.2 x hx y hy

/-- with pairwise distinct ids the insertion (= Go map iteration) order is irrelevant. -/
theorem canonKeyed_perm {α : Type} (key : α → UInt64) (l₁ l₂ : List α) (hp : l₁.Perm l₂)
    (hd : l₁.Pairwise (fun a b => key a ≠ key b)) : canonKeyed key l₁ = canonKeyed key l₂ := by
  unfold canonKeyed
  apply List.Perm.foldl_eq' hp
  intro x hx y hy z
  rcases distinct_mem key l₁ hd x hx y hy with h | h
  · rw [h]
  · exact insertKeyed_comm key y x z (Ne.symm h)

/-- any listing order of a map whose canonical (id-sorted) listing is `l` canonicalises to `l`. -/
theorem canonKeyed_perm_sorted {α : Type} (key : α → UInt64) (l order : List α)
    (hs : SortedBy key l) (hp : order.Perm l) : canonKeyed key order = l := by
  have hd : l.Pairwise (fun a b => key a ≠ key b) := by
    refine List.Pairwise.imp ?_ hs
    intro a b hab
    simp only [UInt64.lt_iff_toNat_lt, ne_eq, ← UInt64.toNat_inj] at *; omega
  rw [← canonKeyed_perm key l order hp.symm hd, canonKeyed_of_sorted key l hs]

/-! ## decimal digits and value-file names -/

theorem digitChar_cases (d : Nat) :
    digitChar d = '0' ∨ digitChar d = '1' ∨ digitChar d = '2' ∨ digitChar d = '3' ∨
    digitChar d = '4' ∨ digitChar d = '5' ∨ digitChar d = '6' ∨ digitChar d = '7' ∨
    digitChar d = '8' ∨ digitChar d = '9' := by
  unfold digitChar
  split <;> simp

theorem digitVal_digitChar (d : Nat) (h : d < 10) : digitVal (digitChar d) = some d := by
  have : d = 0 ∨ d = 1 ∨ d = 2 ∨ d = 3 ∨ d = 4 ∨ d = 5 ∨ d = 6 ∨ d = 7 ∨ d = 8 ∨ d = 9 := by
    omega
  rcases this with h | h | h | h | h | h | h | h | h | h <;> subst h <;> decide

theorem digitChar_ne_dash (d : Nat) : digitChar d ≠ '-' := by
  rcases digitChar_cases d with h | h | h | h | h | h | h | h | h | h <;> rw [h] <;> decide

theorem digitChar_ne_plus (d : Nat) : digitChar d ≠ '+' := by
  rcases digitChar_cases d with h | h | h | h | h | h | h | h | h | h <;> rw [h] <;> decide

/-- a list of decimal digit characters. -/
def IsDigits (cs : List Char) : Prop := ∀ c ∈ cs, ∃ d, c = digitChar d

theorem toDigits_isDigits (n : Nat) : IsDigits (toDigits n) := by
  induction n using toDigits.induct with
  | case1 n h => unfold toDigits; simp [h, IsDigits]; exact ⟨n, rfl⟩
  | case2 n h ih =>
    unfold toDigits; simp only [h, if_false]
    intro c hc
    simp at hc
    rcases hc with hc | hc
    · exact ih c hc
    · exact ⟨_, hc⟩

theorem toDigits_ne_nil (n : Nat) : toDigits n ≠ [] := by
  unfold toDigits; split <;> simp

theorem ofDigitsAux_append (cs ds : List Char) (acc : Nat) :
    ofDigitsAux (cs ++ ds) acc = (ofDigitsAux cs acc).bind (ofDigitsAux ds) := by
  induction cs generalizing acc with
  | nil => simp [ofDigitsAux]
  | cons c cs ih =>
    simp only [List.cons_append, ofDigitsAux]
    cases digitVal c with
    | none => simp
    | some d => simp [ih]

theorem ofDigitsAux_toDigits (n : Nat) : ofDigitsAux (toDigits n) 0 = some n := by
  induction n using toDigits.induct with
  | case1 n h => unfold toDigits; simp [h, ofDigitsAux, digitVal_digitChar n h]
  | case2 n h ih =>
    unfold toDigits; simp only [h, if_false]
    rw [ofDigitsAux_append, ih]
    simp [ofDigitsAux, digitVal_digitChar (n % 10) (Nat.mod_lt _ (by decide))]
    omega

/-- decimal round trip. -/
theorem ofDigits_toDigits (n : Nat) : ofDigits (toDigits n) = some n := by
  simp [ofDigits, toDigits_ne_nil, ofDigitsAux_toDigits]

theorem splitDash_digits (cs rest : List Char) (h : IsDigits cs) :
    splitDash (cs ++ '-' :: rest) = some (cs, rest) := by
  induction cs with
  | nil => simp [splitDash]
  | cons c cs ih =>
    have hc : c ≠ '-' := by
      obtain ⟨d, hd⟩ := h c (by simp)
      rw [hd]; exact digitChar_ne_dash d
    have := ih (fun x hx => h x (by simp [hx]))
    simp [splitDash, hc, this]

theorem parseInt64_toDigits (n : Nat) (h : n < 2 ^ 63) :
    parseInt64 (toDigits n) = .ok (UInt64.ofNat n) := by
  have hd := toDigits_isDigits n
  have ho := ofDigits_toDigits n
  cases hcs : toDigits n with
  | nil => exact absurd hcs (toDigits_ne_nil n)
  | cons c rest =>
    rw [hcs] at hd ho
    obtain ⟨d, hc⟩ := hd c (by simp)
    have h1 : c ≠ '-' := by rw [hc]; exact digitChar_ne_dash d
    have h2 : c ≠ '+' := by rw [hc]; exact digitChar_ne_plus d
    simp [parseInt64, h1, h2, ho, h]

theorem parseUint64_toDigits (n : Nat) (h : n < 2 ^ 64) :
    parseUint64 (toDigits n) = .ok (UInt64.ofNat n) := by
  simp [parseUint64, ofDigits_toDigits, h]

theorem parseValueWith_format (p : List Char → Except ValErr UInt64) (a b : UInt64)
    (ha : p (toDigits a.toNat) = .ok a) (hb : p (toDigits b.toNat) = .ok b) :
    parseValueWith p (formatValueChars a b) = .ok (a, b) := by
  unfold parseValueWith formatValueChars
  rw [splitDash_digits _ _ (toDigits_isDigits _)]
  simp [ha, hb]


/-! ## isEntryBuffered -/

theorem readN_eq (n : Nat) (s : Bytes) (h : n ≤ s.length) : readN n s = .ok (s.take n, s.drop n) := by
  simp [readN, h]
theorem readN_short (n : Nat) (s : Bytes) (h : ¬ n ≤ s.length) : ∃ e, readN n s = .error e := by
  unfold readN; simp [h]; split <;> simp

def isOk {α : Type} : Except DecErr α → Bool
  | .ok _ => true
  | .error _ => false

theorem isEntryBuffered_iff (buf : Bytes) : isEntryBuffered buf = isOk (decEntry buf) := by
  unfold decEntry decU64 decU8 decBytes decU32 isEntryBuffered
  by_cases h8 : 8 ≤ buf.length
  · rw [bind_run, bind_run, readN_eq 8 buf h8]
    simp only [pure_run]
    by_cases h16 : 8 ≤ (buf.drop 8).length
    · rw [bind_run, bind_run, readN_eq 8 _ h16]
      simp only [pure_run]
      by_cases h17 : 1 ≤ ((buf.drop 8).drop 8).length
      · rw [bind_run, bind_run, readN_eq 1 _ h17]
        simp only [pure_run]
        by_cases h21 : 4 ≤ (((buf.drop 8).drop 8).drop 1).length
        · rw [bind_run, bind_run, bind_run, readN_eq 4 _ h21]
          simp only [pure_run, List.drop_drop] at *
          simp only [List.length_drop] at *
          by_cases hd : natLE (List.take 4 (List.drop 17 buf)) ≤ (List.drop 21 buf).length
          · rw [readN_eq _ _ hd]
            simp only [List.length_drop] at hd
            simp [isOk]; omega
          · obtain ⟨e, he⟩ := readN_short _ _ hd
            rw [he]
            simp only [List.length_drop] at hd
            simp [isOk]; omega
        · obtain ⟨e, he⟩ := readN_short _ _ h21
          rw [bind_run, bind_run, bind_run, he]
          simp only [List.length_drop] at h21
          simp [isOk]; omega
      · obtain ⟨e, he⟩ := readN_short _ _ h17
        rw [bind_run, bind_run, he]
        simp only [List.length_drop] at h17
        simp [isOk]; omega
    · obtain ⟨e, he⟩ := readN_short _ _ h16
      rw [bind_run, bind_run, he]
      simp only [List.length_drop] at h16
      simp [isOk]; omega
  · obtain ⟨e, he⟩ := readN_short _ _ h8
    rw [bind_run, bind_run, he]
    simp [isOk]; omega

end RaftVerif.Codec
