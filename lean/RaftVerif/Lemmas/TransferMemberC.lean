/-
C16 with membership changes, node level, part C — the node-level statements of Props/C16Sys.lean
(`transfer_ok_means_left`, `designated_by_tryTransfer`) for EVERY operation of the model with membership changes
(`LogRel.OpOK` + `CfgRel.OpOk` instead of `CommitRel.OpOK2`): the same proofs on top of `TransferMember.handle_endM`.
-/
import RaftVerif.Lemmas.TransferMemberB
import RaftVerif.Props.C16Sys

namespace Raft
namespace TransferMember
open Node LogRel CommitRel Commit C02Sys NoPanic SysInv SysMore C16Sys

/-- **C16, node level, with membership changes: success means that the leader stepped down, in a higher term.** As
`C16Sys.transfer_ok_means_left`, for every operation of the model with membership changes: for EVERY state `s` of a
leader with a transfer in progress for the task `tk ≠ 0` (memory = disk: `C05.VoteWF`), every operation, oracle and
input such that after the step no task is answered twice and no answered task is still pending: if the step answers the
transfer task with `ok`, then the handler ended in a role other than leader (`leader.release` gives the answer) and the
node's term after the step is above the term in which the transfer was started. -/
theorem transfer_ok_means_leftM (s : Node) (op : Op) (ra : List Nat) (ord : List (List Nat)) (hok : OpOK op)
    (hcf : CfgRel.OpOk op)
    (hl : s.role = .leader) (hact : s.ldr.transfer.active = true) (h0 : s.ldr.transfer.task ≠ 0)
    (hwf : C05.VoteWF s)
    (hnd : (C15Tasks.answered (s.step op ra ord)).Nodup)
    (hdis : ∀ t ∈ C15Tasks.answered (s.step op ra ord), t ∉ C15Tasks.pending (s.step op ra ord))
    (hrep : ({ task := s.ldr.transfer.task, result := "ok" } : Reply) ∈ (s.step op ra ord).replies) :
    ((s.begin ra ord).handle op).role ≠ .leader ∧ s.ldr.transfer.term < (s.step op ra ord).term := by
  have hne : op ≠ .shutdown := by intro e; rw [e] at hok; exact hok
  have hst := TL.step_eq_settle s op ra ord hne
  rw [hl] at hst
  have hlb : (s.begin ra ord).role = .leader := hl
  have hE := handle_endM (s.begin ra ord) op hok hcf hlb
  have hwfb : C05.VoteWF (s.begin ra ord) := hwf
  have hwfh : C05.VoteWF ((s.begin ra ord).handle op) :=
    ((C05.closed (s.begin ra ord)).handle_inv _ op (C05.inv_refl _ hwfb)).2.1
  -- the transfer task is among the answered ones, once
  have hans : s.ldr.transfer.task ∈ C15Tasks.answered (s.step op ra ord) :=
    List.mem_filter.mpr ⟨List.mem_map.mpr ⟨_, hrep, rfl⟩, by simpa using h0⟩
  have uniq : ∀ r : String, RepMem { task := s.ldr.transfer.task, result := r } (s.step op ra ord) → r = "ok" := by
    intro r hr
    have := reply_unique _ hnd _ hr _ hrep rfl h0
    exact congrArg Reply.result this
  have notPending : ∀ z : Node, s.step op ra ord = z → z.ldr.transfer.task = s.ldr.transfer.task → False := by
    intro z ez et
    have := pending_transfer z (by rw [et]; exact h0)
    rw [et, ← ez] at this
    exact hdis _ hans this
  by_cases hr : ((s.begin ra ord).handle op).role = .leader
  · -- the handler stays leader: the step is the handler, and the transfer was not answered `ok`
    exfalso
    have hp : s.step op ra ord = (s.begin ra ord).handle op := by
      rw [hst, ← hr]; exact settle_same 6 _
    cases hE with
    | keep ts => exact notPending _ hp ts.task
    | tryT c _ r2 e =>
      refine notPending _ hp ?_
      rw [e, (tryTransfer_transfer c).1]; exact (r2 hact).task
    | answered c r hr' htk _ e =>
      have hm : RepMem { task := s.ldr.transfer.task, result := r } ((s.begin ra ord).handle op) := by
        rw [e]
        unfold Node.replyTransfer
        have h1 := transferReply_mem c r (by rw [htk]; exact h0)
        rw [htk] at h1
        exact (repMem_step _).checkConfigActions_inv _ _ _ _ h1
      rw [← hp] at hm
      exact hr' (uniq r hm)
  · refine ⟨hr, ?_⟩
    -- the handler left the leader role: `leader.release` answers the transfer with `releaseResult`
    have hmono : ∀ x : Reply, RepMem x ((s.begin ra ord).handle op) → RepMem x (s.step op ra ord) := by
      intro x hx; rw [hst]; exact (repMem_step x).settle_inv 6 _ _ hx
    have hterm : ((s.begin ra ord).handle op).term ≤ (s.step op ra ord).term := by
      rw [hst]
      exact ((C05.closed _).settle_inv 6 _ .leader (C05.inv_refl _ hwfh)).1.1
    have main : ((s.begin ra ord).handle op).ldr.transfer.task = s.ldr.transfer.task →
        ((s.begin ra ord).handle op).ldr.transfer.term = s.ldr.transfer.term →
        ((s.begin ra ord).handle op).ldr.transfer.active = true →
        s.ldr.transfer.term < (s.step op ra ord).term := by
      intro e1 e2 e3
      have hrel : RepMem { task := s.ldr.transfer.task, result := ((s.begin ra ord).handle op).releaseResult }
          (s.step op ra ord) := by
        rw [hst]
        unfold settle
        rw [if_neg hr]
        dsimp only
        apply (repMem_step _).settle_inv
        apply (repMem_step _).initRole_inv
        unfold Node.releaseRole
        dsimp only
        rw [C16.leaderRelease_uses_releaseResult _ e3]
        apply repMem_leaderReleaseRest
        have h1 := transferReply_mem ((s.begin ra ord).handle op) ((s.begin ra ord).handle op).releaseResult
          (by rw [e1]; exact h0)
        rw [e1] at h1
        exact h1
      have hgt := (C16.transfer_success_means_higher_term _).mp (uniq _ hrel)
      rw [e2] at hgt
      omega
    cases hE with
    | keep ts => exact main ts.task ts.term (by rw [ts.active]; exact hact)
    | tryT c _ r2 e =>
      have ts := r2 hact
      obtain ⟨t1, t2, t3, _⟩ := tryTransfer_transfer c
      exact main (by rw [e, t1]; exact ts.task) (by rw [e, t2]; exact ts.term)
        (by rw [e, t3, ts.active]; exact hact)
    | answered c r hr' htk _ e =>
      exfalso
      have hm : RepMem { task := s.ldr.transfer.task, result := r } ((s.begin ra ord).handle op) := by
        rw [e]
        unfold Node.replyTransfer
        have h1 := transferReply_mem c r (by rw [htk]; exact h0)
        rw [htk] at h1
        exact (repMem_step _).checkConfigActions_inv _ _ _ _ h1
      exact hr' (uniq r (hmono _ hm))

/-- **node level, with membership changes: a step of a leader that raises `respPending` ended with the call
`tryTransfer` that designated a target** — for every state, every operation of the model, every oracle. -/
theorem designated_by_tryTransferM (s : Node) (op : Op) (ra : List Nat) (ord : List (List Nat)) (hok : OpOK op)
    (hcf : CfgRel.OpOk op)
    (hl : s.role = .leader) (h0 : s.ldr.transfer.respPending = false)
    (h1 : (s.step op ra ord).ldr.transfer.respPending = true) :
    ∃ c : Node, s.step op ra ord = c.tryTransfer ∧ c.tryTransferTarget.1 ≠ 0 := by
  have hne : op ≠ .shutdown := by intro e; rw [e] at hok; exact hok
  have hst := TL.step_eq_settle s op ra ord hne
  rw [hl] at hst
  have hlb : (s.begin ra ord).role = .leader := hl
  have hE := handle_endM (s.begin ra ord) op hok hcf hlb
  have h0b : ¬ (s.begin ra ord).ldr.transfer.respPending = true := by
    show ¬ s.ldr.transfer.respPending = true
    rw [h0]; exact fun e => by cases e
  by_cases hr : ((s.begin ra ord).handle op).role = .leader
  · have hp : s.step op ra ord = (s.begin ra ord).handle op := by
      rw [hst, ← hr]; exact settle_same 6 _
    rw [hp] at h1 ⊢
    cases hE with
    | keep ts => exact absurd (ts.resp h1) h0b
    | tryT c r1 _ e =>
      by_cases ht : c.tryTransferTarget.1 = 0
      · rw [e, (tryTransfer_transfer c).2.2.2 ht] at h1
        exact absurd (r1 h1) h0b
      · exact ⟨c, e, ht⟩
    | answered c r _ _ _ e =>
      rw [e, replyTransfer_transfer] at h1
      cases h1
  · have := settle_left_noResp 5 _ hr
    rw [← hst] at this
    unfold NoResp at this
    rw [this] at h1
    cases h1

end TransferMember
end Raft
